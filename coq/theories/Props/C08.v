(* C08 - Reported outcomes and exit codes are truthful; build() always returns.
   (Engine.build is a total function: for every project, fault assignment and oracle it
   returns a result value; the theorems say what that value is.) *)
From Verif Require Import Base.Prelude Base.Graph Model.Sorter Model.Expr Model.Engine Model.EngineRun.
From Verif Require Import Proofs.GraphProofs Proofs.SorterProofs Proofs.EngineTask Proofs.EngineLoop
     Proofs.EngineBuild Proofs.EngineDag Proofs.EngineRefute.

Section Engine.
  Variable is_word : N -> bool.
  Variable lower : list N -> list N.
  Variable body : N -> N -> list N -> N -> N.
  Variable c : config.
  Variable ts : list task.
  Variable faults : N -> fault.
  Variable pref : list N.          (* tie-breaking oracle: any *)
  Variable w : world.
  Variable E : list edge.
  Variable desel : list N.
  Variable s0 : sorter.
  Hypothesis accepted : create_dag is_word lower c ts = DagOk E desel.
  Hypothesis scheduled : from_dag (task_ids ts) E (prio_list ts) = Some s0.
  Hypothesis ids : NoDup (task_ids ts).
  Let r := build is_word lower body c ts faults pref w.
  Notation ARGS := (is_word) (only parsing).

  Theorem C08_one_report_each :
    NoDup (map fst (x_reports r)) /\ incl (map fst (x_reports r)) (task_ids ts).
  Proof. exact (one_report_each is_word lower body c ts faults pref w E desel s0 accepted scheduled ids). Qed.

  Theorem C08_all_reported_unless_stopped :
    (forall x, In x (task_ids ts) -> In x (map fst (x_reports r))) \/
    (exists m i pre, max_fail c = Some m /\ x_reports r = pre ++ [(i, OFail)] /\
                     (m <= count_fail (x_reports r))%nat).
  Proof. exact (all_reported_unless_stopped is_word lower body c ts faults pref w E desel s0 accepted scheduled ids). Qed.

  Theorem C08_events_only_from_run_outcomes : forall e,
    In e (x_log r) -> exists o, In (task_of_event e, o) (x_reports r) /\ ran o = true.
  Proof. exact (events_only_from_run_outcomes is_word lower body c ts faults pref w E desel s0 accepted scheduled ids). Qed.

  Theorem C08_nonrun_outcomes_did_not_run : forall t o,
    In (t, o) (x_reports r) -> ran o = false ->
    ~ In (Start t) (x_log r) /\ ~ In (Finish t) (x_log r).
  Proof. exact (nonrun_outcomes_did_not_run is_word lower body c ts faults pref w E desel s0 accepted scheduled ids). Qed.

  Theorem C08_ran_at_most_once : NoDup (x_log r).
  Proof. exact (log_nodup is_word lower body c ts faults pref w E desel s0 accepted scheduled ids). Qed.

  Theorem C08_success_products_exist : forall t,
    In t ts -> In (tid t, OSuccess) (x_reports r) ->
    forall p, In p (prods t) -> lookup p (fs (x_world r)) <> None.
  Proof. exact (success_products_exist is_word lower body c ts faults pref w E desel s0 accepted scheduled ids). Qed.

  Theorem C08_exit_code_exact :
    (x_exit r = XOk <-> forall t o, In (t, o) (x_reports r) -> o <> OFail) /\
    (x_exit r = XOk \/ x_exit r = XFailed).
  Proof. exact (exit_code_exact is_word lower body c ts faults pref w E desel s0 accepted scheduled). Qed.
End Engine.

(* per task: success means ran, all products exist, states recorded; FAIL exactly when ... *)
Theorem C08_success_spec : forall body c E dyn desel w t f,
  let r := run_task body c E dyn desel w t f in
  r_out r = OSuccess ->
  r_events r = [Start (tid t); Finish (tid t)] /\
  prods_exist (r_world r) t = true /\ deps_exist w t = true /\
  exists w1, run_body body w t f = (w1, false) /\ r_world r = record_states E w1 t.
Proof. exact success_spec. Qed.

Theorem C08_fail_iff : forall body c E dyn desel w t f,
  r_out (run_task body c E dyn desel w t f) = OFail <->
  reaches_check c E dyn desel w t = true /\
  ((exists b, verdict c E w t = inl b) \/
   (verdict c E w t = inr true /\ dry_run c = false /\
    (snd (run_body body w t f) = true \/ prods_exist (fst (run_body body w t f)) t = false))).
Proof. exact fail_iff. Qed.

(* the graph phase has its own exit code, and then nothing ran and nothing changed *)
Theorem C08_dag_exit_code : forall is_word lower body c ts faults pref w,
  x_exit (build is_word lower body c ts faults pref w) = XDag <-> create_dag is_word lower c ts = DagErr.
Proof. exact exit_dag_iff. Qed.

(* after the repair of F3 every cyclic graph - also one closed through 'after' - is a graph
   error: the scheduler's own cycle check can no longer fire after create_dag accepted *)
Theorem C08_accepted_graph_acyclic : forall is_word lower c ts E desel,
  create_dag is_word lower c ts = DagOk E desel -> forall v, ~ Reach E v v.
Proof. exact accepted_graph_acyclic. Qed.

Theorem C08_scheduler_never_refuses : forall is_word lower c ts E desel,
  create_dag is_word lower c ts = DagOk E desel ->
  exists s0, from_dag (task_ids ts) E (prio_list ts) = Some s0.
Proof.
  intros is_word lower c ts E desel D.
  destruct (from_dag (task_ids ts) E (prio_list ts)) as [s0|] eqn:F; eauto.
  exfalso. apply from_dag_none_iff in F. destruct F as [v R].
  exact (accepted_graph_acyclic is_word lower c ts E desel D v R).
Qed.

(* regression witness of F3 *)
Theorem C08_after_cycle_exit_code :
  wbuild cfg0 f3_tasks (fun _ => NoFault) [] (mkWorld [] []) = mkRes XDag (mkWorld [] []) [] [].
Proof. exact f3_after_cycle_exit. Qed.

(* F32 (repaired): a dependency that does not exist makes the task fail before its function is started,
   also when another node changed first or --force is given (it used to be executed; recording its states
   then raised an IntegrityError inside the report hook and the task was left without a report) *)
Theorem C08_missing_dependency_fails : forall body c E dyn desel w t f,
  reaches_check c E dyn desel w t = true -> preds_exist E w t = false ->
  run_task body c E dyn desel w t f = mkTres OFail w [].
Proof. exact missing_dependency_fails. Qed.

Print Assumptions C08_missing_dependency_fails.
Print Assumptions C08_one_report_each.
Print Assumptions C08_all_reported_unless_stopped.
Print Assumptions C08_events_only_from_run_outcomes.
Print Assumptions C08_nonrun_outcomes_did_not_run.
Print Assumptions C08_ran_at_most_once.
Print Assumptions C08_success_products_exist.
Print Assumptions C08_exit_code_exact.
Print Assumptions C08_success_spec.
Print Assumptions C08_fail_iff.
Print Assumptions C08_dag_exit_code.
Print Assumptions C08_accepted_graph_acyclic.
Print Assumptions C08_scheduler_never_refuses.
Print Assumptions C08_after_cycle_exit_code.
