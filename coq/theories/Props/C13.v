(* C13 - Every declared task is collected exactly once under a unique id. *)
From Verif Require Import Base.Prelude Model.Clean Model.Collect Proofs.CollectProofs.

(* every non-ignored file below the path arguments is visited exactly once, whatever the
   overlap or repetition among the arguments *)
Theorem C13_paths_once : forall ign args, NoDup (collect_paths ign args).
Proof. exact collect_paths_nodup. Qed.

Theorem C13_paths_complete : forall ign args p t f,
  In (p, t) args -> In f (files ign p t) -> In f (collect_paths ign args).
Proof. exact collect_paths_complete. Qed.

Theorem C13_paths_sound : forall ign args f,
  In f (collect_paths ign args) -> exists p t, In (p, t) args /\ In f (files ign p t).
Proof. exact collect_paths_sound. Qed.

(* the ids generated for repeated tasks (loops) are pairwise distinct, one per function of
   the group, in order - or the module fails to collect *)
Theorem C13_generated_ids_unique_or_error : forall dec_nat group l,
  gen_ids dec_nat group = Some l -> NoDup (map fst l) /\ map snd l = map fst group.
Proof. exact gen_ids_spec. Qed.

(* the decorated tasks of a module always end up under pairwise distinct names ... *)
Theorem C13_decorated_names_distinct : forall dec_nat ds order acc m,
  NoDup (map fst acc) -> parse_names dec_nat ds order acc = Some m -> NoDup (map fst m).
Proof. exact parse_names_keys_nodup. Qed.

(* the ids of ALL tasks of a module - found by prefix or declared with @task, explicit names and
   generated ids alike - are pairwise distinct, for every iteration order of the name set, or the
   collection of the module fails (F7, F8: repaired) *)
Theorem C13_module_ids_distinct_or_error : forall dec_nat prefixed ds order l,
  module_tasks dec_nat prefixed ds order = Some l -> NoDup l.
Proof. exact module_tasks_nodup. Qed.

(* and no function is lost: one task per prefixed function and per function of every name group *)
Theorem C13_module_nothing_lost : forall dec_nat prefixed ds order l,
  module_tasks dec_nat prefixed ds order = Some l ->
  length l = (length prefixed + group_sizes ds order)%nat.
Proof. exact module_tasks_length. Qed.

(* what happened before the repairs (regression witnesses): a function dropped depending on
   the order of a set; two tasks under one id *)
Theorem C13_name_collision_regression :
  let ds := [mkD s_foo (Some s_foo0) None [] []; mkD s_foo None None [] []; mkD s_foo None None [] []] in
  parse_names_old dec_nat1 ds [s_foo0; s_foo] [] = Some [(s_foo0, 1%nat); ([102; 111; 111; 91; 49; 93]%N, 2%nat)] /\
  parse_names_old dec_nat1 ds [s_foo; s_foo0] [] = Some [(s_foo0, 0%nat); ([102; 111; 111; 91; 49; 93]%N, 2%nat)] /\
  parse_names dec_nat1 ds [s_foo0; s_foo] [] = None /\ parse_names dec_nat1 ds [s_foo; s_foo0] [] = None.
Proof. exact name_collision_regression. Qed.

Theorem C13_prefixed_vs_decorated_regression :
  let tx := [116; 97; 115; 107; 95; 120]%N in
  module_tasks_old dec_nat1 [tx] [mkD [102]%N (Some tx) None [] []] [tx] = Some [tx; tx] /\
  module_tasks dec_nat1 [tx] [mkD [102]%N (Some tx) None [] []] [tx] = None.
Proof. exact prefixed_vs_decorated_regression. Qed.

Print Assumptions C13_paths_once.
Print Assumptions C13_paths_complete.
Print Assumptions C13_paths_sound.
Print Assumptions C13_generated_ids_unique_or_error.
Print Assumptions C13_decorated_names_distinct.
Print Assumptions C13_module_ids_distinct_or_error.
Print Assumptions C13_module_nothing_lost.
Print Assumptions C13_name_collision_regression.
Print Assumptions C13_prefixed_vs_decorated_regression.

(* every task file is imported as its own module, also when two paths derive the same module
   name (a.b/ vs a_b/, one package name below two roots): F9, repaired *)
Theorem C13_module_is_own_file : forall is_pkg ps m p f,
  In (p, f) (import_all is_pkg m ps) -> f = p.
Proof. exact import_all_own_file. Qed.

Theorem C13_one_module_per_path : forall is_pkg ps m, map fst (import_all is_pkg m ps) = ps.
Proof. exact import_all_paths. Qed.

Theorem C13_equal_module_names_regression :
  let p1 := [c_a_dot_b; c_task_m] in let p2 := [c_a_us_b; c_task_m] in
  modname (fun _ => false) p1 = modname (fun _ => false) p2 /\
  (let '(f1, m1) := import_one_old (fun _ => false) [] p1 in
   fst (import_one_old (fun _ => false) m1 p2)) = p1 /\
  map snd (import_all (fun _ => false) [] [p1; p2]) = [p1; p2].
Proof. exact equal_module_names_regression. Qed.
