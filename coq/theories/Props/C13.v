(* C13 - Every declared task is collected exactly once under a unique id. *)
From Verif Require Import Base.Prelude Model.Clean Model.Collect Proofs.CollectProofs.

(* every non-ignored file below the path arguments is visited exactly once, whatever the
   overlap or repetition among the arguments *)
Theorem C13_paths_once : forall ign args, NoDup (collect_paths ign args).
Proof. exact collect_paths_nodup. Qed.

Theorem C13_paths_complete : forall ign args p t f,
  In (p, t) args -> In f (files ign p t) -> In f (collect_paths ign args).
Proof. exact collect_paths_complete. Qed.

Theorem C13_paths_sound : forall ign args f,
  In f (collect_paths ign args) -> exists p t, In (p, t) args /\ In f (files ign p t).
Proof. exact collect_paths_sound. Qed.

(* the ids generated for repeated tasks (loops) are pairwise distinct, one per function of
   the group, in order - or the module fails to collect *)
Theorem C13_generated_ids_unique_or_error : forall dec_nat group l,
  gen_ids dec_nat group = Some l -> NoDup (map fst l) /\ map snd l = map fst group.
Proof. exact gen_ids_spec. Qed.

(* the decorated tasks of a module always end up under pairwise distinct names ... *)
Theorem C13_decorated_names_distinct : forall dec_nat ds order acc m,
  NoDup (map fst acc) -> parse_names dec_nat ds order acc = Some m -> NoDup (map fst m).
Proof. exact parse_names_keys_nodup. Qed.

(* ... but the statement "one task per function, all ids distinct, or an error" is false of
   the unchanged code in two ways (known findings F7, F8) *)
Theorem C13_name_collision_refuted :
  let ds := [mkD s_foo (Some s_foo0) None [] []; mkD s_foo None None [] []; mkD s_foo None None [] []] in
  parse_names dec_nat1 ds [s_foo0; s_foo] [] = Some [(s_foo0, 1%nat); ([102; 111; 111; 91; 49; 93]%N, 2%nat)] /\
  parse_names dec_nat1 ds [s_foo; s_foo0] [] = Some [(s_foo0, 0%nat); ([102; 111; 111; 91; 49; 93]%N, 2%nat)].
Proof. exact name_collision_refuted. Qed.

Theorem C13_prefixed_vs_decorated_refuted :
  let tx := [116; 97; 115; 107; 95; 120]%N in
  module_tasks dec_nat1 [tx] [mkD [102]%N (Some tx) None [] []] [tx] = Some [tx; tx].
Proof. exact prefixed_vs_decorated_refuted. Qed.

Print Assumptions C13_paths_once.
Print Assumptions C13_paths_complete.
Print Assumptions C13_paths_sound.
Print Assumptions C13_generated_ids_unique_or_error.
Print Assumptions C13_decorated_names_distinct.
Print Assumptions C13_name_collision_refuted.
Print Assumptions C13_prefixed_vs_decorated_refuted.

(* every task file is imported as its own module, also when two paths derive the same module
   name (a.b/ vs a_b/, one package name below two roots): F9, repaired *)
Theorem C13_module_is_own_file : forall is_pkg ps m p f,
  In (p, f) (import_all is_pkg m ps) -> f = p.
Proof. exact import_all_own_file. Qed.

Theorem C13_one_module_per_path : forall is_pkg ps m, map fst (import_all is_pkg m ps) = ps.
Proof. exact import_all_paths. Qed.

Theorem C13_equal_module_names_regression :
  let p1 := [c_a_dot_b; c_task_m] in let p2 := [c_a_us_b; c_task_m] in
  modname (fun _ => false) p1 = modname (fun _ => false) p2 /\
  (let '(f1, m1) := import_one_old (fun _ => false) [] p1 in
   fst (import_one_old (fun _ => false) m1 p2)) = p1 /\
  map snd (import_all (fun _ => false) [] [p1; p2]) = [p1; p2].
Proof. exact equal_module_names_regression. Qed.
