(* C19 - try_first / try_last priorities are honoured among ready tasks. *)
From Coq Require Import Sorting.Permutation.
From Verif Require Import Base.Prelude Model.Sorter Proofs.SorterProofs Proofs.SorterTies Proofs.SorterTrace Proofs.FactsSorter Gen.SorterFacts.
Local Open Scope Z_scope.

(* The scheduler's algorithm (sort the ready set, in any set-iteration order, by
   priority and take the last n) returns a valid batch: the n best ready tasks. *)
Theorem C19_get_ready_valid : forall s n order,
  NoDup order -> Permutation order (ready s) -> (1 <= n)%nat ->
  valid_batch s n (get_ready s n order).
Proof. exact get_ready_valid. Qed.

(* In every state (arbitrary graph, processing/done sets), for every valid batch:
   nothing left behind outranks anything handed out. *)
Theorem C19_batch_is_top_n : forall s n b x y,
  valid_batch s n b -> In x (ready s) -> ~ In x b -> In y b -> pr s x <= pr s y.
Proof. exact batch_is_top_n. Qed.

Theorem C19_try_first_before_unmarked : forall s n b x y,
  valid_batch s n b -> In x (ready s) -> In y b -> pr s y < pr s x -> In x b.
Proof. exact try_first_before_unmarked. Qed.

Theorem C19_try_last_only_when_alone : forall s n b y,
  valid_batch s n b -> In y b -> forall x, In x (ready s) -> pr s y < pr s x -> In x b.
Proof. exact try_last_only_when_alone. Qed.

Theorem C19_sequential_pick_is_maximal : forall s t,
  valid_batch s 1 [t] -> forall x, In x (ready s) -> pr s x <= pr s t.
Proof. exact single_is_maximal. Qed.

(* priorities never override dependencies *)
Theorem C19_priorities_never_override_dependencies : forall s n b t u,
  valid_batch s n b -> In t b -> In (u, t) (gedges s) -> ~ In u (gnodes s).
Proof. exact handed_after_predecessors. Qed.

(* the executable validity test used on implementation traces decides valid_batch *)
Theorem C19_trace_validator_sound : forall s n b,
  valid_batchb s n b = true <-> valid_batch s n b.
Proof. exact valid_batchb_spec. Qed.

(* non-vacuity: a state with a ready try_first, unmarked and try_last task *)
Example C19_nonvacuous :
  let s := mkSorter [1;2;3;4]%N [(1,4)]%N [(2%N,1);(3%N,-1)] [] [] in
  ready s = [1;2;3]%N /\ get_ready s 1 [3;1;2]%N = [2]%N /\ get_ready s 2 [3;1;2]%N = [1;2]%N
  /\ valid_batchb s 2 [1;2]%N = true /\ valid_batchb s 2 [3;2]%N = false.
Proof. vm_compute. repeat split. Qed.

(* whatever the iteration order of the ready set (hash seed): two valid batches of one state differ
   only in ties - a task picked by one and not by the other has the priority of its counterpart *)
Theorem C19_batches_differ_only_in_ties : forall s n b1 b2 x y,
  valid_batch s n b1 -> valid_batch s n b2 ->
  In x b1 -> ~ In x b2 -> In y b2 -> ~ In y b1 -> pr s x = pr s y.
Proof. exact batches_differ_only_in_ties. Qed.

(* with pairwise distinct priorities among the ready tasks the pick is the same for every order *)
Theorem C19_get_ready_order_independent : forall s n o1 o2,
  (forall x y, In x (ready s) -> In y (ready s) -> pr s x = pr s y -> x = y) ->
  NoDup o1 -> Permutation o1 (ready s) -> NoDup o2 -> Permutation o2 (ready s) -> (1 <= n)%nat ->
  forall x, In x (get_ready s n o1) <-> In x (get_ready s n o2).
Proof. exact get_ready_order_independent. Qed.

Example C19_ties_example :
  let s := mkSorter [1;2;3;4]%N [] [(1%N,1);(4%N,-1)] [] [] in
  get_ready s 2 [1;2;3;4]%N = [3;1]%N /\ get_ready s 2 [4;3;2;1]%N = [2;1]%N /\ pr s 2%N = pr s 3%N.
Proof. exact ties_example. Qed.

(* the numbers behind the markers, the default and the direction of the sort are those of
   dag_utils.py (extracted on every run): try_last < unmarked = default < try_first, ascending
   sort, last n taken - so "higher pr" in the theorems above means "try_first before unmarked
   before try_last" in the code *)
Theorem C19_marker_order_extracted :
  x_prio_try_last < x_prio_unmarked /\ x_prio_unmarked = x_prio_default /\ x_prio_unmarked < x_prio_try_first /\
  x_sort_reverse = false /\ x_take_last = true /\ (forall v, prio_of [] v = x_prio_default).
Proof.
  pose proof sorter_marker_order_ok as (A & B & C). pose proof sorter_direction_ok as (D & E).
  repeat split; auto using sorter_default_ok.
Qed.

(* the validator the correspondence check runs over implementation traces (get_ready / done /
   re-created graph, any length): accepted = every batch valid in the state reached; rejected =
   rejected at the first batch that is not *)
Theorem C19_trace_check_sound : forall ops s i,
  check_trace s ops i = None ->
  forall pre n b post, ops = pre ++ OGet n b :: post ->
  (1 <= n)%nat /\ valid_batch (fold_left apply_op pre s) n b.
Proof. exact check_trace_sound. Qed.

Theorem C19_trace_check_first_offender : forall ops s i j,
  check_trace s ops i = Some j ->
  exists pre n b post, ops = pre ++ OGet n b :: post /\ j = (i + length pre)%nat /\
    check_trace s pre i = None /\
    ~ ((1 <= n)%nat /\ valid_batch (fold_left apply_op pre s) n b).
Proof. exact check_trace_first_offender. Qed.

Print Assumptions C19_trace_check_sound.
Print Assumptions C19_trace_check_first_offender.
Print Assumptions C19_marker_order_extracted.
Print Assumptions C19_batches_differ_only_in_ties.
Print Assumptions C19_get_ready_order_independent.
Print Assumptions C19_get_ready_valid.
Print Assumptions C19_batch_is_top_n.
Print Assumptions C19_try_first_before_unmarked.
Print Assumptions C19_try_last_only_when_alone.
Print Assumptions C19_sequential_pick_is_maximal.
Print Assumptions C19_priorities_never_override_dependencies.
Print Assumptions C19_trace_validator_sound.
