(* C11 - 'pytask clean' only ever removes files pytask does not know.
   [known] and [excl] are arbitrary predicates on paths here; how pytask fills them
   (task and node paths with all parents, config file, root, git files; exclude patterns
   matched with pathlib semantics) is modelled in Model/Clean.v and compared with the
   real command line by the correspondence check. *)
From Verif Require Import Base.Prelude Model.Clean Proofs.CleanProofs Proofs.CleanMulti.

(* what is listed: an unknown subtree of a given path, reached without entering an excluded
   directory; whole directories only with --directories *)
Theorem C11_listed_spec : forall known excl dirs t p p' t',
  In (p', t') (listing_sub known excl dirs p t) ->
  unknown known excl p' t' = true /\ SubOpen excl p t p' t' /\ (is_dir t' = true -> dirs = true).
Proof. exact listed_spec. Qed.

(* hence nothing at or below a listed path matches an exclude pattern, and no file there is
   known (task module, dependency, product, config file, git-tracked file ...) *)
Theorem C11_listed_safe : forall known excl dirs p t p' t',
  In (p', t') (listing_sub known excl dirs p t) ->
  forall r d, In (r, d) (all_paths p' t') -> excl r = false /\ (d = false -> known r = false).
Proof. exact listed_safe. Qed.

(* nothing outside the given paths *)
Theorem C11_listed_inside : forall known excl dirs p t p' t',
  In (p', t') (listing_sub known excl dirs p t) -> Sub p t p' t'.
Proof. exact listed_inside. Qed.

(* the printed lines are exactly these subtrees *)
Theorem C11_listing_is_sub : forall known excl dirs t p,
  listing known excl dirs p t =
  map (fun pt => (fst pt ++ [tname (snd pt)], is_dir (snd pt))) (listing_sub known excl dirs p t).
Proof. exact listing_is_sub. Qed.

Theorem C11_dry_run_removes_nothing : forall known excl dirs p t,
  snd (clean known excl DryRun dirs p t) = Some t.
Proof. exact dry_run_removes_nothing. Qed.

Theorem C11_force_lists_what_dry_run_lists : forall known excl dirs p t,
  fst (clean known excl Force dirs p t) = fst (clean known excl DryRun dirs p t).
Proof. exact force_lists_what_dry_run_lists. Qed.

(* force mode: whatever disappears lies at or below a listed path, nothing else changes *)
Theorem C11_force_removes_only_listed : forall known excl dirs t p,
  match remove_listed known excl dirs p t with
  | None => In (p, t) (listing_sub known excl dirs p t)
  | Some t2 =>
    forall x, In x (all_paths p t) ->
      In x (all_paths p t2) \/
      exists p' t', In (p', t') (listing_sub known excl dirs p t) /\ In x (all_paths p' t')
  end.
Proof. exact force_removes_only_listed. Qed.

Theorem C11_force_invents_nothing : forall known excl dirs t p t2,
  remove_listed known excl dirs p t = Some t2 ->
  forall x, In x (all_paths p t2) -> In x (all_paths p t).
Proof. exact force_invents_nothing. Qed.

(* the default patterns: direct children of <root>/.pytask and of any .git directory are
   excluded, so - by C11_listed_spec - nothing below them is ever reached from above.
   (A path argument that itself lies two levels below .pytask is not covered: F14.) *)
Theorem C11_pytask_children_excluded : forall root name pats,
  forallb literal root = true ->
  In (true, root ++ [s_pytask; star]) pats ->
  excluded pats (root ++ [s_pytask; name]) = true.
Proof. exact pytask_children_excluded. Qed.

Theorem C11_git_children_excluded : forall pre name pats,
  In (false, [s_git; star]) pats -> excluded pats (pre ++ [s_git; name]) = true.
Proof. exact git_children_excluded. Qed.

(* ---- several path arguments, and force mode as the loop it is: the listed paths are removed
   one after the other (rmtree for a directory, unlink otherwise; a path that no longer exists
   makes unlink raise = None).  [s] is the set of existing paths. *)

(* whatever is listed with several arguments is listed by one of them on its own, so the
   guarantees above hold for it *)
Theorem C11_multi_listed_from_args : forall known excl dirs args x,
  In x (listing_multi known excl dirs args) ->
  exists a, In a args /\ In x (listing known excl dirs (fst a) (snd a)).
Proof. exact multi_listed_from_args. Qed.

(* and what one argument lists is listed, or lies inside a listed directory *)
Theorem C11_multi_covers : forall known excl dirs args a x,
  In a args -> In x (listing known excl dirs (fst a) (snd a)) ->
  exists y, In y (listing_multi known excl dirs args) /\ is_prefix (fst y) (fst x) = true.
Proof. exact multi_covers. Qed.

(* force mode removes exactly what dry-run mode lists: the loop does not fail, and a path is
   left iff it is not at or below a path dry-run mode prints - whatever the arguments are
   (repeated, nested, overlapping) *)
Theorem C11_force_removes_exactly_what_dry_run_lists : forall known excl dirs args s,
  (forall a x, In a args -> In x (all_paths (fst a) (snd a)) -> In (fst x) s) ->
  exists s', snd (clean_multi known excl Force dirs args s) = Some s' /\
    forall r, In r s' <->
              In r s /\ forall q, In q (map fst (fst (clean_multi known excl DryRun dirs args s))) ->
                                   is_prefix q r = false.
Proof. exact force_multi_removes_exactly_listed. Qed.

Theorem C11_dry_run_multi_removes_nothing : forall known excl dirs args s,
  snd (clean_multi known excl DryRun dirs args s) = Some s.
Proof. exact dry_multi_removes_nothing. Qed.

(* the hypothesis is satisfiable, and the statement was false of the listings before F26/F27 *)
Example C11_multi_nonvacuous :
  forall a x, In a [([c_p], t_aa); ([c_p; c_aa], t_in)] -> In x (all_paths (fst a) (snd a)) -> In (fst x) fs_w.
Proof.
  intros a x [<-|[<-|[]]] Hx; vm_compute in Hx |- *; intuition (subst; auto).
Qed.

Theorem C11_repeated_argument_refuted_before_F26 :
  snd (clean_multi_f26 nothing nothing false [([c_p], t_aa); ([c_p], t_aa)] fs_w) = None.
Proof. exact repeated_argument_refuted. Qed.

Theorem C11_nested_argument_refuted_before_F27 :
  snd (clean_multi_f27 nothing nothing true [([c_p], t_aa); ([c_p; c_aa], t_in)] fs_w) = None.
Proof. exact nested_argument_refuted. Qed.

Print Assumptions C11_multi_listed_from_args.
Print Assumptions C11_multi_covers.
Print Assumptions C11_force_removes_exactly_what_dry_run_lists.
Print Assumptions C11_dry_run_multi_removes_nothing.
Print Assumptions C11_repeated_argument_refuted_before_F26.
Print Assumptions C11_nested_argument_refuted_before_F27.
Print Assumptions C11_listed_spec.
Print Assumptions C11_listed_safe.
Print Assumptions C11_listed_inside.
Print Assumptions C11_listing_is_sub.
Print Assumptions C11_dry_run_removes_nothing.
Print Assumptions C11_force_lists_what_dry_run_lists.
Print Assumptions C11_force_removes_only_listed.
Print Assumptions C11_force_invents_nothing.
Print Assumptions C11_pytask_children_excluded.
Print Assumptions C11_git_children_excluded.
