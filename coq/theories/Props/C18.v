(* C18 - Provisional nodes resolve at execution time; generated tasks run in the same build.
   Statements about Model/EngineP.v (tied to /repo by the correspondence check tools/harness/c18.py).
   The clause "executed again whenever the set of files ... changes" is FALSE of the unchanged
   code when the set shrinks (known finding F6): C18_shrink_refuted. *)
From Verif Require Import Base.Prelude Base.Graph Model.Sorter Model.Expr Model.Engine Model.EngineRun
  Model.EngineP Model.EnginePRun.
From Verif Require Import Proofs.GraphProofs Proofs.SorterProofs Proofs.EngineTask Proofs.EngineLoop
  Proofs.EngineDag Proofs.EnginePTask Proofs.EnginePLoop Proofs.EnginePBuild Proofs.EnginePRefute.
From Verif Require Model.Collect Proofs.CollectProofs.

(* a consumer receives EXACTLY the files matching its patterns at the moment it is set up:
   its dependencies are the declared ones followed by those files, each once *)
Theorem C18_resolved_exact : forall matches w t f,
  In f (resolved_deps matches w t) <->
  lookup f (fs w) <> None /\ exists p, In p (pdeps t) /\ matches p f = true.
Proof. exact resolved_exact. Qed.

Theorem C18_resolved_nodup : forall matches w t, NoDup (resolved_deps matches w t).
Proof. exact resolved_nodup. Qed.

Theorem C18_resolve_deps : forall matches w t,
  deps (resolve matches w t) = deps (base t) ++ resolved_deps matches w t.
Proof. exact resolve_deps. Qed.

(* ... after the task that declares the same pattern as its product: once the consumer's
   function has started no event of the producer occurs, and the producer has been reported *)
Theorem C18_consumer_after_producer :
  forall is_word lower matches body dyn_files children fuel c ts faults pref w pre post u t,
  x_log (pbuild is_word lower matches body dyn_files children fuel c ts faults pref w)
    = pre ++ Start (tid (base t)) :: post ->
  In u ts -> In t ts -> feeds u t ->
  forall e, In e post -> ev_task e <> tid (base u).
Proof. exact pbuild_consumer_after_producer. Qed.

Theorem C18_reported_after_producer :
  forall is_word lower matches body dyn_files children fuel c ts faults pref w pre post u t o,
  x_reports (pbuild is_word lower matches body dyn_files children fuel c ts faults pref w)
    = pre ++ (tid (base t), o) :: post ->
  In u ts -> In t ts -> feeds u t -> In (tid (base u)) (map fst pre).
Proof. exact pbuild_reported_after_producer. Qed.

(* "executed again whenever that set of files or their content changes" - the half that holds:
   unchanged is reported only if every file matching NOW has a recorded state equal to its
   present content, so a new file or new content forces execution *)
Theorem C18_unchanged_consumer_sound : forall matches body dyn_files children c E dyn desel w t f,
  is_gen t = false -> pprods t = [] -> clears t = false ->
  p_out (run_ptask matches body dyn_files children c E dyn desel w t f) = OSkipUnchanged ->
  forall g, In g (resolved_deps matches w t) -> g <> tid (base t) ->
    exists s, lookup g (fs w) = Some s /\ dblookup (tid (base t)) g (db w) = Some s.
Proof. exact unchanged_consumer_sound. Qed.

Theorem C18_new_or_changed_file_forces_execution :
  forall matches body dyn_files children c E dyn desel w t f g,
  is_gen t = false -> pprods t = [] -> clears t = false ->
  In g (resolved_deps matches w t) -> g <> tid (base t) ->
  dblookup (tid (base t)) g (db w) <> lookup g (fs w) ->
  p_out (run_ptask matches body dyn_files children c E dyn desel w t f) <> OSkipUnchanged.
Proof. exact new_or_changed_file_forces_execution. Qed.

(* ... the half that does not: a file that vanished is never looked at (F6) *)
Theorem C18_shrink_refuted :
  exists o1 o2, run_phist shrink_history = [o1; o2] /\
    reports_of o1 = [(4, ocode OSuccess)]%N /\ reports_of o2 = [(4, ocode OSkipUnchanged)]%N /\
    lookup 121 (files_of o2) = Some (hbody 4 1 [5; 6; 7]%N 121) /\
    lookup 10902 (files_of o2) = None /\
    hbody 4 1 [5; 6; 7]%N 121 <> hbody 4 1 [5; 6]%N 121.
Proof. exact shrink_refuted. Qed.

(* "under the same incremental rules as ordinary tasks": a consumer goes through exactly the
   protocol of Engine.run_task (about which C02-C08, C17 are proved) on the resolved task; a
   task without provisional nodes - every generated task - through run_task unchanged *)
Theorem C18_consumer_is_ordinary : forall matches body dyn_files children c E dyn desel w t f,
  is_gen t = false -> pprods t = [] -> clears t = false ->
  run_ptask matches body dyn_files children c E dyn desel w t f =
  pres_of (run_task body c (edges_check matches E w t) dyn desel w (resolve matches w t) f).
Proof. exact consumer_is_ordinary. Qed.

Theorem C18_plain_is_ordinary : forall matches body dyn_files children c E dyn desel w t f,
  is_gen t = false -> pdeps t = [] -> pprods t = [] -> clears t = false ->
  run_ptask matches body dyn_files children c E dyn desel w t f =
  pres_of (run_task body c E dyn desel w (resolve matches w t) f).
Proof. exact plain_is_ordinary. Qed.

(* ordering also holds for tasks generated earlier in the same build: when a task is handed out,
   every task of the project as it is at that moment that declares something it reads has been
   handed out before (so a declared task consuming products of generated tasks waits for them) *)
Theorem C18_pick_after_current_producers :
  forall is_word lower c pref ts0 s0 b h i,
  PI is_word lower c ts0 s0 b h -> pick (pb_sorter b) pref = Some i ->
  forall u t, In u (pb_tasks b) -> In t (pb_tasks b) -> tid (base t) = i -> feeds u t ->
  In (tid (base u)) h.
Proof. exact pick_after_current_producers. Qed.

(* "each at most once": no event occurs twice in a build - declared tasks, generators (F2,
   repaired) and generated tasks, across every re-creation of graph and scheduler *)
Theorem C18_each_at_most_once :
  forall is_word lower matches body dyn_files children fuel c ts faults pref w,
  NoDup (x_log (pbuild is_word lower matches body dyn_files children fuel c ts faults pref w)).
Proof. exact pbuild_log_nodup. Qed.

(* "collected ... and executed within the same build": the tasks a generator created are part
   of the project from the next step on, the loop cannot get stuck while tasks remain, and when
   the scheduler is empty every task of the grown project has a report *)
Theorem C18_children_join :
  forall is_word lower matches body dyn_files children c faults pref b b' i t,
  pick (pb_sorter b) pref = Some i -> find_ptask (pb_tasks b) i = Some t ->
  pstep is_word lower matches body dyn_files children c faults pref b = Some (b', false) ->
  forall k, In k (p_children (run_ptask matches body dyn_files children c (pb_edges b) (pb_dyn b)
                                         (pb_desel b) (pb_world b) t (faults i))) ->
  In (tid (base k)) (pids (pb_tasks b')).
Proof. exact children_join. Qed.

Theorem C18_never_stuck :
  forall is_word lower matches body dyn_files children c faults pref ts0 s0 b h,
  PI is_word lower c ts0 s0 b h -> is_active (pb_sorter b) = true ->
  exists b' st, pstep is_word lower matches body dyn_files children c faults pref b = Some (b', st).
Proof. exact pstep_some. Qed.

Theorem C18_all_reported : forall is_word lower c ts0 s0 b h,
  PI is_word lower c ts0 s0 b h -> gnodes (pb_sorter b) = [] ->
  forall t, In t (pb_tasks b) -> exists o, In (tid (base t), o) (pb_reports b).
Proof. exact all_reported. Qed.

(* the invariant holds initially and after every step, for any fuel *)
Theorem C18_invariant_reachable :
  forall is_word lower matches body dyn_files children c faults pref ts0 E0 s0,
  from_dag (pids ts0) E0 (pprio ts0) = Some s0 ->
  forall fuel b h, PI is_word lower c ts0 s0 b h ->
  exists h', PI is_word lower c ts0 s0
                (ploop is_word lower matches body dyn_files children fuel c faults pref b) h'.
Proof. exact loop_PI. Qed.

(* ... but the NAME under which a generated task is recorded depends on how many tasks the
   generator creates when they are told apart by @task(id=...) (known finding F16; the naming
   rule is the one of Model/Collect.v) *)
Theorem C18_single_child_drops_id_refuted :
  let foo := Verif.Proofs.CollectProofs.s_foo in
  let g0 := Verif.Proofs.CollectProofs.s_g0 in
  let g1 := Verif.Proofs.CollectProofs.s_g1 in
  let dec := Verif.Proofs.CollectProofs.dec_nat1 in
  Verif.Model.Collect.parse_names dec
    [Verif.Model.Collect.mkD foo None (Some g0) [] []; Verif.Model.Collect.mkD foo None (Some g1) [] []] [foo] []
    = Some [(foo ++ [Verif.Model.Collect.lbr] ++ g0 ++ [Verif.Model.Collect.rbr], 0%nat);
            (foo ++ [Verif.Model.Collect.lbr] ++ g1 ++ [Verif.Model.Collect.rbr], 1%nat)] /\
  Verif.Model.Collect.parse_names dec [Verif.Model.Collect.mkD foo None (Some g0) [] []] [foo] []
    = Some [(foo, 0%nat)].
Proof. exact Verif.Proofs.CollectProofs.single_task_drops_id_refuted. Qed.

(* non-vacuity: concrete runs (growth, content change, generator with children) *)
Theorem C18_example_grow_and_change :
  map reports_of (run_phist grow_history) =
  [[(4, ocode OSuccess)]; [(4, ocode OSuccess)]; [(4, ocode OSuccess)]; [(4, ocode OSkipUnchanged)]]%N.
Proof. exact grow_and_change_rerun. Qed.

Theorem C18_example_generator :
  map log_of (run_phist gen_history) =
  [[2; 3; 10; 11; 6; 7; 40200; 40201; 40202; 40203]; [10; 11]]%N.
Proof. exact generator_runs_once_children_once. Qed.
