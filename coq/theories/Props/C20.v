(* C20 - Data catalog entries are stable, isolated and round-trip values. *)
From Verif Require Import Base.Prelude Model.Catalog Proofs.CatalogProofs Proofs.CatalogHistory Proofs.FactsCatalog Gen.CatalogFacts.

(* names outside the documented alphabet are rejected, names inside are accepted: the
   validator is the extracted re function applied to the extracted class *)
Theorem C20_name_validator_spec : forall s,
  name_accepted x_name_re_fn s = true <-> s <> [] /\ forall c, In c s -> name_class c = true.
Proof. intros s. rewrite catalog_re_fn_ok, fullmatch_is_spec. apply name_valid_spec. Qed.

(* regression witness of F13: a prefix match would accept these *)
Theorem C20_prefix_match_would_be_wrong :
  name_accepted ReMatch [97; 47; 46; 46; 47; 46; 46; 47; 120]%N = true /\
  name_valid [97; 47; 46; 46; 47; 46; 46; 47; 120]%N = false /\
  name_accepted ReMatch [97; 32; 98]%N = true /\ name_valid [97; 32; 98]%N = false.
Proof. exact match_refuted. Qed.

Section C20.
  Variable sha_hex : list N -> list N.
  Variable utf8 : list N -> list N.
  Hypothesis sha_inj : forall a b, sha_hex a = sha_hex b -> a = b.
  Hypothesis sha_len : forall a, length (sha_hex a) = 64.
  Hypothesis utf8_inj : forall a b, utf8 a = utf8 b -> a = b.

  (* the storage location is a function of (project root, catalog name, entry name) only -
     [entry_file] has no other argument - and different entry names never share one *)
  Theorem C20_entries_isolated : forall root cname e1 e2,
    entry_file sha_hex utf8 root cname e1 = entry_file sha_hex utf8 root cname e2 -> e1 = e2.
  Proof. apply entries_isolated; assumption. Qed.

  Theorem C20_catalogs_isolated : forall root c1 c2 e1 e2,
    name_valid c1 = true -> name_valid c2 = true ->
    entry_file sha_hex utf8 root c1 e1 = entry_file sha_hex utf8 root c2 e2 -> c1 = c2 /\ e1 = e2.
  Proof. apply catalogs_isolated; assumption. Qed.

  Theorem C20_value_and_node_files_differ : forall root c e1 e2,
    entry_file sha_hex utf8 root c e1 <> entry_node_file sha_hex utf8 root c e2.
  Proof. apply value_and_node_files_differ; assumption. Qed.
End C20.

Section RoundTrip.
  Variable value : Type.
  Variable dumps : value -> list N.
  Variable loads : list N -> option value.
  Hypothesis roundtrip : forall v, loads (dumps v) = Some v.

  Theorem C20_load_save : forall s p v, load value loads (save value dumps s p v) p = Some v.
  Proof. apply load_save; assumption. Qed.

  Theorem C20_load_save_other : forall s p q v,
    p <> q -> load value loads (save value dumps s p v) q = load value loads s q.
  Proof. apply load_save_other. Qed.

  (* over ANY history of saves the store refines "location -> value written last" *)
  Theorem C20_store_refines_last_write : forall ops s p,
    load value loads (run_saves value dumps s ops) p =
    match last_saved value ops p None with Some v => Some v | None => load value loads s p end.
  Proof. apply run_saves_load; assumption. Qed.

  Theorem C20_last_write_wins : forall s ops1 p v ops2,
    (forall o, In o ops2 -> fst o <> p) ->
    load value loads (run_saves value dumps s (ops1 ++ (p, v) :: ops2)) p = Some v.
  Proof. apply last_write_wins; assumption. Qed.

  Theorem C20_untouched_entry_unchanged : forall s ops p,
    (forall o, In o ops -> fst o <> p) ->
    load value loads (run_saves value dumps s ops) p = load value loads s p.
  Proof. apply untouched_entry_unchanged; assumption. Qed.
End RoundTrip.

Print Assumptions C20_name_validator_spec.
Print Assumptions C20_prefix_match_would_be_wrong.
Print Assumptions C20_entries_isolated.
Print Assumptions C20_catalogs_isolated.
Print Assumptions C20_value_and_node_files_differ.
Print Assumptions C20_store_refines_last_write.
Print Assumptions C20_last_write_wins.
Print Assumptions C20_untouched_entry_unchanged.
Print Assumptions C20_load_save.
Print Assumptions C20_load_save_other.
