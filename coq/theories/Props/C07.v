(* C07 - Task functions get exactly the declared values; returns land in declared nodes.
   The tree core (optree with none_is_leaf) is modelled; how decorators, annotations and
   defaults are turned into these trees is Python evaluation and is covered by the
   correspondence programs only (partial). *)
From Verif Require Import Base.Prelude Model.Tree Proofs.TreeProofs Proofs.TreeKwargs.

(* every keyword argument is the declared tree with each node replaced by its loaded value:
   same containers, same positions, same order *)
Theorem C07_kwargs_structure_preserved : forall (Nd V : Type) (load : Nd -> V) decls name t,
  In (name, t) decls ->
  In (name, tmap load t) (load_kwargs load decls) /\ shape (tmap load t) = shape t /\
  leaves (tmap load t) = map load (leaves t).
Proof. intros Nd V. exact (@load_kwargs_spec Nd V). Qed.

Theorem C07_kwargs_positionwise : forall (A B : Type) (f : A -> B) p (t : tree A),
  at_path p (tmap f t) = option_map (tmap f) (at_path p t).
Proof. intros A B. exact (@at_path_tmap A B). Qed.

(* a returned value whose structure does not have the declaration as a prefix saves nothing
   (the task fails); otherwise each declared node is saved exactly once, in order, with
   the part of the returned value at its own position - putting the saved parts back at the
   declared leaves rebuilds the returned value *)
Theorem C07_return_positionwise : forall (Nd V : Type) (decl : tree Nd) (out : tree V),
  match save_returns decl out with
  | None => is_prefix decl out = false
  | Some pairs => map fst pairs = leaves decl /\ graft decl (map snd pairs) = Some (out, [])
  end.
Proof. intros Nd V. exact (@save_returns_spec Nd V). Qed.

Theorem C07_prefix_iff_flatten : forall (A B : Type) (s : tree A) (t : tree B),
  is_prefix s t = true <-> exists vs, flatten_up_to s t = Some vs.
Proof. intros A B. exact (@prefix_iff_flatten A B). Qed.

(* "exactly": the arguments carry the declared names, in order, nothing more; every argument is
   the loaded image of the declaration of its name; position by position *)
Theorem C07_kwargs_exactly_declared : forall (Nd V : Type) (load : Nd -> V) decls,
  map fst (load_kwargs load decls) = map fst decls /\ length (load_kwargs load decls) = length decls.
Proof. intros Nd V. exact (@load_kwargs_names Nd V). Qed.

Theorem C07_kwargs_only_declared : forall (Nd V : Type) (load : Nd -> V) decls name v,
  In (name, v) (load_kwargs load decls) -> exists t, In (name, t) decls /\ v = tmap load t.
Proof. intros Nd V. exact (@load_kwargs_only_declared Nd V). Qed.

Theorem C07_kwargs_nth : forall (Nd V : Type) (load : Nd -> V) decls i,
  nth_error (load_kwargs load decls) i =
  option_map (fun p => (fst p, tmap load (snd p))) (nth_error decls i).
Proof. intros Nd V. exact (@load_kwargs_nth Nd V). Qed.

Print Assumptions C07_kwargs_exactly_declared.
Print Assumptions C07_kwargs_only_declared.
Print Assumptions C07_kwargs_nth.
Print Assumptions C07_kwargs_structure_preserved.
Print Assumptions C07_kwargs_positionwise.
Print Assumptions C07_return_positionwise.
Print Assumptions C07_prefix_iff_flatten.
