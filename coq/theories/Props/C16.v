(* C16 - Selection expressions follow Boolean semantics exactly.
   Only statements, closed by lemmas proved elsewhere. *)
From Verif Require Import Base.Prelude Model.Expr Proofs.ExprParser Proofs.ExprLexer Proofs.ExprMatch Proofs.FactsExpr Gen.ExprFacts.

(* Every string is rejected or compiled to THE formula the documented grammar
   assigns to THE tokenisation of the string; never a third outcome. *)
Definition C16_compile_statement : Prop :=
  forall (is_word : N -> bool) (s : list N),
    match compile is_word s with
    | Ok a => exists toks, Lx is_word s toks /\ GTop toks a
    | Err _ => (exists c, In c s /\ foreign is_word c = true) \/
               (exists toks, Lx is_word s toks /\ ~ exists a, GTop toks a)
    | Fuel => False
    end.

Theorem C16_compile : C16_compile_statement.
Proof.
  intros is_word s. unfold compile.
  destruct (lex is_word s) as [k|p|] eqn:EL.
  - pose proof (lex_sound is_word s k EL) as HL.
    destruct (parse_tokens (map fst k)) as [a|p|] eqn:EP.
    + exists (map fst k). split; auto. apply parse_tokens_sound; auto.
    + right. exists (map fst k). split; auto.
      apply parse_tokens_rejects_iff. eauto.
    + exact (parse_tokens_never_out_of_fuel _ EP).
  - left. apply (lex_rejects_iff_foreign_char is_word s). eauto.
  - exact (lex_never_out_of_fuel is_word s EL).
Qed.

(* the denoted formula is unique *)
Theorem C16_denotation_unique :
  forall is_word s t1 t2 a1 a2,
    Lx is_word s t1 -> Lx is_word s t2 -> GTop t1 a1 -> GTop t2 a2 -> a1 = a2.
Proof.
  intros is_word s t1 t2 a1 a2 H1 H2 G1 G2.
  rewrite (tokenisation_unique is_word s t1 t2 H1 H2) in G1.
  exact (grammar_unambiguous _ _ _ G1 G2).
Qed.

(* anything the grammar accepts is accepted *)
Theorem C16_complete :
  forall is_word s toks a, Lx is_word s toks -> GTop toks a -> compile is_word s = Ok a.
Proof.
  intros is_word s toks a HL HG. unfold compile.
  destruct (lex_complete is_word s toks HL) as [k [-> <-]].
  apply parse_tokens_complete. exact HG.
Qed.

Theorem C16_keywords : forall w,
  (classify w = OR <-> w = kw_or) /\ (classify w = AND <-> w = kw_and) /\
  (classify w = NOT <-> w = kw_not) /\
  (w <> kw_or -> w <> kw_and -> w <> kw_not -> classify w = ID w).
Proof. exact keyword_iff_whole_token. Qed.

Theorem C16_kw_matcher : forall lower names sub,
  kw_match lower names sub = true <->
  exists n, In n names /\ exists pre post, lower n = pre ++ lower sub ++ post.
Proof. exact kw_matcher_spec. Qed.

Theorem C16_mark_matcher : forall marks name,
  mark_match marks name = true <-> In name marks.
Proof. exact mark_matcher_spec. Qed.

Theorem C16_eval_boolean : forall m,
  eval m AFalse = false /\
  (forall s, eval m (AId s) = m s) /\
  (forall a, eval m (ANot a) = negb (eval m a)) /\
  (forall a b, eval m (AAnd a b) = andb (eval m a) (eval m b)) /\
  (forall a b, eval m (AOr a b) = orb (eval m a) (eval m b)).
Proof. exact eval_boolean. Qed.

(* the alphabet of the model is the one the scanner uses (facts re-extracted from the source on
   every run: blank characters, identifier punctuation, \w, the three keywords) *)
Theorem C16_lexer_alphabet_is_the_sources :
  seteqN x_ws ws_chars = true /\ seteqN x_ident_punct ident_punct = true /\
  x_ident_has_word = true /\ x_keywords = [kw_and; kw_not; kw_or].
Proof. exact (conj ws_ok (conj ident_punct_ok (conj ident_has_word_ok keywords_ok))). Qed.

Print Assumptions C16_lexer_alphabet_is_the_sources.
Print Assumptions C16_compile.
Print Assumptions C16_denotation_unique.
Print Assumptions C16_complete.
Print Assumptions C16_keywords.
Print Assumptions C16_kw_matcher.
Print Assumptions C16_mark_matcher.
Print Assumptions C16_eval_boolean.
