(* C10 - A dry run changes nothing and over-approximates the next build. *)
From Verif Require Import Base.Prelude Base.Graph Model.Sorter Model.Expr Model.Engine Model.EngineRun.
From Verif Require Import Proofs.GraphProofs Proofs.SorterProofs Proofs.EngineTask Proofs.EngineLoop
     Proofs.EngineBuild Proofs.EngineDag Proofs.EngineRefute Proofs.EngineHistory Proofs.EngineDry.

(* a dry-run build starts no task function and leaves every file as it was (the model's
   file map is exactly the set of regular files of the project outside .pytask) *)
Theorem C10_dry_run_inert : forall is_word lower body c ts faults pref w E desel s0,
  create_dag is_word lower c ts = DagOk E desel ->
  from_dag (task_ids ts) E (prio_list ts) = Some s0 ->
  dry_run c = true ->
  x_log (build is_word lower body c ts faults pref w) = [] /\
  fs (x_world (build is_word lower body c ts faults pref w)) = fs w.
Proof. exact dry_run_inert. Qed.

(* also when the graph is rejected or the scheduler refuses it *)
Theorem C10_dry_run_inert_rejected : forall is_word lower body c ts faults pref w,
  create_dag is_word lower c ts = DagErr ->
  build is_word lower body c ts faults pref w = mkRes XDag w [] [].
Proof. exact rejected_graph_is_inert. Qed.

(* per task, under dry-run: silent *)
Theorem C10_dry_task_silent : forall body c E dyn desel w t f,
  dry_run c = true ->
  let r := run_task body c E dyn desel w t f in
  r_events r = [] /\ fs (r_world r) = fs w /\ ran (r_out r) = false \/
  r_events r = [] /\ fs (r_world r) = fs w /\ r_out r = OFail.
Proof. exact dry_run_silent. Qed.

Theorem C10_dry_db_only_persist : forall body c E dyn desel w t f,
  dry_run c = true ->
  r_out (run_task body c E dyn desel w t f) <> OPersist ->
  db (r_world (run_task body c E dyn desel w t f)) = db w.
Proof.
  intros body c E dyn desel w t f D NP.
  destruct (dry_run_silent body c E dyn desel w t f D) as [(_ & _ & R)|(_ & _ & R)];
    apply db_changes_only_on_success_or_persist; auto; intros C; rewrite C in R; discriminate.
Qed.

(* the whole world - files and recorded states - is unchanged, for every project, selection,
   schedule and marker placement (F22, repaired: a dry run used to record PERSISTENCE rows) *)
Theorem C10_dry_run_world_unchanged : forall is_word lower body c ts faults pref w,
  dry_run c = true -> x_world (build is_word lower body c ts faults pref w) = w.
Proof. exact dry_run_world_unchanged. Qed.

(* "that real build executes exactly the tasks it would have executed had the dry run not
   taken place": every later build is literally the same function of the same world *)
Theorem C10_dry_run_does_not_interfere : forall is_word lower body c ts faults pref w c' ts' faults' pref',
  dry_run c = true ->
  build is_word lower body c' ts' faults' pref' (x_world (build is_word lower body c ts faults pref w))
  = build is_word lower body c' ts' faults' pref' w.
Proof. exact dry_run_does_not_interfere. Qed.

(* over-approximation, the step of the induction (PARTIAL: the lockstep induction over the two
   runs is not done): a task whose function the real build starts, and whose neighbours look to
   the real build as they looked to the dry run, was announced by the dry run *)
Theorem C10_dry_announces_local : forall body c cd E dyn_d dyn_r desel w wr t f,
  dry_run c = false -> dry_run cd = true -> force cd = force c ->
  skipflag t dyn_d desel = skipflag t dyn_r desel ->
  has_dyn MAncFailed (tid t) dyn_d = false ->
  same_view E w wr t ->
  r_events (run_task body c E dyn_r desel wr t f) <> [] ->
  r_out (run_task body cd E dyn_d desel w t f) = OWould.
Proof. exact dry_announces_local. Qed.

Print Assumptions C10_dry_run_inert.
Print Assumptions C10_dry_run_inert_rejected.
Print Assumptions C10_dry_task_silent.
Print Assumptions C10_dry_db_only_persist.
Print Assumptions C10_dry_run_world_unchanged.
Print Assumptions C10_dry_run_does_not_interfere.
Print Assumptions C10_dry_announces_local.
