(* C10 - A dry run changes nothing and over-approximates the next build. *)
From Verif Require Import Base.Prelude Base.Graph Model.Sorter Model.Expr Model.Engine Model.EngineRun.
From Verif Require Import Model.EngineP Model.EnginePRun Proofs.EnginePRefute.
From Verif Require Import Proofs.GraphProofs Proofs.SorterProofs Proofs.EngineTask Proofs.EngineLoop
     Proofs.EngineBuild Proofs.EngineDag Proofs.EngineRefute Proofs.EngineHistory Proofs.EngineDry Proofs.EngineDrySim.

(* a dry-run build starts no task function and leaves every file as it was (the model's
   file map is exactly the set of regular files of the project outside .pytask) *)
Theorem C10_dry_run_inert : forall is_word lower body c ts faults pref w E desel s0,
  create_dag is_word lower c ts = DagOk E desel ->
  from_dag (task_ids ts) E (prio_list ts) = Some s0 ->
  dry_run c = true ->
  x_log (build is_word lower body c ts faults pref w) = [] /\
  fs (x_world (build is_word lower body c ts faults pref w)) = fs w.
Proof. exact dry_run_inert. Qed.

(* also when the graph is rejected or the scheduler refuses it *)
Theorem C10_dry_run_inert_rejected : forall is_word lower body c ts faults pref w,
  create_dag is_word lower c ts = DagErr ->
  build is_word lower body c ts faults pref w = mkRes XDag w [] [].
Proof. exact rejected_graph_is_inert. Qed.

(* per task, under dry-run: silent *)
Theorem C10_dry_task_silent : forall body c E dyn desel w t f,
  dry_run c = true ->
  let r := run_task body c E dyn desel w t f in
  r_events r = [] /\ fs (r_world r) = fs w /\ ran (r_out r) = false \/
  r_events r = [] /\ fs (r_world r) = fs w /\ r_out r = OFail.
Proof. exact dry_run_silent. Qed.

Theorem C10_dry_db_only_persist : forall body c E dyn desel w t f,
  dry_run c = true ->
  r_out (run_task body c E dyn desel w t f) <> OPersist ->
  db (r_world (run_task body c E dyn desel w t f)) = db w.
Proof.
  intros body c E dyn desel w t f D NP.
  destruct (dry_run_silent body c E dyn desel w t f D) as [(_ & _ & R)|(_ & _ & R)];
    apply db_changes_only_on_success_or_persist; auto; intros C; rewrite C in R; discriminate.
Qed.

(* the whole world - files and recorded states - is unchanged, for every project, selection,
   schedule and marker placement (F22, repaired: a dry run used to record PERSISTENCE rows) *)
Theorem C10_dry_run_world_unchanged : forall is_word lower body c ts faults pref w,
  dry_run c = true -> x_world (build is_word lower body c ts faults pref w) = w.
Proof. exact dry_run_world_unchanged. Qed.

(* "that real build executes exactly the tasks it would have executed had the dry run not
   taken place": every later build is literally the same function of the same world *)
Theorem C10_dry_run_does_not_interfere : forall is_word lower body c ts faults pref w c' ts' faults' pref',
  dry_run c = true ->
  build is_word lower body c' ts' faults' pref' (x_world (build is_word lower body c ts faults pref w))
  = build is_word lower body c' ts' faults' pref' w.
Proof. exact dry_run_does_not_interfere. Qed.

(* over-approximation: "every task the immediately following real build executes was announced
   as would be executed by the dry run".  Proved by running the two builds in lockstep
   (Proofs/EngineDrySim.v) for every graph, selection, marker placement (skip, skipif, persist),
   force, schedule oracle and failing task functions; stated for builds without a failure limit
   (with a limit the two runs may stop at different points).  F23 (repaired) was the
   counterexample found while setting up this proof. *)
Theorem C10_dry_run_over_approximates :
  forall is_word lower body c cd ts faults pref w E desel s0,
  dry_run c = false -> dry_run cd = true -> force cd = force c ->
  max_fail c = None -> max_fail cd = None ->
  create_dag is_word lower c ts = DagOk E desel -> create_dag is_word lower cd ts = DagOk E desel ->
  from_dag (task_ids ts) E (map (fun t => (tid t, tprio t)) ts) = Some s0 ->
  NoDup (task_ids ts) ->
  (forall t u, In t ts -> In u ts -> ~ In (tid t) (prods u) /\ ~ In (tid t) (deps u)) ->
  forall i, In (Start i) (x_log (build is_word lower body c ts faults pref w)) ->
            In (i, OWould) (x_reports (build is_word lower body cd ts faults pref w)).
Proof. exact dry_run_over_approximates. Qed.

(* the step of that induction: a task whose function the real build starts, and whose
   neighbours look to the real build as they looked to the dry run, was announced *)
Theorem C10_dry_announces_local : forall body c cd E dyn_d dyn_r desel w wr t f,
  dry_run c = false -> dry_run cd = true -> force cd = force c ->
  skipflag t dyn_d desel = skipflag t dyn_r desel ->
  has_dyn MAncFailed (tid t) dyn_d = false ->
  same_view E w wr t ->
  r_events (run_task body c E dyn_r desel wr t f) <> [] ->
  r_out (run_task body cd E dyn_d desel w t f) = OWould.
Proof. exact dry_announces_local. Qed.

(* non-vacuity: chain 1: 101 -> 111, 2 (persist): 111 -> 112; after a first build 111 is edited by
   hand; forced dry run announces both, forced real build executes both (the F23 scenario) *)
Local Open Scope N_scope.
Example C10_example_announced :
  let t1 := mkTask 1 1 [101] [111] [] None false [] false 0%Z [] [] in
  let t2 := mkTask 2 1 [111] [112] [] None false [] true 0%Z [] [] in
  let cfg := mkConfig false false None None None in
  let cff := mkConfig true false None None None in
  let cfd := mkConfig true true None None None in
  map (fun o => match o with (x, r, l, _, _, _) => (r, l) end)
      (run_hist [] [] [HSet 101 5; HBuild cfg [t1; t2] [] []; HSet 111 77; HBuild cfd [t1; t2] [] []; HBuild cff [t1; t2] [] []])
  = [([(1, 0); (2, 0)], [2; 3; 4; 5]); ([(1, 6); (2, 6)], []); ([(1, 0); (2, 0)], [2; 3; 4; 5])].
Proof. vm_compute. reflexivity. Qed.
Local Close Scope N_scope.

(* F29 (known finding): the over-approximation theorem above is about graphs of declared nodes
   (Model/Engine.v).  With directory patterns (Model/EngineP.v) it is false of the code: a consumer of
   a pattern is not announced when the matching file that will change is the plain path product of
   an ordinary task - the dry run reports the consumer unchanged, the real build executes it. *)
Theorem C10_pattern_consumer_not_announced_refuted :
  map reports_of (skipn 2 (run_phist dry_pattern_history)) =
  [[(1, ocode OWould); (2, ocode OSkipUnchanged)]; [(1, ocode OSuccess); (2, ocode OSuccess)]]%N.
Proof. exact dry_run_misses_pattern_consumer_refuted. Qed.

Print Assumptions C10_pattern_consumer_not_announced_refuted.
Print Assumptions C10_dry_run_inert.
Print Assumptions C10_dry_run_inert_rejected.
Print Assumptions C10_dry_task_silent.
Print Assumptions C10_dry_db_only_persist.
Print Assumptions C10_dry_run_world_unchanged.
Print Assumptions C10_dry_run_does_not_interfere.
Print Assumptions C10_dry_announces_local.
Print Assumptions C10_dry_run_over_approximates.
