(* C04 - Failures are contained: dependants skipped, others run, nothing recorded. *)
From Verif Require Import Base.Prelude Base.Graph Model.Sorter Model.Expr Model.Engine Model.EngineRun.
From Verif Require Import Model.EngineRun Model.EngineP Model.EnginePRun Proofs.EnginePRefute.
From Verif Require Import Proofs.GraphProofs Proofs.SorterProofs Proofs.EngineTask Proofs.EngineLoop
     Proofs.EngineBuild Proofs.EngineDag Proofs.EngineRefute.

Section Engine.
  Variable is_word : N -> bool.
  Variable lower : list N -> list N.
  Variable body : N -> N -> list N -> N -> N.
  Variable c : config.
  Variable ts : list task.
  Variable faults : N -> fault.
  Variable pref : list N.          (* tie-breaking oracle: any *)
  Variable w : world.
  Variable E : list edge.
  Variable desel : list N.
  Variable s0 : sorter.
  Hypothesis accepted : create_dag is_word lower c ts = DagOk E desel.
  Hypothesis scheduled : from_dag (task_ids ts) E (prio_list ts) = Some s0.
  Hypothesis ids : NoDup (task_ids ts).
  Let r := build is_word lower body c ts faults pref w.
  Notation ARGS := (is_word) (only parsing).

  (* no task below a failed task is started; it is reported SKIP_PREVIOUS_FAILED (or SKIP) *)
  Theorem C04_failed_descendants_not_started : forall u t o,
    In (u, OFail) (x_reports r) -> In t (task_ids ts) -> Reach E u t ->
    ~ In (Start t) (x_log r) /\
    (In (t, o) (x_reports r) -> o = OSkipPrevFailed \/ o = OSkip).
  Proof. exact (failed_descendants_not_started is_word lower body c ts faults pref w E desel s0 accepted scheduled ids). Qed.

  (* every other task is judged on its own merits: SKIP_PREVIOUS_FAILED only below a failure *)
  Theorem C04_independent_tasks_unaffected : forall t,
    In (t, OSkipPrevFailed) (x_reports r) ->
    exists u, In (u, OFail) (x_reports r) /\ Reach E u t.
  Proof. exact (independent_tasks_unaffected is_word lower body c ts faults pref w E desel s0 accepted scheduled ids). Qed.

  (* a failing (or otherwise not succeeding, not persisting) task records nothing ... *)
  Theorem C04_fail_records_nothing : forall t o k,
    In (t, o) (x_reports r) -> o <> OSuccess -> o <> OPersist ->
    dblookup t k (db (x_world r)) = dblookup t k (db w).
  Proof. exact (fail_records_nothing is_word lower body c ts faults pref w E desel s0 accepted scheduled ids). Qed.

  (* ... nor does a task that was never reached *)
  Theorem C04_unreported_records_nothing : forall t k,
    ~ In t (map fst (x_reports r)) ->
    dblookup t k (db (x_world r)) = dblookup t k (db w).
  Proof. exact (unreported_records_nothing is_word lower body c ts faults pref w E desel s0 accepted scheduled ids). Qed.

  (* with a failure limit m no task is reported (hence started) after the m-th failure *)
  Theorem C04_max_failures_respected : forall m,
    max_fail c = Some m -> (1 <= m)%nat ->
    (count_fail (x_reports r) <= m)%nat /\
    ((count_fail (x_reports r) = m)%nat -> exists i pre, x_reports r = pre ++ [(i, OFail)]).
  Proof. exact (max_failures_respected is_word lower body c ts faults pref w E desel s0 accepted scheduled ids). Qed.
End Engine.

(* hence the next build judges the failed task on unchanged rows: if it needed to run, it
   still does (decision completeness/soundness of the unchanged check, per task) *)
Theorem C04_still_needs_to_run : forall body c E dyn desel w t f,
  r_out (run_task body c E dyn desel w t f) = OSkipUnchanged ->
  force c = false /\ forall k, In k (neighbours E t) -> row_matches w t k.
Proof. exact unchanged_sound. Qed.

(* ... with one exception on the unchanged code (known finding F24): a function that raises only
   AFTER it has restored its products to the recorded content leaves a world in which its old rows
   match again, and the next build reports it unchanged although its last run failed *)
Theorem C04_failed_after_restoring_then_unchanged_refuted :
  let t1 := mkTask 1 1 [101%N] [111%N] [] None false [] false 0%Z [] [] in
  let cfg := mkConfig false false None None None in
  map (fun o => match o with (x, r, l, _, _, _) => (x, r, l) end)
      (run_hist [] [] [HSet 101 5; HBuild cfg [t1] [] []; HSet 111 77; HBuild cfg [t1] [(1%N, RaiseAfter)] [];
                       HBuild cfg [t1] [] []])
  = [(0, [(1, 0)], [2; 3]); (1, [(1, 1)], [2; 3]); (0, [(1, 3)], [])]%N.
Proof. exact failed_after_restoring_then_unchanged_refuted. Qed.

(* F31 (known finding): the containment theorems above are about the tasks of the declared graph
   (Model/Engine.v).  A task that a generator creates AFTER a task it depends on has failed carries no
   marker and is executed (Model/EngineP.v, which follows the code) *)
Theorem C04_late_generated_task_refuted :
  map reports_of (run_phist late_child_history) =
  [[(1, ocode OFail); (4, ocode OSuccess); (20900, ocode OSuccess); (20907, ocode OSuccess)]]%N.
Proof. exact late_generated_task_runs_below_failure_refuted. Qed.

Print Assumptions C04_late_generated_task_refuted.
Print Assumptions C04_failed_descendants_not_started.
Print Assumptions C04_independent_tasks_unaffected.
Print Assumptions C04_fail_records_nothing.
Print Assumptions C04_unreported_records_nothing.
Print Assumptions C04_max_failures_respected.
Print Assumptions C04_still_needs_to_run.
Print Assumptions C04_failed_after_restoring_then_unchanged_refuted.
