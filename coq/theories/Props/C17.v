(* C17 - Persisted tasks are not executed while products exist and stay quiet afterwards. *)
From Verif Require Import Base.Prelude Base.Graph Model.Sorter Model.Expr Model.Engine Model.EngineRun.
From Verif Require Import Model.EngineP Model.EnginePRun Proofs.EnginePRefute.
From Verif Require Import Proofs.GraphProofs Proofs.SorterProofs Proofs.EngineTask Proofs.EngineLoop
     Proofs.EngineBuild Proofs.EngineDag Proofs.EngineRefute.

(* persist + every node exists + something changed => PERSISTENCE: not started (also under
   force: the persist hook runs before the force test), files untouched, new states recorded -
   except in a dry run, which records nothing (F22, repaired) *)
Theorem C17_persist_spec : forall body c E dyn desel w t f,
  skipflag t dyn desel = false -> existsb (fun b => b) (m_skipif t) = false ->
  has_dyn MAncFailed (tid t) dyn = false ->
  has_dyn MWould (tid t) dyn = false ->
  m_persist t = true -> all_exist E w t = true -> any_changed E w t = true ->
  run_task body c E dyn desel w t f =
  mkTres OPersist (if dry_run c then w else record_states E w t) [].
Proof. exact persist_spec. Qed.

(* the recorded rows are exactly the current states of all neighbours ... *)
Theorem C17_recorded_rows_match : forall E w t,
  (forall k, In k (neighbours E t) -> state_of w t k <> None) ->
  forall k, In k (neighbours E t) -> row_matches (record_states E w t) t k.
Proof. exact recorded_rows_match. Qed.

(* ... so the following look at the same files reports the task unchanged *)
Theorem C17_persist_then_unchanged : forall body c c' E dyn dyn' desel w t f f',
  skipflag t dyn desel = false -> existsb (fun b => b) (m_skipif t) = false ->
  has_dyn MAncFailed (tid t) dyn = false ->
  has_dyn MWould (tid t) dyn = false ->
  m_persist t = true -> all_exist E w t = true -> any_changed E w t = true ->
  dry_run c = false ->
  force c' = false -> skipflag t dyn' desel = false ->
  has_dyn MAncFailed (tid t) dyn' = false -> has_dyn MWould (tid t) dyn' = false ->
  let w1 := r_world (run_task body c E dyn desel w t f) in
  run_task body c' E dyn' desel w1 t f' = mkTres OSkipUnchanged w1 [].
Proof. exact persist_then_unchanged. Qed.

(* rows of a task change only at its own turn, so they survive until the next build *)
Theorem C17_rows_stable : forall body c E dyn desel w t f t' k,
  t' <> tid t ->
  dblookup t' k (db (r_world (run_task body c E dyn desel w t f))) = dblookup t' k (db w).
Proof. exact other_rows_untouched. Qed.

(* a missing product (or any missing node): treated exactly like an unmarked task *)
Theorem C17_missing_product_runs : forall body c E dyn desel w t f,
  all_exist E w t = false ->
  run_task body c E dyn desel w t f = run_task_with body false c E dyn desel w t f.
Proof. exact persist_missing_product_irrelevant. Qed.

Theorem C17_unmarked_reference : forall body c E dyn desel w t f,
  m_persist t = false ->
  run_task body c E dyn desel w t f = run_task_with body false c E dyn desel w t f.
Proof. exact unmarked_is_run_task_with_false. Qed.

Theorem C17_missing_product_detected : forall E w t p,
  In p (succ_nodes E t) -> p <> tid t -> lookup p (fs w) = None -> all_exist E w t = false.
Proof. exact missing_product_not_all_exist. Qed.

(* interaction with skip, failing upstream: those tests come first *)
Theorem C17_skip_wins : forall body c E dyn desel w t f,
  skipflag t dyn desel = true \/ existsb (fun b => b) (m_skipif t) = true ->
  run_task body c E dyn desel w t f = mkTres OSkip w [].
Proof. exact skip_spec. Qed.

Theorem C17_failed_upstream_wins : forall body c E dyn desel w t f,
  has_dyn MAncFailed (tid t) dyn = true ->
  let r := run_task body c E dyn desel w t f in
  (r_out r = OSkipPrevFailed \/ r_out r = OSkip) /\ r_events r = [] /\ r_world r = w.
Proof. exact anc_failed_spec. Qed.

(* non-vacuity: a persisted task with a changed dependency *)
Example C17_example :
  let t := (mkTask 1 1000 [101] [102] [] None false [] true 0%Z [] [])%N in
  let E := [(101, 1); (1, 102)]%N in
  let w := mkWorld [(101, 5); (102, 9)]%N [(1, 101, 4); (1, 1, 1000); (1, 102, 9)]%N in
  r_out (run_task hbody cfg0 E [] [] w t NoFault) = OPersist /\
  r_out (run_task hbody cfg0 E [] [] (r_world (run_task hbody cfg0 E [] [] w t NoFault)) t NoFault) = OSkipUnchanged.
Proof. vm_compute. split; reflexivity. Qed.

(* F30 (known finding): with a directory pattern as PRODUCT a persist task fails in every build and
   is never executed (Model/EngineP.v follows the code: the persist hook raises AttributeError) *)
Theorem C17_persist_with_pattern_product_refuted :
  map (fun o => match o with (x, r, l, _, _) => (x, r, l) end) (run_phist persist_pattern_history) =
  [(1, [(1, ocode OFail); (3, ocode OSkipPrevFailed)], []); (1, [(1, ocode OFail); (3, ocode OSkipPrevFailed)], [])]%N.
Proof. exact persist_pattern_producer_refuted. Qed.

Print Assumptions C17_persist_with_pattern_product_refuted.
Print Assumptions C17_persist_spec.
Print Assumptions C17_recorded_rows_match.
Print Assumptions C17_persist_then_unchanged.
Print Assumptions C17_rows_stable.
Print Assumptions C17_missing_product_runs.
Print Assumptions C17_unmarked_reference.
Print Assumptions C17_missing_product_detected.
Print Assumptions C17_skip_wins.
Print Assumptions C17_failed_upstream_wins.
