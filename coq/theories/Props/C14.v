(* C14 - Captured output is attributed to the task that wrote it, completely and only.
   PARTIAL: the attribution automaton of CaptureManager / MultiCapture is modelled and proved;
   descriptor inheritance by child processes, Python's stream buffering and UTF-8 decoding are
   assumptions of the model (a write at a captured level lands in the capture's buffer while
   it is active) and are exercised by the correspondence check only. *)
From Verif Require Import Base.Prelude Base.Pluggy Model.Capture Proofs.CaptureProofs Proofs.CaptureRun Proofs.FactsHooks Gen.HookFacts.

(* for any sequence of tasks, any writes, any method: the sections are exactly, per task, phase
   and stream, the concatenation in order of what that task wrote at a captured level in that
   phase - and the buffers are empty again afterwards (nothing can spill into the next task) *)
Theorem C14_sections_exact : forall m tks st,
  clean st ->
  fst (run_ttasks m tks st) = flat_map (expected_task m) tks /\ clean (snd (run_ttasks m tks st)).
Proof. exact sections_exact. Qed.

Theorem C14_phase_spec : forall m t ph ws st,
  clean st ->
  fst (run_phase m t ph ws st) = expected_phase m t ph ws /\
  clean (snd (run_phase m t ph ws st)) /\
  term_out (snd (run_phase m t ph ws st)) = term_out st ++ passthrough_text m SOut ws /\
  term_err (snd (run_phase m t ph ws st)) = term_err st ++ passthrough_text m SErr ws.
Proof. exact run_phase_spec. Qed.

(* fd: everything at every level is captured and nothing reaches the real stream *)
Theorem C14_fd_captures_everything : forall s ws,
  captured_text MFd s ws = all_text s ws /\ passthrough_text MFd s ws = [].
Proof. exact fd_captures_everything. Qed.

(* sys / tee-sys: exactly the Python-level writes *)
Theorem C14_sys_python_level_only : forall s ws,
  captured_text MSys s ws =
  flat_map (fun w => if stream_eqb (w_stream w) s && match w_level w with LPy => true | _ => false end
                     then w_data w else []) ws.
Proof. exact sys_python_level_only. Qed.

(* no: nothing captured, everything passes; tee-sys: everything passes as well *)
Theorem C14_no_captures_nothing : forall s ws,
  captured_text MNo s ws = [] /\ passthrough_text MNo s ws = all_text s ws.
Proof. exact no_captures_nothing. Qed.

Theorem C14_tee_passes_everything : forall s ws, passthrough_text MTee s ws = all_text s ws.
Proof. exact tee_passes_everything. Qed.

(* the capture plugin wraps setup, call and teardown of every task (extracted hook table) *)
Theorem C14_capture_wraps_phases :
  In [99; 97; 112; 116; 117; 114; 101]%N (wrapper_names 0) /\
  In [99; 97; 112; 116; 117; 114; 101]%N (wrapper_names 1) /\
  In [99; 97; 112; 116; 117; 114; 101]%N (wrapper_names 2).
Proof. exact capture_wraps_phases. Qed.

(* the real streams over a whole run: per task, in order, exactly what it wrote at a level the
   method does not capture, then what pytask printed between the tasks - for any task sequence *)
Theorem C14_terminal_exact : forall m tks st,
  clean st ->
  term_out (snd (run_ttasks m tks st)) = term_out st ++ flat_map (term_task m SOut) tks /\
  term_err (snd (run_ttasks m tks st)) = term_err st ++ flat_map (term_task m SErr) tks.
Proof. exact run_terminal_exact. Qed.

(* "completely": nothing a task writes is dropped - each code point is in its section text or on
   the real stream - and "only": neither holds anything that was not written to that stream *)
Theorem C14_no_loss : forall m s ws x,
  In x (all_text s ws) -> In x (captured_text m s ws) \/ In x (passthrough_text m s ws).
Proof. exact write_no_loss. Qed.

Theorem C14_no_invention : forall m s ws x,
  In x (captured_text m s ws) \/ In x (passthrough_text m s ws) -> In x (all_text s ws).
Proof. exact write_no_invention. Qed.

(* outside tee mode captured and passed-through text partition what was written (no copy) *)
Theorem C14_partition : forall m s ws,
  m <> MTee ->
  (length (captured_text m s ws) + length (passthrough_text m s ws) = length (all_text s ws))%nat.
Proof. exact write_partition. Qed.

Example C14_run_example :
  let w1 := mkW SOut LPy [1;2]%N in let w2 := mkW SOut LFd [3]%N in let w3 := mkW SErr LChild [4]%N in
  let tks := [mkT 7 [w1] [w2; w1] [w3] [mkW SOut LPy [9]%N]; mkT 8 [] [w1; w3] [] []] in
  fst (run_ttasks MSys tks init_c) =
    [(7, PSetup, SOut, [1;2]); (7, PCall, SOut, [1;2]); (8, PCall, SOut, [1;2])]%N /\
  term_out (snd (run_ttasks MSys tks init_c)) = [3; 9]%N /\
  term_err (snd (run_ttasks MSys tks init_c)) = [4; 4]%N.
Proof. exact run_terminal_example. Qed.

Theorem C14_sys_passes_lower_levels : forall s ws,
  passthrough_text MSys s ws =
  flat_map (fun w => if stream_eqb (w_stream w) s && match w_level w with LPy => false | _ => true end
                     then w_data w else []) ws.
Proof. exact sys_passes_lower_levels. Qed.

Theorem C14_tee_captures_like_sys : forall s ws, captured_text MTee s ws = captured_text MSys s ws.
Proof. exact tee_captures_like_sys. Qed.

Print Assumptions C14_sys_passes_lower_levels.
Print Assumptions C14_tee_captures_like_sys.
Print Assumptions C14_terminal_exact.
Print Assumptions C14_no_loss.
Print Assumptions C14_no_invention.
Print Assumptions C14_partition.
Print Assumptions C14_sections_exact.
Print Assumptions C14_phase_spec.
Print Assumptions C14_fd_captures_everything.
Print Assumptions C14_sys_python_level_only.
Print Assumptions C14_no_captures_nothing.
Print Assumptions C14_tee_passes_everything.
Print Assumptions C14_capture_wraps_phases.
