(* C14 - Captured output is attributed to the task that wrote it, completely and only.
   PARTIAL: the attribution automaton of CaptureManager / MultiCapture is modelled and proved;
   descriptor inheritance by child processes, Python's stream buffering and UTF-8 decoding are
   assumptions of the model (a write at a captured level lands in the capture's buffer while
   it is active) and are exercised by the correspondence check only. *)
From Verif Require Import Base.Prelude Base.Pluggy Model.Capture Proofs.CaptureProofs Proofs.FactsHooks Gen.HookFacts.

(* for any sequence of tasks, any writes, any method: the sections are exactly, per task, phase
   and stream, the concatenation in order of what that task wrote at a captured level in that
   phase - and the buffers are empty again afterwards (nothing can spill into the next task) *)
Theorem C14_sections_exact : forall m tks st,
  clean st ->
  fst (run_ttasks m tks st) = flat_map (expected_task m) tks /\ clean (snd (run_ttasks m tks st)).
Proof. exact sections_exact. Qed.

Theorem C14_phase_spec : forall m t ph ws st,
  clean st ->
  fst (run_phase m t ph ws st) = expected_phase m t ph ws /\
  clean (snd (run_phase m t ph ws st)) /\
  term_out (snd (run_phase m t ph ws st)) = term_out st ++ passthrough_text m SOut ws /\
  term_err (snd (run_phase m t ph ws st)) = term_err st ++ passthrough_text m SErr ws.
Proof. exact run_phase_spec. Qed.

(* fd: everything at every level is captured and nothing reaches the real stream *)
Theorem C14_fd_captures_everything : forall s ws,
  captured_text MFd s ws = all_text s ws /\ passthrough_text MFd s ws = [].
Proof. exact fd_captures_everything. Qed.

(* sys / tee-sys: exactly the Python-level writes *)
Theorem C14_sys_python_level_only : forall s ws,
  captured_text MSys s ws =
  flat_map (fun w => if stream_eqb (w_stream w) s && match w_level w with LPy => true | _ => false end
                     then w_data w else []) ws.
Proof. exact sys_python_level_only. Qed.

(* no: nothing captured, everything passes; tee-sys: everything passes as well *)
Theorem C14_no_captures_nothing : forall s ws,
  captured_text MNo s ws = [] /\ passthrough_text MNo s ws = all_text s ws.
Proof. exact no_captures_nothing. Qed.

Theorem C14_tee_passes_everything : forall s ws, passthrough_text MTee s ws = all_text s ws.
Proof. exact tee_passes_everything. Qed.

(* the capture plugin wraps setup, call and teardown of every task (extracted hook table) *)
Theorem C14_capture_wraps_phases :
  In [99; 97; 112; 116; 117; 114; 101]%N (wrapper_names 0) /\
  In [99; 97; 112; 116; 117; 114; 101]%N (wrapper_names 1) /\
  In [99; 97; 112; 116; 117; 114; 101]%N (wrapper_names 2).
Proof. exact capture_wraps_phases. Qed.

Print Assumptions C14_sections_exact.
Print Assumptions C14_phase_spec.
Print Assumptions C14_fd_captures_everything.
Print Assumptions C14_sys_python_level_only.
Print Assumptions C14_no_captures_nothing.
Print Assumptions C14_tee_passes_everything.
Print Assumptions C14_capture_wraps_phases.
