(* C15 - A finished build leaves the calling process as it found it.
   PARTIAL: the model covers what the capture plugin does to descriptors 0-2, the Python stream
   objects and the number of open descriptors; working directory, warning filters, debugger
   hook and the registry of pending task functions are covered by the correspondence check
   only. The module cache of the interpreter (second in-process build of a project with @task
   functions collects nothing, F11) is a known finding outside the model. *)
From Verif Require Import Base.Prelude Base.Pluggy Model.Capture Proofs.CaptureProofs Proofs.FactsHooks Gen.HookFacts.

(* the capture plugin implements pytask_unconfigure (extracted fact), hence: *)
Theorem C15_build_restores_process : forall m p, build_p x_capture_stops m p = p.
Proof. intros m p. rewrite capture_unconfigure_ok. apply build_restores_process. Qed.

(* for any sequence of builds with any capture methods: descriptors, stream objects and the
   number of open descriptors are as before - no growth with the number of builds *)
Theorem C15_builds_restore_process : forall ms p, builds x_capture_stops ms p = p.
Proof. intros ms p. rewrite capture_unconfigure_ok. apply builds_restore_process. Qed.

(* regression witnesses of F10: what happened without the hook *)
Theorem C15_without_unconfigure_stdin_is_lost : forall p,
  let q := build_p false MFd p in
  fd0 q = DEVNULL /\ py_in q = PYCAP_IN /\ nfds q = (nfds p + 6)%nat.
Proof. exact no_unconfigure_refuted. Qed.

Theorem C15_without_unconfigure_descriptors_leak : forall n p,
  nfds (builds false (repeat MFd n) p) = (nfds p + 6 * n)%nat.
Proof. exact leak_grows_with_builds. Qed.

Print Assumptions C15_build_restores_process.
Print Assumptions C15_builds_restore_process.
Print Assumptions C15_without_unconfigure_stdin_is_lost.
Print Assumptions C15_without_unconfigure_descriptors_leak.
