(* C15 - A finished build leaves the calling process as it found it.
   PARTIAL: the model covers what the capture plugin does to descriptors 0-2, the Python stream
   objects and the number of open descriptors; working directory, warning filters, debugger
   hook and the registry of pending task functions are covered by the correspondence check
   only. The module cache of the interpreter is modelled in Model/Session.v: in-process builds
   collect what fresh processes collect unless a task file declares tasks with @task (F11,
   known, refuted below). *)
From Verif Require Import Base.Prelude Base.Pluggy Model.Capture Proofs.CaptureProofs Proofs.FactsHooks Gen.HookFacts.
From Verif Require Import Model.Clean Model.Collect Model.Session Proofs.SessionProofs.

(* the capture plugin implements pytask_unconfigure (extracted fact), hence: *)
Theorem C15_build_restores_process : forall m p, build_p x_capture_stops m p = p.
Proof. intros m p. rewrite capture_unconfigure_ok. apply build_restores_process. Qed.

(* for any sequence of builds with any capture methods: descriptors, stream objects and the
   number of open descriptors are as before - no growth with the number of builds *)
Theorem C15_builds_restore_process : forall ms p, builds x_capture_stops ms p = p.
Proof. intros ms p. rewrite capture_unconfigure_ok. apply builds_restore_process. Qed.

(* regression witnesses of F10: what happened without the hook *)
Theorem C15_without_unconfigure_stdin_is_lost : forall p,
  let q := build_p false MFd p in
  fd0 q = DEVNULL /\ py_in q = PYCAP_IN /\ nfds q = (nfds p + 6)%nat.
Proof. exact no_unconfigure_refuted. Qed.

Theorem C15_without_unconfigure_descriptors_leak : forall n p,
  nfds (builds false (repeat MFd n) p) = (nfds p + 6 * n)%nat.
Proof. exact leak_grows_with_builds. Qed.

(* "consecutive builds in one process give the same outcomes as builds in separate processes":
   what is collected, file by file, for any sequence of builds over any file sets, any derived
   module names, files whose import fails included - provided no file registers tasks through
   @task while it is imported *)
Theorem C15_inprocess_equals_fresh : forall is_pkg src bs m,
  cache_ok src m -> (forall ps, In ps bs -> no_decorated src ps) ->
  run_builds is_pkg src m bs = fresh_builds is_pkg src bs.
Proof. exact inprocess_equals_fresh. Qed.

(* F11 (known): with @task the second build collects nothing *)
Theorem C15_decorated_second_build_refuted :
  run_builds (fun _ => false) (fun _ => MOk 0 1) [] [[p_dec]; [p_dec]] = [[RTasks 1]; [RTasks 0]] /\
  fresh_builds (fun _ => false) (fun _ => MOk 0 1) [[p_dec]; [p_dec]] = [[RTasks 1]; [RTasks 1]].
Proof. exact decorated_second_build_refuted. Qed.

(* F20 (repaired): a failing import used to be an error once and silence afterwards *)
Theorem C15_broken_import_regression :
  (let '(x1, m1) := collect_file_old (fun _ => false) (fun _ => MBroken) [] p_dec in
   (x1, fst (collect_file_old (fun _ => false) (fun _ => MBroken) m1 p_dec))) = (RError, RTasks 0) /\
  run_builds (fun _ => false) (fun _ => MBroken) [] [[p_dec]; [p_dec]] = [[RError]; [RError]].
Proof. exact broken_import_regression. Qed.

Print Assumptions C15_build_restores_process.
Print Assumptions C15_builds_restore_process.
Print Assumptions C15_without_unconfigure_stdin_is_lost.
Print Assumptions C15_without_unconfigure_descriptors_leak.
Print Assumptions C15_inprocess_equals_fresh.
Print Assumptions C15_decorated_second_build_refuted.
Print Assumptions C15_broken_import_regression.
