(* C01 - Tasks run after everything they depend on, at most once per build.

   Two layers: the scheduler (any driver: batch sizes, completion orders,
   re-creation with a grown graph) and the sequential engine that uses it. *)
From Verif Require Import Base.Prelude Base.Graph Model.Sorter Model.Expr Model.Engine Model.EngineRun.
From Verif Require Import Proofs.GraphProofs Proofs.SorterProofs Proofs.EngineTask Proofs.EngineLoop
     Proofs.EngineBuild Proofs.EngineDag Proofs.EngineRefute.

(* ------------------------------------------------------------ scheduler *)

(* no task is handed out twice, for every sequence of get_ready(n>=1) with any valid
   batch, done(any nodes) and from_dag_and_sorter(any graph) *)
Theorem C01_handed_once : forall s0 s h, fresh s0 -> reachable s0 s h -> NoDup h.
Proof. exact handed_once. Qed.

(* when t is handed out every ancestor task of t in the graph current at that moment
   has been marked done *)
Theorem C01_handed_after_all_ancestors : forall tasks E s n b t u,
  closure_spec tasks E (gedges s) -> covers s ->
  valid_batch s n b -> In t b -> In u tasks -> In t tasks -> Reach E u t ->
  In u (finished s).
Proof. exact handed_after_all_ancestors. Qed.

(* from_dag builds exactly that closure (the executable reachability is proved equal to
   the inductive one), on a strict order, and refuses cyclic graphs *)
Theorem C01_from_dag_spec : forall tasks E p s,
  from_dag tasks E p = Some s ->
  gnodes s = tasks /\ gedges s = closure_edges tasks E /\ prios s = p /\ fresh s /\
  strict_order (gedges s) /\ covers s /\ acyclic E.
Proof. exact from_dag_spec. Qed.

Theorem C01_closure_is_reachability : forall tasks E, closure_spec tasks E (closure_edges tasks E).
Proof. exact closure_edges_closure_spec. Qed.

(* covers is preserved by every operation, so the previous theorem applies in every
   reachable state, also after the graph was re-created *)
Theorem C01_covers_rebuild : forall nodes edges p old,
  (forall u v, In (u, v) edges -> In u nodes) -> covers (rebuild nodes edges p old).
Proof. exact covers_rebuild. Qed.

(* the sequential loop never finds the ready list empty on an acyclic graph *)
Theorem C01_no_deadlock : forall s,
  strict_order (gedges s) -> gnodes s <> [] -> processing s = [] -> ready s <> [].
Proof. exact no_deadlock. Qed.

(* --------------------------------------------------------------- engine *)
Section Engine.
  Variable is_word : N -> bool.
  Variable lower : list N -> list N.
  Variable body : N -> N -> list N -> N -> N.
  Variable c : config.
  Variable ts : list task.
  Variable faults : N -> fault.
  Variable pref : list N.          (* tie-breaking oracle: any *)
  Variable w : world.
  Variable E : list edge.
  Variable desel : list N.
  Variable s0 : sorter.
  Hypothesis accepted : create_dag is_word lower c ts = DagOk E desel.
  Hypothesis scheduled : from_dag (task_ids ts) E (prio_list ts) = Some s0.
  Hypothesis ids : NoDup (task_ids ts).
  Let r := build is_word lower body c ts faults pref w.

  (* no event occurs twice: every task function is started at most once *)
  Theorem C01_started_at_most_once : NoDup (x_log r).
  Proof. exact (log_nodup is_word lower body c ts faults pref w E desel s0 accepted scheduled ids). Qed.

  (* every task that t depends on through the graph has been reported before t ... *)
  Theorem C01_reported_after_ancestors : forall pre t o post,
    x_reports r = pre ++ (t, o) :: post ->
    forall u, In u (task_ids ts) -> Reach E u t -> In u (map fst pre).
  Proof. exact (reported_after_ancestors is_word lower body c ts faults pref w E desel s0 accepted scheduled ids). Qed.

  (* ... and once t has started, no event of such a task happens any more *)
  Theorem C01_started_after_ancestors_finished : forall pre t post,
    x_log r = pre ++ Start t :: post ->
    forall e, In e post -> ~ Reach E (task_of_event e) t.
  Proof. exact (started_after_ancestors_finished is_word lower body c ts faults pref w E desel s0 accepted scheduled ids). Qed.

  (* the graph contains what was declared: consuming a product ... *)
  Theorem C01_consumer_edge : forall u t p,
    In u ts -> In t ts -> In p (prods u) -> In p (deps t) -> Reach E (tid u) (tid t).
  Proof. intros u t p. exact (consumer_depends_on_producer is_word lower c ts E desel u t p accepted). Qed.

  (* ... and `after`, PROVIDED the upstream task has at least one product *)
  Theorem C01_after_edge_partial : forall t u ui p,
    In t ts -> In ui (after t) -> find_task ts ui = Some u -> In p (prods u) ->
    Reach E ui (tid t).
  Proof. intros t u ui p. exact (after_with_product_is_edge is_word lower c ts E desel t u ui p accepted). Qed.
End Engine.

(* The full statement "after is always honoured" is false of the unchanged code (F1):
   without a product on the upstream task the declaration leaves no trace in the graph
   and the dependant may run first. *)
Theorem C01_after_without_products_refuted :
  exists tasks pref,
    (exists t, In t tasks /\ In 1%N (after t) /\ tid t = 2%N) /\
    x_log (wbuild cfg0 tasks (fun _ => NoFault) pref (mkWorld [] [])) =
    [Start 2; Finish 2; Start 1; Finish 1]%N.
Proof.
  exists f1_tasks, [2; 1]%N. split.
  - exists (tk 2 [] [103] [1])%N. simpl. auto.
  - exact (proj1 f1_after_ignored).
Qed.

Print Assumptions C01_handed_once.
Print Assumptions C01_handed_after_all_ancestors.
Print Assumptions C01_from_dag_spec.
Print Assumptions C01_closure_is_reachability.
Print Assumptions C01_covers_rebuild.
Print Assumptions C01_no_deadlock.
Print Assumptions C01_started_at_most_once.
Print Assumptions C01_reported_after_ancestors.
Print Assumptions C01_started_after_ancestors_finished.
Print Assumptions C01_consumer_edge.
Print Assumptions C01_after_edge_partial.
Print Assumptions C01_after_without_products_refuted.
