(* C09 - Ill-formed task graphs are rejected before anything runs. *)
From Verif Require Import Base.Prelude Base.Graph Model.Sorter Model.Expr Model.Engine Model.EngineRun.
From Verif Require Import Proofs.GraphProofs Proofs.SorterProofs Proofs.EngineTask Proofs.EngineLoop
     Proofs.EngineBuild Proofs.EngineDag Proofs.EngineRefute.

(* a cycle through dependencies and products is rejected ... *)
Theorem C09_cycle_rejected : forall is_word lower c ts v,
  Reach (base_edges ts) v v -> create_dag is_word lower c ts = DagErr.
Proof. exact cycle_rejected. Qed.

(* ... so is a product declared by two tasks ... *)
Theorem C09_duplicate_product_rejected : forall is_word lower c ts t1 t2 p,
  In t1 ts -> In t2 ts -> tid t1 <> tid t2 -> In p (prods t1) -> In p (prods t2) ->
  create_dag is_word lower c ts = DagErr.
Proof. exact duplicate_product_rejected. Qed.

(* ... and then the build ends with the graph exit code, nothing ran, nothing recorded *)
Theorem C09_rejected_is_inert : forall is_word lower body c ts faults pref w,
  create_dag is_word lower c ts = DagErr ->
  build is_word lower body c ts faults pref w = mkRes XDag w [] [].
Proof. exact rejected_graph_is_inert. Qed.

(* ... and so is a cycle closed through 'after' edges (repaired F3): any cycle in the full graph *)
Theorem C09_any_cycle_rejected : forall is_word lower c ts AE v,
  all_after_edges is_word lower ts ts = Some AE -> Reach (base_edges ts ++ AE) v v ->
  create_dag is_word lower c ts = DagErr.
Proof. exact full_cycle_rejected. Qed.

(* conversely an acyclic graph with unique producers (and parsable expressions) is accepted *)
Theorem C09_wellformed_accepted : forall is_word lower c ts AE,
  has_cycle (base_edges ts) = false -> dup_products ts (base_edges ts) = false ->
  all_after_edges is_word lower ts ts = Some AE ->
  has_cycle (base_edges ts ++ AE) = false ->
  (forall e, kexpr c = Some e -> e <> [] -> exists a, compile is_word e = Ok a) ->
  (forall e, mexpr c = Some e -> e <> [] -> exists a, compile is_word e = Ok a) ->
  exists E desel, create_dag is_word lower c ts = DagOk E desel.
Proof. exact wellformed_accepted. Qed.

(* the executable cycle test is exact *)
Theorem C09_has_cycle_iff : forall E, has_cycle E = true <-> exists v, Reach E v v.
Proof. exact has_cycle_iff. Qed.

(* whatever create_dag accepts is acyclic *)
Theorem C09_accepted_graph_acyclic : forall is_word lower c ts E desel,
  create_dag is_word lower c ts = DagOk E desel -> forall v, ~ Reach E v v.
Proof. exact accepted_graph_acyclic. Qed.

(* regression witness of F3: a cycle closed only through 'after' *)
Theorem C09_after_cycle_witness :
  (exists v, Reach (base_edges f3_tasks ++ [(102, 1)]%N) v v) /\
  wbuild cfg0 f3_tasks (fun _ => NoFault) [] (mkWorld [] []) = mkRes XDag (mkWorld [] []) [] [].
Proof.
  split.
  - apply has_cycle_iff. vm_compute. reflexivity.
  - exact f3_after_cycle_exit.
Qed.

Print Assumptions C09_cycle_rejected.
Print Assumptions C09_duplicate_product_rejected.
Print Assumptions C09_rejected_is_inert.
Print Assumptions C09_wellformed_accepted.
Print Assumptions C09_has_cycle_iff.
Print Assumptions C09_any_cycle_rejected.
Print Assumptions C09_accepted_graph_acyclic.
Print Assumptions C09_after_cycle_witness.
