(* C03 - Nothing is re-executed unless something it depends on changed. *)
From Verif Require Import Base.Prelude Base.Graph Model.Sorter Model.Expr Model.Engine Model.EngineRun.
From Verif Require Import Proofs.GraphProofs Proofs.SorterProofs Proofs.EngineTask Proofs.EngineLoop
     Proofs.EngineBuild Proofs.EngineDag Proofs.EngineRefute.

(* a task all of whose neighbours (dependencies, source, products) equal their recorded
   rows is reported unchanged and not started, when not forced and no marker intervenes.
   States are contents: timestamps do not occur in the model (Hashing.v ties this to the
   code under mtime-honesty) *)
Theorem C03_unchanged_complete : forall body c E dyn desel w t f,
  force c = false ->
  skipflag t dyn desel = false -> existsb (fun b => b) (m_skipif t) = false ->
  has_dyn MAncFailed (tid t) dyn = false -> has_dyn MWould (tid t) dyn = false ->
  (forall k, In k (neighbours E t) -> row_matches w t k) ->
  run_task body c E dyn desel w t f = mkTres OSkipUnchanged w [].
Proof. exact unchanged_complete. Qed.

(* right after a success the same task is unchanged *)
Theorem C03_success_then_unchanged : forall body c c' E dyn dyn' desel w t f f',
  r_out (run_task body c E dyn desel w t f) = OSuccess ->
  (forall k, In k (pred_nodes E t) -> lookup k (fs (r_world (run_task body c E dyn desel w t f))) <> None) ->
  (forall k, In k (succ_nodes E t) -> In k (prods t)) ->
  ~ In (tid t) (prods t) ->
  force c' = false -> skipflag t dyn' desel = false ->
  existsb (fun b => b) (m_skipif t) = false ->
  has_dyn MAncFailed (tid t) dyn' = false -> has_dyn MWould (tid t) dyn' = false ->
  let w1 := r_world (run_task body c E dyn desel w t f) in
  run_task body c' E dyn' desel w1 t f' = mkTres OSkipUnchanged w1 [].
Proof. exact success_then_unchanged. Qed.

(* ... and after a persisted run *)
Theorem C03_persist_then_unchanged : forall body c c' E dyn dyn' desel w t f f',
  skipflag t dyn desel = false -> existsb (fun b => b) (m_skipif t) = false ->
  has_dyn MAncFailed (tid t) dyn = false ->
  m_persist t = true -> all_exist E w t = true -> any_changed E w t = true ->
  force c' = false -> skipflag t dyn' desel = false ->
  has_dyn MAncFailed (tid t) dyn' = false -> has_dyn MWould (tid t) dyn' = false ->
  let w1 := r_world (run_task body c E dyn desel w t f) in
  run_task body c' E dyn' desel w1 t f' = mkTres OSkipUnchanged w1 [].
Proof. exact persist_then_unchanged. Qed.

(* unrelated tasks cannot disturb this: they write neither this task's rows nor - unless
   they declare them as products - its files *)
Theorem C03_unrelated_tasks_irrelevant : forall body c E dyn desel w t f t' k,
  t' <> tid t -> dblookup t' k (db (r_world (run_task body c E dyn desel w t f))) = dblookup t' k (db w).
Proof. exact other_rows_untouched. Qed.

Theorem C03_unrelated_files_untouched : forall body c E dyn desel w t f k,
  ~ In k (prods t) -> lookup k (fs (r_world (run_task body c E dyn desel w t f))) = lookup k (fs w).
Proof. exact task_footprint. Qed.

Print Assumptions C03_unchanged_complete.
Print Assumptions C03_success_then_unchanged.
Print Assumptions C03_persist_then_unchanged.
Print Assumptions C03_unrelated_tasks_irrelevant.
Print Assumptions C03_unrelated_files_untouched.
