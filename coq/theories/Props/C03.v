(* C03 - Nothing is re-executed unless something it depends on changed. *)
From Verif Require Import Base.Prelude Base.Graph Model.Sorter Model.Expr Model.Engine Model.EngineRun.
From Verif Require Import Proofs.GraphProofs Proofs.SorterProofs Proofs.EngineTask Proofs.EngineLoop
     Proofs.EngineBuild Proofs.EngineDag Proofs.EngineRefute Proofs.EngineHistory Proofs.EngineQuiet.

(* a task all of whose neighbours (dependencies, source, products) equal their recorded
   rows is reported unchanged and not started, when not forced and no marker intervenes.
   States are contents: timestamps do not occur in the model (Hashing.v ties this to the
   code under mtime-honesty) *)
Theorem C03_unchanged_complete : forall body c E dyn desel w t f,
  force c = false ->
  skipflag t dyn desel = false -> existsb (fun b => b) (m_skipif t) = false ->
  has_dyn MAncFailed (tid t) dyn = false -> has_dyn MWould (tid t) dyn = false ->
  (forall k, In k (neighbours E t) -> row_matches w t k) ->
  run_task body c E dyn desel w t f = mkTres OSkipUnchanged w [].
Proof. exact unchanged_complete. Qed.

(* right after a success the same task is unchanged *)
Theorem C03_success_then_unchanged : forall body c c' E dyn dyn' desel w t f f',
  r_out (run_task body c E dyn desel w t f) = OSuccess ->
  (forall k, In k (pred_nodes E t) -> lookup k (fs (r_world (run_task body c E dyn desel w t f))) <> None) ->
  (forall k, In k (succ_nodes E t) -> In k (prods t)) ->
  ~ In (tid t) (prods t) ->
  force c' = false -> skipflag t dyn' desel = false ->
  existsb (fun b => b) (m_skipif t) = false ->
  has_dyn MAncFailed (tid t) dyn' = false -> has_dyn MWould (tid t) dyn' = false ->
  let w1 := r_world (run_task body c E dyn desel w t f) in
  run_task body c' E dyn' desel w1 t f' = mkTres OSkipUnchanged w1 [].
Proof. exact success_then_unchanged. Qed.

(* ... and after a persisted run *)
Theorem C03_persist_then_unchanged : forall body c c' E dyn dyn' desel w t f f',
  skipflag t dyn desel = false -> existsb (fun b => b) (m_skipif t) = false ->
  has_dyn MAncFailed (tid t) dyn = false ->
  has_dyn MWould (tid t) dyn = false ->
  m_persist t = true -> all_exist E w t = true -> any_changed E w t = true ->
  dry_run c = false ->
  force c' = false -> skipflag t dyn' desel = false ->
  has_dyn MAncFailed (tid t) dyn' = false -> has_dyn MWould (tid t) dyn' = false ->
  let w1 := r_world (run_task body c E dyn desel w t f) in
  run_task body c' E dyn' desel w1 t f' = mkTres OSkipUnchanged w1 [].
Proof. exact persist_then_unchanged. Qed.

(* unrelated tasks cannot disturb this: they write neither this task's rows nor - unless
   they declare them as products - its files *)
Theorem C03_unrelated_tasks_irrelevant : forall body c E dyn desel w t f t' k,
  t' <> tid t -> dblookup t' k (db (r_world (run_task body c E dyn desel w t f))) = dblookup t' k (db w).
Proof. exact other_rows_untouched. Qed.

Theorem C03_unrelated_files_untouched : forall body c E dyn desel w t f k,
  ~ In k (prods t) -> lookup k (fs (r_world (run_task body c E dyn desel w t f))) = lookup k (fs w).
Proof. exact task_footprint. Qed.

(* ---------------------------------------------------------------- whole builds
   a build in which every task of the project was executed or unchanged (any options, any
   schedule) leaves rows that match every neighbour of every task ... *)
Theorem C03_all_fresh_rows_match :
  forall is_word lower body c ts faults pref w E desel s0,
  create_dag is_word lower c ts = DagOk E desel ->
  from_dag (task_ids ts) E (map (fun t => (tid t, tprio t)) ts) = Some s0 ->
  NoDup (task_ids ts) ->
  (forall t, In t ts -> wf_task t) -> (forall t, In t ts -> m_persist t = false) ->
  (forall i, good_fault (faults i)) -> (forall t, In t ts -> SC body w t) ->
  (forall t u, In t ts -> In u ts -> ~ In (tid t) (prods u) /\ ~ In (tid t) (deps u)) ->
  (forall t, In t ts -> exists o, In (tid t, o) (x_reports (build is_word lower body c ts faults pref w)) /\ fresh_outcome o) ->
  forall t, In t ts -> forall k, In k (neighbours E t) ->
  row_matches (x_world (build is_word lower body c ts faults pref w)) t k.
Proof. exact all_fresh_rows_match. Qed.

(* ... and over a world in which every row matches, an unforced build - with any selection,
   markers, schedule, in a fresh process or not - starts no task function, leaves files and
   database exactly as they are, and reports every task as unchanged or skipped *)
Theorem C03_quiet_build : forall is_word lower body c ts faults pref w1 E desel,
  force c = false ->
  create_dag is_word lower c ts = DagOk E desel ->
  (forall t, In t ts -> forall k, In k (neighbours E t) -> row_matches w1 t k) ->
  x_log (build is_word lower body c ts faults pref w1) = [] /\
  x_world (build is_word lower body c ts faults pref w1) = w1 /\
  forall i o, In (i, o) (x_reports (build is_word lower body c ts faults pref w1)) -> quiet_outcome o.
Proof. exact quiet_build. Qed.

(* "In particular, immediately repeating a successful build executes no task" *)
Theorem C03_repeat_build_executes_nothing :
  forall is_word lower body c c' ts faults faults' pref pref' w E desel desel' s0,
  create_dag is_word lower c ts = DagOk E desel ->
  from_dag (task_ids ts) E (map (fun t => (tid t, tprio t)) ts) = Some s0 ->
  NoDup (task_ids ts) ->
  (forall t, In t ts -> wf_task t) -> (forall t, In t ts -> m_persist t = false) ->
  (forall i, good_fault (faults i)) -> (forall t, In t ts -> SC body w t) ->
  (forall t u, In t ts -> In u ts -> ~ In (tid t) (prods u) /\ ~ In (tid t) (deps u)) ->
  let r1 := build is_word lower body c ts faults pref w in
  (forall t, In t ts -> exists o, In (tid t, o) (x_reports r1) /\ fresh_outcome o) ->
  force c' = false -> create_dag is_word lower c' ts = DagOk E desel' ->
  let r2 := build is_word lower body c' ts faults' pref' (x_world r1) in
  x_log r2 = [] /\ x_world r2 = x_world r1 /\ forall i o, In (i, o) (x_reports r2) -> quiet_outcome o.
Proof. exact repeat_build_executes_nothing. Qed.

(* non-vacuity: a two-task chain (1: 101 -> 111, 2: 111 -> 112) built from scratch (both executed,
   exit 0), then built again: nothing starts; then the source is edited and restored: still nothing *)
Local Open Scope N_scope.
Example C03_repeat_example :
  let t1 := mkTask 1 1 [101] [111] [] None false [] false 0%Z [] [] in
  let t2 := mkTask 2 1 [111] [112] [] None false [] false 0%Z [] [] in
  let cfg := mkConfig false false None None None in
  map (fun o => match o with (x, r, l, _, _, _) => (x, r, l) end)
      (run_hist [] [] [HSet 101 5; HBuild cfg [t2; t1] [] []; HBuild cfg [t2; t1] [] [];
                       HSet 101 6; HSet 101 5; HBuild cfg [t2; t1] [] []])
  = [(0, [(1, 0); (2, 0)], [2; 3; 4; 5]); (0, [(1, 3); (2, 3)], []); (0, [(1, 3); (2, 3)], [])].
Proof. vm_compute. reflexivity. Qed.
Local Close Scope N_scope.

Print Assumptions C03_unchanged_complete.
Print Assumptions C03_success_then_unchanged.
Print Assumptions C03_persist_then_unchanged.
Print Assumptions C03_unrelated_tasks_irrelevant.
Print Assumptions C03_unrelated_files_untouched.
Print Assumptions C03_all_fresh_rows_match.
Print Assumptions C03_quiet_build.
Print Assumptions C03_repeat_build_executes_nothing.
