(* C05 - Abrupt termination never leaves state that hides outstanding work.

   A killed process has performed a prefix of the effect list of its build (Model/Crash.v:
   each product write, each single-row commit, each logged report).  Proved here: the effect
   list is exactly the build (refinement); within one task no write follows a commit, and rows
   are committed only for SUCCESS (all products exist) and PERSISTENCE (all nodes exist); the
   "unchanged" verdict is sound in EVERY world, in particular in every crashed one; rows of
   other tasks and files outside the footprint are untouched; and, with the history invariant of
   C02: in the world a kill leaves after ANY prefix of the effects of a build that started from
   any world reached by edits and complete builds, a task is reported unchanged only if its
   products are what its function writes from the dependencies as they are
   (C05_crash_unchanged_means_current).  And the recovery build as a whole
   (C05_recovery_leaves_current): after a kill at ANY effect boundary - also in the middle of the
   commits of one task, which leaves that task with rows partly from the killed run and partly
   from the run before - every task the next build reports as executed or unchanged has in each
   product what its function writes from the dependencies as they are when that build ends; by
   C02_current_unique this is the from-scratch result when every task is so reported.  A task whose
   SUCCESS report was among the effects performed before the kill is not started again
   (C05_not_executed_again), and when the recovery build reports every task executed or unchanged
   the build after it starts nothing and changes nothing (C05_quiet_after_recovery).  All of it
   for tasks without the persist marker and with no edit between kill and recovery; the
   crash-injection correspondence (every effect boundary of generated builds) covers the same
   clauses on the real code, persist tasks included; see DESIGN. *)
From Verif Require Import Base.Prelude Base.Graph Model.Sorter Model.Expr Model.Engine Model.Crash.
From Verif Require Import Proofs.EngineTask Proofs.CrashProofs.
From Verif Require Import Proofs.EngineHistory Proofs.EngineQuiet Proofs.CrashSafety Proofs.CrashRecovery.
From Verif Require Import Proofs.CrashNoRerun Proofs.CrashQuiet.
From Verif Require Import Model.EngineRun.

(* applying all effects of a build gives the world the build returns; a process killed after
   at least that many effects leaves exactly that world *)
Theorem C05_effects_refine_build : forall is_word lower body c ts faults pref w,
  apply_effects w (build_effects is_word lower body c ts faults pref w) =
  x_world (build is_word lower body c ts faults pref w).
Proof. exact build_effects_refine. Qed.

Theorem C05_task_effects_refine : forall body c E dyn desel w t f,
  apply_effects w (task_effects body c E dyn desel w t f) = r_world (run_task body c E dyn desel w t f).
Proof. exact task_effects_refine. Qed.

Theorem C05_crash_world_complete : forall is_word lower body c ts faults pref w k,
  (length (build_effects is_word lower body c ts faults pref w) <= k)%nat ->
  crash_world is_word lower body k c ts faults pref w = x_world (build is_word lower body c ts faults pref w).
Proof. exact crash_world_complete. Qed.

(* rows never run ahead of files: once a row of a task has been committed, none of its product
   writes is still outstanding *)
Theorem C05_commits_follow_writes : forall body c E dyn desel w t f pre e post,
  task_effects body c E dyn desel w t f = pre ++ e :: post ->
  is_commit e = true -> forallb (fun x => negb (is_write x)) post = true.
Proof. exact commits_follow_writes. Qed.

(* whatever world the kill leaves: "unchanged" is reported only if every dependency, the source
   and every product exists and equals its recorded row - a torn or missing product, or a row
   that was not yet (re)written, forces re-execution *)
Theorem C05_unchanged_sound_in_every_world : forall body c E dyn desel w t f,
  r_out (run_task body c E dyn desel w t f) = OSkipUnchanged ->
  force c = false /\ forall k, In k (neighbours E t) -> row_matches w t k.
Proof. exact unchanged_sound. Qed.

(* a single effect touches one file or one row *)
Theorem C05_effect_footprint : forall w e,
  match e with
  | EWrite n c => db (apply_effect w e) = db w /\
                  forall k, k <> n -> lookup k (fs (apply_effect w e)) = lookup k (fs w)
  | ECommit t k s => fs (apply_effect w e) = fs w /\
                     forall t' k', (t', k') <> (t, k) ->
                                   dblookup t' k' (db (apply_effect w e)) = dblookup t' k' (db w)
  | EPurge t ks => fs (apply_effect w e) = fs w /\
                   (forall t' k', t' <> t -> dblookup t' k' (db (apply_effect w e)) = dblookup t' k' (db w)) /\
                   (forall k', In k' ks -> dblookup t k' (db (apply_effect w e)) = dblookup t k' (db w))
  | EReport _ _ => apply_effect w e = w
  end.
Proof.
  intros w [n c|t k s|t ks|t o]; simpl; auto.
  - split; auto. intros k Hk. apply lookup_upd_neq. exact Hk.
  - split; auto. intros t' k' H. apply dblookup_dbupd_neq. exact H.
  - split; auto. split.
    + intros t' k' H. apply dbpurge_other. exact H.
    + intros k' H. apply dbpurge_in. exact H.
Qed.

(* the safety half of the property, for every crash point *)
Theorem C05_crash_world_safe : forall is_word lower body defn c ts E desel faults pref k w,
  hreach is_word lower body defn w -> project_ok defn ts ->
  create_dag is_word lower c ts = DagOk E desel -> NoDup (task_ids ts) ->
  (forall t, In t ts -> wf_task t) -> (forall t, In t ts -> m_persist t = false) ->
  (forall i, good_fault (faults i)) ->
  safe body ts E (crash_world is_word lower body k c ts faults pref w).
Proof. exact crash_after_history_safe. Qed.

Theorem C05_crash_unchanged_means_current :
  forall is_word lower body c ts E desel faults pref,
  create_dag is_word lower c ts = DagOk E desel -> NoDup (task_ids ts) ->
  (forall t, In t ts -> wf_task t) -> (forall t, In t ts -> m_persist t = false) ->
  (forall i, good_fault (faults i)) ->
  forall k w c' dyn desel' t f,
  all_sc body ts w -> In t ts ->
  r_out (run_task body c' E dyn desel' (crash_world is_word lower body k c ts faults pref w) t f) = OSkipUnchanged ->
  current body (crash_world is_word lower body k c ts faults pref w) t.
Proof. exact crash_unchanged_means_current. Qed.

(* the shape of a crash world: all rows self-consistent, or exactly one task with torn rows -
   and that task and all its ancestors have completed their functions and are current *)
Theorem C05_crash_world_shape : forall is_word lower body c ts faults pref w E desel s0,
  create_dag is_word lower c ts = DagOk E desel ->
  from_dag (task_ids ts) E (map (fun t => (tid t, tprio t)) ts) = Some s0 ->
  NoDup (task_ids ts) ->
  (forall t, In t ts -> wf_task t) -> (forall t, In t ts -> m_persist t = false) ->
  (forall i, good_fault (faults i)) ->
  all_sc body ts w ->
  forall k, let wc := crash_world is_word lower body k c ts faults pref w in
  all_sc body ts wc \/
  exists tstar, In tstar ts /\
    (forall t, In t ts -> t <> tstar -> SC body wc t) /\
    (forall u, In u ts -> u = tstar \/ Reach E (tid u) (tid tstar) -> current body wc u).
Proof. exact crash_world_shape. Qed.

(* kill anywhere, then build again (no function fails in the recovery build; it may run under
   another configuration as long as the project is accepted with the same graph): what the
   recovery build reports as executed or unchanged is current when it ends *)
Theorem C05_recovery_leaves_current :
  forall is_word lower body defn c0 c1 ts E desel0 desel1 s0 faults pref0 pref1 k w,
  hreach is_word lower body defn w -> project_ok defn ts ->
  create_dag is_word lower c0 ts = DagOk E desel0 ->
  create_dag is_word lower c1 ts = DagOk E desel1 ->
  from_dag (task_ids ts) E (map (fun t => (tid t, tprio t)) ts) = Some s0 ->
  NoDup (task_ids ts) ->
  (forall t, In t ts -> wf_task t) -> (forall t, In t ts -> m_persist t = false) ->
  (forall i, good_fault (faults i)) ->
  let wc := crash_world is_word lower body k c0 ts faults pref0 w in
  let r := build is_word lower body c1 ts nofaults pref1 wc in
  forall t o, In t ts -> In (tid t, o) (x_reports r) -> fresh_outcome o -> current body (x_world r) t.
Proof.
  intros is_word lower body defn c0 c1 ts E desel0 desel1 s0 faults pref0 pref1 k w R PO HD0 HD1 HF ND WF NP GF.
  apply (crash_then_recovery is_word lower body c0 c1 ts E desel0 desel1 s0 faults pref0 pref1 k w); auto.
  intros t T. apply (history_sc is_word lower body defn w t R (PO t T) (NP t T) (WF t T)).
Qed.

(* "Tasks whose completion had already been reported before the kill are not executed again": the
   function of a task whose SUCCESS report is among the first k effects is not started by the recovery
   build (no --force, no function fails, same graph; task ids are not node ids) *)
Theorem C05_not_executed_again :
  forall is_word lower body defn c0 c1 ts E desel0 desel1 s0 faults pref0 pref1 w,
  hreach is_word lower body defn w -> project_ok defn ts ->
  create_dag is_word lower c0 ts = DagOk E desel0 ->
  create_dag is_word lower c1 ts = DagOk E desel1 ->
  from_dag (task_ids ts) E (map (fun t => (tid t, tprio t)) ts) = Some s0 ->
  NoDup (task_ids ts) ->
  (forall t, In t ts -> wf_task t) -> (forall t, In t ts -> m_persist t = false) ->
  (forall i, good_fault (faults i)) ->
  (forall t u, In t ts -> In u ts -> ~ In (tid t) (prods u) /\ ~ In (tid t) (deps u)) ->
  force c1 = false ->
  forall k u, In u ts ->
  In (EReport (tid u) OSuccess) (firstn k (build_effects is_word lower body c0 ts faults pref0 w)) ->
  ~ In (Start (tid u))
       (x_log (build is_word lower body c1 ts nofaults pref1 (crash_world is_word lower body k c0 ts faults pref0 w))).
Proof.
  intros is_word lower body defn c0 c1 ts E desel0 desel1 s0 faults pref0 pref1 w R PO HD0 HD1 HF ND WF NP GF IDS NF.
  apply (no_rerun_after_kill is_word lower body c0 c1 ts E desel0 desel1 s0 faults pref0 pref1 w); auto.
  intros t T. apply (history_sc is_word lower body defn w t R (PO t T) (NP t T) (WF t T)).
Qed.

(* "... and then stays quiet": when the recovery build reports every task as executed or unchanged,
   the build after it (no --force) starts no function, leaves files and database as they are and
   reports every task unchanged or skipped *)
Theorem C05_quiet_after_recovery :
  forall is_word lower body defn c0 c1 c2 ts E desel0 desel1 desel2 s0 faults faults2 pref0 pref1 pref2 k w,
  hreach is_word lower body defn w -> project_ok defn ts ->
  create_dag is_word lower c0 ts = DagOk E desel0 ->
  create_dag is_word lower c1 ts = DagOk E desel1 ->
  create_dag is_word lower c2 ts = DagOk E desel2 ->
  from_dag (task_ids ts) E (map (fun t => (tid t, tprio t)) ts) = Some s0 ->
  NoDup (task_ids ts) ->
  (forall t, In t ts -> wf_task t) -> (forall t, In t ts -> m_persist t = false) ->
  (forall i, good_fault (faults i)) ->
  (forall t u, In t ts -> In u ts -> ~ In (tid t) (prods u) /\ ~ In (tid t) (deps u)) ->
  force c2 = false ->
  let wc := crash_world is_word lower body k c0 ts faults pref0 w in
  let r1 := build is_word lower body c1 ts nofaults pref1 wc in
  (forall t, In t ts -> exists o, In (tid t, o) (x_reports r1) /\ fresh_outcome o) ->
  let r2 := build is_word lower body c2 ts faults2 pref2 (x_world r1) in
  x_log r2 = [] /\ x_world r2 = x_world r1 /\ forall i o, In (i, o) (x_reports r2) -> quiet_outcome o.
Proof.
  intros is_word lower body defn c0 c1 c2 ts E desel0 desel1 desel2 s0 faults faults2 pref0 pref1 pref2 k w
         R PO HD0 HD1 HD2 HF ND WF NP GF IDS NF.
  apply (quiet_after_recovery is_word lower body c0 c1 c2 ts E desel0 desel1 desel2 s0 faults faults2 pref0 pref1 pref2 k w); auto.
  intros t T. apply (history_sc is_word lower body defn w t R (PO t T) (NP t T) (WF t T)).
Qed.

(* a torn crash world exists and the recovery build repairs it: t1 writes 111 from 101, t2 writes
   112 from 111; after a complete build 101 is edited and the next build is killed after 10 effects -
   t2's own row and its row for 111 are from the killed run, its row for 112 from the run before
   (the rows (2,2) (2,111) (2,112) in the second observation); the recovery build reports t1
   unchanged (3) - it had been reported before the kill and is not executed again -, executes t2 (0)
   and ends with all rows and files as the uninterrupted build would have left them; the build after
   it reports both unchanged and performs no effect but the two reports *)
Local Open Scope N_scope.
Example C05_torn_rows_recovered :
  let t1 := mkTask 1 1 [101] [111] [] None false [] false 0%Z [] [] in
  let t2 := mkTask 2 1 [111] [112] [] None false [] false 0%Z [] [] in
  let cfg := mkConfig false false None None None in
  let killed := run_hist [] [] [HSet 101 5; HBuild cfg [t2; t1] [] []; HSet 101 6; HCrash 10 cfg [t2; t1] [] [];
                                HBuild cfg [t2; t1] [] []; HBuild cfg [t2; t1] [] []] in
  let whole := run_hist [] [] [HSet 101 5; HBuild cfg [t2; t1] [] []; HSet 101 6; HBuild cfg [t2; t1] [] []] in
  map (fun o => match o with (x, r, _, _, _, e) => (x, r, length e) end) killed
    = [(0, [(1, 0); (2, 0)], 12%nat); (9, [], 10%nat); (0, [(1, 3); (2, 0)], 7%nat); (0, [(1, 3); (2, 3)], 2%nat)] /\
  map (fun o => match o with (_, _, _, d, f, _) => (d, f) end) (firstn 1 (skipn 2 killed)) =
  map (fun o => match o with (_, _, _, d, f, _) => (d, f) end) (skipn 1 whole).
Proof. vm_compute. split; reflexivity. Qed.
Local Close Scope N_scope.

Print Assumptions C05_crash_world_shape.
Print Assumptions C05_not_executed_again.
Print Assumptions C05_quiet_after_recovery.
Print Assumptions C05_recovery_leaves_current.
Print Assumptions C05_effects_refine_build.
Print Assumptions C05_task_effects_refine.
Print Assumptions C05_crash_world_complete.
Print Assumptions C05_commits_follow_writes.
Print Assumptions C05_unchanged_sound_in_every_world.
Print Assumptions C05_effect_footprint.
Print Assumptions C05_crash_world_safe.
Print Assumptions C05_crash_unchanged_means_current.
