(* C05 - Abrupt termination never leaves state that hides outstanding work.

   A killed process has performed a prefix of the effect list of its build (Model/Crash.v:
   each product write, each single-row commit, each logged report).  Proved here: the effect
   list is exactly the build (refinement); within one task no write follows a commit, and rows
   are committed only for SUCCESS (all products exist) and PERSISTENCE (all nodes exist); the
   "unchanged" verdict is sound in EVERY world, in particular in every crashed one; rows of
   other tasks and files outside the footprint are untouched; and, with the history invariant of
   C02: in the world a kill leaves after ANY prefix of the effects of a build that started from
   any world reached by edits and complete builds, a task is reported unchanged only if its
   products are what its function writes from the dependencies as they are
   (C05_crash_unchanged_means_current).  Convergence of the recovery build and "tasks reported
   before the kill are not executed again" are checked by the crash-injection correspondence
   (every effect boundary of generated builds); see DESIGN. *)
From Verif Require Import Base.Prelude Base.Graph Model.Sorter Model.Expr Model.Engine Model.Crash.
From Verif Require Import Proofs.EngineTask Proofs.CrashProofs.
From Verif Require Import Proofs.EngineHistory Proofs.CrashSafety.

(* applying all effects of a build gives the world the build returns; a process killed after
   at least that many effects leaves exactly that world *)
Theorem C05_effects_refine_build : forall is_word lower body c ts faults pref w,
  apply_effects w (build_effects is_word lower body c ts faults pref w) =
  x_world (build is_word lower body c ts faults pref w).
Proof. exact build_effects_refine. Qed.

Theorem C05_task_effects_refine : forall body c E dyn desel w t f,
  apply_effects w (task_effects body c E dyn desel w t f) = r_world (run_task body c E dyn desel w t f).
Proof. exact task_effects_refine. Qed.

Theorem C05_crash_world_complete : forall is_word lower body c ts faults pref w k,
  (length (build_effects is_word lower body c ts faults pref w) <= k)%nat ->
  crash_world is_word lower body k c ts faults pref w = x_world (build is_word lower body c ts faults pref w).
Proof. exact crash_world_complete. Qed.

(* rows never run ahead of files: once a row of a task has been committed, none of its product
   writes is still outstanding *)
Theorem C05_commits_follow_writes : forall body c E dyn desel w t f pre e post,
  task_effects body c E dyn desel w t f = pre ++ e :: post ->
  is_commit e = true -> forallb (fun x => negb (is_write x)) post = true.
Proof. exact commits_follow_writes. Qed.

(* whatever world the kill leaves: "unchanged" is reported only if every dependency, the source
   and every product exists and equals its recorded row - a torn or missing product, or a row
   that was not yet (re)written, forces re-execution *)
Theorem C05_unchanged_sound_in_every_world : forall body c E dyn desel w t f,
  r_out (run_task body c E dyn desel w t f) = OSkipUnchanged ->
  force c = false /\ forall k, In k (neighbours E t) -> row_matches w t k.
Proof. exact unchanged_sound. Qed.

(* a single effect touches one file or one row *)
Theorem C05_effect_footprint : forall w e,
  match e with
  | EWrite n c => db (apply_effect w e) = db w /\
                  forall k, k <> n -> lookup k (fs (apply_effect w e)) = lookup k (fs w)
  | ECommit t k s => fs (apply_effect w e) = fs w /\
                     forall t' k', (t', k') <> (t, k) ->
                                   dblookup t' k' (db (apply_effect w e)) = dblookup t' k' (db w)
  | EReport _ _ => apply_effect w e = w
  end.
Proof.
  intros w [n c|t k s|t o]; simpl; auto.
  - split; auto. intros k Hk. apply lookup_upd_neq. exact Hk.
  - split; auto. intros t' k' H. apply dblookup_dbupd_neq. exact H.
Qed.

(* the safety half of the property, for every crash point *)
Theorem C05_crash_world_safe : forall is_word lower body defn c ts E desel faults pref k w,
  hreach is_word lower body defn w -> project_ok defn ts ->
  create_dag is_word lower c ts = DagOk E desel -> NoDup (task_ids ts) ->
  (forall t, In t ts -> wf_task t) -> (forall t, In t ts -> m_persist t = false) ->
  (forall i, good_fault (faults i)) ->
  safe body ts E (crash_world is_word lower body k c ts faults pref w).
Proof. exact crash_after_history_safe. Qed.

Theorem C05_crash_unchanged_means_current :
  forall is_word lower body c ts E desel faults pref,
  create_dag is_word lower c ts = DagOk E desel -> NoDup (task_ids ts) ->
  (forall t, In t ts -> wf_task t) -> (forall t, In t ts -> m_persist t = false) ->
  (forall i, good_fault (faults i)) ->
  forall k w c' dyn desel' t f,
  all_sc body ts w -> In t ts ->
  r_out (run_task body c' E dyn desel' (crash_world is_word lower body k c ts faults pref w) t f) = OSkipUnchanged ->
  current body (crash_world is_word lower body k c ts faults pref w) t.
Proof. exact crash_unchanged_means_current. Qed.

Print Assumptions C05_effects_refine_build.
Print Assumptions C05_task_effects_refine.
Print Assumptions C05_crash_world_complete.
Print Assumptions C05_commits_follow_writes.
Print Assumptions C05_unchanged_sound_in_every_world.
Print Assumptions C05_effect_footprint.
Print Assumptions C05_crash_world_safe.
Print Assumptions C05_crash_unchanged_means_current.
