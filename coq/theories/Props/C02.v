(* C02 - An incremental build leaves what a from-scratch build would leave.
   Second sentence of the property (never "unchanged" while something differs from what
   was recorded, or was never recorded) in full; the recording side; the footprint of a
   task. The end-to-end statement over histories is C02_statement (see Proofs/EngineHist). *)
From Verif Require Import Base.Prelude Base.Graph Model.Sorter Model.Expr Model.Engine Model.EngineRun.
From Verif Require Import Proofs.GraphProofs Proofs.SorterProofs Proofs.EngineTask Proofs.EngineLoop
     Proofs.EngineBuild Proofs.EngineDag Proofs.EngineRefute.

(* "unchanged" is reported only if every dependency, the task source and every product
   exists and equals its recorded row - and the row exists *)
Theorem C02_never_unchanged_if_differs : forall body c E dyn desel w t f,
  r_out (run_task body c E dyn desel w t f) = OSkipUnchanged ->
  force c = false /\ forall k, In k (neighbours E t) -> row_matches w t k.
Proof. exact unchanged_sound. Qed.

(* rows are written only on SUCCESS and PERSISTENCE ... *)
Theorem C02_rows_only_on_success_or_persist : forall body c E dyn desel w t f,
  let r := run_task body c E dyn desel w t f in
  r_out r <> OSuccess -> r_out r <> OPersist -> db (r_world r) = db w.
Proof. exact db_changes_only_on_success_or_persist. Qed.

(* ... and a SUCCESS records, for every neighbour, the state it has right after the run *)
Theorem C02_success_records_current_states : forall body c E dyn desel w t f,
  let r := run_task body c E dyn desel w t f in
  r_out r = OSuccess ->
  r_events r = [Start (tid t); Finish (tid t)] /\
  prods_exist (r_world r) t = true /\ deps_exist w t = true /\
  exists w1, run_body body w t f = (w1, false) /\ r_world r = record_states E w1 t.
Proof. exact success_spec. Qed.

Theorem C02_recorded_rows_match : forall E w t,
  (forall k, In k (neighbours E t) -> state_of w t k <> None) ->
  forall k, In k (neighbours E t) -> row_matches (record_states E w t) t k.
Proof. exact recorded_rows_match. Qed.

(* what an undisturbed run writes is the body applied to the current dependencies *)
Theorem C02_run_writes_body : forall body w t p,
  deps_exist w t = true -> In p (prods t) ->
  snd (run_body body w t NoFault) = false /\
  lookup p (fs (fst (run_body body w t NoFault))) = Some (body (tid t) (tsrc t) (dep_values w t) p).
Proof. exact run_body_nofault. Qed.

(* a task touches nothing but its declared products, and rows of no other task *)
Theorem C02_footprint : forall body c E dyn desel w t f k,
  ~ In k (prods t) -> lookup k (fs (r_world (run_task body c E dyn desel w t f))) = lookup k (fs w).
Proof. exact task_footprint. Qed.

Theorem C02_rows_of_others : forall body c E dyn desel w t f t' k,
  t' <> tid t -> dblookup t' k (db (r_world (run_task body c E dyn desel w t f))) = dblookup t' k (db w).
Proof. exact other_rows_untouched. Qed.

Print Assumptions C02_never_unchanged_if_differs.
Print Assumptions C02_rows_only_on_success_or_persist.
Print Assumptions C02_success_records_current_states.
Print Assumptions C02_recorded_rows_match.
Print Assumptions C02_run_writes_body.
Print Assumptions C02_footprint.
Print Assumptions C02_rows_of_others.
