(* C02 - An incremental build leaves what a from-scratch build would leave.
   Second sentence of the property (never "unchanged" while something differs from what
   was recorded, or was never recorded) in full; the recording side; the footprint of a
   task. The end-to-end statements over histories and whole builds are at the end of this file
   (Proofs/EngineHistory.v). *)
From Verif Require Import Base.Prelude Base.Graph Model.Sorter Model.Expr Model.Engine Model.EngineRun.
From Verif Require Import Proofs.GraphProofs Proofs.SorterProofs Proofs.EngineTask Proofs.EngineLoop
     Proofs.EngineBuild Proofs.EngineDag Proofs.EngineRefute Proofs.EngineHistory.

(* "unchanged" is reported only if every dependency, the task source and every product
   exists and equals its recorded row - and the row exists *)
Theorem C02_never_unchanged_if_differs : forall body c E dyn desel w t f,
  r_out (run_task body c E dyn desel w t f) = OSkipUnchanged ->
  force c = false /\ forall k, In k (neighbours E t) -> row_matches w t k.
Proof. exact unchanged_sound. Qed.

(* rows are written only on SUCCESS and PERSISTENCE ... *)
Theorem C02_rows_only_on_success_or_persist : forall body c E dyn desel w t f,
  let r := run_task body c E dyn desel w t f in
  r_out r <> OSuccess -> r_out r <> OPersist -> db (r_world r) = db w.
Proof. exact db_changes_only_on_success_or_persist. Qed.

(* ... and a SUCCESS records, for every neighbour, the state it has right after the run *)
Theorem C02_success_records_current_states : forall body c E dyn desel w t f,
  let r := run_task body c E dyn desel w t f in
  r_out r = OSuccess ->
  r_events r = [Start (tid t); Finish (tid t)] /\
  prods_exist (r_world r) t = true /\ deps_exist w t = true /\
  exists w1, run_body body w t f = (w1, false) /\ r_world r = record_states E w1 t.
Proof. exact success_spec. Qed.

Theorem C02_recorded_rows_match : forall E w t,
  (forall k, In k (neighbours E t) -> state_of w t k <> None) ->
  forall k, In k (neighbours E t) -> row_matches (record_states E w t) t k.
Proof. exact recorded_rows_match. Qed.

(* what an undisturbed run writes is the body applied to the current dependencies *)
Theorem C02_run_writes_body : forall body w t p,
  deps_exist w t = true -> In p (prods t) ->
  snd (run_body body w t NoFault) = false /\
  lookup p (fs (fst (run_body body w t NoFault))) = Some (body (tid t) (tsrc t) (dep_values w t) p).
Proof. exact run_body_nofault. Qed.

(* a task touches nothing but its declared products, and rows of no other task *)
Theorem C02_footprint : forall body c E dyn desel w t f k,
  ~ In k (prods t) -> lookup k (fs (r_world (run_task body c E dyn desel w t f))) = lookup k (fs w).
Proof. exact task_footprint. Qed.

Theorem C02_rows_of_others : forall body c E dyn desel w t f t' k,
  t' <> tid t -> dblookup t' k (db (r_world (run_task body c E dyn desel w t f))) = dblookup t' k (db w).
Proof. exact other_rows_untouched. Qed.

(* ---------------------------------------------------------------- histories
   [hreach defn w]: w is reached from the empty world by ANY finite history of file edits
   (set, delete) and builds with arbitrary options, selections, task subsets of a catalogue
   [defn] of task definitions, schedules, and task functions that raise or complete (a function
   that returns without writing a product it declares is outside the claim, as are persist
   tasks).  After any such history the rows of every task describe one run of its function. *)
Theorem C02_rows_self_consistent_after_any_history : forall is_word lower body defn w t0,
  hreach is_word lower body defn w -> defn (tid t0) = Some t0 -> m_persist t0 = false -> wf_task t0 ->
  SC body w t0.
Proof. exact history_sc. Qed.

(* the property's "equivalently": in a world reached by any history, a task that is reported
   unchanged has all its dependencies, and each of its products holds exactly what its function
   writes from the dependencies as they are now - what a from-scratch run of it would leave *)
Theorem C02_unchanged_means_up_to_date : forall is_word lower body defn w c E dyn desel t f,
  hreach is_word lower body defn w -> defn (tid t) = Some t -> m_persist t = false -> wf_task t ->
  covers_decl E t ->
  r_out (run_task body c E dyn desel w t f) = OSkipUnchanged ->
  deps_exist w t = true /\
  forall p, In p (prods t) -> lookup p (fs w) = Some (body (tid t) (tsrc t) (dep_values w t) p).
Proof. exact unchanged_means_up_to_date. Qed.

(* the first sentence, per task: in the world ANY build leaves behind - whatever its options,
   failures elsewhere, early stop - every task it reported as executed or as unchanged is
   current: products = function(dependencies as they are at the end).  On a DAG with unique
   producers these local equations have exactly one solution given the source files: the
   from-scratch contents. *)
Theorem C02_build_leaves_current :
  forall is_word lower body c ts faults pref w E desel s0,
  create_dag is_word lower c ts = DagOk E desel ->
  from_dag (task_ids ts) E (map (fun t => (tid t, tprio t)) ts) = Some s0 ->
  NoDup (task_ids ts) ->
  (forall t, In t ts -> wf_task t) -> (forall t, In t ts -> m_persist t = false) ->
  (forall i, good_fault (faults i)) -> (forall t, In t ts -> SC body w t) ->
  forall t o, In t ts -> In (tid t, o) (x_reports (build is_word lower body c ts faults pref w)) ->
  fresh_outcome o ->
  current body (x_world (build is_word lower body c ts faults pref w)) t.
Proof. exact build_leaves_current. Qed.

Theorem C02_build_preserves_self_consistency : forall is_word lower body c ts faults pref w t0,
  (forall t, In t ts -> tid t = tid t0 -> t = t0) -> m_persist t0 = false -> wf_task t0 ->
  (forall i, good_fault (faults i)) ->
  SC body w t0 -> SC body (x_world (build is_word lower body c ts faults pref w)) t0.
Proof. exact build_preserves_sc. Qed.

(* ... and that solution is unique: two worlds agreeing on the nodes no task produces, in both
   of which every task is current, agree on every product - in particular the world a
   successful build leaves and the world a from-scratch build of the same project leaves *)
Theorem C02_current_unique : forall body l v1 v2,
  topo l ->
  (forall k, (forall u, In u l -> ~ In k (prods u)) -> lookup k (fs v1) = lookup k (fs v2)) ->
  (forall t, In t l -> current body v1 t /\ current body v2 t) ->
  forall t p, In t l -> In p (prods t) -> lookup p (fs v1) = lookup p (fs v2).
Proof. exact current_unique. Qed.

(* F28 (repaired): when the states of a task are recorded, its rows for nodes that are no longer
   its neighbours are deleted - a dependency that left the task and comes back later finds no row *)
Theorem C02_rows_only_for_current_neighbours : forall E w t k,
  ~ In k (neighbours E t) -> dblookup (tid t) k (db (record_states E w t)) = None.
Proof. exact record_states_notin. Qed.

(* the history the defect was found on: t1 reads 101 and 102, then (same source) only 101, then both
   again with 102 as it was: the third build executes t1 (outcome 0), it used to report it unchanged *)
Local Open Scope N_scope.
Example C02_departed_dependency_regression :
  let t1 := fun ds => mkTask 1 1 ds [111] [] None false [] false 0%Z [] [] in
  let cfg := mkConfig false false None None None in
  map (fun o => match o with (x, r, _, _, _, _) => (x, r) end)
      (run_hist [] [] [HSet 101 5; HSet 102 7; HBuild cfg [t1 [101; 102]] [] [];
                       HSet 101 6; HBuild cfg [t1 [101]] [] []; HBuild cfg [t1 [101; 102]] [] [];
                       HBuild cfg [t1 [101; 102]] [] []])
  = [(0, [(1, 0)]); (0, [(1, 0)]); (0, [(1, 0)]); (0, [(1, 3)])].
Proof. vm_compute. reflexivity. Qed.
Local Close Scope N_scope.

Print Assumptions C02_rows_only_for_current_neighbours.
Print Assumptions C02_never_unchanged_if_differs.
Print Assumptions C02_rows_only_on_success_or_persist.
Print Assumptions C02_success_records_current_states.
Print Assumptions C02_recorded_rows_match.
Print Assumptions C02_run_writes_body.
Print Assumptions C02_footprint.
Print Assumptions C02_rows_of_others.
Print Assumptions C02_rows_self_consistent_after_any_history.
Print Assumptions C02_unchanged_means_up_to_date.
Print Assumptions C02_build_leaves_current.
Print Assumptions C02_build_preserves_self_consistency.
Print Assumptions C02_current_unique.
