(* C12 - Change detection sees content and identity only and separates different content.
   sha256/md5 hexdigests and str.encode are parameters assumed injective (and sha digests
   64 characters wide); hash(float) is a parameter. *)
From Verif Require Import Base.Prelude Model.Hashing Proofs.HashingProofs.

Section C12.
  Variable sha_hex : list N -> list N.
  Variable utf8 : list N -> list N.
  Variable fhash : N -> Z.
  Variable md5_hex : list N -> list N.
  Hypothesis sha_inj : forall a b, sha_hex a = sha_hex b -> a = b.
  Hypothesis sha_len : forall a, length (sha_hex a) = 64.
  Hypothesis utf8_inj : forall a b, utf8 a = utf8 b -> a = b.
  Hypothesis md5_inj : forall a b, md5_hex a = md5_hex b -> a = b.
  Notation hv := (hash_value sha_hex utf8 fhash).

  (* strings, paths, bytes: different values, different states; the function consults no
     interpreter-specific (salted) hash for them *)
  Theorem C12_str_separates : forall a b, hv (VStr a) = hv (VStr b) -> a = b.
  Proof. apply str_separates; assumption. Qed.
  Theorem C12_path_separates : forall a b, hv (VPath a) = hv (VPath b) -> a = b.
  Proof. apply path_separates; assumption. Qed.
  Theorem C12_bytes_separates : forall a b, hv (VBytes a) = hv (VBytes b) -> a = b.
  Proof. apply bytes_separates; assumption. Qed.
  Theorem C12_int_separates_as_hash : forall a b,
    hv (VInt a) = hv (VInt b) <-> py_hash_int a = py_hash_int b.
  Proof. apply int_separates_as_hash; assumption. Qed.

  (* sequences of digest-hashed elements are separated elementwise ... *)
  Theorem C12_seq_fixed_width_injective : forall l1 l2,
    forallb digestlike l1 = true -> forallb digestlike l2 = true ->
    hv (VTuple l1) = hv (VTuple l2) ->
    map (fun x => str_of (hv x)) l1 = map (fun x => str_of (hv x)) l2.
  Proof. apply seq_fixed_width_injective; assumption. Qed.

  (* ... but not in general (F4): the concatenation is undelimited *)
  Theorem C12_seq_refuted :
    hv (VTuple [VInt 1; VInt 23]) = hv (VTuple [VInt 12; VInt 3]) /\
    hv (VTuple [VNone]) = hv (VTuple [VInt 4238894112]).
  Proof. split; [apply seq_collision_ints | apply seq_collision_none]. Qed.

  (* F18: str / path / bytes with one encoding, and empty sequence / empty bytes *)
  Theorem C12_kind_confusion_refuted : forall s,
    hv (VTuple [VStr s]) = hv (VTuple [VPath s]) /\
    hv (VTuple [VStr s]) = hv (VTuple [VBytes (utf8 s)]) /\
    (utf8 [] = [] -> hv (VTuple [VTuple []]) = hv (VTuple [VBytes []])).
  Proof. apply kind_confusion_refuted. Qed.

  (* the state of a file is the digest of its bytes - under mtime-honesty *)
  Theorem C12_file_state_content_only_partial : forall prefix c path mtime content,
    honest sha_hex utf8 fhash md5_hex prefix c path mtime content ->
    fst (file_state sha_hex utf8 fhash md5_hex prefix c path mtime content) = sha_hex content.
  Proof. apply file_state_content_only; assumption. Qed.

  Theorem C12_file_state_separates_partial : forall prefix c1 c2 p1 p2 m1 m2 x1 x2,
    honest sha_hex utf8 fhash md5_hex prefix c1 p1 m1 x1 ->
    honest sha_hex utf8 fhash md5_hex prefix c2 p2 m2 x2 ->
    fst (file_state sha_hex utf8 fhash md5_hex prefix c1 p1 m1 x1) =
    fst (file_state sha_hex utf8 fhash md5_hex prefix c2 p2 m2 x2) -> x1 = x2.
  Proof. apply file_state_separates; assumption. Qed.

  (* F5: same path, same mtime, other bytes: the memoised digest is returned *)
  Theorem C12_file_state_same_mtime_refuted : forall prefix path mtime x1 x2,
    x1 <> x2 ->
    let c1 := snd (file_state sha_hex utf8 fhash md5_hex prefix [] path mtime x1) in
    fst (file_state sha_hex utf8 fhash md5_hex prefix c1 path mtime x2) = sha_hex x1 /\
    sha_hex x1 <> sha_hex x2.
  Proof. apply file_state_same_mtime_refuted; assumption. Qed.

  Theorem C12_memo_key_injective : forall prefix p1 m1 p2 m2,
    memo_key sha_hex utf8 fhash md5_hex prefix p1 m1 = memo_key sha_hex utf8 fhash md5_hex prefix p2 m2 ->
    p1 = p2 /\ dec (fhash m1) = dec (fhash m2).
  Proof. apply memo_key_injective; assumption. Qed.

  (* identity of nodes *)
  Theorem C12_sig_path_node_iff : forall a b,
    sig_path_node sha_hex utf8 fhash a = sig_path_node sha_hex utf8 fhash b <-> a = b.
  Proof. apply sig_path_node_iff; assumption. Qed.

  Theorem C12_sig_task_iff : forall b1 p1 b2 p2,
    sig_task sha_hex utf8 fhash b1 p1 = sig_task sha_hex utf8 fhash b2 p2 <-> b1 = b2 /\ p1 = p2.
  Proof. apply sig_task_iff; assumption. Qed.

  Theorem C12_sig_directory_node_iff : forall r1 q1 r2 q2,
    sig_directory_node sha_hex utf8 fhash (Some r1) q1 = sig_directory_node sha_hex utf8 fhash (Some r2) q2
    <-> r1 = r2 /\ q1 = q2.
  Proof. apply sig_directory_node_iff; assumption. Qed.

  Theorem C12_sig_python_node_str_positions : forall arg1 k1 tn1 tp1 arg2 k2 tn2 tp2,
    sig_python_node sha_hex utf8 fhash arg1 [VStr k1] tn1 tp1 =
    sig_python_node sha_hex utf8 fhash arg2 [VStr k2] tn2 tp2 ->
    arg1 = arg2 /\ k1 = k2 /\ tn1 = tn2 /\ tp1 = tp2.
  Proof. apply sig_python_node_str_positions; assumption. Qed.

  Theorem C12_sig_python_node_refuted : forall arg tn tp,
    sig_python_node sha_hex utf8 fhash arg [VInt 1; VInt 23] tn tp =
    sig_python_node sha_hex utf8 fhash arg [VInt 12; VInt 3] tn tp.
  Proof. apply sig_python_node_refuted; assumption. Qed.

  Theorem C12_sig_path_vs_task : forall a b p,
    (forall x y : list N, length x <> length y -> utf8 x <> utf8 y) ->
    sig_path_node sha_hex utf8 fhash a <> sig_task sha_hex utf8 fhash b p.
  Proof. apply sig_path_vs_task; assumption. Qed.
  (* two path declarations - relative to their task module or absolute, through an explicit
     node or a plain path, spelled with "." and ".." anywhere - denote the same graph node iff
     they name the same file after joining and lexical normalisation (F17/F21 were the
     exceptions: absolute spellings of explicit nodes) *)
  Theorem C12_collected_same_node_iff : forall d1 p1 d2 p2,
    sig_path_node sha_hex utf8 fhash (collected_path d1 p1) = sig_path_node sha_hex utf8 fhash (collected_path d2 p2)
    <-> collected_path d1 p1 = collected_path d2 p2.
  Proof. intros. apply sig_path_node_iff; assumption. Qed.
End C12.

Example C12_collected_path_examples :
  (* "/R/src" + "../bld/x.txt"  and  "/R/sub/../bld/./x.txt"  are both "/R/bld/x.txt" *)
  collected_path [47; 82; 47; 115; 114; 99]%N [46; 46; 47; 98; 108; 100; 47; 120; 46; 116; 120; 116]%N = [47; 82; 47; 98; 108; 100; 47; 120; 46; 116; 120; 116]%N /\
  collected_path [47; 82; 47; 115; 114; 99]%N [47; 82; 47; 115; 117; 98; 47; 46; 46; 47; 98; 108; 100; 47; 46; 47; 120; 46; 116; 120; 116]%N = [47; 82; 47; 98; 108; 100; 47; 120; 46; 116; 120; 116]%N.
Proof. vm_compute. split; reflexivity. Qed.

Theorem C12_normpath_idempotent : forall cs, normpath (normpath cs) = normpath cs.
Proof. exact normpath_idempotent. Qed.

Print Assumptions C12_str_separates.
Print Assumptions C12_path_separates.
Print Assumptions C12_bytes_separates.
Print Assumptions C12_int_separates_as_hash.
Print Assumptions C12_seq_fixed_width_injective.
Print Assumptions C12_seq_refuted.
Print Assumptions C12_kind_confusion_refuted.
Print Assumptions C12_file_state_content_only_partial.
Print Assumptions C12_file_state_separates_partial.
Print Assumptions C12_file_state_same_mtime_refuted.
Print Assumptions C12_memo_key_injective.
Print Assumptions C12_sig_path_node_iff.
Print Assumptions C12_sig_task_iff.
Print Assumptions C12_sig_directory_node_iff.
Print Assumptions C12_sig_python_node_str_positions.
Print Assumptions C12_sig_python_node_refuted.
Print Assumptions C12_sig_path_vs_task.
Print Assumptions C12_normpath_idempotent.
Print Assumptions C12_collected_same_node_iff.
