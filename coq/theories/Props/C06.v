(* C06 - Skip markers and -k/-m selections decide exactly which tasks may run. *)
From Verif Require Import Base.Prelude Base.Graph Model.Sorter Model.Expr Model.Engine Model.EngineRun.
From Verif Require Import Proofs.GraphProofs Proofs.SorterProofs Proofs.EngineTask Proofs.EngineLoop
     Proofs.EngineBuild Proofs.EngineDag Proofs.EngineRefute.

Section Engine.
  Variable is_word : N -> bool.
  Variable lower : list N -> list N.
  Variable body : N -> N -> list N -> N -> N.
  Variable c : config.
  Variable ts : list task.
  Variable faults : N -> fault.
  Variable pref : list N.          (* tie-breaking oracle: any *)
  Variable w : world.
  Variable E : list edge.
  Variable desel : list N.
  Variable s0 : sorter.
  Hypothesis accepted : create_dag is_word lower c ts = DagOk E desel.
  Hypothesis scheduled : from_dag (task_ids ts) E (prio_list ts) = Some s0.
  Hypothesis ids : NoDup (task_ids ts).
  Let r := build is_word lower body c ts faults pref w.
  Notation ARGS := (is_word) (only parsing).

  (* a task skipped by marker, true skipif or deselection, and everything depending on it,
     is reported SKIP - in particular it does not fail *)
  Theorem C06_skip_closed : forall t,
    In t ts -> static_skip desel t = true ->
    (forall o, In (tid t, o) (x_reports r) -> o = OSkip) /\
    (forall d o, In d (task_ids ts) -> Reach E (tid t) d -> In (d, o) (x_reports r) -> o = OSkip).
  Proof. exact (skip_closed is_word lower body c ts faults pref w E desel s0 accepted scheduled ids). Qed.

  (* and SKIP means: not started *)
  Theorem C06_skipped_not_started : forall t, In (t, OSkip) (x_reports r) -> ~ In (Start t) (x_log r).
  Proof. exact (skipped_not_started is_word lower body c ts faults pref w E desel s0 accepted scheduled ids). Qed.

  (* a deselected task is never started - whatever force, dry-run or its state say *)
  Theorem C06_deselected_never_started : forall t,
    In t ts -> memN (tid t) desel = true -> ~ In (Start (tid t)) (x_log r).
  Proof. exact (deselected_never_started is_word lower body c ts faults pref w E desel s0 accepted scheduled ids). Qed.

  (* deselected = outside "matching tasks and their transitive predecessors" of -k, or of -m *)
  Theorem C06_selection_exact : forall i,
    In i desel ->
    In i (task_ids ts) /\
    ((exists e a, kexpr c = Some e /\ e <> [] /\ compile is_word e = Ok a /\
                  ~ In i (remaining ts E (fun t => eval (kw_match lower (tnames t)) a))) \/
     (exists e a, mexpr c = Some e /\ e <> [] /\ compile is_word e = Ok a /\
                  ~ In i (remaining ts E (fun t => eval (mark_match (tmarks t)) a)))).
  Proof. intros i. exact (deselected_spec is_word lower c ts E desel i accepted). Qed.
End Engine.

(* a false skipif is neutral, a true one skips: both are the first two tests of the protocol *)
Theorem C06_skip_spec : forall body c E dyn desel w t f,
  skipflag t dyn desel = true \/ existsb (fun b => b) (m_skipif t) = true ->
  run_task body c E dyn desel w t f = mkTres OSkip w [].
Proof. exact skip_spec. Qed.

(* F1 again: an 'after' target without products is not a predecessor, so -k on the
   dependant deselects it (false of the unchanged code) *)
Theorem C06_after_selection_refuted :
  x_reports (wbuild (mkConfig false false None (Some [116; 50]%N) None) f1k_tasks
                    (fun _ => NoFault) [1; 2]%N (mkWorld [] [])) = [(1, OSkip); (2, OSuccess)]%N.
Proof. exact f1_selection_drops_after_target. Qed.

Print Assumptions C06_skip_closed.
Print Assumptions C06_skipped_not_started.
Print Assumptions C06_deselected_never_started.
Print Assumptions C06_selection_exact.
Print Assumptions C06_skip_spec.
Print Assumptions C06_after_selection_refuted.
