(* pluggy's ordering of hook implementations (HookCaller._add_hookimpl) and the order in
   which they are called. *)
From Verif Require Import Base.Prelude.

Record impl := mkImpl { i_plugin : nat; i_tryfirst : bool; i_trylast : bool; i_wrapper : bool }.

Fixpoint splitpoint (l : list impl) : nat :=
  match l with
  | [] => O
  | x :: r => if i_wrapper x then O else S (splitpoint r)
  end.

Fixpoint insert_at {A} (n : nat) (x : A) (l : list A) : list A :=
  match n, l with
  | O, _ => x :: l
  | S k, y :: r => y :: insert_at k x r
  | S _, [] => [x]
  end.

(* number of trailing tryfirst methods in l[start:stop] is skipped: position after the last
   non-tryfirst method in that slice *)
Fixpoint last_non_tryfirst (l : list impl) (start stop : nat) (pos : nat) (best : nat) : nat :=
  match l with
  | [] => best
  | x :: r =>
    let best' := if (Nat.leb start pos && Nat.ltb pos stop && negb (i_tryfirst x))%bool then S pos else best in
    last_non_tryfirst r start stop (S pos) best'
  end.

Definition add_impl (l : list impl) (h : impl) : list impl :=
  let sp := splitpoint l in
  let '(start, stop) := if i_wrapper h then (sp, length l) else (O, sp) in
  if i_trylast h then insert_at start h l
  else if i_tryfirst h then insert_at stop h l
  else insert_at (last_non_tryfirst l start stop O start) h l.

(* implementations in registration order -> call order (wrappers first) *)
Definition call_order (hs : list impl) : list impl := rev (fold_left add_impl hs []).

Definition nonwrapper_plugins (hs : list impl) : list nat :=
  map i_plugin (filter (fun h => negb (i_wrapper h)) (call_order hs)).

Definition impls_of_hook (table : list (nat * nat * bool * bool * bool)) (hook : nat) : list impl :=
  map (fun r => match r with (_, p, a, b, c) => mkImpl p a b c end)
      (filter (fun r => match r with (h, _, _, _, _) => Nat.eqb h hook end) table).
