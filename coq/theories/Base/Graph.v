(* Finite directed graphs over N: executable reachability (the stand-in for
   networkx ancestors/descendants/find_cycle) and its inductive specification. *)
From Verif Require Import Base.Prelude.

Definition edge := (N * N)%type.

Definition succs (E : list edge) (u : N) : list N :=
  map snd (filter (fun e => N.eqb (fst e) u) E).

Definition preds (E : list edge) (v : N) : list N :=
  map fst (filter (fun e => N.eqb (snd e) v) E).

Fixpoint dedupN (seen : list N) (l : list N) : list N :=
  match l with
  | [] => []
  | x :: r => if memN x seen then dedupN seen r else x :: dedupN (x :: seen) r
  end.

(* breadth-first closure; [visited] are the nodes reached by >= 1 edge so far *)
Fixpoint bfs (fuel : nat) (E : list edge) (frontier visited : list N) : list N :=
  match fuel with
  | O => visited
  | S f =>
    match dedupN visited (flat_map (succs E) frontier) with
    | [] => visited
    | new => bfs f E new (visited ++ new)
    end
  end.

Definition vertices (E : list edge) : list N := dedupN [] (map fst E ++ map snd E).

(* nodes reachable from u by a path of length >= 1 *)
Definition descendants (E : list edge) (u : N) : list N :=
  bfs (S (length (vertices E))) E [u] [].

Definition flip (E : list edge) : list edge := map (fun e => (snd e, fst e)) E.

Definition ancestors (E : list edge) (v : N) : list N := descendants (flip E) v.

Definition reachb (E : list edge) (u v : N) : bool := memN v (descendants E u).

Definition has_cycle (E : list edge) : bool :=
  existsb (fun v => reachb E v v) (vertices E).

(* specification *)
Inductive Reach (E : list edge) : N -> N -> Prop :=
| R1 u v : In (u, v) E -> Reach E u v
| RS u w v : In (u, w) E -> Reach E w v -> Reach E u v.

Lemma Reach_trans E u w v : Reach E u w -> Reach E w v -> Reach E u v.
Proof.
  induction 1 as [u w H|u x w H _ IH]; intros H2.
  - eapply RS; eauto.
  - eapply RS; eauto.
Qed.

Lemma Reach_snoc E u w v : Reach E u w -> In (w, v) E -> Reach E u v.
Proof. intros H1 H2. eapply Reach_trans; eauto. apply R1; auto. Qed.

Lemma succs_In E u v : In v (succs E u) <-> In (u, v) E.
Proof.
  unfold succs. rewrite in_map_iff. split.
  - intros [[a b] [Hb Hf]]. apply filter_In in Hf. destruct Hf as [Hi He].
    simpl in *. apply N.eqb_eq in He. subst. exact Hi.
  - intros H. exists (u, v). split; auto. apply filter_In. split; auto.
    simpl. apply N.eqb_refl.
Qed.

Lemma dedupN_In seen l x : In x (dedupN seen l) -> In x l /\ ~ In x seen.
Proof.
  revert seen; induction l as [|y r IH]; intros seen H; simpl in *; [tauto|].
  destruct (memN y seen) eqn:E.
  - apply IH in H. tauto.
  - destruct H as [->|H].
    + split; auto. apply memN_false_In. exact E.
    + apply IH in H. destruct H as [H1 H2]. split; auto.
      intros C. apply H2. right. exact C.
Qed.

(* soundness of the executable closure: everything it returns is reachable *)
Lemma bfs_sound E u fuel : forall frontier visited,
  (forall x, In x frontier -> x = u \/ Reach E u x) ->
  (forall x, In x visited -> Reach E u x) ->
  forall x, In x (bfs fuel E frontier visited) -> Reach E u x.
Proof.
  induction fuel as [|f IH]; intros frontier visited HF HV x Hx; simpl in Hx; auto.
  destruct (dedupN visited (flat_map (succs E) frontier)) as [|n new] eqn:EN; auto.
  assert (HN : forall y, In y (n :: new) -> Reach E u y).
  { intros y Hy. rewrite <- EN in Hy. apply dedupN_In in Hy. destruct Hy as [Hy _].
    apply in_flat_map in Hy. destruct Hy as [w [Hw Hs]]. apply succs_In in Hs.
    destruct (HF w Hw) as [->|R]; [apply R1; auto | eapply Reach_snoc; eauto]. }
  eapply IH; [| |exact Hx].
  - intros y Hy. right. auto.
  - intros y Hy. apply in_app_or in Hy. destruct Hy; auto.
Qed.

Theorem reachb_sound E u v : reachb E u v = true -> Reach E u v.
Proof.
  unfold reachb, descendants. intros H. apply memN_In in H.
  eapply bfs_sound; [| |exact H].
  - intros x [<-|[]]. left; reflexivity.
  - intros x [].
Qed.
