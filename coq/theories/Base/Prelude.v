(* Shared imports, notations and small list lemmas. Stdlib only. *)
From Coq Require Export List Arith NArith ZArith Bool Lia.
Export ListNotations.

(* membership on N lists *)
Fixpoint memN (x : N) (l : list N) : bool :=
  match l with
  | [] => false
  | y :: r => if N.eqb x y then true else memN x r
  end.

Lemma memN_In x l : memN x l = true <-> In x l.
Proof.
  induction l as [|y r IH]; simpl.
  - split; [discriminate | tauto].
  - destruct (N.eqb_spec x y) as [E|E].
    + subst. split; auto.
    + rewrite IH. split; [auto | intros [H|H]; [congruence | exact H]].
Qed.

Lemma memN_false_In x l : memN x l = false <-> ~ In x l.
Proof.
  rewrite <- memN_In. destruct (memN x l); split; congruence.
Qed.

(* equality on lists of N (strings are lists of code points) *)
Fixpoint eqbL (a b : list N) : bool :=
  match a, b with
  | [], [] => true
  | x :: a', y :: b' => N.eqb x y && eqbL a' b'
  | _, _ => false
  end.

Lemma eqbL_spec a b : eqbL a b = true <-> a = b.
Proof.
  revert b; induction a as [|x a IH]; intros [|y b]; simpl; try (split; [discriminate|discriminate]).
  - split; auto.
  - rewrite andb_true_iff, N.eqb_eq, IH. split.
    + intros [-> ->]; reflexivity.
    + intros H; inversion H; auto.
Qed.

Lemma eqbL_refl a : eqbL a a = true.
Proof. apply eqbL_spec; reflexivity. Qed.

Fixpoint memL (x : list N) (l : list (list N)) : bool :=
  match l with
  | [] => false
  | y :: r => if eqbL x y then true else memL x r
  end.

Lemma memL_In x l : memL x l = true <-> In x l.
Proof.
  induction l as [|y r IH]; simpl.
  - split; [discriminate | tauto].
  - destruct (eqbL x y) eqn:E.
    + apply eqbL_spec in E; subst. split; auto.
    + rewrite IH. split; [auto|]. intros [H|H]; [|exact H].
      subst. rewrite eqbL_refl in E. discriminate.
Qed.
