(* Build-level theorems: the consequences of the loop invariants for the value
   returned by Engine.build. *)
From Verif Require Import Base.Prelude Base.Graph Model.Sorter Model.Expr Model.Engine.
From Verif Require Import Proofs.GraphProofs Proofs.SorterProofs Proofs.EngineTask Proofs.EngineLoop.

Section B.
  Variable is_word : N -> bool.
  Variable lower : list N -> list N.
  Variable body : N -> N -> list N -> N -> N.

  Notation buildf := (build is_word lower body).
  Notation cdag := (create_dag is_word lower).

  Definition prio_list (ts : list task) := map (fun t => (tid t, tprio t)) ts.

  (* the three ways a build can go *)
  Inductive build_shape (c : config) (ts : list task) (faults : N -> fault) (pref : list N) (w : world)
    : bres -> Prop :=
  | BS_dag : cdag c ts = DagErr -> build_shape c ts faults pref w (mkRes XDag w [] [])
  | BS_sorter E desel : cdag c ts = DagOk E desel ->
      from_dag (task_ids ts) E (prio_list ts) = None ->
      build_shape c ts faults pref w (mkRes XFailed w [] [])
  | BS_run E desel s0 b : cdag c ts = DagOk E desel ->
      from_dag (task_ids ts) E (prio_list ts) = Some s0 ->
      b = loop body (length ts) c ts E desel faults pref (mkB w [] [] [] 0 s0) ->
      build_shape c ts faults pref w
        (mkRes (if any_fail (b_reports b) then XFailed else XOk) (b_world b)
               (rev (b_reports b)) (rev (b_log b))).

  Lemma build_shape_of c ts faults pref w : build_shape c ts faults pref w (buildf c ts faults pref w).
  Proof.
    unfold build. destruct (cdag c ts) as [|E desel] eqn:D.
    - apply BS_dag; auto.
    - fold (prio_list ts). destruct (from_dag (task_ids ts) E (prio_list ts)) as [s0|] eqn:F.
      + eapply BS_run; eauto.
      + eapply BS_sorter; eauto.
  Qed.

  (* C09 / C08: nothing runs and nothing is recorded unless the graph was accepted *)
  Theorem rejected_graph_is_inert c ts faults pref w :
    cdag c ts = DagErr ->
    buildf c ts faults pref w = mkRes XDag w [] [].
  Proof.
    intros D. pose proof (build_shape_of c ts faults pref w) as S.
    destruct S; congruence.
  Qed.

  Theorem exit_dag_iff c ts faults pref w :
    x_exit (buildf c ts faults pref w) = XDag <-> cdag c ts = DagErr.
  Proof.
    pose proof (build_shape_of c ts faults pref w) as S. split.
    - intros H. destruct S; auto; simpl in H; try discriminate.
      destruct (any_fail (b_reports b)); discriminate.
    - intros D. rewrite rejected_graph_is_inert by exact D. reflexivity.
  Qed.

  (* exit code of the execution phase: 0 iff no task failed *)
  Theorem exit_code_exact c ts faults pref w E desel s0 :
    cdag c ts = DagOk E desel -> from_dag (task_ids ts) E (prio_list ts) = Some s0 ->
    let r := buildf c ts faults pref w in
    (x_exit r = XOk <-> forall t o, In (t, o) (x_reports r) -> o <> OFail) /\
    (x_exit r = XOk \/ x_exit r = XFailed).
  Proof.
    intros D F r. subst r. pose proof (build_shape_of c ts faults pref w) as S.
    destruct S as [D'|E' d' D' F'|E' d' s' b D' F' Hb]; try congruence.
    simpl. destruct (any_fail (b_reports b)) eqn:A; split; auto.
    - split; [discriminate|]. intros H. exfalso. unfold any_fail in A.
      apply existsb_exists in A. destruct A as [[t o] [Hin Ho]]. simpl in Ho.
      destruct o; try discriminate. apply (H t OFail); auto. apply -> in_rev. exact Hin.
    - split; auto. intros _ t o Hin Heq. subst o.
      assert (any_fail (b_reports b) = true).
      { unfold any_fail. apply existsb_exists. exists (t, OFail). split; auto.
        apply in_rev. exact Hin. }
      congruence.
  Qed.

  (* everything below is about an accepted graph *)
  Section Run.
    Variable c : config.
    Variable ts : list task.
    Variable faults : N -> fault.
    Variable pref : list N.
    Variable w : world.
    Variable E : list edge.
    Variable desel : list N.
    Variable s0 : sorter.
    Hypothesis HD : cdag c ts = DagOk E desel.
    Hypothesis HF : from_dag (task_ids ts) E (prio_list ts) = Some s0.
    Hypothesis ND : NoDup (task_ids ts).

    Let bfin := loop body (length ts) c ts E desel faults pref (mkB w [] [] [] 0 s0).
    Let r := buildf c ts faults pref w.

    Lemma r_eq : r = mkRes (if any_fail (b_reports bfin) then XFailed else XOk) (b_world bfin)
                           (rev (b_reports bfin)) (rev (b_log bfin)).
    Proof.
      subst r. pose proof (build_shape_of c ts faults pref w) as S.
      destruct S as [D'|E' d' D' F'|E' d' s' b D' F' Hb]; try congruence.
      rewrite HD in D'. inversion D'; subst E' d'. fold (prio_list ts) in HF. rewrite HF in F'.
      inversion F'; subst s'. subst b. reflexivity.
    Qed.

    Lemma fin_inv : LInv ts E desel s0 w bfin.
    Proof. apply (final_inv body c ts E desel faults pref s0 w HF ND). Qed.

    Lemma split_rev {A} (l pre post : list A) x :
      rev l = pre ++ x :: post -> l = rev post ++ x :: rev pre.
    Proof.
      intros H. apply (f_equal (@rev A)) in H. rewrite rev_involutive in H. rewrite H.
      rewrite rev_app_distr. simpl. rewrite <- app_assoc. reflexivity.
    Qed.

    Lemma count_fail_rev (l : list (N * outcome)) :
      length (filter (fun p => match snd p with OFail => true | _ => false end) (rev l)) =
      length (filter (fun p => match snd p with OFail => true | _ => false end) l).
    Proof.
      induction l as [|a l IH]; simpl; auto. rewrite filter_app, app_length, IH. simpl.
      destruct (snd a); simpl; lia.
    Qed.

    Lemma reports_r : x_reports r = rev (b_reports bfin).
    Proof. rewrite r_eq. reflexivity. Qed.
    Lemma log_r : x_log r = rev (b_log bfin).
    Proof. rewrite r_eq. reflexivity. Qed.
    Lemma world_r : x_world r = b_world bfin.
    Proof. rewrite r_eq. reflexivity. Qed.

    Lemma in_reports t o : In (t, o) (x_reports r) <-> In (t, o) (b_reports bfin).
    Proof. rewrite reports_r. symmetry. apply in_rev. Qed.
    Lemma in_log e : In e (x_log r) <-> In e (b_log bfin).
    Proof. rewrite log_r. symmetry. apply in_rev. Qed.

    Lemma nodup_reports_fin : NoDup (map fst (b_reports bfin)).
    Proof.
      pose proof fin_inv as L. destruct (s0_facts ts E s0 HF) as (_ & _ & FR & _).
      pose proof (handed_once s0 _ _ FR (li_reach _ _ _ _ _ _ L)) as H.
      apply NoDup_rev in H. rewrite rev_involutive in H. exact H.
    Qed.

    Lemma report_unique t o o' : In (t, o) (b_reports bfin) -> In (t, o') (b_reports bfin) -> o = o'.
    Proof.
      pose proof nodup_reports_fin as ND'. revert ND'.
      induction (b_reports bfin) as [|[a oa] l IH]; simpl; intros NDl H1 H2; [destruct H1|].
      inversion NDl; subst.
      destruct H1 as [H1|H1], H2 as [H2|H2].
      - congruence.
      - inversion H1; subst. exfalso. apply H3. apply in_map_iff. exists (t, o'). auto.
      - inversion H2; subst. exfalso. apply H3. apply in_map_iff. exists (t, o). auto.
      - auto.
    Qed.

    (* C01 / C08: at most one report per task, only for collected tasks *)
    Theorem one_report_each :
      NoDup (map fst (x_reports r)) /\ incl (map fst (x_reports r)) (task_ids ts).
    Proof.
      rewrite reports_r, map_rev. split.
      - apply NoDup_rev. apply nodup_reports_fin.
      - intros x Hx. apply in_rev in Hx. apply (li_rep_tasks _ _ _ _ _ _ fin_inv). exact Hx.
    Qed.

    (* C08: exactly one report per task unless the failure limit stopped the build *)
    Theorem all_reported_unless_stopped :
      (forall x, In x (task_ids ts) -> In x (map fst (x_reports r))) \/
      (exists m i pre, max_fail c = Some m /\ x_reports r = pre ++ [(i, OFail)] /\
                       (m <= count_fail (x_reports r))%nat).
    Proof.
      pose proof fin_inv as L.
      assert (Len : (length (gnodes (b_sorter (mkB w [] [] [] 0 s0))) <= length ts)%nat).
      { simpl. destruct (s0_facts ts E s0 HF) as (G0 & _). rewrite G0. unfold task_ids.
        rewrite map_length. lia. }
      destruct (loop_total body c ts E desel faults pref s0 w HF ND (length ts) _
                           (LInv_b0 body ts E desel faults s0 w HF ND) Len) as [G|(m & i & l & MF & RP & NF)].
      - left. intros x Hx. rewrite reports_r, map_rev. apply -> in_rev.
        destruct (in_dec N.eq_dec x (map fst (b_reports bfin))) as [|Hn]; auto. exfalso.
        assert (In x (gnodes (b_sorter bfin))) by (apply (li_gnodes _ _ _ _ _ _ L); auto).
        change (gnodes (b_sorter bfin) = []) in G. rewrite G in H. exact H.
      - right. change (b_reports bfin = (i, OFail) :: l) in RP. change (m <= b_nfail bfin)%nat in NF. exists m, i, (rev l). repeat split; auto.
        + rewrite reports_r, RP. reflexivity.
        + rewrite (li_nfail _ _ _ _ _ _ L) in NF. unfold count_fail. rewrite reports_r.
          rewrite count_fail_rev. exact NF.
    Qed.

    (* C01: a task is reported only after every task it depends on - through the graph
       of products and after-edges - has been reported *)
    Theorem reported_after_ancestors pre t o post :
      x_reports r = pre ++ (t, o) :: post ->
      forall u, In u (task_ids ts) -> Reach E u t -> In u (map fst pre).
    Proof.
      intros H u Hu R. rewrite reports_r in H. apply split_rev in H.
      pose proof (li_order _ _ _ _ _ _ fin_inv _ _ _ _ H u Hu R) as Q.
      rewrite map_rev in Q. apply in_rev in Q. exact Q.
    Qed.

    (* C01: no event happens twice: a task function is started at most once *)
    Theorem log_nodup : NoDup (x_log r).
    Proof. rewrite log_r. apply NoDup_rev. apply (li_log_nodup _ _ _ _ _ _ fin_inv). Qed.

    (* C01: after a task has started, nothing it depends on starts or is still running *)
    Theorem started_after_ancestors_finished pre t post :
      x_log r = pre ++ Start t :: post ->
      forall e, In e post -> ~ Reach E (task_of_event e) t.
    Proof.
      intros H e He. rewrite log_r in H. apply split_rev in H.
      apply (li_log_order _ _ _ _ _ _ fin_inv _ _ _ H). apply -> in_rev. exact He.
    Qed.

    (* C08: events belong to reported tasks whose outcome is SUCCESS or FAIL *)
    Theorem events_only_from_run_outcomes e :
      In e (x_log r) -> exists o, In (task_of_event e, o) (x_reports r) /\ ran o = true.
    Proof.
      intros H. apply in_log in H.
      destruct (li_log_tasks _ _ _ _ _ _ fin_inv e H) as [o [A B]].
      exists o. split; auto. apply in_reports. exact A.
    Qed.

    (* C08: skipped / unchanged / persisted / would-be-executed means: did not run *)
    Theorem nonrun_outcomes_did_not_run t o :
      In (t, o) (x_reports r) -> ran o = false ->
      ~ In (Start t) (x_log r) /\ ~ In (Finish t) (x_log r).
    Proof.
      intros H Rn. apply in_reports in H.
      split; intros C; apply events_only_from_run_outcomes in C; destruct C as [o' [A B]];
        simpl in A; apply in_reports in A; rewrite (report_unique _ _ _ H A) in Rn; congruence.
    Qed.

    (* C08: success means the products exist when the build ends *)
    Theorem success_products_exist t :
      In t ts -> In (tid t, OSuccess) (x_reports r) ->
      forall p, In p (prods t) -> lookup p (fs (x_world r)) <> None.
    Proof.
      intros T H p Hp. rewrite world_r. apply in_reports in H.
      eapply (li_succ_prods _ _ _ _ _ _ fin_inv); eauto.
    Qed.

    (* C04: nothing below a failed task is started; its dependants are reported
       SKIP_PREVIOUS_FAILED (or SKIP) *)
    Theorem failed_descendants_not_started u t o :
      In (u, OFail) (x_reports r) -> In t (task_ids ts) -> Reach E u t ->
      ~ In (Start t) (x_log r) /\
      (In (t, o) (x_reports r) -> o = OSkipPrevFailed \/ o = OSkip).
    Proof.
      intros HU Ht R.
      assert (Q : forall o', In (t, o') (x_reports r) -> o' = OSkipPrevFailed \/ o' = OSkip).
      { intros o' H. apply in_split in H. destruct H as (pre & post & Hs).
        assert (In u (task_ids ts)).
        { apply in_reports in HU. apply (li_rep_tasks _ _ _ _ _ _ fin_inv).
          apply in_map_iff. exists (u, OFail). auto. }
        pose proof (reported_after_ancestors _ _ _ _ Hs u H R) as Hpre.
        rewrite reports_r in Hs. apply split_rev in Hs.
        assert (In (u, OFail) (rev pre)).
        { apply in_map_iff in Hpre. destruct Hpre as [[u' ou] [E1 E2]]. simpl in E1. subst u'.
          assert (In (u, ou) (b_reports bfin)).
          { rewrite Hs. apply in_or_app. right. right. apply -> in_rev. exact E2. }
          apply in_reports in HU. rewrite (report_unique _ _ _ HU H0). apply -> in_rev. exact E2. }
        apply (li_out _ _ _ _ _ _ fin_inv _ _ _ _ Hs u OFail MAncFailed H0 eq_refl).
        apply (descending_spec body ts E desel faults). auto. }
      split; auto. intros C. apply events_only_from_run_outcomes in C.
      destruct C as [o' [A B]]. simpl in A. destruct (Q o' A); subst o'; discriminate.
    Qed.

    (* C04: tasks without a failed ancestor are never reported SKIP_PREVIOUS_FAILED *)
    Theorem independent_tasks_unaffected t :
      In (t, OSkipPrevFailed) (x_reports r) ->
      exists u, In (u, OFail) (x_reports r) /\ Reach E u t.
    Proof.
      intros H. apply in_split in H. destruct H as (pre & post & Hs).
      rewrite reports_r in Hs. apply split_rev in Hs.
      destruct (li_out_conv _ _ _ _ _ _ fin_inv _ _ _ Hs) as [u [A B]].
      exists u. split.
      - apply in_reports. rewrite Hs. apply in_or_app. right. right. exact A.
      - apply (descending_spec body ts E desel faults) in B. tauto.
    Qed.

    (* C04 / C08: a task that did not succeed (or persist) leaves its recorded rows alone *)
    Theorem fail_records_nothing t o k :
      In (t, o) (x_reports r) -> o <> OSuccess -> o <> OPersist ->
      dblookup t k (db (x_world r)) = dblookup t k (db w).
    Proof.
      intros H N1 N2. rewrite world_r. apply in_reports in H.
      eapply (li_db_exact _ _ _ _ _ _ fin_inv); eauto.
    Qed.

    Theorem unreported_records_nothing t k :
      ~ In t (map fst (x_reports r)) ->
      dblookup t k (db (x_world r)) = dblookup t k (db w).
    Proof.
      intros H. rewrite world_r. apply (li_db_frame _ _ _ _ _ _ fin_inv).
      intros C. apply H. rewrite reports_r, map_rev. apply -> in_rev. exact C.
    Qed.

    (* C04: the failure limit *)
    Theorem max_failures_respected m :
      max_fail c = Some m -> (1 <= m)%nat ->
      (count_fail (x_reports r) <= m)%nat /\
      ((count_fail (x_reports r) = m)%nat -> exists i pre, x_reports r = pre ++ [(i, OFail)]).
    Proof.
      intros MF Hm.
      destruct (loop_maxfail body c ts E desel faults pref s0 w HF ND m (length ts) MF _
                             (LInv_b0 body ts E desel faults s0 w HF ND)) as [A B]; [simpl; lia|].
      change (count_fail (b_reports bfin) <= m)%nat in A.
      change (count_fail (b_reports bfin) = m -> exists i l, b_reports bfin = (i, OFail) :: l) in B.
      assert (Q : count_fail (x_reports r) = count_fail (b_reports bfin)).
      { rewrite reports_r. unfold count_fail. apply count_fail_rev. }
      rewrite Q. split; auto. intros Heq. destruct (B Heq) as (i & l & Hl).
      exists i, (rev l). rewrite reports_r, Hl. reflexivity.
    Qed.

    (* C06: a task skipped by its own marker, a true skipif or deselection is reported SKIP,
       and so is everything below it; none of them is started or fails *)
    Theorem skip_closed t :
      In t ts -> static_skip desel t = true ->
      (forall o, In (tid t, o) (x_reports r) -> o = OSkip) /\
      (forall d o, In d (task_ids ts) -> Reach E (tid t) d -> In (d, o) (x_reports r) -> o = OSkip).
    Proof.
      intros T SS. split.
      - intros o H. apply in_reports in H. eapply (li_static_skip _ _ _ _ _ _ fin_inv); eauto.
      - intros d o Hd R H. apply in_split in H. destruct H as (pre & post & Hs).
        assert (Ht : In (tid t) (task_ids ts)) by (apply in_map; exact T).
        pose proof (reported_after_ancestors _ _ _ _ Hs (tid t) Ht R) as Hpre.
        rewrite reports_r in Hs. apply split_rev in Hs.
        apply in_map_iff in Hpre. destruct Hpre as [[u' ou] [E1 E2]]. simpl in E1. subst u'.
        assert (In (tid t, ou) (b_reports bfin)).
        { rewrite Hs. apply in_or_app. right. right. apply -> in_rev. exact E2. }
        assert (ou = OSkip) by (eapply (li_static_skip _ _ _ _ _ _ fin_inv); eauto). subst ou.
        apply (li_out _ _ _ _ _ _ fin_inv _ _ _ _ Hs (tid t) OSkip MSkip); auto.
        + apply -> in_rev. exact E2.
        + apply (descending_spec body ts E desel faults). auto.
    Qed.

    Theorem skipped_not_started t :
      In (t, OSkip) (x_reports r) -> ~ In (Start t) (x_log r).
    Proof. intros H. apply (nonrun_outcomes_did_not_run t OSkip H eq_refl). Qed.

    (* C06: a deselected task is never started *)
    Theorem deselected_never_started t :
      In t ts -> memN (tid t) desel = true -> ~ In (Start (tid t)) (x_log r).
    Proof.
      intros T D C. apply events_only_from_run_outcomes in C. destruct C as [o [A B]].
      simpl in A. assert (static_skip desel t = true).
      { unfold static_skip. rewrite D. rewrite orb_true_r. reflexivity. }
      destruct (skip_closed t T H) as [Q _]. rewrite (Q o A) in B. discriminate.
    Qed.

    (* C10: a dry run starts nothing and changes no file *)
    Theorem dry_run_inert :
      dry_run c = true -> x_log r = [] /\ fs (x_world r) = fs w.
    Proof.
      intros D. rewrite log_r, world_r.
      destruct (loop_dry body c ts E desel faults pref w (length ts) (mkB w [] [] [] 0 s0) D eq_refl eq_refl)
        as [A B]. change (b_log bfin = []) in A. change (fs (b_world bfin) = fs w) in B. rewrite A, B. auto.
    Qed.
  End Run.
End B.
