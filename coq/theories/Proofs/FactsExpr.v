(* Obligations tying Model/Expr.v to the lexer facts extracted from mark/expression.py. *)
From Verif Require Import Base.Prelude Model.Expr Gen.ExprFacts.

Definition seteqN (a b : list N) : bool :=
  forallb (fun x => memN x b) a && forallb (fun x => memN x a) b.

Lemma ws_ok : seteqN x_ws ws_chars = true.
Proof. vm_compute. reflexivity. Qed.

Lemma ident_punct_ok : seteqN x_ident_punct ident_punct = true.
Proof. vm_compute. reflexivity. Qed.

Lemma ident_has_word_ok : x_ident_has_word = true.
Proof. reflexivity. Qed.

Lemma keywords_ok : x_keywords = [kw_and; kw_not; kw_or].
Proof. reflexivity. Qed.
