(* Change detection sees content and identity only: what holds, and what does not. *)
From Verif Require Import Base.Prelude Model.Hashing.

Lemma app_eq_len {A} (x1 x2 r1 r2 : list A) :
  length x1 = length x2 -> x1 ++ r1 = x2 ++ r2 -> x1 = x2 /\ r1 = r2.
Proof.
  revert x2. induction x1 as [|a x1 IH]; intros [|b x2] L H; simpl in *; try discriminate; auto.
  inversion H; subst. destruct (IH x2) as [-> ->]; auto.
Qed.

Lemma blocks_inj (n : nat) (l1 : list (list N)) : forall l2,
  (forall x, In x l1 -> length x = n) -> (forall x, In x l2 -> length x = n) -> (0 < n)%nat ->
  concat l1 = concat l2 -> l1 = l2.
Proof.
  induction l1 as [|x1 l1 IH]; intros [|x2 l2] H1 H2 Hn H; simpl in *; auto.
  - assert (L : length x2 = n) by auto. destruct x2; simpl in *; [lia|discriminate].
  - assert (L : length x1 = n) by auto. destruct x1; simpl in *; [lia|discriminate].
  - assert (L1 : length x1 = n) by auto. assert (L2 : length x2 = n) by auto.
    destruct (app_eq_len x1 x2 _ _ (eq_trans L1 (eq_sym L2)) H) as [-> Hr].
    f_equal. apply IH; auto.
Qed.

Section P.
  Variable sha_hex : list N -> list N.
  Variable utf8 : list N -> list N.
  Variable fhash : N -> Z.
  Variable md5_hex : list N -> list N.
  Hypothesis sha_inj : forall a b, sha_hex a = sha_hex b -> a = b.
  Hypothesis sha_len : forall a, length (sha_hex a) = 64.
  Hypothesis utf8_inj : forall a b, utf8 a = utf8 b -> a = b.
  Hypothesis md5_inj : forall a b, md5_hex a = md5_hex b -> a = b.

  Notation hv := (hash_value sha_hex utf8 fhash).
  Notation sigof := (sig_of sha_hex utf8 fhash).

  (* ------------------------------------------------------------ scalars *)
  Theorem str_separates a b : hv (VStr a) = hv (VStr b) -> a = b.
  Proof. simpl. intros H. inversion H. auto. Qed.

  Theorem path_separates a b : hv (VPath a) = hv (VPath b) -> a = b.
  Proof. simpl. intros H. inversion H. auto. Qed.

  Theorem bytes_separates a b : hv (VBytes a) = hv (VBytes b) -> a = b.
  Proof. simpl. intros H. inversion H. auto. Qed.

  (* ints, bools, floats, None: the state is Python's own hash, so values that hash()
     tells apart are told apart *)
  Theorem int_separates_as_hash a b : hv (VInt a) = hv (VInt b) <-> py_hash_int a = py_hash_int b.
  Proof. simpl. split; intros H; [inversion H; auto | rewrite H; reflexivity]. Qed.

  (* ---------------------------------------------------------- sequences *)
  Definition digestlike (v : pyval) : bool :=
    match v with VStr _ | VPath _ | VBytes _ | VTuple _ | VList _ => true | _ => false end.

  Lemma digestlike_len v : digestlike v = true -> length (str_of (hv v)) = 64.
  Proof. destruct v; simpl; try discriminate; intros _; apply sha_len. Qed.

  Lemma flat_map_concat {A B} (f : A -> list B) l : flat_map f l = concat (map f l).
  Proof. induction l; simpl; congruence. Qed.

  (* sequences whose elements all hash to digests are separated elementwise *)
  Theorem seq_fixed_width_injective l1 l2 :
    forallb digestlike l1 = true -> forallb digestlike l2 = true ->
    hv (VTuple l1) = hv (VTuple l2) ->
    map (fun x => str_of (hv x)) l1 = map (fun x => str_of (hv x)) l2.
  Proof.
    intros D1 D2 H. simpl in H. inversion H as [H']. apply sha_inj, utf8_inj in H'.
    rewrite !flat_map_concat in H'. apply (blocks_inj 64); auto; try lia.
    - intros x Hx. apply in_map_iff in Hx. destruct Hx as [v [<- Hv]].
      apply digestlike_len. rewrite forallb_forall in D1. auto.
    - intros x Hx. apply in_map_iff in Hx. destruct Hx as [v [<- Hv]].
      apply digestlike_len. rewrite forallb_forall in D2. auto.
  Qed.

  (* F4: the concatenation is not delimited - false of the code for every sha/encode *)
  Theorem seq_collision_ints :
    hv (VTuple [VInt 1; VInt 23]) = hv (VTuple [VInt 12; VInt 3]).
  Proof. simpl. do 3 f_equal. Qed.

  Theorem seq_collision_none :
    hv (VTuple [VNone]) = hv (VTuple [VInt 4238894112]).
  Proof. simpl. do 3 f_equal. Qed.

  (* F18: kinds are forgotten - a str, a path and bytes with one encoding hash alike, and so
     does the empty sequence and the empty byte string; visible inside same-kind sequences *)
  Theorem kind_confusion_refuted s :
    hv (VTuple [VStr s]) = hv (VTuple [VPath s]) /\
    hv (VTuple [VStr s]) = hv (VTuple [VBytes (utf8 s)]) /\
    (utf8 [] = [] -> hv (VTuple [VTuple []]) = hv (VTuple [VBytes []])).
  Proof. simpl. repeat split. intros E. rewrite E. reflexivity. Qed.

  (* ---------------------------------------------------------- signatures *)
  Theorem sig_path_node_iff a b : sig_path_node sha_hex utf8 fhash a = sig_path_node sha_hex utf8 fhash b <-> a = b.
  Proof.
    split; [|intros ->; reflexivity]. unfold sig_path_node, sig_of. simpl. rewrite !app_nil_r.
    intros H. apply sha_inj, utf8_inj, sha_inj, utf8_inj in H. exact H.
  Qed.

  Theorem sig_task_iff b1 p1 b2 p2 :
    sig_task sha_hex utf8 fhash b1 p1 = sig_task sha_hex utf8 fhash b2 p2 <-> b1 = b2 /\ p1 = p2.
  Proof.
    split; [|intros [-> ->]; reflexivity]. unfold sig_task, sig_of. simpl. rewrite !app_nil_r.
    intros H. apply sha_inj, utf8_inj in H.
    apply app_eq_len in H; [|rewrite !sha_len; reflexivity]. destruct H as [H1 H2].
    apply sha_inj, utf8_inj in H1, H2. auto.
  Qed.

  Theorem sig_directory_node_iff r1 q1 r2 q2 :
    sig_directory_node sha_hex utf8 fhash (Some r1) q1 = sig_directory_node sha_hex utf8 fhash (Some r2) q2
    <-> r1 = r2 /\ q1 = q2.
  Proof.
    split; [|intros [-> ->]; reflexivity]. unfold sig_directory_node, sig_of. simpl. rewrite !app_nil_r.
    intros H. apply sha_inj, utf8_inj in H.
    apply app_eq_len in H; [|rewrite !sha_len; reflexivity]. destruct H as [H1 H2].
    apply sha_inj, utf8_inj in H1, H2. auto.
  Qed.

  (* different kinds of node never share a signature: the hashed strings differ in length *)
  Theorem sig_path_vs_task a b p :
    (forall x y : list N, length x <> length y -> utf8 x <> utf8 y) ->
    sig_path_node sha_hex utf8 fhash a <> sig_task sha_hex utf8 fhash b p.
  Proof.
    intros UL. unfold sig_path_node, sig_task, sig_of. simpl. rewrite !app_nil_r.
    intros H. apply sha_inj in H. revert H. apply UL. rewrite app_length, !sha_len. lia.
  Qed.

  (* F4 again: tree positions (1,23) and (12,3) of one argument give one PythonNode *)
  Theorem sig_python_node_refuted arg tn tp :
    sig_python_node sha_hex utf8 fhash arg [VInt 1; VInt 23] tn tp =
    sig_python_node sha_hex utf8 fhash arg [VInt 12; VInt 3] tn tp.
  Proof. unfold sig_python_node, sig_of. simpl. do 6 f_equal. Qed.

  (* with distinct string positions there is no collision *)
  Theorem sig_python_node_str_positions arg1 k1 tn1 tp1 arg2 k2 tn2 tp2 :
    sig_python_node sha_hex utf8 fhash arg1 [VStr k1] tn1 tp1 =
    sig_python_node sha_hex utf8 fhash arg2 [VStr k2] tn2 tp2 ->
    arg1 = arg2 /\ k1 = k2 /\ tn1 = tn2 /\ tp1 = tp2.
  Proof.
    unfold sig_python_node, sig_of. simpl. rewrite !app_nil_r. intros H.
    apply sha_inj, utf8_inj in H.
    apply app_eq_len in H; [|rewrite !sha_len; reflexivity]. destruct H as [H1 H].
    apply app_eq_len in H; [|rewrite !sha_len; reflexivity]. destruct H as [H2 H].
    apply app_eq_len in H; [|rewrite !sha_len; reflexivity]. destruct H as [H3 H4].
    apply sha_inj, utf8_inj in H1, H3, H4. apply sha_inj, utf8_inj, sha_inj, utf8_inj in H2. auto.
  Qed.

  (* ---------------------------------------------------------- file state *)
  Notation fstate := (file_state sha_hex utf8 fhash md5_hex).
  Notation mkey := (memo_key sha_hex utf8 fhash md5_hex).

  Definition honest (prefix : list N) (c : cache) (path : list N) (mtime : N) (content : list N) : Prop :=
    forall h, cache_get (mkey prefix path mtime) c = Some h -> h = sha_hex content.

  (* under mtime-honesty the state is the digest of the bytes, whatever the timestamp *)
  Theorem file_state_content_only prefix c path mtime content :
    honest prefix c path mtime content ->
    fst (fstate prefix c path mtime content) = sha_hex content.
  Proof.
    intros Hh. unfold file_state. destruct (cache_get (mkey prefix path mtime) c) eqn:E; simpl; auto.
  Qed.

  Theorem file_state_separates prefix c1 c2 p1 p2 m1 m2 x1 x2 :
    honest prefix c1 p1 m1 x1 -> honest prefix c2 p2 m2 x2 ->
    fst (fstate prefix c1 p1 m1 x1) = fst (fstate prefix c2 p2 m2 x2) -> x1 = x2.
  Proof.
    intros H1 H2. rewrite !file_state_content_only by assumption. apply sha_inj.
  Qed.

  (* F5: without it - same path, same mtime, new bytes - the old digest is returned *)
  Theorem file_state_same_mtime_refuted prefix path mtime x1 x2 :
    x1 <> x2 ->
    let c1 := snd (fstate prefix [] path mtime x1) in
    fst (fstate prefix c1 path mtime x2) = sha_hex x1 /\ sha_hex x1 <> sha_hex x2.
  Proof.
    intros Hne c1. subst c1. unfold file_state. simpl. rewrite eqbL_refl. simpl. split; auto.
  Qed.

  (* the memo key separates paths and (the hash of) modification times *)
  Theorem memo_key_injective prefix p1 m1 p2 m2 :
    mkey prefix p1 m1 = mkey prefix p2 m2 -> p1 = p2 /\ dec (fhash m1) = dec (fhash m2).
  Proof.
    unfold memo_key. intros H. apply app_inv_head in H. apply md5_inj, utf8_inj in H. simpl in H.
    apply app_eq_len in H; [|rewrite !sha_len; reflexivity]. destruct H as [H1 H2].
    apply sha_inj, utf8_inj in H1. auto.
  Qed.
End P.

(* ------------------------------------------------------------ normpath *)
Definition clean_comp (c : comp) : bool := negb (eqbL c [] || eqbL c c_dot || eqbL c c_dotdot).

Lemma norm_aux_clean cs : forall stack,
  forallb clean_comp cs = true -> norm_aux stack cs = rev stack ++ cs.
Proof.
  induction cs as [|c cs IH]; intros stack H; simpl.
  - rewrite app_nil_r. reflexivity.
  - simpl in H. apply andb_true_iff in H. destruct H as [Hc Hr].
    unfold clean_comp in Hc. apply negb_true_iff in Hc.
    apply orb_false_iff in Hc. destruct Hc as [Hc H3]. rewrite Hc, H3.
    rewrite IH by exact Hr. simpl. rewrite <- app_assoc. reflexivity.
Qed.

Lemma norm_aux_result_clean cs : forall stack,
  forallb clean_comp stack = true -> forallb clean_comp (norm_aux stack cs) = true.
Proof.
  induction cs as [|c cs IH]; intros stack H; simpl.
  - rewrite forallb_forall in *. intros x Hx. apply H. apply in_rev. exact Hx.
  - destruct (eqbL c [] || eqbL c c_dot) eqn:E1; [apply IH; exact H|].
    destruct (eqbL c c_dotdot) eqn:E2.
    + apply IH. destruct stack; auto. simpl in H. apply andb_true_iff in H. tauto.
    + apply IH. simpl. rewrite H. unfold clean_comp. rewrite E1, E2. reflexivity.
Qed.

Theorem normpath_idempotent cs : normpath (normpath cs) = normpath cs.
Proof.
  unfold normpath. rewrite (norm_aux_clean (norm_aux [] cs) []); auto.
  apply norm_aux_result_clean. reflexivity.
Qed.

Example normpath_examples :
  normpath_str [47; 97; 47; 46; 47; 98]%N = [47; 97; 47; 98]%N /\             (* /a/./b   *)
  normpath_str [47; 97; 47; 120; 47; 46; 46; 47; 98]%N = [47; 97; 47; 98]%N /\ (* /a/x/../b *)
  normpath_str [47; 46; 46; 47; 97]%N = [47; 97]%N.                            (* /../a     *)
Proof. vm_compute. repeat split. Qed.
