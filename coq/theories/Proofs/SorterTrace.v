(* Soundness of the trace validator the correspondence check runs on implementation traces:
   a trace it accepts contains only batches that are valid in the state the model has reached
   at that point; a rejected trace is rejected at its first invalid batch. *)
From Verif Require Import Base.Prelude Model.Sorter Proofs.SorterProofs.

Theorem check_trace_sound ops : forall s i,
  check_trace s ops i = None ->
  forall pre n b post, ops = pre ++ OGet n b :: post ->
  (1 <= n)%nat /\ valid_batch (fold_left apply_op pre s) n b.
Proof.
  induction ops as [|o r IH]; intros s i H pre n b post E.
  - destruct pre; discriminate.
  - cbn [check_trace] in H. destruct pre as [|o' pre'].
    + cbn [app] in E. inversion E; subst o r. cbn [fold_left].
      destruct (Nat.leb 1 n && valid_batchb s n b) eqn:K; [|discriminate].
      apply andb_true_iff in K. destruct K as (K1 & K2).
      split; [apply Nat.leb_le; exact K1 | apply valid_batchb_spec; exact K2].
    + cbn [app] in E. inversion E; subst o' r. cbn [fold_left].
      match type of H with (if ?c then _ else _) = None => destruct c; [|discriminate] end.
      eapply IH; [exact H | reflexivity].
Qed.

Theorem check_trace_first_offender ops : forall s i j,
  check_trace s ops i = Some j ->
  exists pre n b post, ops = pre ++ OGet n b :: post /\ j = (i + length pre)%nat /\
    check_trace s pre i = None /\
    ~ ((1 <= n)%nat /\ valid_batch (fold_left apply_op pre s) n b).
Proof.
  induction ops as [|o r IH]; intros s i j H; [discriminate|].
  cbn [check_trace] in H.
  match type of H with (if ?c then _ else _) = _ => destruct c eqn:K end.
  - destruct (IH _ _ _ H) as (pre & n & b & post & E & J & P & NV).
    exists (o :: pre), n, b, post. subst r. cbn [app length fold_left check_trace]. rewrite K.
    split; [reflexivity|]. split; [lia|]. split; [exact P|]. exact NV.
  - inversion H; subst j. destruct o as [n b| |]; try discriminate.
    exists [], n, b, r. cbn [app length fold_left check_trace].
    split; [reflexivity|]. split; [lia|]. split; [reflexivity|].
    intros (N1 & V). apply Nat.leb_le in N1. apply valid_batchb_spec in V. rewrite N1, V in K. discriminate.
Qed.
