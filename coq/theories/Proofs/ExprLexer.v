(* The scanner of Model/Expr.v against a declarative tokenisation: maximal
   munch, keywords only as whole identifiers, rejection exactly on a foreign
   character. *)
From Verif Require Import Base.Prelude Model.Expr.

Section L.
  Variable is_word : N -> bool.
  Notation lexa := (lex_aux is_word).

  (* a character that continues an identifier *)
  Definition idc (c : N) : bool :=
    match sep_tok c with Some _ => false | None => is_ident_char is_word c end.

  (* a character the scanner rejects *)
  Definition foreign (c : N) : bool :=
    match sep_tok c with Some _ => false | None => negb (is_ident_char is_word c) end.

  Definition stops (r : list N) : Prop :=
    match r with [] => True | c :: _ => idc c = false end.

  Definition cons_sep (st : option tok) (t : list tok) : list tok :=
    match st with Some x => x :: t | None => t end.

  Inductive Lx : list N -> list tok -> Prop :=
  | Lx_nil : Lx [] []
  | Lx_sep c st r t : sep_tok c = Some st -> Lx r t -> Lx (c :: r) (cons_sep st t)
  | Lx_id w r t : w <> [] -> forallb idc w = true -> stops r -> Lx r t ->
                  Lx (w ++ r) (classify w :: t).

  Lemma map_fst_flush acc pos k :
    map fst (flush acc pos k) =
    match acc with [] => map fst k | _ => classify (rev acc) :: map fst k end.
  Proof. destruct acc; reflexivity. Qed.

  Lemma map_fst_push st pos k : map fst (push_sep st pos k) = cons_sep st (map fst k).
  Proof. destruct st; reflexivity. Qed.

  Lemma forallb_rev (f : N -> bool) l : forallb f (rev l) = forallb f l.
  Proof.
    induction l as [|x l IH]; simpl; auto.
    rewrite forallb_app, IH. simpl. rewrite andb_true_r. apply andb_comm.
  Qed.

  Lemma lex_aux_sound s : forall acc pos k,
    forallb idc acc = true -> lexa acc pos s = Ok k -> Lx (rev acc ++ s) (map fst k).
  Proof.
    induction s as [|c r IH]; intros acc pos k Hacc H; simpl in H.
    - inversion H; subst. rewrite map_fst_flush. destruct acc as [|a acc'].
      + constructor.
      + apply Lx_id.
        * simpl. destruct (rev acc'); discriminate.
        * rewrite forallb_rev. exact Hacc.
        * exact I.
        * constructor.
    - destruct (sep_tok c) as [st|] eqn:Es.
      + destruct (lexa [] (S pos) r) as [k'| |] eqn:E; try discriminate.
        inversion H; subst. rewrite map_fst_flush, map_fst_push.
        assert (L : Lx (c :: r) (cons_sep st (map fst k'))).
        { apply Lx_sep; auto. apply (IH [] (S pos) k'); auto. }
        destruct acc as [|a acc']; [exact L|].
        apply Lx_id; auto.
        * simpl. destruct (rev acc'); discriminate.
        * rewrite forallb_rev. exact Hacc.
        * simpl. unfold idc. rewrite Es. reflexivity.
      + destruct (is_ident_char is_word c) eqn:Ei; try discriminate.
        apply IH in H.
        * simpl in H. rewrite <- app_assoc in H. exact H.
        * simpl. rewrite Hacc. unfold idc. rewrite Es, Ei. reflexivity.
  Qed.

  Lemma lex_aux_app w : forall acc pos r,
    forallb idc w = true ->
    lexa acc pos (w ++ r) = lexa (rev w ++ acc) (pos + length w) r.
  Proof.
    induction w as [|c w IH]; intros acc pos r H; simpl.
    - rewrite Nat.add_0_r. reflexivity.
    - simpl in H. apply andb_true_iff in H. destruct H as [Hc Hw].
      unfold idc in Hc. destruct (sep_tok c); try discriminate. rewrite Hc.
      rewrite IH by exact Hw. rewrite <- app_assoc. simpl.
      f_equal. lia.
  Qed.

  Lemma lex_aux_acc r acc pos :
    stops r ->
    lexa acc pos r = match lexa [] pos r with Ok k => Ok (flush acc pos k) | e => e end.
  Proof.
    destruct r as [|c r]; simpl; intros H; [reflexivity|].
    unfold idc in H. destruct (sep_tok c) as [st|].
    - destruct (lexa [] (S pos) r); reflexivity.
    - rewrite H. reflexivity.
  Qed.

  Lemma lex_aux_complete s t : Lx s t ->
    forall pos, exists k, lexa [] pos s = Ok k /\ map fst k = t.
  Proof.
    induction 1 as [|c st r t Es _ IH|w r t Hne Hw Hst _ IH]; intros pos.
    - exists []. auto.
    - destruct (IH (S pos)) as [k [Hk Ht]]. simpl. rewrite Es, Hk.
      eexists; split; [reflexivity|]. simpl. rewrite map_fst_push, Ht. reflexivity.
    - rewrite lex_aux_app by exact Hw. rewrite app_nil_r.
      rewrite lex_aux_acc by exact Hst.
      destruct (IH (pos + length w)) as [k [Hk Ht]]. rewrite Hk.
      eexists; split; [reflexivity|]. rewrite map_fst_flush, rev_involutive, Ht.
      destruct (rev w) eqn:E; [|reflexivity].
      apply (f_equal (@rev N)) in E. rewrite rev_involutive in E. simpl in E. congruence.
  Qed.

  Lemma lex_aux_err s : forall acc pos p,
    lexa acc pos s = Err p -> exists c, In c s /\ foreign c = true.
  Proof.
    induction s as [|c r IH]; intros acc pos p H; simpl in H; [discriminate|].
    destruct (sep_tok c) as [st|] eqn:Es.
    - destruct (lexa [] (S pos) r) as [k'|p'|] eqn:E; try discriminate.
      destruct (IH _ _ _ E) as [x [Hx Fx]]. exists x; simpl; auto.
    - destruct (is_ident_char is_word c) eqn:Ei.
      + destruct (IH _ _ _ H) as [x [Hx Fx]]. exists x; simpl; auto.
      + exists c. split; [simpl; auto|]. unfold foreign. rewrite Es, Ei. reflexivity.
  Qed.

  Lemma lex_aux_foreign s : forall acc pos,
    (exists c, In c s /\ foreign c = true) -> exists p, lexa acc pos s = Err p.
  Proof.
    induction s as [|c r IH]; intros acc pos [x [Hx Fx]]; simpl in Hx; [tauto|].
    simpl. destruct (sep_tok c) as [st|] eqn:Es.
    - destruct Hx as [->|Hx].
      + unfold foreign in Fx. rewrite Es in Fx. discriminate.
      + destruct (IH [] (S pos)) as [p Hp]; [eauto|]. rewrite Hp. eauto.
    - destruct (is_ident_char is_word c) eqn:Ei; [|eauto].
      destruct Hx as [->|Hx].
      + unfold foreign in Fx. rewrite Es, Ei in Fx. discriminate.
      + apply IH. eauto.
  Qed.

  Lemma lex_aux_no_fuel s : forall acc pos, lexa acc pos s <> Fuel.
  Proof.
    induction s as [|c r IH]; intros acc pos; simpl; [discriminate|].
    destruct (sep_tok c).
    - specialize (IH [] (S pos)). destruct (lexa [] (S pos) r); congruence.
    - destruct (is_ident_char is_word c); [apply IH | discriminate].
  Qed.

  (* ------------------------------------------------------------ theorems *)
  Theorem lex_sound s k : lex is_word s = Ok k -> Lx s (map fst k).
  Proof. intros H. apply (lex_aux_sound s [] 0 k); auto. Qed.

  Theorem lex_complete s t : Lx s t -> exists k, lex is_word s = Ok k /\ map fst k = t.
  Proof. intros H. apply (lex_aux_complete s t H 0). Qed.

  Theorem tokenisation_unique s t1 t2 : Lx s t1 -> Lx s t2 -> t1 = t2.
  Proof.
    intros H1 H2. destruct (lex_complete _ _ H1) as [k1 [E1 <-]].
    destruct (lex_complete _ _ H2) as [k2 [E2 <-]]. congruence.
  Qed.

  Theorem lex_rejects_iff_foreign_char s :
    (exists p, lex is_word s = Err p) <-> (exists c, In c s /\ foreign c = true).
  Proof.
    split.
    - intros [p H]. eapply lex_aux_err; eauto.
    - apply lex_aux_foreign.
  Qed.

  Theorem lex_never_out_of_fuel s : lex is_word s <> Fuel.
  Proof. apply lex_aux_no_fuel. Qed.
End L.

(* keywords are recognised only as whole identifiers *)
Theorem keyword_iff_whole_token w :
  (classify w = OR <-> w = kw_or) /\ (classify w = AND <-> w = kw_and) /\
  (classify w = NOT <-> w = kw_not) /\
  (w <> kw_or -> w <> kw_and -> w <> kw_not -> classify w = ID w).
Proof.
  unfold classify.
  destruct (eqbL w kw_or) eqn:E1; [apply eqbL_spec in E1; subst; repeat split; try discriminate; try congruence; intros; exfalso; auto|].
  destruct (eqbL w kw_and) eqn:E2; [apply eqbL_spec in E2; subst; repeat split; try discriminate; try congruence; intros; exfalso; auto|].
  destruct (eqbL w kw_not) eqn:E3; [apply eqbL_spec in E3; subst; repeat split; try discriminate; try congruence; intros; exfalso; auto|].
  repeat split; try discriminate; intros; subst; try rewrite eqbL_refl in *; try discriminate; auto.
Qed.
