(* Collection: every file once; generated ids unique or an error; and what goes wrong. *)
From Verif Require Import Base.Prelude Model.Clean Model.Collect.

Lemma eqbP_spec a : forall b, eqbP a b = true <-> a = b.
Proof.
  induction a as [|x a IH]; intros [|y b]; simpl; try (split; discriminate).
  - split; auto.
  - rewrite andb_true_iff, eqbL_spec, IH. split; [intros [-> ->]; auto | intros H; inversion H; auto].
Qed.

Lemma existsb_eqbP x l : existsb (eqbP x) l = true <-> In x l.
Proof.
  rewrite existsb_exists. split.
  - intros [y [Hy E]]. apply eqbP_spec in E. subst. exact Hy.
  - intros H. exists x. split; auto. apply eqbP_spec. reflexivity.
Qed.

Lemma dedupP_In l : forall seen x, In x (dedupP seen l) <-> In x l /\ ~ In x seen.
Proof.
  induction l as [|y r IH]; intros seen x; simpl; [tauto|].
  destruct (existsb (eqbP y) seen) eqn:E.
  - apply existsb_eqbP in E. rewrite IH. split.
    + intros [A B]. auto.
    + intros [[->|A] B]; [contradiction|auto].
  - assert (NS : ~ In y seen) by (intros C; apply existsb_eqbP in C; congruence).
    simpl. rewrite IH. simpl. split.
    + intros [->|[A B]].
      * split; [left; reflexivity|exact NS].
      * split; [right; exact A|]. intros C. apply B. right. exact C.
    + intros [[->|A] B]; [left; reflexivity|].
      destruct (list_eq_dec (list_eq_dec N.eq_dec) x y) as [->|Hne]; [left; reflexivity|].
      right. split; auto. intros [C|C]; [congruence|auto].
Qed.

Lemma dedupP_NoDup l : forall seen, NoDup (dedupP seen l).
Proof.
  induction l as [|y r IH]; intros seen; simpl; [constructor|].
  destruct (existsb (eqbP y) seen); [apply IH|]. constructor; [|apply IH].
  intros C. apply dedupP_In in C. destruct C as [_ C]. apply C. left; reflexivity.
Qed.

Section F.
  Variable ign : path -> bool.

  (* C13: for any path arguments - overlapping, repeated - every file is yielded at most once *)
  Theorem collect_paths_nodup args : NoDup (collect_paths ign args).
  Proof. apply dedupP_NoDup. Qed.

  (* ... and every non-ignored file below an argument is yielded *)
  Theorem collect_paths_complete args p t f :
    In (p, t) args -> In f (files ign p t) -> In f (collect_paths ign args).
  Proof.
    intros Ha Hf. unfold collect_paths. apply dedupP_In. split; auto.
    apply in_flat_map. exists (p, t). auto.
  Qed.

  Theorem collect_paths_sound args f :
    In f (collect_paths ign args) -> exists p t, In (p, t) args /\ In f (files ign p t).
  Proof.
    unfold collect_paths. intros H. apply dedupP_In in H. destruct H as [H _].
    apply in_flat_map in H. destruct H as [[p t] [Ha Hf]]. eauto.
  Qed.
End F.

(* ----------------------------------------------------------------- names *)
Section N.
  Variable dec_nat : nat -> list N.
  Notation genids := (gen_ids dec_nat).

  Lemma gen_ids_aux_spec params group : forall i out l,
    NoDup (map fst out) ->
    gen_ids_aux dec_nat params i group out = Some l ->
    NoDup (map fst l) /\ map snd l = map snd (rev out) ++ map fst group.
  Proof.
    induction group as [|[idx d] r IH]; intros i out l ND H; simpl in H.
    - inversion H; subst. rewrite map_rev. split; [|rewrite app_nil_r, map_rev; reflexivity].
      apply NoDup_rev. exact ND.
    - destruct (existsb (fun e => eqbL (fst e) (gen_id dec_nat params i d)) out) eqn:E; [discriminate|].
      apply IH in H.
      + destruct H as [H1 H2]. split; auto. rewrite H2. simpl. rewrite map_app. simpl.
        rewrite <- app_assoc. reflexivity.
      + simpl. constructor; auto. intros C. apply in_map_iff in C. destruct C as [e [Ee Hin]].
        assert (existsb (fun e => eqbL (fst e) (gen_id dec_nat params i d)) out = true).
        { apply existsb_exists. exists e. split; auto. rewrite Ee. apply eqbL_refl. }
        congruence.
  Qed.

  (* the ids generated for the repeated tasks of one name are pairwise distinct and every
     task of the group gets exactly one - or collection of the module fails *)
  Theorem gen_ids_spec group l :
    genids group = Some l -> NoDup (map fst l) /\ map snd l = map fst group.
  Proof.
    unfold gen_ids. destruct group as [|[i0 d0] r]; intros H.
    - inversion H; subst. split; [constructor|reflexivity].
    - apply gen_ids_aux_spec in H; [|constructor]. exact H.
  Qed.

  Lemma has_key_spec k m : has_key k m = true <-> In k (map fst m).
  Proof.
    unfold has_key. rewrite existsb_exists. split.
    - intros [e [He Hk]]. apply eqbL_spec in Hk. subst. apply in_map. exact He.
    - intros H. apply in_map_iff in H. destruct H as [e [<- He]]. exists e. split; auto. apply eqbL_refl.
  Qed.

  Lemma NoDup_app_disjoint {A} (l1 l2 : list A) :
    NoDup l1 -> NoDup l2 -> (forall x, In x l2 -> ~ In x l1) -> NoDup (l1 ++ l2).
  Proof.
    induction l1 as [|a r IH]; simpl; intros N1 N2 D; auto.
    inversion N1; subst. constructor.
    - intros C. apply in_app_or in C. destruct C as [C|C]; [auto|]. apply (D a C). left; reflexivity.
    - apply IH; auto. intros x Hx C. apply (D x Hx). right; exact C.
  Qed.

  (* task names within a module are pairwise distinct, whatever the iteration order of the set
     of preliminary names: a name that is already taken is an error (F7, repaired) ... *)
  Theorem parse_names_keys_nodup ds order : forall acc m,
    NoDup (map fst acc) -> parse_names dec_nat ds order acc = Some m -> NoDup (map fst m).
  Proof.
    induction order as [|name r IH]; intros acc m ND H; cbn [parse_names] in H.
    - inversion H; subst; auto.
    - set (new := match group_of ds name with
                  | [] => Some []
                  | [(idx, _)] => Some [(name, idx)]
                  | g => gen_ids dec_nat g
                  end) in *.
      destruct new as [ids|] eqn:En; [|discriminate].
      destruct (existsb (fun e => has_key (fst e) acc) ids) eqn:Ex; [discriminate|].
      eapply IH; [|exact H]. rewrite map_app.
      apply NoDup_app_disjoint; auto.
      + (* the new names are distinct among themselves *)
        unfold new in En. destruct (group_of ds name) as [|[i0 d0] [|e g]] eqn:G.
        * inversion En; subst. constructor.
        * inversion En; subst. simpl. constructor; [intros []|constructor].
        * apply gen_ids_spec in En. destruct En as [A _]. exact A.
      + intros x Hx C. apply in_map_iff in Hx. destruct Hx as [e [<- He]].
        assert (existsb (fun e0 => has_key (fst e0) acc) ids = true).
        { apply existsb_exists. exists e. split; auto. apply has_key_spec. exact C. }
        congruence.
  Qed.

  (* no function is lost: every function of every name group contributes exactly one entry *)
  Definition group_sizes (ds : list dtask) (order : list (list N)) : nat :=
    fold_right (fun name n => (length (group_of ds name) + n)%nat) 0%nat order.

  Theorem parse_names_length ds order : forall acc m,
    parse_names dec_nat ds order acc = Some m -> length m = (length acc + group_sizes ds order)%nat.
  Proof.
    induction order as [|name r IH]; intros acc m H; cbn [parse_names] in H.
    - inversion H; subst. simpl. lia.
    - set (new := match group_of ds name with
                  | [] => Some []
                  | [(idx, _)] => Some [(name, idx)]
                  | g => gen_ids dec_nat g
                  end) in *.
      destruct new as [ids|] eqn:En; [|discriminate].
      destruct (existsb (fun e => has_key (fst e) acc) ids); [discriminate|].
      apply IH in H. rewrite H, app_length. cbn [group_sizes fold_right].
      assert (L : length ids = length (group_of ds name)).
      { unfold new in En. destruct (group_of ds name) as [|[i0 d0] [|e g]] eqn:G.
        - inversion En; reflexivity.
        - inversion En; reflexivity.
        - apply gen_ids_spec in En. destruct En as [_ B].
          rewrite <- (map_length snd ids), B, map_length. reflexivity. }
      fold (group_sizes ds r). lia.
  Qed.

  Lemma nodupL_spec l : nodupL l = true <-> NoDup l.
  Proof.
    induction l as [|x r IH]; simpl.
    - split; [constructor|auto].
    - rewrite andb_true_iff, negb_true_iff, IH. split.
      + intros [A B]. constructor; auto. intros C.
        assert (existsb (eqbL x) r = true).
        { apply existsb_exists. exists x. split; auto. apply eqbL_refl. }
        congruence.
      + intros H. inversion H; subst. split; auto. apply not_true_is_false. intros C.
        apply existsb_exists in C. destruct C as [y [Hy E]]. apply eqbL_spec in E. subst. auto.
  Qed.

  (* ... and so are the ids of ALL tasks of a module, prefixed and decorated, or the collection
     fails (F8, repaired) *)
  Theorem module_tasks_nodup prefixed ds order l :
    module_tasks dec_nat prefixed ds order = Some l -> NoDup l.
  Proof.
    unfold module_tasks. destruct (parse_names dec_nat ds order []) as [m|]; [|discriminate].
    destruct (nodupL (prefixed ++ map fst m)) eqn:N; [|discriminate].
    intros H. inversion H; subst. apply nodupL_spec. exact N.
  Qed.

  Theorem module_tasks_length prefixed ds order l :
    module_tasks dec_nat prefixed ds order = Some l ->
    length l = (length prefixed + group_sizes ds order)%nat.
  Proof.
    unfold module_tasks. destruct (parse_names dec_nat ds order []) as [m|] eqn:P; [|discriminate].
    destruct (nodupL (prefixed ++ map fst m)); [|discriminate].
    intros H. inversion H; subst. rewrite app_length, map_length.
    rewrite (parse_names_length ds order [] m P). simpl. reflexivity.
  Qed.
End N.

(* ---- before the repairs: functions got lost or doubled *)
Definition dec_nat1 (n : nat) : list N := [N.of_nat (48 + n)].     (* one digit is enough here *)
Definition s_foo : list N := [102; 111; 111]%N.
Definition s_foo0 : list N := [102; 111; 111; 91; 48; 93]%N.       (* "foo[0]" *)

(* F7 (repaired): @task(name="foo[0]") next to two tasks named foo: three functions, two names, no
   error; which function survived under "foo[0]" depended on the iteration order of a set.  Now
   both orders are an error. *)
Theorem name_collision_regression :
  let ds := [mkD s_foo (Some s_foo0) None [] []; mkD s_foo None None [] []; mkD s_foo None None [] []] in
  parse_names_old dec_nat1 ds [s_foo0; s_foo] [] = Some [(s_foo0, 1%nat); ([102; 111; 111; 91; 49; 93]%N, 2%nat)] /\
  parse_names_old dec_nat1 ds [s_foo; s_foo0] [] = Some [(s_foo0, 0%nat); ([102; 111; 111; 91; 49; 93]%N, 2%nat)] /\
  parse_names dec_nat1 ds [s_foo0; s_foo] [] = None /\ parse_names dec_nat1 ds [s_foo; s_foo0] [] = None.
Proof. vm_compute. repeat split; reflexivity. Qed.

(* F8 (repaired): a prefixed function and a decorated one with the same name: two tasks, one id *)
Theorem prefixed_vs_decorated_regression :
  let tx := [116; 97; 115; 107; 95; 120]%N in     (* "task_x" *)
  module_tasks_old dec_nat1 [tx] [mkD [102]%N (Some tx) None [] []] [tx] = Some [tx; tx] /\
  module_tasks dec_nat1 [tx] [mkD [102]%N (Some tx) None [] []] [tx] = None.
Proof. vm_compute. split; reflexivity. Qed.

(* when all decorated functions of a module have distinct names nothing is lost *)
Example distinct_names_lossless :
  let a := [97]%N in let b := [98]%N in
  parse_names dec_nat1 [mkD a None None [] []; mkD b None None [] []] [b; a] [] = Some [(b, 1%nat); (a, 0%nat)].
Proof. vm_compute. reflexivity. Qed.

(* F16 (C18/C03): the explicit id of a repeated task is used only while at least two functions
   share the name: the same function with the same @task(id="g0") is called "foo[g0]" next to
   a sibling and "foo" alone - its name, hence its signature and its recorded state, depend
   on how many tasks a generator happens to create *)
Definition s_g0 : list N := [103; 48]%N.
Definition s_g1 : list N := [103; 49]%N.
Theorem single_task_drops_id_refuted :
  parse_names dec_nat1 [mkD s_foo None (Some s_g0) [] []; mkD s_foo None (Some s_g1) [] []] [s_foo] []
    = Some [(s_foo ++ [lbr] ++ s_g0 ++ [rbr], 0%nat); (s_foo ++ [lbr] ++ s_g1 ++ [rbr], 1%nat)] /\
  parse_names dec_nat1 [mkD s_foo None (Some s_g0) [] []] [s_foo] [] = Some [(s_foo, 0%nat)].
Proof. vm_compute. split; reflexivity. Qed.

(* ----------------------------------------------------------------- modules *)
Lemma import_one_own is_pkg m p : fst (import_one is_pkg m p) = p.
Proof.
  unfold import_one. destruct (mc_get (modname is_pkg p) m) as [f|]; [|reflexivity].
  destruct (eqbP f p) eqn:E; [|reflexivity]. apply eqbP_spec in E. exact E.
Qed.

(* C13: whatever names the paths derive - equal or not - the module object returned for a
   task file holds the code of THAT file, and every path gets exactly one module *)
Theorem import_all_own_file is_pkg : forall ps m p f,
  In (p, f) (import_all is_pkg m ps) -> f = p.
Proof.
  induction ps as [|q r IH]; intros m p f H; simpl in H; [destruct H|].
  pose proof (import_one_own is_pkg m q) as O.
  destruct (import_one is_pkg m q) as [g m'] eqn:E. simpl in O, H.
  destruct H as [H|H]; [inversion H; subst; reflexivity | eapply IH; eauto].
Qed.

Theorem import_all_paths is_pkg : forall ps m, map fst (import_all is_pkg m ps) = ps.
Proof.
  induction ps as [|q r IH]; intros m; simpl; [reflexivity|].
  destruct (import_one is_pkg m q) as [g m']. simpl. f_equal. apply IH.
Qed.

(* F9, before the repair: a.b/task_m.py and a_b/task_m.py derive the same module name; the
   second path got the module of the first (its functions were collected twice, the
   functions of the second file never) *)
Definition c_a_dot_b : comp := [97; 46; 98]%N.
Definition c_a_us_b : comp := [97; 95; 98]%N.
Definition c_task_m : comp := [116; 97; 115; 107; 95; 109]%N.
Theorem equal_module_names_regression :
  let p1 := [c_a_dot_b; c_task_m] in let p2 := [c_a_us_b; c_task_m] in
  modname (fun _ => false) p1 = modname (fun _ => false) p2 /\
  (let '(f1, m1) := import_one_old (fun _ => false) [] p1 in
   fst (import_one_old (fun _ => false) m1 p2)) = p1 /\
  map snd (import_all (fun _ => false) [] [p1; p2]) = [p1; p2].
Proof. vm_compute. repeat split; reflexivity. Qed.
