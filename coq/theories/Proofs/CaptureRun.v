(* Whole-run accounting of the capture automaton: what reaches the real streams over a whole
   sequence of tasks, and conservation of text (every code point a task writes ends up in a
   report section or on the terminal; outside tee mode in exactly one of the two). *)
From Verif Require Import Base.Prelude Model.Capture Proofs.CaptureProofs.

Definition term_task (m : method) (s : stream) (tk : ttask) : list N :=
  passthrough_text m s (t_setup tk) ++ passthrough_text m s (t_call tk) ++
  passthrough_text m s (t_teardown tk) ++ all_text s (t_between tk).

(* the real streams after any sequence of tasks: what was there, then per task in order what
   it wrote at a level the method does not capture (everything, in tee mode) followed by all
   that pytask printed between the tasks; nothing of a captured level, nothing twice *)
Theorem run_terminal_exact m tks : forall st,
  clean st ->
  term_out (snd (run_ttasks m tks st)) = term_out st ++ flat_map (term_task m SOut) tks /\
  term_err (snd (run_ttasks m tks st)) = term_err st ++ flat_map (term_task m SErr) tks.
Proof.
  induction tks as [|tk r IH]; intros st C0; cbn [run_ttasks flat_map fst snd].
  - rewrite !app_nil_r. auto.
  - pose proof (run_ttask_spec m tk st C0) as (_ & C1 & O1 & E1).
    destruct (run_ttask m tk st) as [s st1]. cbn [fst snd] in *.
    pose proof (IH st1 C1) as (O2 & E2).
    destruct (run_ttasks m r st1) as [s' st2]. cbn [fst snd] in *.
    unfold term_task. rewrite O2, E2, O1, E1, <- !app_assoc. auto.
Qed.

(* per write: captured or passed through; outside tee mode never both *)
Lemma write_partition m s ws :
  m <> MTee ->
  (length (captured_text m s ws) + length (passthrough_text m s ws) = length (all_text s ws))%nat.
Proof.
  intros NT. unfold captured_text, passthrough_text, all_text.
  induction ws as [|w ws IH]; cbn [flat_map]; [reflexivity|].
  rewrite !app_length. destruct (stream_eqb (w_stream w) s); cbn [andb].
  - destruct m; try congruence; destruct (captures _ (w_level w)); cbn [negb orb length]; lia.
  - cbn [length]. lia.
Qed.

(* in tee mode the captured text is a copy: the terminal sees everything (tee_passes_everything)
   and the sections hold the Python-level part in addition *)
Lemma write_cover m s ws :
  (length (all_text s ws) <= length (captured_text m s ws) + length (passthrough_text m s ws))%nat.
Proof.
  unfold captured_text, passthrough_text, all_text.
  induction ws as [|w ws IH]; cbn [flat_map]; [auto|].
  rewrite !app_length. destruct (stream_eqb (w_stream w) s); cbn [andb].
  - destruct m; destruct (captures _ (w_level w)); cbn [negb orb length]; lia.
  - cbn [length]. lia.
Qed.

(* a code point written by a task is never dropped: it is in the section text or on the stream *)
Lemma write_no_loss m s ws x :
  In x (all_text s ws) -> In x (captured_text m s ws) \/ In x (passthrough_text m s ws).
Proof.
  unfold captured_text, passthrough_text, all_text. rewrite !in_flat_map.
  intros (w & Hw & Hx). destruct (stream_eqb (w_stream w) s) eqn:E; [|destruct Hx].
  destruct (captures m (w_level w)) eqn:Cp.
  - left. exists w. rewrite E, Cp. auto.
  - right. exists w. rewrite E, Cp. auto.
Qed.

(* and nothing is invented: section text and terminal text come from writes to that stream *)
Lemma write_no_invention m s ws x :
  In x (captured_text m s ws) \/ In x (passthrough_text m s ws) -> In x (all_text s ws).
Proof.
  unfold captured_text, passthrough_text, all_text. rewrite !in_flat_map.
  intros [(w & Hw & Hx)|(w & Hw & Hx)]; exists w; split; auto;
    destruct (stream_eqb (w_stream w) s); cbn [andb] in *; try (destruct Hx; fail);
    match goal with H : In x (if ?b then _ else _) |- _ => destruct b; [exact H|destruct H] end.
Qed.

(* the text of a section of stream s never contains anything written to the other stream:
   section texts are filtered by stream (used with sections_exact) *)
Lemma captured_other_stream m ws :
  (forall w, In w ws -> w_stream w = SErr) -> captured_text m SOut ws = [].
Proof.
  intros H. unfold captured_text. induction ws as [|w ws IH]; cbn [flat_map]; [reflexivity|].
  rewrite (H w (or_introl eq_refl)). cbn [stream_eqb andb app]. apply IH. intros; apply H; right; auto.
Qed.

(* non-vacuity: a concrete two-task run under sys capture with writes at all three levels *)
Example run_terminal_example :
  let w1 := mkW SOut LPy [1;2]%N in let w2 := mkW SOut LFd [3]%N in let w3 := mkW SErr LChild [4]%N in
  let tks := [mkT 7 [w1] [w2; w1] [w3] [mkW SOut LPy [9]%N]; mkT 8 [] [w1; w3] [] []] in
  fst (run_ttasks MSys tks init_c) =
    [(7, PSetup, SOut, [1;2]); (7, PCall, SOut, [1;2]); (8, PCall, SOut, [1;2])]%N /\
  term_out (snd (run_ttasks MSys tks init_c)) = [3; 9]%N /\
  term_err (snd (run_ttasks MSys tks init_c)) = [4; 4]%N.
Proof. vm_compute. auto. Qed.

(* sys: what is not written at Python level (descriptor writes, child processes) goes to the
   real stream untouched, in order; tee-sys captures exactly what sys captures *)
Theorem sys_passes_lower_levels s ws :
  passthrough_text MSys s ws =
  flat_map (fun w => if stream_eqb (w_stream w) s && match w_level w with LPy => false | _ => true end
                     then w_data w else []) ws.
Proof.
  unfold passthrough_text. induction ws as [|w r IH]; cbn [flat_map]; [reflexivity|].
  rewrite IH. destruct (stream_eqb (w_stream w) s); destruct (w_level w); reflexivity.
Qed.

Theorem tee_captures_like_sys s ws : captured_text MTee s ws = captured_text MSys s ws.
Proof.
  unfold captured_text. induction ws as [|w r IH]; cbn [flat_map]; [reflexivity|].
  rewrite IH. destruct (stream_eqb (w_stream w) s); destruct (w_level w); reflexivity.
Qed.
