(* Properties of the scheduler model for every reachable state and every
   tie-breaking order. *)
From Coq Require Import Sorting.Permutation Sorting.Sorted.
From Verif Require Import Base.Prelude Model.Sorter.

Local Open Scope Z_scope.

Definition le_pr (s : sorter) (x y : N) : Prop := pr s x <= pr s y.

(* what get_ready(n) may return: the n best ready tasks, best last *)
Definition valid_batch (s : sorter) (n : nat) (b : list N) : Prop :=
  NoDup b /\
  incl b (ready s) /\
  length b = Nat.min n (length (ready s)) /\
  StronglySorted (le_pr s) b /\
  (forall x y, In x (ready s) -> ~ In x b -> In y b -> pr s x <= pr s y).

(* ------------------------------------------------------------ booleans *)
Lemma nodupb_spec l : nodupb l = true <-> NoDup l.
Proof.
  induction l as [|x r IH]; simpl.
  - split; [constructor | reflexivity].
  - rewrite andb_true_iff, negb_true_iff, IH, memN_false_In. split.
    + intros [H1 H2]. constructor; auto.
    + intros H. inversion H; auto.
Qed.

Lemma sortedb_spec s l : sortedb s l = true <-> StronglySorted (le_pr s) l.
Proof.
  induction l as [|x r IH]; simpl.
  - split; [constructor | reflexivity].
  - rewrite andb_true_iff, IH, forallb_forall. split.
    + intros [H1 H2]. constructor; auto. apply Forall_forall.
      intros y Hy. apply Z.leb_le. auto.
    + intros H. inversion H; subst. split; auto.
      intros y Hy. apply Z.leb_le. rewrite Forall_forall in H3. apply H3. exact Hy.
Qed.

Theorem valid_batchb_spec s n b : valid_batchb s n b = true <-> valid_batch s n b.
Proof.
  unfold valid_batchb, valid_batch.
  rewrite !andb_true_iff, nodupb_spec, sortedb_spec, Nat.eqb_eq, !forallb_forall.
  split.
  - intros [[[[H1 H2] H3] H4] H5]. repeat split; auto.
    + intros x Hx. apply memN_In. auto.
    + intros x y Hx Hn Hy. specialize (H5 x Hx). apply orb_true_iff in H5.
      destruct H5 as [H5|H5].
      * apply memN_In in H5. contradiction.
      * rewrite forallb_forall in H5. apply Z.leb_le. auto.
  - intros (H1 & H2 & H3 & H4 & H5). repeat split; auto.
    + intros x Hx. apply memN_In. auto.
    + intros x Hx. apply orb_true_iff. destruct (memN x b) eqn:E; [left; reflexivity|right].
      apply forallb_forall. intros y Hy. apply Z.leb_le. apply H5; auto.
      apply memN_false_In. exact E.
Qed.

(* ----------------------------------------- the concrete algorithm is valid *)
Lemma insert_perm s x l : Permutation (insert s x l) (x :: l).
Proof.
  induction l as [|y r IH]; simpl; auto.
  destruct (pr s x <=? pr s y); auto.
  rewrite IH. apply perm_swap.
Qed.

Lemma isort_perm s l : Permutation (isort s l) l.
Proof.
  induction l as [|x r IH]; simpl; auto.
  rewrite insert_perm. constructor. exact IH.
Qed.

Lemma insert_sorted s x l :
  StronglySorted (le_pr s) l -> StronglySorted (le_pr s) (insert s x l).
Proof.
  induction 1 as [|y r HS IH HF]; simpl.
  - constructor; constructor.
  - destruct (pr s x <=? pr s y) eqn:E.
    + apply Z.leb_le in E. constructor.
      * constructor; auto.
      * constructor; auto. rewrite Forall_forall in *. intros z Hz.
        unfold le_pr in *. specialize (HF z Hz). lia.
    + apply Z.leb_gt in E. constructor; auto.
      rewrite Forall_forall in *. intros z Hz.
      apply (Permutation_in _ (insert_perm s x r)) in Hz. destruct Hz as [<-|Hz].
      * unfold le_pr. lia.
      * auto.
Qed.

Lemma isort_sorted s l : StronglySorted (le_pr s) (isort s l).
Proof.
  induction l as [|x r IH]; simpl; [constructor | apply insert_sorted; exact IH].
Qed.

Lemma SS_app_inv s l1 : forall l2, StronglySorted (le_pr s) (l1 ++ l2) ->
  StronglySorted (le_pr s) l2 /\ forall x y, In x l1 -> In y l2 -> pr s x <= pr s y.
Proof.
  induction l1 as [|a l1 IH]; intros l2 H; simpl in *.
  - split; auto. intros x y [].
  - inversion H; subst. destruct (IH _ H2) as [S2 HL]. split; auto.
    intros x y [<-|Hx] Hy.
    + rewrite Forall_forall in H3. apply H3. apply in_or_app. auto.
    + auto.
Qed.

Lemma NoDup_app_r {A} (l1 l2 : list A) : NoDup (l1 ++ l2) -> NoDup l2.
Proof.
  induction l1 as [|a l1 IH]; simpl; auto. intros H. inversion H; auto.
Qed.

Lemma NoDup_skipn {A} k (l : list A) : NoDup l -> NoDup (skipn k l).
Proof.
  intros H. rewrite <- (firstn_skipn k l) in H. apply NoDup_app_r in H. exact H.
Qed.

Lemma In_skipn {A} k (l : list A) x : In x (skipn k l) -> In x l.
Proof. intros H. rewrite <- (firstn_skipn k l). apply in_or_app. auto. Qed.

Theorem get_ready_valid s n order :
  NoDup order -> Permutation order (ready s) -> (1 <= n)%nat ->
  valid_batch s n (get_ready s n order).
Proof.
  intros ND P Hn. unfold get_ready, lastn.
  set (L := isort s order). set (k := (length L - n)%nat).
  assert (PL : Permutation L order) by apply isort_perm.
  assert (SL : StronglySorted (le_pr s) L) by apply isort_sorted.
  assert (NL : NoDup L) by (eapply Permutation_NoDup; [symmetry; exact PL | exact ND]).
  assert (LenL : length L = length (ready s)).
  { rewrite (Permutation_length PL). apply Permutation_length. exact P. }
  rewrite <- (firstn_skipn k L) in SL. apply SS_app_inv in SL. destruct SL as [S2 HL].
  repeat split.
  - apply NoDup_skipn. exact NL.
  - intros x Hx. apply In_skipn in Hx.
    eapply Permutation_in; [exact P|]. eapply Permutation_in; [exact PL|]. exact Hx.
  - rewrite skipn_length. unfold k. lia.
  - exact S2.
  - intros x y Hx Hn' Hy. apply HL; auto.
    assert (HxL : In x L).
    { eapply Permutation_in; [symmetry; exact PL|].
      eapply Permutation_in; [symmetry; exact P|]. exact Hx. }
    rewrite <- (firstn_skipn k L) in HxL. apply in_app_or in HxL. tauto.
Qed.

(* ----------------------------------------------------- C19 corollaries *)
Theorem batch_is_top_n s n b x y :
  valid_batch s n b -> In x (ready s) -> ~ In x b -> In y b -> pr s x <= pr s y.
Proof. intros (_ & _ & _ & _ & H). apply H. Qed.

(* a ready try_first task (priority 1) is handed out before any ready task of
   lower priority *)
Theorem try_first_before_unmarked s n b x y :
  valid_batch s n b -> In x (ready s) -> In y b -> pr s y < pr s x -> In x b.
Proof.
  intros V Hx Hy Hlt. destruct (in_dec N.eq_dec x b) as [|Hn]; auto.
  pose proof (batch_is_top_n s n b x y V Hx Hn Hy). lia.
Qed.

(* a try_last task (priority -1) is handed out only together with, or after,
   every other ready task of higher priority *)
Theorem try_last_only_when_alone s n b y :
  valid_batch s n b -> In y b ->
  forall x, In x (ready s) -> pr s y < pr s x -> In x b.
Proof. intros V Hy x Hx Hlt. eapply try_first_before_unmarked; eauto. Qed.

(* sequential executor: get_ready()[0] has maximal priority among the ready tasks *)
Theorem single_is_maximal s t :
  valid_batch s 1 [t] -> forall x, In x (ready s) -> pr s x <= pr s t.
Proof.
  intros V x Hx. destruct (N.eq_dec x t) as [->|Hne]; [lia|].
  eapply batch_is_top_n; eauto; simpl; intuition.
Qed.

Theorem batch_nonempty s n b :
  valid_batch s n b -> (1 <= n)%nat -> ready s <> [] -> b <> [].
Proof.
  intros (_ & _ & L & _) Hn Hr Hb. subst b. simpl in L.
  destruct (ready s); [congruence|simpl in L; lia].
Qed.

(* priorities never override dependencies: a handed-out task has no remaining
   predecessor and is not being processed *)
Lemma ready_spec s v :
  In v (ready s) <->
  In v (gnodes s) /\ ~ In v (processing s) /\
  forall u, In (u, v) (gedges s) -> ~ In u (gnodes s).
Proof.
  unfold ready, readyb, indeg0. rewrite filter_In, andb_true_iff, negb_true_iff, memN_false_In.
  rewrite forallb_forall. split.
  - intros (H1 & H2 & H3). repeat split; auto. intros u Hu Hin.
    specialize (H2 _ Hu). simpl in H2. rewrite N.eqb_refl in H2. simpl in H2.
    apply memN_In in Hin. rewrite Hin in H2. discriminate.
  - intros (H1 & H2 & H3). repeat split; auto. intros [u w] He. simpl.
    destruct (N.eqb_spec w v) as [->|]; auto. simpl.
    rewrite negb_true_iff. apply memN_false_In. auto.
Qed.

Theorem handed_after_predecessors s n b t u :
  valid_batch s n b -> In t b -> In (u, t) (gedges s) -> ~ In u (gnodes s).
Proof.
  intros (_ & I & _) Ht He. apply I in Ht. apply ready_spec in Ht.
  destruct Ht as (_ & _ & H). auto.
Qed.

(* ------------------------------------------- invariants over any driver *)
Definition wf_op (s : sorter) (o : op) : Prop :=
  match o with
  | OGet n b => (1 <= n)%nat /\ valid_batch s n b
  | ODone _ => True
  | ORebuild _ _ _ => True
  end.

Definition batch_of (o : op) : list N := match o with OGet _ b => b | _ => [] end.

(* states and the list of everything handed out so far *)
Inductive reachable (s0 : sorter) : sorter -> list N -> Prop :=
| reach0 : reachable s0 s0 []
| reachS s h o : reachable s0 s h -> wf_op s o ->
                 reachable s0 (apply_op s o) (h ++ batch_of o).

Definition fresh (s : sorter) : Prop := processing s = [] /\ finished s = [].

Definition Inv (s : sorter) (h : list N) : Prop :=
  NoDup h /\
  (forall x, In x h -> In x (processing s) \/ In x (finished s)) /\
  (forall x, In x (finished s) -> ~ In x (gnodes s)).

Lemma remove_all_In ds l x : In x (remove_all ds l) <-> In x l /\ ~ In x ds.
Proof.
  unfold remove_all. rewrite filter_In, negb_true_iff, memN_false_In. tauto.
Qed.

Lemma inv_reachable s0 s h : fresh s0 -> reachable s0 s h -> Inv s h.
Proof.
  intros [F1 F2]. induction 1 as [|s h o R IH W].
  - repeat split; [constructor | intros x [] | rewrite F2; intros x []].
  - destruct IH as (ND & HP & HF). destruct o as [n b|ds|nodes edges p]; simpl in *.
    + destruct W as (_ & NDb & Ib & _).
      assert (D : forall x, In x b -> ~ In x h).
      { intros x Hx Hh. apply Ib in Hx. apply ready_spec in Hx.
        destruct Hx as (G & NP & _). destruct (HP x Hh) as [P|Fi]; [auto|].
        exact (HF x Fi G). }
      repeat split.
      * clear - ND NDb D. induction h as [|a h IH]; simpl; auto.
        inversion ND; subst. constructor.
        -- intros C. apply in_app_or in C. destruct C as [C|C]; [auto|].
           apply (D a C). left; reflexivity.
        -- apply IH; auto. intros x Hx Hh. apply (D x Hx). right; exact Hh.
      * intros x Hx. apply in_app_or in Hx. destruct Hx as [Hx|Hx].
        -- destruct (HP x Hx); [left; apply in_or_app; auto | right; auto].
        -- left. apply in_or_app. auto.
      * exact HF.
    + rewrite app_nil_r. repeat split; auto.
      * intros x Hx. destruct (HP x Hx) as [P|Fi].
        -- destruct (in_dec N.eq_dec x ds) as [D|D].
           ++ right. apply in_or_app. auto.
           ++ left. apply remove_all_In. auto.
        -- right. apply in_or_app. auto.
      * intros x Hx G. apply remove_all_In in G. destruct G as [G NDs].
        apply in_app_or in Hx. destruct Hx as [Hx|Hx]; [auto|]. exact (HF x Hx G).
    + rewrite app_nil_r. repeat split; auto.
      * intros x Hx. destruct (HP x Hx) as [P|Fi]; [auto|].
        right. apply in_or_app. auto.
      * intros x Hx G. apply remove_all_In in G. destruct G as [G NDs].
        apply in_app_or in Hx. destruct Hx as [Hx|[]]. auto.
Qed.

(* C01 (scheduler half): no task is handed out twice, whatever the batch sizes,
   completion order, tie-breaking or graph re-creations *)
Theorem handed_once s0 s h : fresh s0 -> reachable s0 s h -> NoDup h.
Proof. intros F R. exact (proj1 (inv_reachable s0 s h F R)). Qed.

(* C01: when t is handed out, every predecessor of t in the closure graph that
   is a node of the current graph at all has been marked done *)
Definition covers (s : sorter) : Prop :=
  forall u v, In (u, v) (gedges s) -> In u (gnodes s) \/ In u (finished s).

Theorem handed_after_ancestors s n b t u :
  covers s -> valid_batch s n b -> In t b -> In (u, t) (gedges s) -> In u (finished s).
Proof.
  intros C V Ht He. destruct (C u t He) as [G|F]; auto.
  exfalso. exact (handed_after_predecessors s n b t u V Ht He G).
Qed.

Lemma covers_take s b : covers s -> covers (take s b).
Proof. intros C u v H. exact (C u v H). Qed.

Lemma covers_done s ds : covers s -> covers (done s ds).
Proof.
  intros C u v H. simpl in *. destruct (C u v H) as [G|F].
  - destruct (in_dec N.eq_dec u ds) as [D|D].
    + right. apply in_or_app. auto.
    + left. apply remove_all_In. auto.
  - right. apply in_or_app. auto.
Qed.

Lemma covers_rebuild nodes edges p old :
  (forall u v, In (u, v) edges -> In u nodes) -> covers (rebuild nodes edges p old).
Proof.
  intros H u v He. simpl in *. destruct (in_dec N.eq_dec u (finished old)) as [D|D].
  - right. apply in_or_app. auto.
  - left. apply remove_all_In. split; eauto.
Qed.

(* ---------------------------------------------------------- progress *)
Definition strict_order (E : list (N * N)) : Prop :=
  (forall u, ~ In (u, u) E) /\
  (forall u v w, In (u, v) E -> In (v, w) E -> In (u, w) E).

Definition edgeb (E : list (N * N)) (u v : N) : bool :=
  existsb (fun e => N.eqb (fst e) u && N.eqb (snd e) v) E.

Lemma edgeb_spec E u v : edgeb E u v = true <-> In (u, v) E.
Proof.
  unfold edgeb. rewrite existsb_exists. split.
  - intros [[a b] [Hi He]]. simpl in He. apply andb_true_iff in He.
    destruct He as [H1 H2]. apply N.eqb_eq in H1, H2. subst. exact Hi.
  - intros H. exists (u, v). simpl. rewrite !N.eqb_refl. auto.
Qed.

Lemma minimal_exists E l :
  strict_order E -> l <> [] -> exists m, In m l /\ forall u, In u l -> ~ In (u, m) E.
Proof.
  intros [Irr Tr]. induction l as [|x l IH]; [congruence|]. intros _.
  destruct l as [|y l'].
  - exists x. split; [left; reflexivity|]. intros u [<-|[]]. apply Irr.
  - destruct IH as [m [Hm Hmin]]; [discriminate|].
    destruct (edgeb E x m) eqn:Ex.
    + apply edgeb_spec in Ex. exists x. split; [left; reflexivity|].
      intros u [<-|Hu]; [apply Irr|]. intros Hux. apply (Hmin u Hu). eapply Tr; eauto.
    + exists m. split; [right; exact Hm|]. intros u [<-|Hu].
      * intros C. apply edgeb_spec in C. congruence.
      * auto.
Qed.

(* while nodes remain, a node without remaining predecessor exists; if nothing
   is being processed it is ready: the sequential loop get_ready()[0] never
   indexes an empty list on an acyclic graph *)
Theorem no_deadlock s :
  strict_order (gedges s) -> gnodes s <> [] -> processing s = [] -> ready s <> [].
Proof.
  intros SO NE P. destruct (minimal_exists _ _ SO NE) as [m [Hm Hmin]].
  assert (R : In m (ready s)).
  { apply ready_spec. rewrite P. repeat split; auto. intros u He G. exact (Hmin u G He). }
  intros C. rewrite C in R. exact R.
Qed.

Theorem progress_parallel s :
  strict_order (gedges s) -> gnodes s <> [] ->
  ready s <> [] \/ exists m, In m (gnodes s) /\ In m (processing s).
Proof.
  intros SO NE. destruct (minimal_exists _ _ SO NE) as [m [Hm Hmin]].
  destruct (in_dec N.eq_dec m (processing s)) as [P|P].
  - right. eauto.
  - left. assert (R : In m (ready s)).
    { apply ready_spec. repeat split; auto. intros u He G. exact (Hmin u G He). }
    intros C. rewrite C in R. exact R.
Qed.

(* ------------------------------------------------ the closure graph *)
From Verif Require Import Base.Graph.

(* what from_dag is meant to build (networkx ancestors = reachability) *)
Definition closure_spec (tasks : list N) (E : list edge) (CE : list (N * N)) : Prop :=
  forall u t, In (u, t) CE <-> In u tasks /\ In t tasks /\ Reach E u t.

Definition acyclic (E : list edge) : Prop := forall v, ~ Reach E v v.

Theorem closure_strict_order tasks E CE :
  closure_spec tasks E CE -> acyclic E -> strict_order CE.
Proof.
  intros C A. split.
  - intros u H. apply C in H. destruct H as (_ & _ & R). exact (A u R).
  - intros u v w H1 H2. apply C in H1, H2. apply C.
    destruct H1 as (U & _ & R1). destruct H2 as (_ & W & R2).
    repeat split; auto. eapply Reach_trans; eauto.
Qed.

Lemma closure_edges_spec tasks E u t :
  In (u, t) (closure_edges tasks E) <-> In u tasks /\ In t tasks /\ reachb E u t = true.
Proof.
  unfold closure_edges. rewrite in_flat_map. split.
  - intros [t' [Ht H]]. rewrite in_map_iff in H. destruct H as [a [Heq Ha]].
    inversion Heq; subst. apply filter_In in Ha. tauto.
  - intros (Hu & Ht & R). exists t. split; auto. apply in_map_iff. exists u.
    split; auto. apply filter_In. auto.
Qed.

Lemma closure_edges_sound tasks E u t :
  In (u, t) (closure_edges tasks E) -> In u tasks /\ In t tasks /\ Reach E u t.
Proof.
  intros H. apply closure_edges_spec in H. destruct H as (A & B & R).
  repeat split; auto. apply reachb_sound. exact R.
Qed.

(* Together with [handed_after_ancestors]: in a sorter whose edges satisfy
   closure_spec, a task is handed out only when every task it (transitively)
   depends on is done. *)
Theorem handed_after_all_ancestors tasks E s n b t u :
  closure_spec tasks E (gedges s) -> covers s ->
  valid_batch s n b -> In t b -> In u tasks -> In t tasks -> Reach E u t ->
  In u (finished s).
Proof.
  intros C Cv V Ht Hu Htt R. eapply handed_after_ancestors; eauto.
  apply C. auto.
Qed.

(* ------------------------------------------- from_dag meets its specification *)
From Verif Require Import Proofs.GraphProofs.

Theorem closure_edges_closure_spec tasks E : closure_spec tasks E (closure_edges tasks E).
Proof.
  intros u t. rewrite closure_edges_spec, reachb_iff. tauto.
Qed.

Theorem from_dag_spec tasks E p s :
  from_dag tasks E p = Some s ->
  gnodes s = tasks /\ gedges s = closure_edges tasks E /\ prios s = p /\ fresh s /\
  strict_order (gedges s) /\ covers s /\ acyclic E.
Proof.
  unfold from_dag. destruct (has_cycle E) eqn:HC; [discriminate|].
  intros H. inversion H; subst; clear H. simpl.
  assert (A : acyclic E) by exact (has_cycle_false_acyclic E HC).
  split; [reflexivity|]. split; [reflexivity|]. split; [reflexivity|].
  split; [split; reflexivity|]. split; [|split; [|exact A]].
  - apply (closure_strict_order tasks E); auto. apply closure_edges_closure_spec.
  - intros u v He. simpl in *. apply closure_edges_spec in He. tauto.
Qed.

Theorem from_dag_none_iff tasks E p :
  from_dag tasks E p = None <-> exists v, Reach E v v.
Proof.
  unfold from_dag. destruct (has_cycle E) eqn:HC.
  - split; auto. intros _. apply has_cycle_iff. exact HC.
  - split; [discriminate|]. intros [v R]. exfalso.
    exact (has_cycle_false_acyclic E HC v R).
Qed.
