(* C03 at the level of whole builds: a build whose tasks were all executed or unchanged leaves,
   for every task, rows that match every neighbour; a following unforced build of the same
   project then executes nothing, writes nothing and reports every task as unchanged (or
   skipped by a marker / selection). *)
From Verif Require Import Base.Prelude Base.Graph Model.Sorter Model.Expr Model.Engine.
From Verif Require Import Proofs.GraphProofs Proofs.SorterProofs Proofs.EngineTask Proofs.EngineLoop
  Proofs.EngineDag Proofs.EngineBuild Proofs.EngineHistory.

(* ------------------------------------------------------------ shape of the edges *)
Section Shape.
  Variable is_word : N -> bool.
  Variable lower : list N -> list N.

  Lemma all_after_edges_inv ts all : forall AE e,
    all_after_edges is_word lower ts all = Some AE -> In e AE ->
    exists t a, In t ts /\ after_edges_of is_word lower all t = Some a /\ In e a.
  Proof.
    induction ts as [|x l IH]; intros AE e H He; simpl in H.
    - inversion H; subst. destruct He.
    - destruct (after_edges_of is_word lower all x) as [a|] eqn:A; [|discriminate].
      destruct (all_after_edges is_word lower l all) as [b|] eqn:B; [|discriminate].
      inversion H; subst. apply in_app_or in He. destruct He as [He|He].
      + exists x, a. split; [left; reflexivity|auto].
      + destruct (IH b e eq_refl He) as (t & a' & T & A' & I). exists t, a'. split; [right; exact T|auto].
  Qed.

  Lemma after_edges_of_shape all t a e :
    after_edges_of is_word lower all t = Some a -> In e a ->
    snd e = tid t /\ exists u, In u all /\ In (fst e) (prods u).
  Proof.
    unfold after_edges_of.
    destruct (match after_expr t with None => Some [] | Some ex => after_matches is_word lower all (tid t) ex end)
      as [ups2|]; [|discriminate].
    intros H He. inversion H; subst a; clear H.
    apply in_flat_map in He. destruct He as [ui [_ He]]. apply in_map_iff in He.
    destruct He as [p [<- Hp]]. simpl. split; auto.
    unfold prods_of in Hp. destruct (find_task all ui) as [u|] eqn:F; [|destruct Hp].
    unfold find_task in F. apply find_some in F. destruct F as [F _]. eauto.
  Qed.

  (* every edge of an accepted graph: declared dependency, declared product, or the product
     of some task wired in front of another task by `after` *)
  Lemma edge_shape c ts E desel a b :
    create_dag is_word lower c ts = DagOk E desel -> In (a, b) E ->
    exists t, In t ts /\
      ((b = tid t /\ (In a (deps t) \/ exists u, In u ts /\ In a (prods u))) \/
       (a = tid t /\ In b (prods t))).
  Proof.
    intros D He. destruct (create_dag_ok is_word lower c ts E desel D) as (_ & _ & AE & HA & -> & _).
    apply in_app_or in He. destruct He as [He|He].
    - destruct (base_edges_inv _ _ _ He) as [t [T [[-> Hd]|[-> Hp]]]]; exists t; split; auto.
    - destruct (all_after_edges_inv _ _ _ _ HA He) as (t & al & T & A & I).
      destruct (after_edges_of_shape _ _ _ _ A I) as [S [u [U P]]]. simpl in S, P.
      exists t. split; auto. left. split; [exact S|]. right. exists u. auto.
  Qed.
End Shape.

Section Rows.
  Variable is_word : N -> bool.
  Variable lower : list N -> list N.
  Variable body : N -> N -> list N -> N -> N.
  Variable c : config.
  Variable ts : list task.
  Variable faults : N -> fault.
  Variable pref : list N.
  Variable w : world.
  Variable E : list edge.
  Variable desel : list N.
  Variable s0 : sorter.
  Hypothesis HD : create_dag is_word lower c ts = DagOk E desel.
  Hypothesis HF : from_dag (task_ids ts) E (map (fun t => (tid t, tprio t)) ts) = Some s0.
  Hypothesis ND : NoDup (task_ids ts).
  Hypothesis WF : forall t, In t ts -> wf_task t.
  Hypothesis NP : forall t, In t ts -> m_persist t = false.
  Hypothesis GF : forall i, good_fault (faults i).
  Hypothesis SC0 : forall t, In t ts -> SC body w t.
  (* ids of tasks are not ids of nodes *)
  Hypothesis IDS : forall t u, In t ts -> In u ts -> ~ In (tid t) (prods u) /\ ~ In (tid t) (deps u).

  Notation stepf := (step body c ts E desel faults pref).
  Notation loopf := (fun fuel => loop body fuel c ts E desel faults pref).
  Notation CI := (CInv body ts w E desel s0).

  (* the rows of t match every neighbour that exists *)
  Definition rows_ok (v : world) (t : task) : Prop :=
    forall k, In k (neighbours E t) -> state_of v t k <> None -> row_matches v t k.

  Record RInv (b : bstate) : Prop := {
    ri_ci : CI b;
    ri_rows : forall t o, In t ts -> In (tid t, o) (b_reports b) -> fresh_outcome o -> rows_ok (b_world b) t
  }.

  (* what a neighbour of t is *)
  Lemma neighbour_cases t k : In t ts -> In k (neighbours E t) ->
    k = tid t \/ In k (prods t) \/ In k (deps t) \/ (exists u, In u ts /\ In k (prods u) /\ Reach E (tid u) (tid t)).
  Proof.
    intros T Hk. unfold neighbours in Hk. apply in_app_or in Hk. destruct Hk as [Hk|Hk].
    - unfold pred_nodes in Hk. apply dedupN_In in Hk. destruct Hk as [Hk _].
      unfold preds in Hk. apply in_map_iff in Hk. destruct Hk as [[a b] [<- Hf]].
      apply filter_In in Hf. destruct Hf as [He Hb]. simpl in *. apply N.eqb_eq in Hb. subst b.
      destruct (edge_shape is_word lower c ts E desel a (tid t) HD He) as [t' [T' [[Eq [Hd|[u [U P]]]]|[Eq Hp]]]].
      + assert (t' = t) by (apply (tid_inj ts ND); auto). subst t'. auto.
      + right; right; right. exists u. repeat split; auto.
        destruct (create_dag_ok is_word lower c ts E desel HD) as (_ & _ & AE & _ & EE & _).
        eapply RS; [|apply R1; exact He]. rewrite EE. apply in_or_app. left. apply base_edges_prod; auto.
      + (* an edge from a task id to a task id: impossible *)
        exfalso. destruct (IDS t t' T T') as [A _]. apply A. exact Hp.
    - apply in_app_or in Hk. destruct Hk as [[<-|[]]|Hk]; auto.
      unfold succ_nodes in Hk. apply dedupN_In in Hk. destruct Hk as [Hk _].
      unfold succs in Hk. apply in_map_iff in Hk. destruct Hk as [[a b] [<- Hf]].
      apply filter_In in Hf. destruct Hf as [He Ha]. simpl in *. apply N.eqb_eq in Ha. subst a.
      destruct (edge_shape is_word lower c ts E desel (tid t) b HD He) as [t' [T' [[Eq [Hd|[u [U P]]]]|[Eq Hp]]]].
      + exfalso. destruct (IDS t t' T T') as [_ A]. apply A. exact Hd.
      + exfalso. destruct (IDS t u T U) as [A _]. apply A. exact P.
      + assert (t' = t) by (apply (tid_inj ts ND); auto). subst t'. auto.
  Qed.

  Lemma row_matches_frame v v' t k :
    lookup k (fs v') = lookup k (fs v) -> dblookup (tid t) k (db v') = dblookup (tid t) k (db v) ->
    (state_of v' t k <> None -> row_matches v' t k) <-> (state_of v t k <> None -> row_matches v t k).
  Proof.
    intros A B. unfold row_matches, state_of. rewrite A, B. tauto.
  Qed.

  Lemma RInv_step b b' st : RInv b -> stepf b = Some (b', st) -> RInv b'.
  Proof.
    intros [CIb R] H.
    pose proof (CInv_step is_word lower body c ts faults pref w E desel s0 HD HF ND WF NP GF b b' st CIb H) as CIb'.
    destruct CIb as [L S C].
    unfold step in H.
    destruct (pick (b_sorter b) pref) as [i|] eqn:P; [|discriminate].
    destruct (find_task ts i) as [ti|] eqn:F; [|discriminate].
    destruct (find_task_spec ts i ti F) as [Ti Tin].
    set (r := run_task body c E (b_dyn b) desel (b_world b) ti (faults i)) in *.
    inversion H; subst b' st; clear H.
    assert (Hnr : ~ In i (map fst (b_reports b))).
    { pose proof (pick_valid _ _ _ P) as V. destruct V as (_ & I & _).
      assert (Hr : In i (ready (b_sorter b))) by (apply I; left; reflexivity).
      apply ready_spec in Hr. destruct Hr as [Hg _]. apply (li_gnodes _ _ _ _ _ _ L) in Hg. tauto. }
    constructor; [exact CIb'|]. cbn [b_world b_reports].
    intros t o Ht Hin FO. destruct Hin as [Heq|Hin].
    - inversion Heq as [[H1 H2]]. assert (t = ti) by (apply (tid_inj ts ND); auto; congruence). subst t.
      clear Heq. subst o. destruct FO as [FO|FO].
      + (* success: every existing neighbour was recorded *)
        destruct (success_spec body c E (b_dyn b) desel (b_world b) ti (faults i) FO) as (_ & _ & _ & w1 & _ & RW).
        fold r in RW. rewrite RW. intros k Hk Hs. rewrite state_of_record in Hs.
        destruct (state_of w1 ti k) as [s|] eqn:Es; [|congruence].
        exists s. split; [rewrite state_of_record; exact Es|]. apply record_states_row; auto.
      + assert (RWu : r_world r = b_world b).
        { pose proof (run_task_spec body c E (b_dyn b) desel (b_world b) ti (faults i)) as SP.
          fold r in SP. destruct SP; simpl in FO; try discriminate; reflexivity. }
        rewrite RWu. intros k Hk _.
        destruct (unchanged_sound body c E (b_dyn b) desel (b_world b) ti (faults i) FO) as [_ RM]. auto.
    - (* reported earlier: the picked task touches neither its rows nor its neighbours *)
      assert (Tne : tid t <> i).
      { intros Eq. apply Hnr. rewrite <- Eq. apply in_map_iff. exists (tid t, o). auto. }
      intros k Hk. apply (row_matches_frame (b_world b)); [| |apply (R t o Ht Hin FO k Hk)].
      + subst r. apply task_footprint. intros Hp.
        destruct (neighbour_cases t k Ht Hk) as [->|[Hq|[Hq|[u [U [Pu Ru]]]]]].
        * destruct (IDS t ti Ht Tin) as [A _]. exact (A Hp).
        * assert (D : create_dag is_word lower c ts = DagErr).
          { apply (duplicate_product_rejected is_word lower c ts t ti k); auto. congruence. }
          congruence.
        * (* ti produces a dependency of t: ti is an ancestor, reported before t *)
          assert (Re : Reach E (tid ti) (tid t)).
          { apply (consumer_depends_on_producer is_word lower c ts E desel ti t k); auto. }
          apply in_split in Hin. destruct Hin as [l1 [l2 Hs]].
          pose proof (li_order _ _ _ _ _ _ L l1 (tid t) o l2 Hs (tid ti)) as Q.
          apply Hnr. rewrite <- Ti.
          assert (In (tid ti) (map fst l2)) by (apply Q; auto; unfold task_ids; apply in_map; exact Tin).
          rewrite Hs, map_app. apply in_or_app. right. right. exact H.
        * (* k is a product of u (an `after` target of t) and of ti: then u = ti, an ancestor *)
          assert (Eq : tid u = tid ti).
          { destruct (N.eq_dec (tid u) (tid ti)) as [e|ne]; auto. exfalso.
            assert (D : create_dag is_word lower c ts = DagErr).
            { apply (duplicate_product_rejected is_word lower c ts u ti k); auto. }
            congruence. }
          apply in_split in Hin. destruct Hin as [l1 [l2 Hs]].
          pose proof (li_order _ _ _ _ _ _ L l1 (tid t) o l2 Hs (tid u)) as Q.
          apply Hnr. rewrite <- Ti, <- Eq.
          assert (In (tid u) (map fst l2)) by (apply Q; auto; unfold task_ids; apply in_map; exact U).
          rewrite Hs, map_app. apply in_or_app. right. right. exact H.
      + subst r. apply other_rows_untouched. congruence.
  Qed.

  Lemma RInv_0 : RInv (mkB w [] [] [] 0 s0).
  Proof.
    constructor.
    - apply (CInv_0 body ts faults w E desel s0 HF ND SC0).
    - intros t o _ [].
  Qed.

  Lemma RInv_loop fuel : forall b, RInv b -> RInv (loopf fuel b).
  Proof.
    induction fuel as [|f IH]; intros b I; simpl; auto.
    destruct (is_active (b_sorter b)); auto.
    destruct (stepf b) as [[b' [|]]|] eqn:S; auto.
    - eapply RInv_step; eauto.
    - apply IH. eapply RInv_step; eauto.
  Qed.

  Let r := build is_word lower body c ts faults pref w.

  (* when EVERY task of the project was executed or unchanged, every node of the graph exists
     at the end and every row matches *)
  Theorem all_fresh_rows_match :
    (forall t, In t ts -> exists o, In (tid t, o) (x_reports r) /\ fresh_outcome o) ->
    forall t, In t ts -> forall k, In k (neighbours E t) -> row_matches (x_world r) t k.
  Proof.
    intros AF t Tin k Hk. subst r.
    pose proof (build_shape_of is_word lower body c ts faults pref w) as BS.
    destruct BS as [D|E' d' D F'|E' d' s' b D F' Hb].
    - congruence.
    - rewrite HD in D. inversion D; subst E' d'. unfold prio_list in F'. congruence.
    - rewrite HD in D. inversion D; subst E' d'. unfold prio_list in F'. rewrite HF in F'. inversion F'; subst s'.
      cbn [x_world x_reports] in *. subst b.
      pose proof (RInv_loop (length ts) _ RInv_0) as I. cbv beta in I. destruct I as [[L S Cur] R].
      set (bf := loop body (length ts) c ts E desel faults pref (mkB w [] [] [] 0 s0)) in *.
      assert (FR : forall t', In t' ts -> exists o, In (tid t', o) (b_reports bf) /\ fresh_outcome o).
      { intros t' T'. destruct (AF t' T') as [o [A B]]. exists o. split; auto. apply in_rev. exact A. }
      destruct (FR t Tin) as [o [Ho FO]].
      apply (R t o Tin Ho FO k Hk).
      (* the neighbour exists *)
      destruct (neighbour_cases t k Tin Hk) as [->|[Hq|[Hq|[u [U [Pu _]]]]]].
      + rewrite state_of_self. discriminate.
      + destruct (Cur t o Tin Ho FO) as [_ Pq]. rewrite state_of_node.
        * rewrite (Pq k Hq). discriminate.
        * intros ->. destruct (IDS t t Tin Tin) as [A _]. exact (A Hq).
      + destruct (Cur t o Tin Ho FO) as [Dq _]. rewrite state_of_node.
        * unfold deps_exist in Dq. rewrite forallb_forall in Dq. specialize (Dq k Hq).
          destruct (lookup k (fs (b_world bf))); [discriminate|discriminate Dq].
        * intros ->. destruct (IDS t t Tin Tin) as [_ A]. exact (A Hq).
      + destruct (FR u U) as [ou [Hou FOu]]. destruct (Cur u ou U Hou FOu) as [_ Pq]. rewrite state_of_node.
        * rewrite (Pq k Pu). discriminate.
        * intros ->. destruct (IDS t u Tin U) as [A _]. exact (A Pu).
  Qed.
End Rows.

(* ------------------------------------------------------------ the quiet build *)
Section Quiet.
  Variable body : N -> N -> list N -> N -> N.
  Variable c : config.
  Variable ts : list task.
  Variable E : list edge.
  Variable desel : list N.
  Variable faults : N -> fault.
  Variable pref : list N.
  Variable w1 : world.
  Hypothesis NF : force c = false.
  Hypothesis RM : forall t, In t ts -> forall k, In k (neighbours E t) -> row_matches w1 t k.

  Definition quiet_outcome (o : outcome) : Prop := o = OSkip \/ o = OSkipUnchanged.

  Record QInv (b : bstate) : Prop := {
    q_world : b_world b = w1;
    q_log : b_log b = [];
    q_dyn : forall i, has_dyn MAncFailed i (b_dyn b) = false /\ has_dyn MWould i (b_dyn b) = false;
    q_rep : forall i o, In (i, o) (b_reports b) -> quiet_outcome o
  }.

  Lemma quiet_turn dyn t f :
    In t ts -> has_dyn MAncFailed (tid t) dyn = false -> has_dyn MWould (tid t) dyn = false ->
    run_task body c E dyn desel w1 t f = mkTres OSkip w1 [] \/
    run_task body c E dyn desel w1 t f = mkTres OSkipUnchanged w1 [].
  Proof.
    intros T A B.
    destruct (skipflag t dyn desel) eqn:S1; [left; apply skip_spec; auto|].
    destruct (existsb (fun b => b) (m_skipif t)) eqn:S2; [left; apply skip_spec; auto|].
    right. apply unchanged_complete; auto.
  Qed.

  Lemma QInv_step b b' st : QInv b -> step body c ts E desel faults pref b = Some (b', st) -> QInv b'.
  Proof.
    intros [W L D R] H. unfold step in H.
    destruct (pick (b_sorter b) pref) as [i|]; [|discriminate].
    destruct (find_task ts i) as [t|] eqn:F; [|discriminate].
    assert (Ti : tid t = i /\ In t ts).
    { unfold find_task in F. apply find_some in F. destruct F as [A B]. apply N.eqb_eq in B. auto. }
    destruct Ti as [Ti Tin]. rewrite W in H.
    destruct (D i) as [D1 D2]. rewrite <- Ti in D1, D2.
    destruct (quiet_turn (b_dyn b) t (faults i) Tin D1 D2) as [Q|Q]; rewrite Q in H; cbn [r_out r_world r_events] in H;
      inversion H; subst b' st; clear H; constructor; cbn [b_world b_log b_dyn b_reports]; auto.
    - intros j. unfold mark_desc. rewrite !has_dyn_app, !has_dyn_mark. simpl. apply D.
    - intros j o [Heq|Hin]; [inversion Heq; left; reflexivity|eauto].
    - intros j o [Heq|Hin]; [inversion Heq; right; reflexivity|eauto].
  Qed.

  Lemma QInv_loop fuel : forall b, QInv b -> QInv (loop body fuel c ts E desel faults pref b).
  Proof.
    induction fuel as [|f IH]; intros b I; simpl; auto.
    destruct (is_active (b_sorter b)); auto.
    destruct (step body c ts E desel faults pref b) as [[b' [|]]|] eqn:S; auto.
    - eapply QInv_step; eauto.
    - apply IH. eapply QInv_step; eauto.
  Qed.
End Quiet.

(* C03: "immediately repeating a successful build executes no task" - and more generally: a
   build (any options, selection, schedule) over a world in which every row matches starts no
   task function, leaves files and database exactly as they are and reports every task as
   unchanged or skipped *)
Theorem quiet_build is_word lower body c ts faults pref w1 E desel :
  force c = false ->
  create_dag is_word lower c ts = DagOk E desel ->
  (forall t, In t ts -> forall k, In k (neighbours E t) -> row_matches w1 t k) ->
  let r := build is_word lower body c ts faults pref w1 in
  x_log r = [] /\ x_world r = w1 /\ forall i o, In (i, o) (x_reports r) -> quiet_outcome o.
Proof.
  intros NF D RM r. subst r.
  pose proof (build_shape_of is_word lower body c ts faults pref w1) as BS.
  destruct BS as [D'|E' d' D' F'|E' d' s' b D' F' Hb]; cbn [x_log x_world x_reports].
  - repeat split; auto. intros i o [].
  - repeat split; auto. intros i o [].
  - rewrite D in D'. inversion D'; subst E' d'.
    assert (Q : QInv w1 b).
    { subst b. apply (QInv_loop body c ts E desel faults pref w1 NF RM).
      constructor; simpl; auto. intros i o []. }
    destruct Q as [W L _ R]. rewrite L, W. repeat split; auto.
    intros i o Hin. apply in_rev in Hin. eauto.
Qed.

(* the two together *)
Theorem repeat_build_executes_nothing
  is_word lower body c c' ts faults faults' pref pref' w E desel desel' s0 :
  create_dag is_word lower c ts = DagOk E desel ->
  from_dag (task_ids ts) E (map (fun t => (tid t, tprio t)) ts) = Some s0 ->
  NoDup (task_ids ts) ->
  (forall t, In t ts -> wf_task t) -> (forall t, In t ts -> m_persist t = false) ->
  (forall i, good_fault (faults i)) -> (forall t, In t ts -> SC body w t) ->
  (forall t u, In t ts -> In u ts -> ~ In (tid t) (prods u) /\ ~ In (tid t) (deps u)) ->
  let r1 := build is_word lower body c ts faults pref w in
  (forall t, In t ts -> exists o, In (tid t, o) (x_reports r1) /\ fresh_outcome o) ->
  force c' = false -> create_dag is_word lower c' ts = DagOk E desel' ->
  let r2 := build is_word lower body c' ts faults' pref' (x_world r1) in
  x_log r2 = [] /\ x_world r2 = x_world r1 /\ forall i o, In (i, o) (x_reports r2) -> quiet_outcome o.
Proof.
  intros HD HF ND WF NP GF SC0 IDS r1 AF NF HD' r2. subst r2.
  apply (quiet_build is_word lower body c' ts faults' pref' (x_world r1) E desel' NF HD').
  intros t T k Hk. subst r1.
  apply (all_fresh_rows_match is_word lower body c ts faults pref w E desel s0 HD HF ND WF NP GF SC0 IDS AF t T k Hk).
Qed.
