(* The catalog store over ANY history of saves refines the simplest specification - a map from
   location to the value written last: a consumer loads what the latest producer of that entry
   returned, whatever was saved into other entries before, in between or afterwards. *)
From Verif Require Import Base.Prelude Model.Catalog Proofs.CatalogProofs.

Section H.
  Variable value : Type.
  Variable dumps : value -> list N.
  Variable loads : list N -> option value.
  Hypothesis roundtrip : forall v, loads (dumps v) = Some v.

  Definition sop := (list N * value)%type.

  Definition run_saves (s : store) (ops : list sop) : store :=
    fold_left (fun st o => save value dumps st (fst o) (snd o)) ops s.

  (* specification: the value of the last save to p, if any *)
  Fixpoint last_saved (ops : list sop) (p : list N) (acc : option value) : option value :=
    match ops with
    | [] => acc
    | (q, v) :: r => last_saved r p (if eqbL p q then Some v else acc)
    end.

  Lemma last_saved_some ops p : forall v, exists w, last_saved ops p (Some v) = Some w.
  Proof.
    induction ops as [|(q, u) r IH]; intros v; cbn [last_saved]; eauto.
    destruct (eqbL p q); apply IH.
  Qed.

  Lemma run_saves_load ops : forall s p,
    load value loads (run_saves s ops) p =
    match last_saved ops p None with Some v => Some v | None => load value loads s p end.
  Proof.
    unfold run_saves.
    assert (forall s p acc,
      match acc with Some v => load value loads s p = Some v | None => True end ->
      load value loads (fold_left (fun st o => save value dumps st (fst o) (snd o)) ops s) p =
      match last_saved ops p acc with Some v => Some v
      | None => load value loads s p end) as G.
    { induction ops as [|(q, v) r IH]; intros s p acc Hacc; cbn [fold_left last_saved fst snd].
      - destruct acc; auto.
      - destruct (eqbL p q) eqn:E.
        + apply eqbL_spec in E. subst q.
          rewrite (IH (save value dumps s p v) p (Some v)) by (apply load_save; exact roundtrip).
          destruct (last_saved_some r p v) as (w & L). rewrite L. reflexivity.
        + assert (q <> p) as NE by (intros C; subst; rewrite eqbL_refl in E; discriminate).
          rewrite (IH (save value dumps s q v) p acc).
          * destruct (last_saved r p acc); auto. apply load_save_other. exact NE.
          * destruct acc; auto. rewrite load_save_other by exact NE. exact Hacc. }
    intros s p. apply (G s p None). exact I.
  Qed.

  (* the last write to p in the history wins ... *)
  Theorem last_write_wins s ops1 p v ops2 :
    (forall o, In o ops2 -> fst o <> p) ->
    load value loads (run_saves s (ops1 ++ (p, v) :: ops2)) p = Some v.
  Proof.
    intros H. unfold run_saves. rewrite fold_left_app. cbn [fold_left fst snd].
    fold (run_saves (save value dumps (fold_left (fun st o => save value dumps st (fst o) (snd o)) ops1 s) p v) ops2).
    rewrite run_saves_load.
    assert (last_saved ops2 p None = None) as L.
    { clear - H. induction ops2 as [|(q, w) r IH]; cbn [last_saved]; auto.
      destruct (eqbL p q) eqn:E.
      - apply eqbL_spec in E. exfalso. apply (H (q, w)); [left; auto | cbn; congruence].
      - apply IH. intros o Ho. apply H. right; exact Ho. }
    rewrite L. apply load_save. exact roundtrip.
  Qed.

  (* ... and an entry no save of the history touches is what it was *)
  Theorem untouched_entry_unchanged s ops p :
    (forall o, In o ops -> fst o <> p) ->
    load value loads (run_saves s ops) p = load value loads s p.
  Proof.
    intros H. rewrite run_saves_load.
    assert (last_saved ops p None = None) as L.
    { clear - H. induction ops as [|(q, w) r IH]; cbn [last_saved]; auto.
      destruct (eqbL p q) eqn:E.
      - apply eqbL_spec in E. exfalso. apply (H (q, w)); [left; auto | cbn; congruence].
      - apply IH. intros o Ho. apply H. right; exact Ho. }
    rewrite L. reflexivity.
  Qed.
End H.

Example history_example :
  let dumps := fun v : N => [v] in let loads := fun b : list N => match b with [v] => Some v | _ => None end in
  let s := run_saves N dumps [] [([1], 10); ([2], 20); ([1], 11)]%N in
  load N loads s [1]%N = Some 11%N /\ load N loads s [2]%N = Some 20%N /\ load N loads s [3]%N = None.
Proof. vm_compute. auto. Qed.
