(* Obligations tying Model/Sorter.v to the facts extracted from dag_utils.py: the numeric
   recoding of the markers, the default of unlisted tasks, ascending sort and "take the last n". *)
From Verif Require Import Base.Prelude Model.Sorter Gen.SorterFacts.
Local Open Scope Z_scope.

(* Model/Sorter.v: get_ready = lastn n (isort ascending) *)
Lemma sorter_direction_ok : x_sort_reverse = false /\ x_take_last = true.
Proof. split; reflexivity. Qed.

(* prio_of returns 0 for a task without entry; the harness writes 1 / -1 for the markers *)
Lemma sorter_default_ok : forall v, prio_of [] v = x_prio_default.
Proof. intros v. reflexivity. Qed.

Lemma sorter_values_ok : x_prio_try_first = 1 /\ x_prio_unmarked = 0 /\ x_prio_try_last = -1.
Proof. repeat split; reflexivity. Qed.

(* what the theorems of C19 need of the numbers: try_last < unmarked = default < try_first *)
Lemma sorter_marker_order_ok :
  x_prio_try_last < x_prio_unmarked /\ x_prio_unmarked = x_prio_default /\ x_prio_unmarked < x_prio_try_first.
Proof. vm_compute. repeat split; reflexivity. Qed.
