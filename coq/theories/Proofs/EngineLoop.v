(* Invariants of the sequential build loop (Engine.loop) and the build-level
   theorems derived from them. *)
From Coq Require Import Sorting.Sorted.
From Verif Require Import Base.Prelude Base.Graph Model.Sorter Model.Expr Model.Engine.
From Verif Require Import Proofs.GraphProofs Proofs.SorterProofs Proofs.EngineTask.

Local Open Scope Z_scope.

(* ------------------------------------------------------------- picking *)
Lemma pick_pref_In pref cands x : pick_pref pref cands = Some x -> In x cands.
Proof.
  induction pref as [|p pref IH]; simpl.
  - destruct cands; [discriminate|]. intros H; inversion H; subst. left; reflexivity.
  - destruct (memN p cands) eqn:E; auto. intros H; inversion H; subst.
    apply memN_In. exact E.
Qed.

Lemma pick_pref_some pref cands : cands <> [] -> exists x, pick_pref pref cands = Some x.
Proof.
  intros NE. induction pref as [|p pref IH]; simpl.
  - destruct cands; [congruence|eauto].
  - destruct (memN p cands); eauto.
Qed.

Lemma best_spec s x :
  In x (best s) <-> In x (ready s) /\ forall y, In y (ready s) -> pr s y <= pr s x.
Proof.
  unfold best. rewrite filter_In, forallb_forall. split.
  - intros [H1 H2]. split; auto. intros y Hy. apply Z.leb_le. auto.
  - intros [H1 H2]. split; auto. intros y Hy. apply Z.leb_le. auto.
Qed.

Lemma max_exists (f : N -> Z) l : l <> [] -> exists m, In m l /\ forall y, In y l -> f y <= f m.
Proof.
  induction l as [|x l IH]; [congruence|]. intros _.
  destruct l as [|y l'].
  - exists x. split; [left; reflexivity|]. intros y [<-|[]]. lia.
  - destruct IH as [m [Hm Hmax]]; [discriminate|].
    destruct (Z_le_gt_dec (f x) (f m)).
    + exists m. split; [right; exact Hm|]. intros z [<-|Hz]; auto.
    + exists x. split; [left; reflexivity|]. intros z [<-|Hz]; [lia|].
      specialize (Hmax z Hz). lia.
Qed.

Lemma best_nonempty s : ready s <> [] -> best s <> [].
Proof.
  intros NE. destruct (max_exists (pr s) (ready s) NE) as [m [Hm Hmax]].
  intros C. assert (In m (best s)) by (apply best_spec; auto). rewrite C in H. exact H.
Qed.

Theorem pick_valid s pref i : pick s pref = Some i -> valid_batch s 1 [i].
Proof.
  unfold pick. intros H. apply pick_pref_In in H. apply best_spec in H.
  destruct H as [Hr Hmax]. unfold valid_batch. repeat split.
  - constructor; [intros []|constructor].
  - intros x [<-|[]]. exact Hr.
  - simpl. destruct (ready s) as [|a l]; [destruct Hr|]. simpl. reflexivity.
  - constructor; constructor.
  - intros x y Hx _ [<-|[]]. auto.
Qed.

Theorem pick_some s pref : ready s <> [] -> exists i, pick s pref = Some i.
Proof. intros NE. apply pick_pref_some. apply best_nonempty. exact NE. Qed.

(* ------------------------------------------------------ sorter stepping *)
Lemma remove_all_self i l : remove_all [i] (i :: l) = remove_all [i] l.
Proof. unfold remove_all. simpl. rewrite N.eqb_refl. reflexivity. Qed.

Definition advance (s : sorter) (i : N) : sorter := done (take s [i]) [i].

Lemma advance_processing s i : processing s = [] -> processing (advance s i) = [].
Proof.
  intros P. unfold advance, done, take. simpl. rewrite P. unfold remove_all. simpl.
  rewrite N.eqb_refl. reflexivity.
Qed.

Lemma advance_finished s i : finished (advance s i) = i :: finished s.
Proof. reflexivity. Qed.

Lemma advance_gnodes s i x : In x (gnodes (advance s i)) <-> In x (gnodes s) /\ x <> i.
Proof.
  unfold advance. simpl. rewrite remove_all_In. simpl. split.
  - intros [H1 H2]. split; auto.
  - intros [H1 H2]. split; auto. intros [C|[]]. congruence.
Qed.

Lemma advance_gedges s i : gedges (advance s i) = gedges s.
Proof. reflexivity. Qed.

Lemma advance_reachable s0 s h pref i :
  reachable s0 s h -> pick s pref = Some i -> reachable s0 (advance s i) (h ++ [i]).
Proof.
  intros R P.
  assert (R1 : reachable s0 (apply_op s (OGet 1 [i])) (h ++ batch_of (OGet 1 [i]))).
  { apply reachS; auto. simpl. split; [lia|]. apply pick_valid with pref. exact P. }
  assert (R2 : reachable s0 (apply_op (apply_op s (OGet 1 [i])) (ODone [i]))
                         ((h ++ batch_of (OGet 1 [i])) ++ batch_of (ODone [i]))).
  { apply reachS; auto. exact I. }
  simpl in R2. rewrite app_nil_r in R2. exact R2.
Qed.

(* ------------------------------------------------------------- marks *)
Definition dm_eqb (a b : dynmark) : bool :=
  match a, b with
  | MSkip, MSkip | MAncFailed, MAncFailed | MWould, MWould => true
  | _, _ => false
  end.

Lemma has_dyn_app m t l1 l2 : has_dyn m t (l1 ++ l2) = has_dyn m t l1 || has_dyn m t l2.
Proof. unfold has_dyn. apply existsb_app. Qed.

Lemma has_dyn_mark m m' t ds :
  has_dyn m t (map (fun d => (d, m')) ds) = dm_eqb m' m && memN t ds.
Proof.
  unfold has_dyn. induction ds as [|d ds IH]; simpl.
  - rewrite andb_false_r. reflexivity.
  - rewrite IH. rewrite (N.eqb_sym d t).
    destruct (N.eqb t d); destruct m', m; simpl; auto;
      try rewrite !andb_false_r; auto.
Qed.

(* ------------------------------------------------------------ the loop *)
Section Loop.
  Variable body : N -> N -> list N -> N -> N.
  Variable c : config.
  Variable ts : list task.
  Variable E : list edge.
  Variable desel : list N.
  Variable faults : N -> fault.
  Variable pref : list N.
  Variable s0 : sorter.
  Variable w0 : world.

  Hypothesis s0_spec : from_dag (task_ids ts) E (map (fun t => (tid t, tprio t)) ts) = Some s0.
  Hypothesis ids_nodup : NoDup (task_ids ts).

  Notation stepf := (step body c ts E desel faults pref).
  Notation loopf := (fun fuel => loop body fuel c ts E desel faults pref).

  Definition mark_of (o : outcome) : option dynmark :=
    match o with OSkip => Some MSkip | OWould => Some MWould | OFail => Some MAncFailed | _ => None end.

  Definition task_of_event (e : event) : N := match e with Start t | Finish t => t end.

  Definition respects (m : dynmark) (o : outcome) : Prop :=
    match m with
    | MSkip => o = OSkip
    | MAncFailed => o = OSkipPrevFailed \/ o = OSkip
    | MWould => ran o = false
    end.

  Definition static_skip (t : task) : bool :=
    m_skip t || memN (tid t) desel || existsb (fun b => b) (m_skipif t).

  Record LInv (b : bstate) : Prop := {
    li_reach : reachable s0 (b_sorter b) (rev (map fst (b_reports b)));
    li_proc : processing (b_sorter b) = [];
    li_fin : finished (b_sorter b) = map fst (b_reports b);
    li_gnodes : forall x, In x (gnodes (b_sorter b)) <-> In x (task_ids ts) /\ ~ In x (map fst (b_reports b));
    li_gedges : gedges (b_sorter b) = closure_edges (task_ids ts) E;
    li_order : forall l1 t o l2, b_reports b = l1 ++ (t, o) :: l2 ->
               forall u, In u (task_ids ts) -> Reach E u t -> In u (map fst l2);
    li_marks : forall u o m d, In (u, o) (b_reports b) -> mark_of o = Some m ->
               In d (descending_tasks ts E u) -> has_dyn m d (b_dyn b) = true;
    li_marks_conv : forall m d, has_dyn m d (b_dyn b) = true ->
               exists u o, In (u, o) (b_reports b) /\ mark_of o = Some m /\ In d (descending_tasks ts E u);
    li_log_tasks : forall e, In e (b_log b) ->
               exists o, In (task_of_event e, o) (b_reports b) /\ ran o = true;
    li_log_nodup : NoDup (b_log b);
    li_log_order : forall l1 t l2, b_log b = l1 ++ Start t :: l2 ->
               forall e, In e l1 -> ~ Reach E (task_of_event e) t;
    li_nfail : b_nfail b = length (filter (fun p => match snd p with OFail => true | _ => false end) (b_reports b));
    li_db_frame : forall t' k, ~ In t' (map fst (b_reports b)) ->
               dblookup t' k (db (b_world b)) = dblookup t' k (db w0);
    li_fs_frame : forall k, (forall t, In t ts -> In (tid t) (map fst (b_reports b)) -> ~ In k (prods t)) ->
               lookup k (fs (b_world b)) = lookup k (fs w0);
    li_fs_mono : forall k, lookup k (fs w0) <> None -> lookup k (fs (b_world b)) <> None;
    li_gnodup : NoDup (gnodes (b_sorter b));
    li_succ_prods : forall t, In t ts -> In (tid t, OSuccess) (b_reports b) ->
               forall p, In p (prods t) -> lookup p (fs (b_world b)) <> None;
    li_out : forall l1 t o l2, b_reports b = l1 ++ (t, o) :: l2 ->
               forall u ou m, In (u, ou) l2 -> mark_of ou = Some m ->
               In t (descending_tasks ts E u) -> respects m o;
    li_out_conv : forall l1 t l2, b_reports b = l1 ++ (t, OSkipPrevFailed) :: l2 ->
               exists u, In (u, OFail) l2 /\ In t (descending_tasks ts E u);
    li_db_exact : forall t o, In (t, o) (b_reports b) -> o <> OSuccess -> o <> OPersist ->
               forall k, dblookup t k (db (b_world b)) = dblookup t k (db w0);
    li_static_skip : forall t o, In t ts -> In (tid t, o) (b_reports b) ->
               static_skip t = true -> o = OSkip;
    li_rep_tasks : forall x, In x (map fst (b_reports b)) -> In x (task_ids ts)
  }.

  Definition b0 : bstate := mkB w0 [] [] [] 0 s0.

  Lemma s0_facts :
    gnodes s0 = task_ids ts /\ gedges s0 = closure_edges (task_ids ts) E /\ fresh s0 /\
    strict_order (gedges s0) /\ covers s0 /\ acyclic E.
  Proof.
    destruct (from_dag_spec _ _ _ _ s0_spec) as (A & B & _ & C & D & F & G). auto 10.
  Qed.

  Lemma LInv_b0 : LInv b0.
  Proof.
    destruct s0_facts as (G & GE & [P F] & _).
    constructor; simpl; auto.
    - constructor.
    - intros x. rewrite G. tauto.
    - intros l1 t o l2 H. destruct l1; discriminate.
    - intros m d H. discriminate.
    - intros e [].
    - constructor.
    - intros l1 t l2 H. destruct l1; discriminate.
    - rewrite G. exact ids_nodup.
    - intros l1 t o l2 H. destruct l1; discriminate.
    - intros l1 t l2 H. destruct l1; discriminate.
    - intros t o _ [].
    - intros x [].
  Qed.

  Lemma find_task_some i : In i (task_ids ts) -> exists t, find_task ts i = Some t /\ tid t = i /\ In t ts.
  Proof.
    unfold find_task, task_ids. intros H. apply in_map_iff in H. destruct H as [t [Ht Hin]].
    destruct (find (fun t0 => N.eqb (tid t0) i) ts) as [t'|] eqn:F.
    - apply find_some in F. destruct F as [F1 F2]. apply N.eqb_eq in F2. eauto.
    - exfalso. apply (find_none _ _ F) in Hin. rewrite Ht, N.eqb_refl in Hin. discriminate.
  Qed.

  Lemma find_task_spec i t : find_task ts i = Some t -> tid t = i /\ In t ts.
  Proof.
    unfold find_task. intros F. apply find_some in F. destruct F as [F1 F2].
    apply N.eqb_eq in F2. auto.
  Qed.

  Lemma tid_inj t1 t2 : In t1 ts -> In t2 ts -> tid t1 = tid t2 -> t1 = t2.
  Proof.
    unfold task_ids in ids_nodup. revert ids_nodup. clear s0_spec.
    induction ts as [|a l IH]; simpl; intros ND H1 H2 Heq; [destruct H1|].
    inversion ND as [|x y Hn ND']; subst.
    destruct H1 as [<-|H1], H2 as [<-|H2]; auto.
    - exfalso. apply Hn. rewrite Heq. apply in_map. exact H2.
    - exfalso. apply Hn. rewrite <- Heq. apply in_map. exact H1.
  Qed.

  Lemma descending_spec u d :
    In d (descending_tasks ts E u) <-> In d (task_ids ts) /\ Reach E u d.
  Proof.
    unfold descending_tasks. rewrite filter_In, reachb_iff. tauto.
  Qed.

  (* one iteration preserves the invariant *)
  Lemma step_inv b b' stop : LInv b -> stepf b = Some (b', stop) -> LInv b'.
  Proof.
    intros L H. unfold step in H.
    destruct (pick (b_sorter b) pref) as [i|] eqn:P; [|discriminate].
    destruct (find_task ts i) as [t|] eqn:F; [|discriminate].
    destruct (find_task_spec i t F) as [Ti Tin].
    set (r := run_task body c E (b_dyn b) desel (b_world b) t (faults i)) in *.
    inversion H; subst b' stop; clear H.
    destruct s0_facts as (G0 & GE0 & FR0 & SO0 & CV0 & AC).
    pose proof (pick_valid _ _ _ P) as V.
    assert (Hready : In i (ready (b_sorter b))).
    { destruct V as (_ & I & _). apply I. left; reflexivity. }
    apply ready_spec in Hready. destruct Hready as (Hg & _ & Hpred).
    apply (li_gnodes b L) in Hg. destruct Hg as [Hit Hnr].
    (* all ancestors of i have been reported *)
    assert (ANC : forall u, In u (task_ids ts) -> Reach E u i -> In u (map fst (b_reports b))).
    { intros u Hu R. rewrite <- (li_fin b L).
      destruct (in_dec N.eq_dec u (gnodes (b_sorter b))) as [Gu|Gu].
      - exfalso. apply (Hpred u); auto. rewrite (li_gedges b L).
        apply closure_edges_spec. repeat split; auto. apply reachb_iff. exact R.
      - rewrite (li_fin b L). destruct (in_dec N.eq_dec u (map fst (b_reports b))); auto.
        exfalso. apply Gu. apply (li_gnodes b L). auto. }
    assert (NotSelf : ~ Reach E i i) by apply AC.
    constructor; cbn [b_world b_dyn b_reports b_log b_nfail b_sorter].
    - (* reach *) simpl. apply (advance_reachable s0 (b_sorter b) _ pref i); auto. apply (li_reach b L).
    - apply advance_processing. apply (li_proc b L).
    - simpl. rewrite (li_fin b L). reflexivity.
    - intros x. fold (advance (b_sorter b) i). rewrite advance_gnodes, (li_gnodes b L). simpl.
      split.
      + intros [[A B] C]. split; auto. intros [D|D]; [congruence|auto].
      + intros [A B]. split; [split; [exact A|]|].
        * intros C0. apply B. right; exact C0.
        * intros ->. apply B. left; reflexivity.
    - apply (li_gedges b L).
    - (* order *)
      intros l1 t' o l2 Heq u Hu R. destruct l1 as [|x l1]; simpl in Heq.
      + inversion Heq; subst. apply ANC; auto.
      + inversion Heq; subst. eapply (li_order b L); eauto.
    - (* marks *)
      intros u o m d Hin Hm Hd. simpl in Hin. destruct Hin as [Heq|Hin].
      + inversion Heq; subst u o. destruct (r_out r); simpl in Hm; try discriminate;
          inversion Hm; subst m; unfold mark_desc; rewrite has_dyn_app, has_dyn_mark; simpl;
          apply orb_true_iff; left; apply memN_In; exact Hd.
      + assert (HD : has_dyn m d (b_dyn b) = true) by (eapply (li_marks b L); eauto).
        destruct (r_out r); auto; unfold mark_desc; rewrite has_dyn_app, HD; apply orb_true_r.
    - (* marks, converse *)
      intros m d HD.
      assert (CASES : has_dyn m d (b_dyn b) = true \/
                      (mark_of (r_out r) = Some m /\ In d (descending_tasks ts E i))).
      { destruct (r_out r); auto; unfold mark_desc in HD; rewrite has_dyn_app, has_dyn_mark in HD;
          apply orb_true_iff in HD; destruct HD as [HD|HD]; auto;
          apply andb_true_iff in HD; destruct HD as [Hm Hd]; apply memN_In in Hd;
          destruct m; try discriminate; right; auto. }
      destruct CASES as [HD'|[Hm Hd]].
      + destruct (li_marks_conv b L m d HD') as (u & o & A & B & C0).
        exists u, o. repeat split; auto. right; exact A.
      + exists i, (r_out r). repeat split; auto. left; reflexivity.
    - (* log tasks *)
      intros e He. apply in_app_or in He. destruct He as [He|He].
      + exists (r_out r). split.
        * left. apply in_rev in He.
          destruct (events_shape body c E (b_dyn b) desel (b_world b) t (faults i)) as [Z|Z];
            fold r in Z; rewrite Z in He; simpl in He; [destruct He|].
          destruct He as [<-|[<-|[]]]; simpl; rewrite Ti; reflexivity.
        * destruct (ran (r_out r)) eqn:Rn; auto. exfalso.
          destruct (nonrun_outcomes_silent body c E (b_dyn b) desel (b_world b) t (faults i) Rn) as [Z _].
          fold r in Z. rewrite Z in He. destruct He.
      + destruct (li_log_tasks b L e He) as [o [A B]]. exists o. split; auto. right; exact A.
    - (* log nodup *)
      destruct (events_shape body c E (b_dyn b) desel (b_world b) t (faults i)) as [Z|Z];
        fold r in Z; rewrite Z; simpl; [apply (li_log_nodup b L)|].
      rewrite Ti.
      assert (NI : forall e, task_of_event e = i -> ~ In e (b_log b)).
      { intros e Te He. destruct (li_log_tasks b L e He) as [o [A _]]. rewrite Te in A.
        apply Hnr. apply in_map_iff. exists (i, o). auto. }
      constructor; [|constructor; [|apply (li_log_nodup b L)]].
      * intros [C|C]; [discriminate|]. apply (NI (Finish i)); auto.
      * apply NI. reflexivity.
    - (* log order *)
      intros l1 t' l2 Heq e He.
      destruct (events_shape body c E (b_dyn b) desel (b_world b) t (faults i)) as [Z|Z];
        fold r in Z; rewrite Z in Heq; simpl in Heq.
      + eapply (li_log_order b L); eauto.
      + rewrite Ti in Heq.
        destruct l1 as [|x1 l1]; [discriminate|]. inversion Heq; subst x1.
        destruct l1 as [|x2 l1].
        * simpl in H1. inversion H1; subst t' l2. destruct He as [<-|[]]. simpl. exact NotSelf.
        * simpl in H1. inversion H1; subst x2. clear Heq H1.
          (* Start t' lies in the old log: t' was reported earlier, so i is no ancestor of t' *)
          assert (Hold : In (Start t') (b_log b)) by (rewrite H2; apply in_or_app; right; left; reflexivity).
          destruct (li_log_tasks b L _ Hold) as [o [A _]]. simpl in A.
          destruct He as [<-|[<-|He]]; simpl.
          -- intros R. apply in_split in A. destruct A as (m1 & m2 & Em).
             pose proof (li_order b L _ _ _ _ Em i Hit R) as C0.
             apply Hnr. rewrite Em. rewrite map_app. simpl. apply in_or_app. right. right. exact C0.
          -- intros R. apply in_split in A. destruct A as (m1 & m2 & Em).
             pose proof (li_order b L _ _ _ _ Em i Hit R) as C0.
             apply Hnr. rewrite Em. rewrite map_app. simpl. apply in_or_app. right. right. exact C0.
          -- eapply (li_log_order b L); eauto.
    - (* nfail *)
      simpl. rewrite (li_nfail b L). destruct (r_out r); reflexivity.
    - (* db frame *)
      intros t' k Hn. simpl in Hn.
      assert (t' <> tid t) by (intros ->; apply Hn; left; auto).
      unfold r. rewrite other_rows_untouched by exact H.
      apply (li_db_frame b L). intros C0. apply Hn. right; exact C0.
    - (* fs frame *)
      intros k Hk. unfold r. rewrite task_footprint.
      + apply (li_fs_frame b L). intros t1 T1 R1. apply Hk; auto. right; exact R1.
      + apply Hk; auto. left. simpl. symmetry; exact Ti.
    - intros k Hk. unfold r. apply task_monotone. apply (li_fs_mono b L). exact Hk.
    - (* NoDup gnodes *)
      simpl. unfold remove_all. apply NoDup_filter. apply (li_gnodup b L).
    - (* products of succeeded tasks exist *)
      intros t1 T1 Hin p Hp. simpl in Hin. destruct Hin as [Heq|Hin].
      + inversion Heq as [[Hid Hout]].
        assert (t1 = t) by (apply tid_inj; auto; congruence).
        subst t1.
        destruct (success_spec body c E (b_dyn b) desel (b_world b) t (faults i) Hout) as (_ & PE & _).
        fold r in PE. unfold prods_exist in PE. rewrite forallb_forall in PE.
        specialize (PE p Hp). destruct (lookup p (fs (r_world r))); [discriminate|discriminate].
      + unfold r. apply task_monotone. eapply (li_succ_prods b L); eauto.
    - (* outcomes respect inherited marks *)
      intros l1 t' o l2 Heq u ou m Hin Hm Hd. destruct l1 as [|x l1]; simpl in Heq.
      + inversion Heq; subst t' o l2.
        assert (HD : has_dyn m (tid t) (b_dyn b) = true).
        { rewrite Ti. eapply (li_marks b L); eauto. }
        unfold r. pose proof (run_task_spec body c E (b_dyn b) desel (b_world b) t (faults i)) as SP.
        destruct m; simpl.
        * assert (SF : skipflag t (b_dyn b) desel = true).
          { unfold skipflag. rewrite HD. rewrite orb_true_r. reflexivity. }
          rewrite (skip_spec body c E (b_dyn b) desel (b_world b) t (faults i) (or_introl SF)). reflexivity.
        * apply (anc_failed_spec body c E (b_dyn b) desel (b_world b) t (faults i) HD).
        * destruct SP; simpl; auto; congruence.
      + inversion Heq; subst x. eapply (li_out b L); eauto.
    - (* SKIP_PREVIOUS_FAILED only below a failure *)
      intros l1 t' l2 Heq. destruct l1 as [|x l1]; simpl in Heq.
      + inversion Heq as [[Hid Hout Hl2]]. subst l2.
        assert (HD : has_dyn MAncFailed (tid t) (b_dyn b) = true).
        { pose proof (run_task_spec body c E (b_dyn b) desel (b_world b) t (faults i)) as SP.
          fold r in SP. destruct SP; simpl in Hout; try discriminate; auto. }
        destruct (li_marks_conv b L _ _ HD) as (u & o & A & B & C0).
        destruct o; simpl in B; try discriminate. exists u. rewrite <- Hid, <- Ti. auto.
      + inversion Heq; subst x. eapply (li_out_conv b L); eauto.
    - (* only SUCCESS and PERSISTENCE record *)
      intros t' o Hin N1 N2 k. simpl in Hin. destruct Hin as [Heq|Hin].
      + inversion Heq; subst t' o. unfold r in *.
        rewrite (db_changes_only_on_success_or_persist body c E (b_dyn b) desel (b_world b) t (faults i) N1 N2).
        apply (li_db_frame b L). exact Hnr.
      + assert (t' <> tid t).
        { intros ->. apply Hnr. rewrite <- Ti. apply in_map_iff. exists (tid t, o). auto. }
        unfold r. rewrite other_rows_untouched by exact H.
        eapply (li_db_exact b L); eauto.
    - (* statically skipped tasks are reported SKIP *)
      intros t1 o T1 Hin SS. simpl in Hin. destruct Hin as [Heq|Hin].
      + inversion Heq as [[Hid Hout]].
        assert (t1 = t) by (apply tid_inj; auto; congruence).
        subst t1. unfold r, static_skip in *.
        rewrite skip_spec; auto. unfold skipflag.
        apply orb_true_iff in SS. destruct SS as [SS|SS]; [left|right; exact SS].
        apply orb_true_iff in SS. destruct SS as [SS|SS]; rewrite SS.
        * reflexivity.
        * apply orb_true_r.
      + eapply (li_static_skip b L); eauto.
    - intros x Hx. simpl in Hx. destruct Hx as [<-|Hx]; auto. apply (li_rep_tasks b L). exact Hx.
  Qed.

  Lemma loop_inv fuel : forall b, LInv b -> LInv (loopf fuel b).
  Proof.
    induction fuel as [|f IH]; intros b L; simpl; auto.
    destruct (is_active (b_sorter b)); auto.
    destruct (stepf b) as [[b' [|]]|] eqn:S; auto.
    - eapply step_inv; eauto.
    - apply IH. eapply step_inv; eauto.
  Qed.

  Theorem final_inv fuel : LInv (loopf fuel b0).
  Proof. apply loop_inv. apply LInv_b0. Qed.

  (* ------------------------------------------------- totality of the loop *)
  Lemma step_some b : LInv b -> is_active (b_sorter b) = true -> exists b' st, stepf b = Some (b', st).
  Proof.
    intros L A. destruct s0_facts as (_ & GE0 & _ & SO0 & _).
    assert (NE : gnodes (b_sorter b) <> []).
    { unfold is_active in A. destruct (gnodes (b_sorter b)); [discriminate|discriminate]. }
    assert (SO : strict_order (gedges (b_sorter b))).
    { rewrite (li_gedges b L). rewrite <- GE0. exact SO0. }
    pose proof (no_deadlock _ SO NE (li_proc b L)) as R.
    destruct (pick_some _ pref R) as [i P].
    assert (In i (task_ids ts)).
    { pose proof (pick_valid _ _ _ P) as (_ & I & _).
      assert (In i (ready (b_sorter b))) by (apply I; left; reflexivity).
      apply ready_spec in H. destruct H as [H _]. apply (li_gnodes b L) in H. tauto. }
    destruct (find_task_some i H) as [t [F _]].
    unfold step. rewrite P, F. eauto.
  Qed.

  Lemma filter_length_remove i (l : list N) :
    NoDup l -> In i l -> S (length (remove_all [i] l)) = length l.
  Proof.
    unfold remove_all. induction l as [|x l IH]; intros ND Hin; [destruct Hin|].
    inversion ND; subst. simpl. destruct (N.eqb_spec x i) as [->|Hne]; simpl.
    - f_equal. clear IH ND Hin. induction l as [|y l IH]; simpl; auto.
      destruct (N.eqb_spec y i) as [->|]; simpl.
      + exfalso. apply H1. left; reflexivity.
      + f_equal. apply IH.
        * intros C. apply H1. right; exact C.
        * inversion H2; auto.
    - destruct Hin as [->|Hin]; [congruence|]. f_equal. apply IH; auto.
  Qed.

  Definition stopped_by_limit (b : bstate) : Prop :=
    exists m i l, max_fail c = Some m /\ b_reports b = (i, OFail) :: l /\ (m <= b_nfail b)%nat.

  (* with fuel for every remaining node the loop ends because nothing is left
     or because the failure limit was hit; it never gets stuck *)
  Theorem loop_total fuel : forall b,
    LInv b -> (length (gnodes (b_sorter b)) <= fuel)%nat ->
    gnodes (b_sorter (loopf fuel b)) = [] \/ stopped_by_limit (loopf fuel b).
  Proof.
    induction fuel as [|f IH]; intros b L Len; simpl.
    - left. destruct (gnodes (b_sorter b)); [reflexivity|simpl in Len; lia].
    - destruct (is_active (b_sorter b)) eqn:A.
      + destruct (step_some b L A) as (b' & st & S). rewrite S.
        pose proof (step_inv b b' st L S) as L'.
        unfold step in S.
        destruct (pick (b_sorter b) pref) as [i|] eqn:P; [|discriminate].
        destruct (find_task ts i) as [t|] eqn:F; [|discriminate].
        injection S as Hb Hst.
        set (r := run_task body c E (b_dyn b) desel (b_world b) t (faults i)) in *.
        destruct st.
        * right. destruct (r_out r) eqn:RO; try discriminate.
          destruct (max_fail c) as [m|] eqn:MF; [|discriminate].
          exists m, i, (b_reports b). rewrite <- Hb. cbn [b_reports b_nfail].
          repeat split; auto. apply Nat.leb_le. exact Hst.
        * apply IH; auto. rewrite <- Hb. simpl.
          assert (In i (gnodes (b_sorter b))).
          { pose proof (pick_valid _ _ _ P) as (_ & I & _).
            assert (In i (ready (b_sorter b))) by (apply I; left; reflexivity).
            apply ready_spec in H. tauto. }
          pose proof (filter_length_remove i _ (li_gnodup b L) H). lia.
      + left. unfold is_active in A. destruct (gnodes (b_sorter b)); [reflexivity|discriminate].
  Qed.

  Definition count_fail (rs : list (N * outcome)) : nat :=
    length (filter (fun p => match snd p with OFail => true | _ => false end) rs).

  (* C04: the failure limit is respected *)
  Theorem loop_maxfail m fuel : max_fail c = Some m -> forall b,
    LInv b -> (b_nfail b < m)%nat ->
    (count_fail (b_reports (loopf fuel b)) <= m)%nat /\
    ((count_fail (b_reports (loopf fuel b)) = m)%nat ->
     exists i l, b_reports (loopf fuel b) = (i, OFail) :: l).
  Proof.
    intros MF. induction fuel as [|f IH]; intros b L Lt; simpl.
    - unfold count_fail. rewrite <- (li_nfail b L). split; lia.
    - destruct (is_active (b_sorter b)).
      2:{ unfold count_fail. rewrite <- (li_nfail b L). split; lia. }
      destruct (stepf b) as [[b' st]|] eqn:S.
      2:{ unfold count_fail. rewrite <- (li_nfail b L). split; lia. }
      pose proof (step_inv b b' st L S) as L'.
      unfold step in S.
      destruct (pick (b_sorter b) pref) as [i|] eqn:P; [|discriminate].
      destruct (find_task ts i) as [t|] eqn:F; [|discriminate].
      injection S as Hb Hst.
      set (r := run_task body c E (b_dyn b) desel (b_world b) t (faults i)) in *.
      rewrite MF in Hst.
      assert (NF : b_nfail b' = match r_out r with OFail => S (b_nfail b) | _ => b_nfail b end)
        by (rewrite <- Hb; reflexivity).
      assert (RP : b_reports b' = (i, r_out r) :: b_reports b) by (rewrite <- Hb; reflexivity).
      destruct st.
      + unfold count_fail. rewrite <- (li_nfail b' L'). rewrite NF.
        destruct (r_out r) eqn:RO; try discriminate. split; [lia|]. intros _.
        exists i, (b_reports b). rewrite RP. reflexivity.
      + apply IH; auto. rewrite NF. destruct (r_out r) eqn:RO; auto.
        apply Nat.leb_gt in Hst. exact Hst.
  Qed.

  (* C10: a dry run starts nothing and changes no file *)
  Theorem loop_dry fuel : forall b,
    dry_run c = true -> b_log b = [] -> fs (b_world b) = fs w0 ->
    b_log (loopf fuel b) = [] /\ fs (b_world (loopf fuel b)) = fs w0.
  Proof.
    induction fuel as [|f IH]; intros b D Lg Fs; simpl; auto.
    destruct (is_active (b_sorter b)); auto.
    destruct (stepf b) as [[b' st]|] eqn:S; auto.
    unfold step in S.
    destruct (pick (b_sorter b) pref) as [i|] eqn:P; [|discriminate].
    destruct (find_task ts i) as [t|] eqn:F; [|discriminate].
    injection S as Hb Hst.
    assert (Q : b_log b' = [] /\ fs (b_world b') = fs w0).
    { rewrite <- Hb. simpl.
      destruct (dry_run_silent body c E (b_dyn b) desel (b_world b) t (faults i) D)
        as [(A & B & _)|(A & B & _)]; rewrite A, B, Lg, Fs; auto. }
    destruct Q as [Q1 Q2]. destruct st; auto.
  Qed.
End Loop.
