(* The recursive-descent parser of Model/Expr.v recognises exactly the
   documented grammar, deterministically, and never runs out of fuel. *)
From Verif Require Import Base.Prelude Model.Expr.

(* ------------------------------------------------ reference grammar *)
(* expr     := and_expr ('or' and_expr)*      left-assoc fold of AOr
   and_expr := not_expr ('and' not_expr)*     left-assoc fold of AAnd
   not_expr := 'not' not_expr | '(' expr ')' | ident
   Declarative: the starred tails may stop anywhere. *)
Inductive GExpr : list tok -> ast -> list tok -> Prop :=
| GE ts a r1 e r : GAnd ts a r1 -> GOrT a r1 e r -> GExpr ts e r
with GOrT : ast -> list tok -> ast -> list tok -> Prop :=
| GOrT_stop acc ts : GOrT acc ts acc ts
| GOrT_more acc r b r' e r'' :
    GAnd r b r' -> GOrT (AOr acc b) r' e r'' -> GOrT acc (OR :: r) e r''
with GAnd : list tok -> ast -> list tok -> Prop :=
| GA ts a r1 e r : GNot ts a r1 -> GAndT a r1 e r -> GAnd ts e r
with GAndT : ast -> list tok -> ast -> list tok -> Prop :=
| GAndT_stop acc ts : GAndT acc ts acc ts
| GAndT_more acc r b r' e r'' :
    GNot r b r' -> GAndT (AAnd acc b) r' e r'' -> GAndT acc (AND :: r) e r''
with GNot : list tok -> ast -> list tok -> Prop :=
| GN_not r a r' : GNot r a r' -> GNot (NOT :: r) (ANot a) r'
| GN_par r a r' : GExpr r a (RP :: r') -> GNot (LP :: r) a r'
| GN_id s r : GNot (ID s :: r) (AId s) r.

Scheme GExpr_ind' := Induction for GExpr Sort Prop
  with GOrT_ind' := Induction for GOrT Sort Prop
  with GAnd_ind' := Induction for GAnd Sort Prop
  with GAndT_ind' := Induction for GAndT Sort Prop
  with GNot_ind' := Induction for GNot Sort Prop.
Combined Scheme G_mutind from GExpr_ind', GOrT_ind', GAnd_ind', GAndT_ind', GNot_ind'.

(* expression := expr? EOF ; the empty expression is False *)
Definition GTop (ts : list tok) (a : ast) : Prop :=
  (ts = [] /\ a = AFalse) \/ (ts <> [] /\ GExpr ts a []).

(* ------------------------------------------------ unfolding equations *)
Lemma p_expr_S f ts : p_expr (S f) ts =
  match p_and f ts with Ok (a, r) => p_or_loop f a r | e => e end.
Proof. reflexivity. Qed.
Lemma p_or_loop_S f acc ts : p_or_loop (S f) acc ts =
  match ts with
  | OR :: r => match p_and f r with Ok (b, r') => p_or_loop f (AOr acc b) r' | e => e end
  | _ => Ok (acc, ts) end.
Proof. reflexivity. Qed.
Lemma p_and_S f ts : p_and (S f) ts =
  match p_not f ts with Ok (a, r) => p_and_loop f a r | e => e end.
Proof. reflexivity. Qed.
Lemma p_and_loop_S f acc ts : p_and_loop (S f) acc ts =
  match ts with
  | AND :: r => match p_not f r with Ok (b, r') => p_and_loop f (AAnd acc b) r' | e => e end
  | _ => Ok (acc, ts) end.
Proof. reflexivity. Qed.
Lemma p_not_S f ts : p_not (S f) ts =
  match ts with
  | NOT :: r => match p_not f r with Ok (a, r') => Ok (ANot a, r') | e => e end
  | LP :: r => match p_expr f r with
               | Ok (a, RP :: r') => Ok (a, r')
               | Ok (_, r') => Err (length r')
               | e => e end
  | ID s :: r => Ok (AId s, r)
  | _ => Err (length ts) end.
Proof. reflexivity. Qed.

Global Opaque p_expr p_or_loop p_and p_and_loop p_not.

Ltac unf := rewrite ?p_expr_S, ?p_or_loop_S, ?p_and_S, ?p_and_loop_S, ?p_not_S in *.

(* ------------------------------------------------------- soundness *)
Lemma sound f :
  (forall ts a r, p_expr f ts = Ok (a, r) -> GExpr ts a r) /\
  (forall acc ts a r, p_or_loop f acc ts = Ok (a, r) -> GOrT acc ts a r) /\
  (forall ts a r, p_and f ts = Ok (a, r) -> GAnd ts a r) /\
  (forall acc ts a r, p_and_loop f acc ts = Ok (a, r) -> GAndT acc ts a r) /\
  (forall ts a r, p_not f ts = Ok (a, r) -> GNot ts a r).
Proof.
  induction f as [|f (IHe & IHol & IHa & IHal & IHn)].
  - Transparent p_expr p_or_loop p_and p_and_loop p_not.
    repeat split; intros; simpl in *; discriminate.
    Opaque p_expr p_or_loop p_and p_and_loop p_not.
  - repeat split.
    + intros ts a r H. rewrite p_expr_S in H.
      destruct (p_and f ts) as [[a1 r1]| |] eqn:E; try discriminate.
      eapply GE; eauto.
    + intros acc ts a r H. rewrite p_or_loop_S in H.
      destruct ts as [|[| | | | |s] r0]; try (inversion H; subst; constructor).
      destruct (p_and f r0) as [[b r']| |] eqn:E; try discriminate.
      eapply GOrT_more; eauto.
    + intros ts a r H. rewrite p_and_S in H.
      destruct (p_not f ts) as [[a1 r1]| |] eqn:E; try discriminate.
      eapply GA; eauto.
    + intros acc ts a r H. rewrite p_and_loop_S in H.
      destruct ts as [|[| | | | |s] r0]; try (inversion H; subst; constructor).
      destruct (p_not f r0) as [[b r']| |] eqn:E; try discriminate.
      eapply GAndT_more; eauto.
    + intros ts a r H. rewrite p_not_S in H.
      destruct ts as [|[| | | | |s] r0]; try discriminate.
      * destruct (p_expr f r0) as [[a1 [|[| | | | |s1] r1]]| |] eqn:E; try discriminate.
        inversion H; subst. apply GN_par. auto.
      * destruct (p_not f r0) as [[a1 r1]| |] eqn:E; try discriminate.
        inversion H; subst. apply GN_not. auto.
      * inversion H; subst. apply GN_id.
Qed.

(* ---------------------------------------------------- consumed input *)
Lemma G_len :
  (forall ts a r, GExpr ts a r -> length r < length ts) /\
  (forall acc ts a r, GOrT acc ts a r -> length r <= length ts) /\
  (forall ts a r, GAnd ts a r -> length r < length ts) /\
  (forall acc ts a r, GAndT acc ts a r -> length r <= length ts) /\
  (forall ts a r, GNot ts a r -> length r < length ts).
Proof.
  apply G_mutind; intros; simpl in *; lia.
Qed.

(* --------------------------------------------------- fuel monotonicity *)
Lemma mono f :
  (forall ts v, p_expr f ts = v -> v <> Fuel -> p_expr (S f) ts = v) /\
  (forall acc ts v, p_or_loop f acc ts = v -> v <> Fuel -> p_or_loop (S f) acc ts = v) /\
  (forall ts v, p_and f ts = v -> v <> Fuel -> p_and (S f) ts = v) /\
  (forall acc ts v, p_and_loop f acc ts = v -> v <> Fuel -> p_and_loop (S f) acc ts = v) /\
  (forall ts v, p_not f ts = v -> v <> Fuel -> p_not (S f) ts = v).
Proof.
  induction f as [|f (IHe & IHol & IHa & IHal & IHn)].
  - Transparent p_expr p_or_loop p_and p_and_loop p_not.
    repeat split; intros; simpl in *; congruence.
    Opaque p_expr p_or_loop p_and p_and_loop p_not.
  - repeat split.
    + intros ts v H NF. rewrite p_expr_S in H. rewrite p_expr_S.
      destruct (p_and f ts) as [[a1 r1]| |] eqn:E.
      * rewrite (IHa _ _ E) by discriminate. apply IHol; auto.
      * rewrite (IHa _ _ E) by discriminate. auto.
      * congruence.
    + intros acc ts v H NF. rewrite p_or_loop_S in H. rewrite p_or_loop_S.
      destruct ts as [|[| | | | |s] r0]; auto.
      destruct (p_and f r0) as [[a1 r1]| |] eqn:E.
      * rewrite (IHa _ _ E) by discriminate. apply IHol; auto.
      * rewrite (IHa _ _ E) by discriminate. auto.
      * congruence.
    + intros ts v H NF. rewrite p_and_S in H. rewrite p_and_S.
      destruct (p_not f ts) as [[a1 r1]| |] eqn:E.
      * rewrite (IHn _ _ E) by discriminate. apply IHal; auto.
      * rewrite (IHn _ _ E) by discriminate. auto.
      * congruence.
    + intros acc ts v H NF. rewrite p_and_loop_S in H. rewrite p_and_loop_S.
      destruct ts as [|[| | | | |s] r0]; auto.
      destruct (p_not f r0) as [[a1 r1]| |] eqn:E.
      * rewrite (IHn _ _ E) by discriminate. apply IHal; auto.
      * rewrite (IHn _ _ E) by discriminate. auto.
      * congruence.
    + intros ts v H NF. rewrite p_not_S in H. rewrite p_not_S.
      destruct ts as [|[| | | | |s] r0]; auto.
      * destruct (p_expr f r0) as [[a1 r1]| |] eqn:E.
        -- rewrite (IHe _ _ E) by discriminate. auto.
        -- rewrite (IHe _ _ E) by discriminate. auto.
        -- congruence.
      * destruct (p_not f r0) as [[a1 r1]| |] eqn:E.
        -- rewrite (IHn _ _ E) by discriminate. auto.
        -- rewrite (IHn _ _ E) by discriminate. auto.
        -- congruence.
Qed.

Lemma mono_le_expr f f' ts v :
  f <= f' -> p_expr f ts = v -> v <> Fuel -> p_expr f' ts = v.
Proof.
  induction 1 as [|f' _ IH]; auto.
  intros H NF. apply (proj1 (mono f')); auto.
Qed.
Lemma mono_le_and f f' ts v :
  f <= f' -> p_and f ts = v -> v <> Fuel -> p_and f' ts = v.
Proof.
  induction 1 as [|f' _ IH]; auto.
  intros H NF. apply (proj1 (proj2 (proj2 (mono f')))); auto.
Qed.
Lemma mono_le_not f f' ts v :
  f <= f' -> p_not f ts = v -> v <> Fuel -> p_not f' ts = v.
Proof.
  induction 1 as [|f' _ IH]; auto.
  intros H NF. apply (proj2 (proj2 (proj2 (proj2 (mono f'))))); auto.
Qed.
Lemma mono_le_orl f f' acc ts v :
  f <= f' -> p_or_loop f acc ts = v -> v <> Fuel -> p_or_loop f' acc ts = v.
Proof.
  induction 1 as [|f' _ IH]; auto.
  intros H NF. apply (proj1 (proj2 (mono f'))); auto.
Qed.
Lemma mono_le_andl f f' acc ts v :
  f <= f' -> p_and_loop f acc ts = v -> v <> Fuel -> p_and_loop f' acc ts = v.
Proof.
  induction 1 as [|f' _ IH]; auto.
  intros H NF. apply (proj1 (proj2 (proj2 (proj2 (mono f'))))); auto.
Qed.

(* -------------------------------------------------------- completeness *)
Definition nf (t : tok) (r : list tok) : Prop :=
  match r with t' :: _ => t' <> t | [] => True end.

Lemma GOrT_head acc ts e r : GOrT acc ts e r -> ts = r \/ exists x, ts = OR :: x.
Proof. destruct 1; eauto. Qed.
Lemma GAndT_head acc ts e r : GAndT acc ts e r -> ts = r \/ exists x, ts = AND :: x.
Proof. destruct 1; eauto. Qed.

Lemma complete :
  (forall ts a r, GExpr ts a r -> nf OR r -> nf AND r ->
      exists f0, forall f, f0 <= f -> p_expr f ts = Ok (a, r)) /\
  (forall acc ts a r, GOrT acc ts a r -> nf OR r -> nf AND r ->
      exists f0, forall f, f0 <= f -> p_or_loop f acc ts = Ok (a, r)) /\
  (forall ts a r, GAnd ts a r -> nf AND r ->
      exists f0, forall f, f0 <= f -> p_and f ts = Ok (a, r)) /\
  (forall acc ts a r, GAndT acc ts a r -> nf AND r ->
      exists f0, forall f, f0 <= f -> p_and_loop f acc ts = Ok (a, r)) /\
  (forall ts a r, GNot ts a r ->
      exists f0, forall f, f0 <= f -> p_not f ts = Ok (a, r)).
Proof.
  apply G_mutind.
  - (* GE *) intros ts a r1 e r HA IHA HT IHT NO NA.
    assert (NA1 : nf AND r1).
    { destruct (GOrT_head _ _ _ _ HT) as [->|[x ->]]; simpl; auto. discriminate. }
    destruct (IHA NA1) as [f1 H1]. destruct (IHT NO NA) as [f2 H2].
    exists (S (f1 + f2)). intros [|f] L; [lia|].
    rewrite p_expr_S, H1 by lia. apply H2; lia.
  - (* GOrT_stop *) intros acc ts NO NA. exists 1. intros [|f] L; [lia|].
    rewrite p_or_loop_S. destruct ts as [|[| | | | |s] r0]; simpl in *; congruence.
  - (* GOrT_more *) intros acc r b r' e r'' HA IHA HT IHT NO NA.
    assert (NA1 : nf AND r').
    { destruct (GOrT_head _ _ _ _ HT) as [->|[x ->]]; simpl; auto. discriminate. }
    destruct (IHA NA1) as [f1 H1]. destruct (IHT NO NA) as [f2 H2].
    exists (S (f1 + f2)). intros [|f] L; [lia|].
    rewrite p_or_loop_S, H1 by lia. apply H2; lia.
  - (* GA *) intros ts a r1 e r HN IHN HT IHT NA.
    destruct IHN as [f1 H1]. destruct (IHT NA) as [f2 H2].
    exists (S (f1 + f2)). intros [|f] L; [lia|].
    rewrite p_and_S, H1 by lia. apply H2; lia.
  - (* GAndT_stop *) intros acc ts NA. exists 1. intros [|f] L; [lia|].
    rewrite p_and_loop_S. destruct ts as [|[| | | | |s] r0]; simpl in *; congruence.
  - (* GAndT_more *) intros acc r b r' e r'' HN IHN HT IHT NA.
    destruct IHN as [f1 H1]. destruct (IHT NA) as [f2 H2].
    exists (S (f1 + f2)). intros [|f] L; [lia|].
    rewrite p_and_loop_S, H1 by lia. apply H2; lia.
  - (* GN_not *) intros r a r' HN [f1 H1].
    exists (S f1). intros [|f] L; [lia|].
    rewrite p_not_S, H1 by lia. reflexivity.
  - (* GN_par *) intros r a r' HE IHE.
    destruct IHE as [f1 H1]; simpl; try discriminate.
    exists (S f1). intros [|f] L; [lia|].
    rewrite p_not_S, H1 by lia. reflexivity.
  - (* GN_id *) intros s r. exists 1. intros [|f] L; [lia|].
    rewrite p_not_S. reflexivity.
Qed.

(* ------------------------------------------------------ enough fuel *)
Lemma nofuel f :
  (forall ts, 5 * length ts + 4 <= f -> p_expr f ts <> Fuel) /\
  (forall acc ts, 5 * length ts + 3 <= f -> p_or_loop f acc ts <> Fuel) /\
  (forall ts, 5 * length ts + 2 <= f -> p_and f ts <> Fuel) /\
  (forall acc ts, 5 * length ts + 1 <= f -> p_and_loop f acc ts <> Fuel) /\
  (forall ts, 5 * length ts + 1 <= f -> p_not f ts <> Fuel).
Proof.
  induction f as [|f (IHe & IHol & IHa & IHal & IHn)].
  - repeat split; intros; lia.
  - repeat split.
    + intros ts L. rewrite p_expr_S.
      destruct (p_and f ts) as [[a1 r1]| |] eqn:E; try discriminate.
      * apply (proj1 (proj2 (proj2 (sound f)))) in E.
        apply (proj1 (proj2 (proj2 G_len))) in E. apply IHol. lia.
      * exfalso. revert E. apply IHa. lia.
    + intros acc ts L. rewrite p_or_loop_S.
      destruct ts as [|[| | | | |s] r0]; try discriminate. simpl in L.
      destruct (p_and f r0) as [[a1 r1]| |] eqn:E; try discriminate.
      * apply (proj1 (proj2 (proj2 (sound f)))) in E.
        apply (proj1 (proj2 (proj2 G_len))) in E. apply IHol. lia.
      * exfalso. revert E. apply IHa. lia.
    + intros ts L. rewrite p_and_S.
      destruct (p_not f ts) as [[a1 r1]| |] eqn:E; try discriminate.
      * apply (proj2 (proj2 (proj2 (proj2 (sound f))))) in E.
        apply (proj2 (proj2 (proj2 (proj2 G_len)))) in E. apply IHal. lia.
      * exfalso. revert E. apply IHn. lia.
    + intros acc ts L. rewrite p_and_loop_S.
      destruct ts as [|[| | | | |s] r0]; try discriminate. simpl in L.
      destruct (p_not f r0) as [[a1 r1]| |] eqn:E; try discriminate.
      * apply (proj2 (proj2 (proj2 (proj2 (sound f))))) in E.
        apply (proj2 (proj2 (proj2 (proj2 G_len)))) in E. apply IHal. lia.
      * exfalso. revert E. apply IHn. lia.
    + intros ts L. rewrite p_not_S.
      destruct ts as [|[| | | | |s] r0]; try discriminate; simpl in L.
      * destruct (p_expr f r0) as [[a1 [|[| | | | |s1] r1]]| |] eqn:E; try discriminate.
        exfalso. revert E. apply IHe. lia.
      * destruct (p_not f r0) as [[a1 r1]| |] eqn:E; try discriminate.
        exfalso. revert E. apply IHn. lia.
Qed.

(* ------------------------------------------------------ main theorems *)
Theorem parse_tokens_never_out_of_fuel ts : parse_tokens ts <> Fuel.
Proof.
  unfold parse_tokens. destruct ts as [|t ts]; [discriminate|].
  set (l := t :: ts).
  destruct (p_expr (fuel_for l) l) as [[a [|x r]]| |] eqn:E; try discriminate.
  exfalso. revert E. apply (proj1 (nofuel (fuel_for l))). unfold fuel_for. lia.
Qed.

Theorem parse_tokens_sound ts a : parse_tokens ts = Ok a -> GTop ts a.
Proof.
  unfold parse_tokens, GTop. destruct ts as [|t ts].
  - intros H; inversion H; auto.
  - set (l := t :: ts).
    destruct (p_expr (fuel_for l) l) as [[a' [|x r]]| |] eqn:E; try discriminate.
    intros H; inversion H; subst. right. split; [discriminate|].
    apply (proj1 (sound _)) in E. exact E.
Qed.

Theorem parse_tokens_complete ts a : GTop ts a -> parse_tokens ts = Ok a.
Proof.
  unfold GTop, parse_tokens. intros [[-> ->]|[NE H]]; [reflexivity|].
  destruct ts as [|t ts]; [congruence|]. set (l := t :: ts) in *.
  destruct (proj1 complete _ _ _ H) as [f0 Hf]; simpl; auto.
  assert (E : p_expr (fuel_for l) l = Ok (a, [])).
  { destruct (p_expr (fuel_for l) l) eqn:E0.
    - rewrite <- (Hf (f0 + fuel_for l)) by lia.
      symmetry. eapply mono_le_expr; [| exact E0 | discriminate]. lia.
    - assert (X : p_expr (f0 + fuel_for l) l = Err pos).
      { eapply mono_le_expr; [| exact E0 | discriminate]. lia. }
      rewrite Hf in X by lia. discriminate.
    - exfalso. revert E0. apply (proj1 (nofuel (fuel_for l))). unfold fuel_for. lia. }
  rewrite E. reflexivity.
Qed.

Theorem grammar_unambiguous ts a b : GTop ts a -> GTop ts b -> a = b.
Proof.
  intros Ha Hb. apply parse_tokens_complete in Ha. apply parse_tokens_complete in Hb.
  congruence.
Qed.

Theorem parse_tokens_rejects_iff ts :
  (exists p, parse_tokens ts = Err p) <-> ~ exists a, GTop ts a.
Proof.
  split.
  - intros [p Hp] [a Ha]. apply parse_tokens_complete in Ha. congruence.
  - intros N. destruct (parse_tokens ts) as [a|p|] eqn:E.
    + exfalso. apply N. exists a. apply parse_tokens_sound. exact E.
    + eauto.
    + exfalso. exact (parse_tokens_never_out_of_fuel ts E).
Qed.
