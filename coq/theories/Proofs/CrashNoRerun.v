(* C05, third clause: a task whose successful completion had been reported before the kill is not
   executed again by the recovery build.  Such a task and all its ancestors completed their
   functions before the kill ("settled"); its rows were written completely and match the files.
   In the recovery build settled tasks write what is already there, so when the task's turn comes
   all its rows still match and its function is not started. *)
From Verif Require Import Base.Prelude Base.Graph Model.Sorter Model.Expr Model.Engine Model.Crash.
From Verif Require Import Proofs.GraphProofs Proofs.SorterProofs Proofs.EngineTask Proofs.EngineLoop
  Proofs.EngineDag Proofs.EngineBuild Proofs.EngineHistory Proofs.EngineQuiet Proofs.CrashProofs
  Proofs.CrashSafety Proofs.CrashRecovery.

(* all rows match and nothing forces: the function is not started *)
Lemma rows_match_not_started body c E dyn desel w t f :
  force c = false -> (forall k, In k (neighbours E t) -> row_matches w t k) ->
  r_events (run_task body c E dyn desel w t f) = [].
Proof.
  intros F HM.
  assert (PF : persist_fires E w t = false).
  { unfold persist_fires. rewrite (any_changed_false E w t HM). apply andb_false_r. }
  assert (V : verdict c E w t = inr false).
  { unfold verdict. rewrite (preds_exist_of_match E w t HM), F. apply check_loop_false. exact HM. }
  pose proof (run_task_spec body c E dyn desel w t f) as SP.
  remember (run_task body c E dyn desel w t f) as r eqn:Er. clear Er.
  destruct SP; simpl; auto; congruence.
Qed.

Section NoRerun.
  Variable is_word : N -> bool.
  Variable lower : list N -> list N.
  Variable body : N -> N -> list N -> N -> N.
  Variable c : config.                    (* the configuration of the recovery build *)
  Variable ts : list task.
  Variable pref : list N.
  Variable v0 : world.                    (* the world the kill left *)
  Variable E : list edge.
  Variable desel : list N.
  Variable s0 : sorter.
  Hypothesis HD : create_dag is_word lower c ts = DagOk E desel.
  Hypothesis HF : from_dag (task_ids ts) E (map (fun t => (tid t, tprio t)) ts) = Some s0.
  Hypothesis ND : NoDup (task_ids ts).
  Hypothesis WF : forall t, In t ts -> wf_task t.
  Hypothesis NF : force c = false.
  Hypothesis IDS : forall t u, In t ts -> In u ts -> ~ In (tid t) (prods u) /\ ~ In (tid t) (deps u).

  Variable u0 : task.                     (* reported SUCCESS before the kill *)
  Hypothesis U0 : In u0 ts.

  Definition upto (u : task) : Prop := u = u0 \/ Reach E (tid u) (tid u0).

  Hypothesis CUR0 : forall u, In u ts -> upto u -> current body v0 u.
  Hypothesis RM0 : forall k, In k (neighbours E u0) -> row_matches v0 u0 k.

  Notation stepf := (step body c ts E desel nofaults pref).
  Notation loopf := (fun fuel => loop body fuel c ts E desel nofaults pref).
  Notation LI := (LInv ts E desel s0 v0).

  Record NInv (b : bstate) : Prop := {
    ni_li : LI b;
    ni_set : forall u, In u ts -> upto u -> forall p, In p (prods u) ->
             lookup p (fs (b_world b)) = lookup p (fs v0);
    ni_log : ~ In (Start (tid u0)) (b_log b)
  }.

  Lemma upto_closed u x : In u ts -> In x ts -> upto u -> Reach E (tid x) (tid u) -> upto x.
  Proof.
    intros _ _ [->|R] Rx; right; [exact Rx|eapply Reach_trans; eauto].
  Qed.

  Lemma upto_nodes b u :
    NInv b -> In u ts -> upto u ->
    forall k, In k (deps u) \/ In k (prods u) -> lookup k (fs (b_world b)) = lookup k (fs v0).
  Proof.
    intros [L S _] Hu Su k [Hk|Hk]; [|apply (S u Hu Su k Hk)].
    destruct (produced_dec ts k) as [[x [Hx Hkx]]|Hn].
    - apply (S x Hx); auto. apply (upto_closed u x); auto.
      apply (consumer_depends_on_producer is_word lower c ts E desel x u k); auto.
    - apply (li_fs_frame _ _ _ _ _ _ L). intros t Ht _. apply Hn. exact Ht.
  Qed.

  Lemma upto_current b u : NInv b -> In u ts -> upto u -> current body (b_world b) u.
  Proof.
    intros I Hu Su. apply (current_frame body v0); [|apply CUR0; auto]. apply upto_nodes; auto.
  Qed.

  (* while the task has not been handled, its rows match *)
  Lemma rows_still_match b :
    NInv b -> ~ In (tid u0) (map fst (b_reports b)) ->
    forall k, In k (neighbours E u0) -> row_matches (b_world b) u0 k.
  Proof.
    intros I Hnr k Hk. pose proof I as [L S _].
    destruct (RM0 k Hk) as [s [A B]].
    exists s. split.
    - unfold state_of in *. destruct (N.eqb k (tid u0)) eqn:Ek; [exact A|].
      rewrite <- A.
      destruct (neighbour_cases is_word lower c ts E desel HD ND IDS u0 k U0 Hk) as [->|[Hp|[Hd|[x [Hx [Hp R]]]]]].
      + rewrite N.eqb_refl in Ek. discriminate.
      + apply (upto_nodes b u0 I U0 (or_introl eq_refl)). right; exact Hp.
      + apply (upto_nodes b u0 I U0 (or_introl eq_refl)). left; exact Hd.
      + apply (S x Hx); [right; exact R|exact Hp].
    - rewrite (li_db_frame _ _ _ _ _ _ L (tid u0) k Hnr). exact B.
  Qed.

  Lemma NInv_step b b' st : NInv b -> stepf b = Some (b', st) -> NInv b'.
  Proof.
    intros Inv H. pose proof Inv as [L S Lg].
    pose proof (step_inv body c ts E desel nofaults pref s0 v0 HF ND b b' st L H) as L'.
    unfold step in H.
    destruct (pick (b_sorter b) pref) as [i|] eqn:P; [|discriminate].
    destruct (find_task ts i) as [ti|] eqn:F; [|discriminate].
    destruct (find_task_spec ts i ti F) as [Ti Tin].
    unfold nofaults in H.
    set (r := run_task body c E (b_dyn b) desel (b_world b) ti NoFault) in *.
    inversion H; subst b' st; clear H.
    assert (Hnr : ~ In i (map fst (b_reports b))).
    { pose proof (pick_valid _ _ _ P) as V. destruct V as (_ & Iv & _).
      assert (Hr : In i (ready (b_sorter b))) by (apply Iv; left; reflexivity).
      apply ready_spec in Hr. destruct Hr as [Hg _]. apply (li_gnodes _ _ _ _ _ _ L) in Hg. tauto. }
    constructor; cbn [b_world b_reports b_log].
    - exact L'.
    - intros u Hu Su p Hp. rewrite <- (S u Hu Su p Hp).
      destruct (N.eq_dec (tid u) (tid ti)) as [e|ne].
      + assert (u = ti) by (apply (tid_inj ts ND); auto). subst u.
        destruct (turn_products_nofault body c E (b_dyn b) desel (b_world b) ti p Hp) as [Q|[DE Q]];
          fold r in Q; [exact Q|].
        rewrite Q. destruct (upto_current b ti Inv Tin Su) as [_ Cp]. symmetry. apply Cp. exact Hp.
      + subst r. apply task_footprint. intros Hp'.
        assert (cdag : create_dag is_word lower c ts = DagErr)
          by (apply (duplicate_product_rejected is_word lower c ts u ti p); auto).
        congruence.
    - intros Hin. apply in_app_or in Hin. destruct Hin as [Hin|Hin]; [|exact (Lg Hin)].
      apply in_rev in Hin.
      destruct (N.eq_dec (tid ti) (tid u0)) as [e|ne].
      + (* the task itself: its rows still match, so its function is not started *)
        assert (ti = u0) by (apply (tid_inj ts ND); auto). subst ti.
        assert (EV : r_events r = []).
        { subst r. apply rows_match_not_started; auto. apply rows_still_match; auto. rewrite Ti. exact Hnr. }
        rewrite EV in Hin. destruct Hin.
      + destruct (events_shape body c E (b_dyn b) desel (b_world b) ti NoFault) as [EV|EV]; fold r in EV;
          rewrite EV in Hin; [destruct Hin|].
        destruct Hin as [Hin|[Hin|[]]]; inversion Hin. apply ne. assumption.
  Qed.

  Lemma NInv_0 : NInv (mkB v0 [] [] [] 0 s0).
  Proof.
    constructor; cbn [b_world b_reports b_log].
    - apply (LInv_b0 body ts E desel nofaults s0 v0 HF ND).
    - reflexivity.
    - intros [].
  Qed.

  Lemma NInv_loop fuel : forall b, NInv b -> NInv (loopf fuel b).
  Proof.
    induction fuel as [|f IH]; intros b I; simpl; auto.
    destruct (is_active (b_sorter b)); auto.
    destruct (stepf b) as [[b' [|]]|] eqn:S; auto.
    - eapply NInv_step; eauto.
    - apply IH. eapply NInv_step; eauto.
  Qed.

  (* the recovery build does not start the function of u0 *)
  Theorem recovery_does_not_rerun :
    ~ In (Start (tid u0)) (x_log (build is_word lower body c ts nofaults pref v0)).
  Proof.
    pose proof (build_shape_of is_word lower body c ts nofaults pref v0) as BS.
    destruct BS as [D|E' d' D F'|E' d' s' b D F' Hb].
    - congruence.
    - rewrite HD in D. inversion D; subst E' d'. unfold prio_list in F'. congruence.
    - rewrite HD in D. inversion D; subst E' d'. unfold prio_list in F'. rewrite HF in F'. inversion F'; subst s'.
      cbn [x_log]. subst b.
      pose proof (NInv_loop (length ts) _ NInv_0) as I. cbv beta in I.
      destruct I as [_ _ Lg]. intros Hin. apply Lg. apply in_rev. exact Hin.
  Qed.
End NoRerun.

(* ------------------------------------------------------------------------------------
   The crash side: a task whose SUCCESS report is among the effects performed before the kill
   has, in the crash world, rows that all match, and it and all its ancestors are current. *)
Definition eff_of (t : task) (e : effect) : Prop :=
  match e with
  | EWrite n _ => In n (prods t)
  | ECommit i _ _ | EPurge i _ => i = tid t
  | EReport _ _ => False
  end.

Lemma apply_effects_footprint t l : forall v,
  (forall e, In e l -> eff_of t e) ->
  (forall k, ~ In k (prods t) -> lookup k (fs (apply_effects v l)) = lookup k (fs v)) /\
  (forall t' k, t' <> tid t -> dblookup t' k (db (apply_effects v l)) = dblookup t' k (db v)).
Proof.
  induction l as [|e l IH]; intros v H; [split; reflexivity|].
  assert (He : eff_of t e) by (apply H; left; reflexivity).
  assert (Hl : forall e', In e' l -> eff_of t e') by (intros e' He'; apply H; right; exact He').
  destruct (IH (apply_effect v e) Hl) as [A B].
  unfold apply_effects in *. cbn [fold_left]. split.
  - intros k Hk. rewrite A by exact Hk. destruct e as [n c0|i k0 s|i ks|i o]; simpl in *; auto.
    apply lookup_upd_neq. intros ->. contradiction.
  - intros t' k Hne. rewrite B by exact Hne. destruct e as [n c0|i k0 s|i ks|i o]; simpl in *; auto.
    + subst i. apply dblookup_dbupd_neq. intros C0. inversion C0. congruence.
    + subst i. apply dbpurge_other. exact Hne.
Qed.

Lemma write_effects_targets body w t f e : In e (write_effects body w t f) -> eff_of t e.
Proof.
  unfold write_effects. intros H.
  assert (G : forall (skip : N -> bool) dv,
            In e (flat_map (fun p => if skip p then [] else [EWrite p (body (tid t) (tsrc t) dv p)]) (prods t)) -> eff_of t e).
  { intros skip dv H0. apply in_flat_map in H0. destruct H0 as [p [Hp H0]].
    destruct (skip p); [destruct H0|]. destruct H0 as [<-|[]]. exact Hp. }
  destruct f as [| | |ps]; try destruct H;
    (destruct (forallb _ (deps t)); [|destruct H]).
  - apply (G (fun _ => false) _ H).
  - apply (G (fun _ => false) _ H).
  - apply (G (fun p => memN p ps) _ H).
Qed.

Lemma commit_effects_targets E w t e : In e (commit_effects E w t) -> eff_of t e.
Proof.
  intros H. pose proof (commit_effects_owner E w t e H) as O. unfold owned_by in O. destruct e; simpl in *; auto; contradiction.
Qed.

(* the effects of one turn: effects of the task, then its report *)
Lemma task_effects_split body c E dyn desel w t f :
  exists A, task_effects body c E dyn desel w t f =
            A ++ [EReport (tid t) (r_out (run_task body c E dyn desel w t f))] /\
            forall e, In e A -> eff_of t e.
Proof.
  unfold task_effects. eexists. split; [reflexivity|].
  intros e He. destruct (r_out (run_task body c E dyn desel w t f)); try destruct He.
  - apply in_app_or in He. destruct He as [He|He]; [eapply write_effects_targets|eapply commit_effects_targets]; eauto.
  - destruct (r_events _); [destruct He|]. eapply write_effects_targets; eauto.
  - destruct (dry_run c); [destruct He|]. eapply commit_effects_targets; eauto.
Qed.

Lemma firstn_In_gen {A} n (l : list A) x : In x (firstn n l) -> In x l.
Proof.
  revert n. induction l as [|a r IH]; intros [|n] H; simpl in *; auto; try contradiction.
  destruct H as [H|H]; auto. right. eapply IH; eauto.
Qed.

Section Reported.
  Variable is_word : N -> bool.
  Variable lower : list N -> list N.
  Variable body : N -> N -> list N -> N -> N.
  Variable c : config.                    (* the configuration of the killed build *)
  Variable ts : list task.
  Variable faults : N -> fault.
  Variable pref : list N.
  Variable w : world.
  Variable E : list edge.
  Variable desel : list N.
  Variable s0 : sorter.
  Hypothesis HD : create_dag is_word lower c ts = DagOk E desel.
  Hypothesis HF : from_dag (task_ids ts) E (map (fun t => (tid t, tprio t)) ts) = Some s0.
  Hypothesis ND : NoDup (task_ids ts).
  Hypothesis WF : forall t, In t ts -> wf_task t.
  Hypothesis NP : forall t, In t ts -> m_persist t = false.
  Hypothesis GF : forall i, good_fault (faults i).
  Hypothesis IDS : forall t u, In t ts -> In u ts -> ~ In (tid t) (prods u) /\ ~ In (tid t) (deps u).

  Notation stepf := (step body c ts E desel faults pref).

  (* rows all match; the task and its ancestors are current *)
  Definition good (v : world) (u : task) : Prop :=
    (forall k, In k (neighbours E u) -> row_matches v u k) /\
    (forall x, In x ts -> x = u \/ Reach E (tid x) (tid u) -> current body v x).

  Definition GI (b : bstate) : Prop :=
    XInv body ts w E desel s0 b /\ EngineQuiet.RInv body ts w E desel s0 b.

  Lemma GI_step b b' st : GI b -> stepf b = Some (b', st) -> GI b'.
  Proof.
    intros [X R] H. split.
    - eapply (XInv_step is_word lower body c ts faults pref w E desel s0); eauto.
    - eapply (EngineQuiet.RInv_step is_word lower body c ts faults pref w E desel s0); eauto.
  Qed.

  (* the ancestors of a successfully executed task were executed or unchanged *)
  Lemma ancestors_fresh_gen b t l1 l2 :
    LInv ts E desel s0 w b -> b_reports b = l1 ++ (tid t, OSuccess) :: l2 ->
    (forall i, ~ In (i, OPersist) l2) ->
    forall u, In u ts -> Reach E (tid u) (tid t) -> In t ts ->
    exists ou, In (tid u, ou) l2 /\ fresh_outcome ou.
  Proof.
    intros L' HR Npers u Hu R Tin.
    assert (Hin : In (tid u) (map fst l2)).
    { apply (li_order _ _ _ _ _ _ L' l1 (tid t) OSuccess l2 HR (tid u)); auto.
      unfold task_ids. apply in_map. exact Hu. }
    apply in_map_iff in Hin. destruct Hin as [[x ou] [Hx Hin]]. simpl in Hx. subst x.
    exists ou. split; auto.
    assert (Dt : forall x, Reach E x (tid t) -> In (tid t) (descending_tasks ts E x)).
    { intros x Rx. apply (descending_spec body ts E desel faults). split; auto.
      unfold task_ids. apply in_map. exact Tin. }
    assert (MK : forall x ox m, In (x, ox) l2 -> mark_of ox = Some m -> Reach E x (tid t) -> False).
    { intros x ox m Hx Hm Rx.
      pose proof (li_out _ _ _ _ _ _ L' l1 (tid t) OSuccess l2 HR x ox m Hx Hm (Dt x Rx)) as Q.
      destruct m; simpl in Q; try discriminate. destruct Q; discriminate. }
    destruct ou; try (left; reflexivity); try (right; reflexivity); exfalso.
    - eapply (MK (tid u) OFail MAncFailed); eauto.
    - eapply (MK (tid u) OSkip MSkip); eauto.
    - apply in_split in Hin. destruct Hin as [l3 [l4 Hs]].
      assert (HR2 : b_reports b = (l1 ++ (tid t, OSuccess) :: l3) ++ (tid u, OSkipPrevFailed) :: l4)
        by (rewrite HR, Hs, <- app_assoc; reflexivity).
      destruct (li_out_conv _ _ _ _ _ _ L' _ _ _ HR2) as [x [Hx Dx]].
      apply (descending_spec body ts E desel faults) in Dx. destruct Dx as [_ Rxu].
      apply (MK x OFail MAncFailed); auto.
      + rewrite Hs. apply in_or_app. right. right. exact Hx.
      + eapply Reach_trans; eauto.
    - eapply Npers; eauto.
    - eapply (MK (tid u) OWould MWould); eauto.
  Qed.

  (* at every state of the loop: a task reported SUCCESS is good *)
  Lemma good_of_GI b u :
    GI b -> In u ts -> In (tid u, OSuccess) (b_reports b) -> good (b_world b) u.
  Proof.
    intros [[C Npers] R] Hu Hin.
    pose proof (ci_li _ _ _ _ _ _ _ C) as L.
    assert (CUR : forall x, In x ts -> x = u \/ Reach E (tid x) (tid u) -> current body (b_world b) x).
    { intros x Hx [->|Rx].
      - apply (ci_cur _ _ _ _ _ _ _ C u OSuccess Hu Hin). left; reflexivity.
      - pose proof Hin as Hin2. apply in_split in Hin2. destruct Hin2 as [l1 [l2 Hs]].
        assert (NPL : forall i, ~ In (i, OPersist) l2).
        { intros i Hi. apply (Npers i). rewrite Hs. apply in_or_app. right. right. exact Hi. }
        destruct (ancestors_fresh_gen b u l1 l2 L Hs NPL x Hx Rx Hu) as [ox [Hox FO]].
        apply (ci_cur _ _ _ _ _ _ _ C x ox Hx); auto. rewrite Hs. apply in_or_app. right. right. exact Hox. }
    split; auto.
    intros k Hk.
    apply (ri_rows _ _ _ _ _ _ _ R u OSuccess Hu Hin (or_introl eq_refl) k Hk).
    (* every neighbour exists *)
    unfold state_of. destruct (N.eqb k (tid u)) eqn:Ek; [discriminate|].
    destruct (neighbour_cases is_word lower c ts E desel HD ND IDS u k Hu Hk) as [->|[Hp|[Hd|[x [Hx [Hp Rx]]]]]].
    - rewrite N.eqb_refl in Ek. discriminate.
    - destruct (CUR u Hu (or_introl eq_refl)) as [_ P]. rewrite (P k Hp). discriminate.
    - destruct (CUR u Hu (or_introl eq_refl)) as [D _]. unfold deps_exist in D. rewrite forallb_forall in D.
      specialize (D k Hd). destruct (lookup k (fs (b_world b))); [discriminate|discriminate].
    - destruct (CUR x Hx (or_intror Rx)) as [_ P]. rewrite (P k Hp). discriminate.
  Qed.

  (* nothing a reported task or one of its ancestors reads or writes is a product of a task that
     has not been reported yet *)
  Lemma reported_disjoint b t u o x k :
    LInv ts E desel s0 w b -> In t ts -> ~ In (tid t) (map fst (b_reports b)) ->
    In u ts -> In (tid u, o) (b_reports b) -> In x ts -> (x = u \/ Reach E (tid x) (tid u)) ->
    In k (deps x) \/ In k (prods x) -> ~ In k (prods t).
  Proof.
    intros L Ht Hnr Hu Hin Hx Rel Hk Hp.
    assert (RT : forall y, In y ts -> (y = u \/ Reach E (tid y) (tid u)) -> tid y <> tid t).
    { intros y Hy [->|Ry] e.
      - apply Hnr. rewrite <- e. apply in_map_iff. exists (tid u, o). auto.
      - apply in_split in Hin. destruct Hin as [l1 [l2 Hs]].
        assert (In (tid y) (map fst l2)).
        { apply (li_order _ _ _ _ _ _ L l1 (tid u) o l2 Hs (tid y)); auto. unfold task_ids. apply in_map. exact Hy. }
        apply Hnr. rewrite <- e, Hs, map_app. apply in_or_app. right. right. exact H. }
    destruct Hk as [Hd|Hpx].
    - (* t produces a dependency of x: t is an ancestor of x, hence of u *)
      assert (R : Reach E (tid t) (tid x))
        by (apply (consumer_depends_on_producer is_word lower c ts E desel t x k); auto).
      apply (RT t Ht); auto. destruct Rel as [->|Rx]; right; [exact R|eapply Reach_trans; eauto].
    - destruct (N.eq_dec (tid x) (tid t)) as [e|ne]; [exact (RT x Hx Rel e)|].
      assert (cdag : create_dag is_word lower c ts = DagErr)
        by (apply (duplicate_product_rejected is_word lower c ts x t k); auto).
      congruence.
  Qed.

  (* effects of the turn of an unreported task leave a reported task good *)
  Lemma good_frame b t u o l :
    LInv ts E desel s0 w b -> In t ts -> ~ In (tid t) (map fst (b_reports b)) ->
    In u ts -> In (tid u, o) (b_reports b) ->
    (forall e, In e l -> eff_of t e) ->
    good (b_world b) u -> good (apply_effects (b_world b) l) u.
  Proof.
    intros L Ht Hnr Hu Hin Hl [RM CU].
    destruct (apply_effects_footprint t l (b_world b) Hl) as [FS DB].
    assert (Tne : tid u <> tid t).
    { intros e. apply Hnr. rewrite <- e. apply in_map_iff. exists (tid u, o). auto. }
    split.
    - intros k Hk. destruct (RM k Hk) as [s [A B]]. exists s. split.
      + unfold state_of in *. destruct (N.eqb k (tid u)) eqn:Ek; [exact A|].
        rewrite <- A. apply FS.
        destruct (neighbour_cases is_word lower c ts E desel HD ND IDS u k Hu Hk) as [->|[Hp|[Hd|[x [Hx [Hp Rx]]]]]].
        * rewrite N.eqb_refl in Ek. discriminate.
        * apply (reported_disjoint b t u o u k); auto.
        * apply (reported_disjoint b t u o u k); auto.
        * apply (reported_disjoint b t u o x k); auto.
      + rewrite DB by exact Tne. exact B.
    - intros x Hx Rel. apply (current_frame body (b_world b)); [|apply CU; auto].
      intros k Hk. apply FS. apply (reported_disjoint b t u o x k); auto.
  Qed.

  (* the loop, cut anywhere: a task reported SUCCESS - before this state, or within the effects
     performed - is good in the world the cut leaves *)
  Lemma loop_prefix_good fuel : forall b n u,
    GI b -> In u ts ->
    In (tid u, OSuccess) (b_reports b) \/
      In (EReport (tid u) OSuccess) (firstn n (loop_effects body fuel c ts E desel faults pref b)) ->
    good (apply_effects (b_world b) (firstn n (loop_effects body fuel c ts E desel faults pref b))) u.
  Proof.
    induction fuel as [|f IH]; intros b n u G Hu Hrep; cbn [loop_effects] in *.
    - rewrite firstn_nil in *. destruct Hrep as [H|[]]. apply good_of_GI; auto.
    - assert (BASE : In (tid u, OSuccess) (b_reports b) \/ In (EReport (tid u) OSuccess) (firstn n []) ->
                     good (apply_effects (b_world b) (firstn n [])) u).
      { rewrite firstn_nil. intros [H|[]]. apply good_of_GI; auto. }
      destruct (is_active (b_sorter b)); [|auto].
      destruct (pick (b_sorter b) pref) as [i|] eqn:P; [|auto].
      destruct (find_task ts i) as [t|] eqn:F; [|auto].
      destruct (find_task_spec ts i t F) as [Ti Tin].
      destruct (step body c ts E desel faults pref b) as [[b' st]|] eqn:St; [|auto].
      clear BASE.
      pose proof (GI_step b b' st G St) as G'.
      pose proof G as [[C _] _]. pose proof (ci_li _ _ _ _ _ _ _ C) as L.
      assert (Hnr : ~ In (tid t) (map fst (b_reports b))).
      { rewrite Ti. pose proof (pick_valid _ _ _ P) as V. destruct V as (_ & Iv & _).
        assert (Hr : In i (ready (b_sorter b))) by (apply Iv; left; reflexivity).
        apply ready_spec in Hr. destruct Hr as [Hg _]. apply (li_gnodes _ _ _ _ _ _ L) in Hg. tauto. }
      set (es := task_effects body c E (b_dyn b) desel (b_world b) t (faults i)) in *.
      destruct (task_effects_split body c E (b_dyn b) desel (b_world b) t (faults i)) as [A [EA FA]].
      fold es in EA.
      assert (W : apply_effects (b_world b) es = b_world b').
      { unfold step in St. rewrite P, F in St. injection St as Hb _. rewrite <- Hb. cbn [b_world]. apply task_effects_refine. }
      assert (Rb' : b_reports b' = (tid t, r_out (run_task body c E (b_dyn b) desel (b_world b) t (faults i))) :: b_reports b).
      { unfold step in St. rewrite P, F in St. injection St as Hb _. rewrite <- Hb, Ti. reflexivity. }
      (* the cut within the turn of t *)
      assert (TURN : forall m, m <= length es ->
                In (tid u, OSuccess) (b_reports b) \/ In (EReport (tid u) OSuccess) (firstn m es) ->
                good (apply_effects (b_world b) (firstn m es)) u).
      { intros m Lm Hr.
        destruct (Nat.le_gt_cases m (length A)) as [LA|GA].
        - (* before the report of t *)
          assert (Fm : firstn m es = firstn m A).
          { rewrite EA, firstn_app. replace (m - length A)%nat with 0%nat by lia. simpl. apply app_nil_r. }
          rewrite Fm in *.
          destruct Hr as [Hr|Hr].
          + apply (good_frame b t u OSuccess); auto.
            * intros e He. apply FA. eapply firstn_In_gen; eauto.
            * apply good_of_GI; auto.
          + exfalso. apply firstn_In_gen in Hr. apply FA in Hr. exact Hr.
        - (* the whole turn *)
          assert (Fm : firstn m es = es).
          { apply firstn_all2. rewrite EA, app_length in *. simpl in *. lia. }
          rewrite Fm, W. apply good_of_GI; auto.
          destruct Hr as [Hr|Hr]; [rewrite Rb'; right; exact Hr|].
          rewrite Fm, EA in Hr. apply in_app_or in Hr. destruct Hr as [Hr|[Hr|[]]].
          + apply FA in Hr. destruct Hr.
          + rewrite Rb'. left. inversion Hr. congruence. }
      destruct st.
      + (* the loop stops after this turn *)
        destruct (Nat.le_gt_cases n (length es)) as [Le|Gt]; [apply TURN; auto|].
        assert (Fn : firstn n es = firstn (length es) es)
          by (rewrite firstn_all2 by lia; rewrite firstn_all; reflexivity).
        rewrite Fn in Hrep |- *. apply TURN; auto.
      + destruct (Nat.le_gt_cases n (length es)) as [Le|Gt].
        * assert (Fn : firstn n (es ++ loop_effects body f c ts E desel faults pref b') = firstn n es).
          { rewrite firstn_app. replace (n - length es)%nat with 0%nat by lia. simpl. apply app_nil_r. }
          rewrite Fn in Hrep |- *. apply TURN; auto.
        * assert (Fn : firstn n (es ++ loop_effects body f c ts E desel faults pref b') =
                       es ++ firstn (n - length es) (loop_effects body f c ts E desel faults pref b')).
          { rewrite firstn_app. rewrite firstn_all2 by lia. reflexivity. }
          rewrite Fn in Hrep |- *. rewrite <- apply_effects_app, W.
          apply IH; auto.
          destruct Hrep as [Hr|Hr]; [left; rewrite Rb'; right; exact Hr|].
          apply in_app_or in Hr. destruct Hr as [Hr|Hr]; [|right; exact Hr].
          left. rewrite EA in Hr. apply in_app_or in Hr. destruct Hr as [Hr|[Hr|[]]].
          -- apply FA in Hr. destruct Hr.
          -- rewrite Rb'. left. inversion Hr. congruence.
  Qed.

  Hypothesis SCw : all_sc body ts w.

  (* kill the build after k effects: every task whose SUCCESS report is among them is good *)
  Theorem reported_before_kill_good k u :
    In u ts ->
    In (EReport (tid u) OSuccess) (firstn k (build_effects is_word lower body c ts faults pref w)) ->
    good (crash_world is_word lower body k c ts faults pref w) u.
  Proof.
    intros Hu Hin. unfold crash_world. unfold build_effects in *. rewrite HD in *. unfold prio_list in *. rewrite HF in *.
    apply (loop_prefix_good (length ts) (mkB w [] [] [] 0 s0) k u); auto.
    split.
    - split; [apply (CInv_0 body ts faults w E desel s0 HF ND SCw)|intros i []].
    - apply (EngineQuiet.RInv_0 body ts faults w E desel s0 HF ND SCw).
  Qed.
End Reported.

(* Kill, then recover: a task whose SUCCESS report was among the effects performed before the
   kill is not started by the recovery build (same project and graph, no --force, no function
   fails). *)
Theorem no_rerun_after_kill is_word lower body c0 c1 ts E desel0 desel1 s0 faults pref0 pref1 w :
  create_dag is_word lower c0 ts = DagOk E desel0 ->
  create_dag is_word lower c1 ts = DagOk E desel1 ->
  from_dag (task_ids ts) E (map (fun t => (tid t, tprio t)) ts) = Some s0 ->
  NoDup (task_ids ts) ->
  (forall t, In t ts -> wf_task t) -> (forall t, In t ts -> m_persist t = false) ->
  (forall i, good_fault (faults i)) ->
  (forall t u, In t ts -> In u ts -> ~ In (tid t) (prods u) /\ ~ In (tid t) (deps u)) ->
  force c1 = false ->
  all_sc body ts w ->
  forall k u, In u ts ->
  In (EReport (tid u) OSuccess) (firstn k (build_effects is_word lower body c0 ts faults pref0 w)) ->
  ~ In (Start (tid u))
       (x_log (build is_word lower body c1 ts nofaults pref1 (crash_world is_word lower body k c0 ts faults pref0 w))).
Proof.
  intros HD0 HD1 HF ND WF NP GF IDS NF SCw k u Hu Hin.
  destruct (reported_before_kill_good is_word lower body c0 ts faults pref0 w E desel0 s0 HD0 HF ND WF NP GF IDS SCw k u Hu Hin)
    as [RM CU].
  apply (recovery_does_not_rerun is_word lower body c1 ts pref1 _ E desel1 s0 HD1 HF ND NF IDS u Hu); auto.
Qed.
