(* C05, the safety half: whatever prefix of its effects a killed build has performed, in the
   world it leaves a task can be reported unchanged only if its products are what its function
   writes from the dependencies as they are.  The world before the build is any world in which
   the rows of every task are self-consistent (every world reached by a history of edits and
   builds, Proofs/EngineHistory.v). *)
From Verif Require Import Base.Prelude Base.Graph Model.Sorter Model.Expr Model.Engine Model.Crash.
From Verif Require Import Proofs.GraphProofs Proofs.SorterProofs Proofs.EngineTask Proofs.EngineLoop
  Proofs.EngineDag Proofs.EngineBuild Proofs.EngineHistory Proofs.CrashProofs.

Section S.
  Variable is_word : N -> bool.
  Variable lower : list N -> list N.
  Variable body : N -> N -> list N -> N -> N.

  (* self-consistent rows + every row matches = the products are current *)
  Lemma sc_match_current E v t :
    SC body v t -> wf_task t -> covers_decl E t ->
    (forall k, In k (neighbours E t) -> row_matches v t k) -> current body v t.
  Proof.
    intros S (W1 & W2 & W3) CD RM.
    assert (Rself : rec v t (tid t) = Some (tsrc t)).
    { destruct (RM _ (in_neighbours_self E t)) as [s [A B]]. rewrite state_of_self in A. inversion A; subst. exact B. }
    assert (Rdep : forall d, In d (deps t) -> exists x, lookup d (fs v) = Some x /\ rec v t d = Some x).
    { intros d Hd. destruct (RM _ (in_neighbours_dep E t d CD Hd)) as [s [A B]].
      rewrite state_of_node in A by (intros ->; exact (W1 Hd)). eauto. }
    split.
    - unfold deps_exist. apply forallb_forall. intros d Hd. destruct (Rdep d Hd) as [x [A _]]. rewrite A. reflexivity.
    - intros p Hp. destruct (RM _ (in_neighbours_prod E t p CD Hp)) as [s [A B]].
      rewrite state_of_node in A by (intros ->; exact (W2 Hp)). rewrite A. f_equal.
      apply (S (tsrc t) (dep_values v t) Rself); auto.
      unfold dep_values. rewrite map_map. apply map_ext_in. intros d Hd.
      destruct (Rdep d Hd) as [x [Lk Rv]]. rewrite Lk. exact Rv.
  Qed.

  Variable c : config.
  Variable ts : list task.
  Variable E : list edge.
  Variable desel : list N.
  Variable faults : N -> fault.
  Variable pref : list N.
  Hypothesis HD : create_dag is_word lower c ts = DagOk E desel.
  Hypothesis ND : NoDup (task_ids ts).
  Hypothesis WF : forall t, In t ts -> wf_task t.
  Hypothesis NP : forall t, In t ts -> m_persist t = false.
  Hypothesis GF : forall i, good_fault (faults i).

  (* what a later look at task t may conclude in world v *)
  Definition safe (v : world) : Prop :=
    forall t, In t ts -> (forall k, In k (neighbours E t) -> row_matches v t k) -> current body v t.

  Definition all_sc (v : world) : Prop := forall t, In t ts -> SC body v t.

  Lemma all_sc_safe v : all_sc v -> safe v.
  Proof.
    intros S t T RM. apply (sc_match_current E v t); auto. eapply accepted_covers; eauto.
  Qed.

  (* SC only looks at the database *)
  Lemma SC_db v v' t : db v' = db v -> SC body v t -> SC body v' t.
  Proof. intros D S. unfold SC, rec in *. rewrite D. exact S. Qed.

  Lemma apply_writes_db (l : list effect) : forall v, forallb is_write l = true -> db (apply_effects v l) = db v.
  Proof.
    induction l as [|e r IH]; intros v H; simpl; auto.
    simpl in H. apply andb_true_iff in H. destruct H as [He Hr].
    unfold apply_effects in *. simpl. rewrite IH by exact Hr. destruct e; try discriminate. reflexivity.
  Qed.

  Lemma apply_commits_fs (l : list effect) : forall v, forallb is_commit l = true -> fs (apply_effects v l) = fs v.
  Proof.
    induction l as [|e r IH]; intros v H; simpl; auto.
    simpl in H. apply andb_true_iff in H. destruct H as [He Hr].
    unfold apply_effects in *. simpl. rewrite IH by exact Hr. destruct e; try discriminate; reflexivity.
  Qed.

  (* rows of other tasks are not touched by the commits of task t *)
  Definition owned_by (t : task) (e : effect) : Prop :=
    match e with ECommit i _ _ | EPurge i _ => i = tid t | _ => False end.

  Lemma apply_commits_other (t : task) (l : list effect) : forall v t' k,
    (forall e, In e l -> owned_by t e) ->
    t' <> tid t -> dblookup t' k (db (apply_effects v l)) = dblookup t' k (db v).
  Proof.
    induction l as [|e r IH]; intros v t' k H Hne; simpl; auto.
    unfold apply_effects in *. simpl. rewrite IH; auto.
    - pose proof (H e (or_introl eq_refl)) as He. destruct e; simpl in He; try destruct He; simpl.
      + apply dblookup_dbupd_neq. intros C0. inversion C0. congruence.
      + apply dbpurge_other. exact Hne.
    - intros e' He'. apply H. right; exact He'.
  Qed.

  Lemma firstn_forallb {A} (g : A -> bool) n l : forallb g l = true -> forallb g (firstn n l) = true.
  Proof.
    revert n. induction l as [|a r IH]; intros [|n] H; simpl; auto.
    simpl in H. apply andb_true_iff in H. destruct H as [Ha Hr]. rewrite Ha. simpl. apply IH. exact Hr.
  Qed.

  Lemma firstn_In' {A} n (l : list A) x : In x (firstn n l) -> In x l.
  Proof.
    revert n. induction l as [|a r IH]; intros [|n] H; simpl in *; auto; try contradiction.
    destruct H as [H|H]; auto. right. eapply IH; eauto.
  Qed.

  Lemma commit_effects_owner w t e : In e (commit_effects E w t) -> owned_by t e.
  Proof.
    unfold commit_effects. intros [<-|H]; [reflexivity|]. apply in_flat_map in H. destruct H as [k [_ H]].
    destruct (state_of w t k); [|destruct H]. destruct H as [<-|[]]. reflexivity.
  Qed.

  (* one task's turn, cut anywhere *)
  Lemma task_prefix_safe dyn v t n :
    In t ts -> all_sc v ->
    safe (apply_effects v (firstn n (task_effects body c E dyn desel v t (faults (tid t))))).
  Proof.
    intros T S. set (f := faults (tid t)).
    assert (CD : covers_decl E t) by (eapply accepted_covers; eauto).
    unfold task_effects.
    set (r := run_task body c E dyn desel v t f).
    (* the effects before the report *)
    set (A := match r_out r with
              | OPersist => if dry_run c then [] else commit_effects E v t
              | OSuccess => write_effects body v t f ++ commit_effects E (fst (run_body body v t f)) t
              | OFail => match r_events r with [] => [] | _ => write_effects body v t f end
              | _ => []
              end).
    (* a prefix of A ++ [report] is a prefix of A, or everything *)
    assert (PRE : exists m, apply_effects v (firstn n (A ++ [EReport (tid t) (r_out r)])) = apply_effects v (firstn m A)).
    { destruct (Nat.le_gt_cases n (length A)) as [L|G].
      - exists n. rewrite firstn_app. replace (n - length A)%nat with 0%nat by lia. simpl. rewrite app_nil_r. reflexivity.
      - exists (length A). rewrite firstn_all2 by (rewrite app_length; simpl; lia). rewrite firstn_all.
        rewrite <- apply_effects_app. reflexivity. }
    destruct PRE as [m ->]. clear n.
    (* worlds that differ from v in files only are safe *)
    assert (DBSAFE : forall v', db v' = db v -> safe v').
    { intros v' D. apply all_sc_safe. intros t' T'. apply (SC_db v v' t' D). apply S. exact T'. }
    subst A. destruct (r_out r) eqn:O; try (rewrite firstn_nil; apply all_sc_safe; exact S).
    - (* success: writes, then commits *)
      destruct (success_spec body c E dyn desel v t f O) as (_ & PE & DE & w1 & RB & RW).
      rewrite RB. cbn [fst].
      assert (Fn : f = NoFault).
      { rewrite run_body_eq in RB. pose proof (GF (tid t)) as G. fold f in G. destruct f; auto; try discriminate.
        - rewrite DE in RB. discriminate.
        - destruct G. }
      rewrite firstn_app.
      destruct (Nat.le_gt_cases m (length (write_effects body v t f))) as [L|G].
      + replace (m - length (write_effects body v t f))%nat with 0%nat by lia. simpl. rewrite app_nil_r.
        apply DBSAFE. apply apply_writes_db. apply firstn_forallb. apply write_effects_all_writes.
      + rewrite firstn_all2 by lia. rewrite <- apply_effects_app, apply_write_effects, RB. cbn [fst].
        set (cs := firstn (m - length (write_effects body v t f)) (commit_effects E w1 t)).
        assert (CS : forallb is_commit cs = true) by (apply firstn_forallb; apply commit_effects_all_commits).
        assert (OWN : forall e, In e cs -> owned_by t e).
        { intros e He. apply (commit_effects_owner w1 t). eapply firstn_In'; eauto. }
        intros t' T' RM.
        destruct (N.eq_dec (tid t') (tid t)) as [e|ne].
        * (* the task itself: its function has completed; the products are current whatever the rows *)
          assert (t' = t) by (apply (tid_inj ts ND); auto). subst t'.
          destruct (WF t T) as (W1 & W2 & W3).
          assert (FS : fs (apply_effects w1 cs) = fs w1) by (apply apply_commits_fs; exact CS).
          rewrite Fn in RB.
          assert (Wd : forall d, In d (deps t) -> lookup d (fs w1) = lookup d (fs v)).
          { intros d Hd. pose proof (run_body_frame body v t NoFault d (W3 d Hd)) as Q. rewrite RB in Q. exact Q. }
          assert (DV : dep_values (apply_effects w1 cs) t = dep_values v t).
          { unfold dep_values. apply map_ext_in. intros d Hd. rewrite FS, Wd by exact Hd. reflexivity. }
          split.
          -- unfold deps_exist in *. rewrite forallb_forall in *. intros d Hd. rewrite FS, Wd by exact Hd. apply DE; exact Hd.
          -- intros p Hp. rewrite FS, DV.
             destruct (run_body_nofault body v t p DE Hp) as [_ Q]. rewrite RB in Q. exact Q.
        * (* another task: its rows are as before the turn *)
          apply (sc_match_current E _ t'); auto; [|eapply accepted_covers; eauto].
          assert (Sv : SC body v t') by (apply S; exact T').
          assert (Dw : db w1 = db v).
          { pose proof (run_body_db body v t f) as Q. rewrite RB in Q. exact Q. }
          assert (R : forall k0, dblookup (tid t') k0 (db (apply_effects w1 cs)) = dblookup (tid t') k0 (db v)).
          { intros k0. rewrite (apply_commits_other t cs w1 (tid t') k0 OWN ne). rewrite Dw. reflexivity. }
          unfold SC, rec in *. intros s dv Hs Hdv p x Hp Hx.
          rewrite R in Hs, Hx.
          eapply Sv; eauto. rewrite <- Hdv. apply map_ext. intros k0. symmetry. apply R.
    - (* failure: at most writes *)
      destruct (r_events r); [rewrite firstn_nil; apply all_sc_safe; exact S|].
      apply DBSAFE. apply apply_writes_db. apply firstn_forallb. apply write_effects_all_writes.
    - (* persist: not for these tasks *)
      exfalso. pose proof (run_task_spec body c E dyn desel v t f) as SP. fold r in SP.
      destruct SP; simpl in O; try discriminate. unfold persist_fires in *. rewrite (NP t T) in *. simpl in *. discriminate.
  Qed.

  (* the loop, cut anywhere *)
  Lemma loop_prefix_safe fuel : forall b n,
    all_sc (b_world b) ->
    safe (apply_effects (b_world b) (firstn n (loop_effects body fuel c ts E desel faults pref b))).
  Proof.
    induction fuel as [|f IH]; intros b n S; cbn [loop_effects].
    - rewrite firstn_nil. apply all_sc_safe. exact S.
    - destruct (is_active (b_sorter b)); [|rewrite firstn_nil; apply all_sc_safe; exact S].
      destruct (pick (b_sorter b) pref) as [i|] eqn:P; [|rewrite firstn_nil; apply all_sc_safe; exact S].
      destruct (find_task ts i) as [t|] eqn:F; [|rewrite firstn_nil; apply all_sc_safe; exact S].
      destruct (find_task_spec ts i t F) as [Ti Tin].
      destruct (step body c ts E desel faults pref b) as [[b' [|]]|] eqn:St;
        try (rewrite firstn_nil; apply all_sc_safe; exact S).
      + rewrite <- Ti. apply task_prefix_safe; auto.
      + (* within this turn, or after it *)
        set (es := task_effects body c E (b_dyn b) desel (b_world b) t (faults i)).
        rewrite firstn_app.
        destruct (Nat.le_gt_cases n (length es)) as [L|G].
        * replace (n - length es)%nat with 0%nat by lia. simpl. rewrite app_nil_r.
          unfold es. rewrite <- Ti. apply task_prefix_safe; auto.
        * rewrite firstn_all2 by lia. rewrite <- apply_effects_app.
          assert (W : apply_effects (b_world b) es = b_world b').
          { unfold step in St. rewrite P, F in St. injection St as Hb _. rewrite <- Hb. cbn [b_world]. apply task_effects_refine. }
          rewrite W. apply IH.
          (* the completed turn keeps all rows self-consistent *)
          intros t' T'. rewrite <- W. unfold es. rewrite task_effects_refine. rewrite <- Ti.
          apply turn_preserves_sc; auto.
          -- intros Eq. apply (tid_inj ts ND); auto.
          -- intros _. eapply accepted_covers; eauto.
  Qed.

  (* C05: kill the build after any number of its effects *)
  Theorem crash_world_safe k w :
    all_sc w -> safe (crash_world is_word lower body k c ts faults pref w).
  Proof.
    intros S. unfold crash_world, build_effects. rewrite HD.
    destruct (from_dag _ _ _) as [s|]; [|rewrite firstn_nil; apply all_sc_safe; exact S].
    apply (loop_prefix_safe (length ts) (mkB w [] [] [] 0 s) k). exact S.
  Qed.

  (* in the words of the property: in the world a kill leaves, a task is reported unchanged only
     if every product holds what its function writes from the dependencies as they are *)
  Theorem crash_unchanged_means_current k w c' dyn desel' t f :
    all_sc w -> In t ts ->
    let wc := crash_world is_word lower body k c ts faults pref w in
    r_out (run_task body c' E dyn desel' wc t f) = OSkipUnchanged -> current body wc t.
  Proof.
    intros S T wc U. apply (crash_world_safe k w S t T).
    destruct (unchanged_sound body c' E dyn desel' wc t f U) as [_ RM]. exact RM.
  Qed.
End S.

(* ... starting from any world reached by a history of edits and (complete) builds *)
Theorem crash_after_history_safe is_word lower body defn c ts E desel faults pref k w :
  hreach is_word lower body defn w -> project_ok defn ts ->
  create_dag is_word lower c ts = DagOk E desel -> NoDup (task_ids ts) ->
  (forall t, In t ts -> wf_task t) -> (forall t, In t ts -> m_persist t = false) ->
  (forall i, good_fault (faults i)) ->
  safe body ts E (crash_world is_word lower body k c ts faults pref w).
Proof.
  intros R PO HD ND WF NP GF.
  apply (crash_world_safe is_word lower body c ts E desel faults pref HD ND WF NP GF k w).
  intros t T. apply (history_sc is_word lower body defn w t R (PO t T) (NP t T) (WF t T)).
Qed.
