(* Arguments and returns land where declared: the tree core. *)
From Verif Require Import Base.Prelude Model.Tree.

Section Ind.
  Context {A : Type}.
  Variable P : tree A -> Prop.
  Hypothesis HL : forall a, P (Leaf a).
  Hypothesis HN : forall k cs, Forall P cs -> P (Node k cs).

  Fixpoint tree_ind' (t : tree A) : P t :=
    match t with
    | Leaf a => HL a
    | Node k cs =>
      HN k cs ((fix go (l : list (tree A)) : Forall P l :=
                  match l with
                  | [] => Forall_nil P
                  | x :: r => Forall_cons x (tree_ind' x) (go r)
                  end) cs)
    end.
End Ind.

Lemma kind_eqb_refl k : kind_eqb k k = true.
Proof. destruct k; simpl; auto. apply eqbL_refl. Qed.

Lemma kind_eqb_eq a b : kind_eqb a b = true -> a = b.
Proof.
  destruct a, b; simpl; try discriminate; auto. intros H. apply eqbL_spec in H. congruence.
Qed.

Section T.
  Context {A B : Type}.

  (* tree_map keeps the container structure and maps the leaves in order *)
  Theorem shape_tmap (f : A -> B) (t : tree A) : shape (tmap f t) = shape t.
  Proof.
    induction t as [a|k cs IH] using tree_ind'; simpl; auto.
    f_equal. rewrite map_map. apply map_ext_in. intros x Hx.
    rewrite Forall_forall in IH. auto.
  Qed.

  Theorem leaves_tmap (f : A -> B) (t : tree A) : leaves (tmap f t) = map f (leaves t).
  Proof.
    induction t as [a|k cs IH] using tree_ind'; simpl; auto.
    induction cs as [|c cs IHc]; simpl; auto.
    inversion IH; subst. rewrite map_app. f_equal; auto.
  Qed.

  (* the value at every position of a keyword argument is the loaded value of the node
     declared at that position *)
  Theorem at_path_tmap (f : A -> B) (p : list nat) : forall t : tree A,
    at_path p (tmap f t) = option_map (tmap f) (at_path p t).
  Proof.
    induction p as [|i p IH]; intros t; simpl; auto.
    destruct t as [a|k cs]; simpl; auto.
    rewrite nth_error_map. destruct (nth_error cs i); simpl; auto.
  Qed.
End T.

Section R.
  Context {A B : Type}.

  Definition go_prefix := fix go (cs : list (tree A)) (ts : list (tree B)) : bool :=
    match cs, ts with
    | [], [] => true
    | c :: cs', t' :: ts' => is_prefix c t' && go cs' ts'
    | _, _ => false
    end.

  Definition go_flat := fix go (cs : list (tree A)) (ts : list (tree B)) : option (list (tree B)) :=
    match cs, ts with
    | [], [] => Some []
    | c :: cs', t' :: ts' =>
      match flatten_up_to c t', go cs' ts' with
      | Some a, Some b => Some (a ++ b)
      | _, _ => None
      end
    | _, _ => None
    end.

  Definition go_graft := fix go (cs : list (tree A)) (vs : list (tree B)) : option (list (tree B) * list (tree B)) :=
    match cs with
    | [] => Some ([], vs)
    | c :: cs' =>
      match graft c vs with
      | Some (t, r) => match go cs' r with
                       | Some (ts, r') => Some (t :: ts, r')
                       | None => None end
      | None => None
      end
    end.

  Lemma is_prefix_node k cs k' ts :
    is_prefix (Node k cs) (Node k' ts : tree B) = kind_eqb k k' && go_prefix cs ts.
  Proof. reflexivity. Qed.

  Lemma flatten_node k cs k' ts :
    flatten_up_to (Node k cs) (Node k' ts : tree B) = if kind_eqb k k' then go_flat cs ts else None.
  Proof. reflexivity. Qed.

  Lemma graft_node k cs (vs : list (tree B)) :
    graft (Node k cs) vs = match go_graft cs vs with Some (ts, r) => Some (Node k ts, r) | None => None end.
  Proof. reflexivity. Qed.

  (* the prefix test decides exactly whether flatten_up_to succeeds *)
  Theorem prefix_iff_flatten (s : tree A) : forall t : tree B,
    is_prefix s t = true <-> exists vs, flatten_up_to s t = Some vs.
  Proof.
    induction s as [a|k cs IH] using tree_ind'; intros t.
    - simpl. split; eauto.
    - destruct t as [b|k' ts].
      + simpl. split; [discriminate|]. intros [vs H]. discriminate.
      + rewrite is_prefix_node, flatten_node.
        destruct (kind_eqb k k'); simpl; [|split; [discriminate|intros [vs H]; discriminate]].
        revert ts. induction cs as [|c cs IHc]; intros ts.
        * destruct ts; simpl; split; eauto; try discriminate. intros [vs H]; discriminate.
        * inversion IH as [|x l Hc Hcs]; subst. destruct ts as [|t' ts].
          -- simpl. split; [discriminate|intros [vs H]; discriminate].
          -- simpl. rewrite andb_true_iff, (Hc t'), (IHc Hcs ts). split.
             ++ intros [[a Ha] [b Hb]]. rewrite Ha. simpl in Hb. rewrite Hb. eauto.
             ++ intros [vs H]. destruct (flatten_up_to c t') as [a|]; [|discriminate].
                simpl in H. destruct (go_flat cs ts) as [b|]; [|discriminate]. eauto.
  Qed.

  (* what flatten_up_to returns, put back at the declared leaves, rebuilds the returned
     value: every returned subtree sits at the position of its declared node, none is
     lost or duplicated; and there is exactly one value per declared node *)
  Theorem flatten_graft (s : tree A) : forall (t : tree B) vs rest,
    flatten_up_to s t = Some vs -> graft s (vs ++ rest) = Some (t, rest) /\ length vs = length (leaves s).
  Proof.
    induction s as [a|k cs IH] using tree_ind'; intros t vs rest H.
    - simpl in H. inversion H; subst. simpl. auto.
    - destruct t as [b|k' ts]; [discriminate|].
      rewrite flatten_node in H. destruct (kind_eqb k k') eqn:K; [|discriminate].
      apply kind_eqb_eq in K. subst k'. rewrite graft_node.
      assert (Q : go_graft cs (vs ++ rest) = Some (ts, rest) /\ length vs = length (flat_map leaves cs)).
      { revert ts vs H. induction cs as [|c cs IHc]; intros ts vs H.
        - destruct ts; simpl in H; inversion H; subst. simpl. auto.
        - inversion IH as [|x l Hc Hcs]; subst. destruct ts as [|t' ts]; [discriminate|].
          simpl in H. destruct (flatten_up_to c t') as [a|] eqn:Fa; [|discriminate].
          destruct (go_flat cs ts) as [b|] eqn:Fb; [|discriminate]. inversion H; subst vs.
          destruct (Hc t' a (b ++ rest) Fa) as [G1 L1].
          destruct (IHc Hcs ts b Fb) as [G2 L2].
          simpl. rewrite <- app_assoc, G1. simpl in G2. rewrite G2.
          split; auto. rewrite !app_length. simpl in L2. rewrite L1, L2. reflexivity. }
      destruct Q as [Q1 Q2]. simpl in *. rewrite Q1. auto.
  Qed.
End R.

(* C07 for return values: either the structure does not fit and nothing is saved, or every
   declared node is saved exactly once, in order, with the subtree at its own position *)
Theorem save_returns_spec {Nd V : Type} (decl : tree Nd) (out : tree V) :
  match save_returns decl out with
  | None => is_prefix decl out = false
  | Some pairs =>
    map fst pairs = leaves decl /\
    graft decl (map snd pairs) = Some (out, [])
  end.
Proof.
  unfold save_returns. destruct (is_prefix decl out) eqn:P; auto.
  apply prefix_iff_flatten in P. destruct P as [vs F]. rewrite F.
  destruct (flatten_graft decl out vs [] F) as [G L]. rewrite app_nil_r in G.
  assert (L' : length (leaves decl) = length vs) by auto.
  split.
  - clear G F. revert vs L L'. induction (leaves decl) as [|n ns IH]; intros [|v vs] L L'; simpl in *; try discriminate; auto.
    f_equal. apply IH; auto.
  - assert (M : map snd (combine (leaves decl) vs) = vs).
    { clear G F. revert vs L L'. induction (leaves decl) as [|n ns IH]; intros [|v vs] L L'; simpl in *; try discriminate; auto.
      f_equal. apply IH; auto. }
    rewrite M. exact G.
Qed.

Theorem load_kwargs_spec {Nd V : Type} (load : Nd -> V) decls name t :
  In (name, t) decls ->
  In (name, tmap load t) (load_kwargs load decls) /\ shape (tmap load t) = shape t /\
  leaves (tmap load t) = map load (leaves t).
Proof.
  intros H. split; [|split; [apply shape_tmap | apply leaves_tmap]].
  unfold load_kwargs. apply in_map_iff. exists (name, t). auto.
Qed.

(* non-vacuity: a tuple declaration with a dict inside and a deeper return value *)
Example tree_example :
  let decl := Node KTuple [Leaf 1%N; Node (KDict [7; 9]%N) [Leaf 2%N; Leaf 3%N]] in
  let out := Node KTuple [Node KList [Leaf 10%N; Leaf 11%N]; Node (KDict [7; 9]%N) [Leaf 20%N; Node KTuple [Leaf 30%N]]] in
  save_returns decl out =
  Some [(1%N, Node KList [Leaf 10%N; Leaf 11%N]); (2%N, Leaf 20%N); (3%N, Node KTuple [Leaf 30%N])] /\
  save_returns decl (Node KList [Leaf 1%N; Leaf 2%N]) = None /\
  save_returns decl (Node KTuple [Leaf 1%N; Node (KDict [7; 8]%N) [Leaf 2%N; Leaf 3%N]]) = None.
Proof. vm_compute. repeat split. Qed.
