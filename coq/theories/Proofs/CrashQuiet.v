(* C05, last clause: "... and then stays quiet".  When the recovery build reports every task as
   executed or unchanged, every row matches when it ends - also the rows of the task whose
   commits were torn by the kill - so the build after it starts nothing and changes nothing. *)
From Verif Require Import Base.Prelude Base.Graph Model.Sorter Model.Expr Model.Engine Model.Crash.
From Verif Require Import Proofs.GraphProofs Proofs.SorterProofs Proofs.EngineTask Proofs.EngineLoop
  Proofs.EngineDag Proofs.EngineBuild Proofs.EngineHistory Proofs.EngineQuiet Proofs.CrashProofs
  Proofs.CrashSafety Proofs.CrashRecovery.

Section RecoverQuiet.
  Variable is_word : N -> bool.
  Variable lower : list N -> list N.
  Variable body : N -> N -> list N -> N -> N.
  Variable c : config.
  Variable ts : list task.
  Variable pref : list N.
  Variable v0 : world.
  Variable E : list edge.
  Variable desel : list N.
  Variable s0 : sorter.
  Hypothesis HD : create_dag is_word lower c ts = DagOk E desel.
  Hypothesis HF : from_dag (task_ids ts) E (map (fun t => (tid t, tprio t)) ts) = Some s0.
  Hypothesis ND : NoDup (task_ids ts).
  Hypothesis WF : forall t, In t ts -> wf_task t.
  Hypothesis NP : forall t, In t ts -> m_persist t = false.
  Hypothesis IDS : forall t u, In t ts -> In u ts -> ~ In (tid t) (prods u) /\ ~ In (tid t) (deps u).
  Variable tstar : task.
  Hypothesis Tstar : In tstar ts.
  Hypothesis SC0 : forall t, In t ts -> t <> tstar -> SC body v0 t.
  Hypothesis CUR0 : forall u, In u ts -> settled E tstar u -> current body v0 u.

  Notation stepf := (step body c ts E desel nofaults pref).
  Notation loopf := (fun fuel => loop body fuel c ts E desel nofaults pref).
  Notation RI := (CrashRecovery.RInv body ts v0 E desel s0 tstar).

  Record QRInv (b : bstate) : Prop := {
    qr_ri : RI b;
    qr_rows : forall t o, In t ts -> In (tid t, o) (b_reports b) -> fresh_outcome o -> rows_ok E (b_world b) t
  }.

  Lemma QRInv_step b b' st : QRInv b -> stepf b = Some (b', st) -> QRInv b'.
  Proof.
    intros [RIb R] H.
    pose proof (CrashRecovery.RInv_step is_word lower body c ts pref v0 E desel s0 HD HF ND WF NP tstar Tstar CUR0 b b' st RIb H) as RIb'.
    pose proof (ri_li _ _ _ _ _ _ _ _ RIb) as L.
    unfold step in H.
    destruct (pick (b_sorter b) pref) as [i|] eqn:P; [|discriminate].
    destruct (find_task ts i) as [ti|] eqn:F; [|discriminate].
    destruct (find_task_spec ts i ti F) as [Ti Tin].
    unfold nofaults in H.
    set (r := run_task body c E (b_dyn b) desel (b_world b) ti NoFault) in *.
    inversion H; subst b' st; clear H.
    assert (Hnr : ~ In i (map fst (b_reports b))).
    { pose proof (pick_valid _ _ _ P) as V. destruct V as (_ & I & _).
      assert (Hr : In i (ready (b_sorter b))) by (apply I; left; reflexivity).
      apply ready_spec in Hr. destruct Hr as [Hg _]. apply (li_gnodes _ _ _ _ _ _ L) in Hg. tauto. }
    constructor; [exact RIb'|]. cbn [b_world b_reports].
    intros t o Ht Hin FO. destruct Hin as [Heq|Hin].
    - inversion Heq as [[H1 H2]]. assert (t = ti) by (apply (tid_inj ts ND); auto; congruence). subst t.
      clear Heq. subst o. destruct FO as [FO|FO].
      + destruct (success_spec body c E (b_dyn b) desel (b_world b) ti NoFault FO) as (_ & _ & _ & w1 & _ & RW).
        fold r in RW. rewrite RW. intros k Hk Hs. rewrite state_of_record in Hs.
        destruct (state_of w1 ti k) as [s|] eqn:Es; [|congruence].
        exists s. split; [rewrite state_of_record; exact Es|]. apply record_states_row; auto.
      + assert (RWu : r_world r = b_world b).
        { pose proof (run_task_spec body c E (b_dyn b) desel (b_world b) ti NoFault) as SP.
          fold r in SP. destruct SP; simpl in FO; try discriminate; reflexivity. }
        rewrite RWu. intros k Hk _.
        destruct (unchanged_sound body c E (b_dyn b) desel (b_world b) ti NoFault FO) as [_ RM]. auto.
    - assert (Tne : tid t <> i).
      { intros Eq. apply Hnr. rewrite <- Eq. apply in_map_iff. exists (tid t, o). auto. }
      intros k Hk. apply (row_matches_frame (b_world b)); [| |apply (R t o Ht Hin FO k Hk)].
      + subst r. apply task_footprint. intros Hp.
        destruct (neighbour_cases is_word lower c ts E desel HD ND IDS t k Ht Hk) as [->|[Hq|[Hq|[u [U [Pu Ru]]]]]].
        * destruct (IDS t ti Ht Tin) as [A _]. exact (A Hp).
        * assert (D : create_dag is_word lower c ts = DagErr).
          { apply (duplicate_product_rejected is_word lower c ts t ti k); auto. congruence. }
          congruence.
        * assert (Re : Reach E (tid ti) (tid t)).
          { apply (consumer_depends_on_producer is_word lower c ts E desel ti t k); auto. }
          apply in_split in Hin. destruct Hin as [l1 [l2 Hs]].
          pose proof (li_order _ _ _ _ _ _ L l1 (tid t) o l2 Hs (tid ti)) as Q.
          apply Hnr. rewrite <- Ti.
          assert (In (tid ti) (map fst l2)) by (apply Q; auto; unfold task_ids; apply in_map; exact Tin).
          rewrite Hs, map_app. apply in_or_app. right. right. exact H.
        * assert (Eq : tid u = tid ti).
          { destruct (N.eq_dec (tid u) (tid ti)) as [e|ne]; auto. exfalso.
            assert (D : create_dag is_word lower c ts = DagErr).
            { apply (duplicate_product_rejected is_word lower c ts u ti k); auto. }
            congruence. }
          apply in_split in Hin. destruct Hin as [l1 [l2 Hs]].
          pose proof (li_order _ _ _ _ _ _ L l1 (tid t) o l2 Hs (tid u)) as Q.
          apply Hnr. rewrite <- Ti, <- Eq.
          assert (In (tid u) (map fst l2)) by (apply Q; auto; unfold task_ids; apply in_map; exact U).
          rewrite Hs, map_app. apply in_or_app. right. right. exact H.
      + subst r. apply other_rows_untouched. congruence.
  Qed.

  Lemma QRInv_0 : QRInv (mkB v0 [] [] [] 0 s0).
  Proof.
    constructor.
    - apply (CrashRecovery.RInv_0 body ts v0 E desel s0 HF ND tstar SC0).
    - intros t o _ [].
  Qed.

  Lemma QRInv_loop fuel : forall b, QRInv b -> QRInv (loopf fuel b).
  Proof.
    induction fuel as [|f IH]; intros b I; simpl; auto.
    destruct (is_active (b_sorter b)); auto.
    destruct (stepf b) as [[b' [|]]|] eqn:S; auto.
    - eapply QRInv_step; eauto.
    - apply IH. eapply QRInv_step; eauto.
  Qed.

  Let r := build is_word lower body c ts nofaults pref v0.

  Theorem recovery_all_fresh_rows_match :
    (forall t, In t ts -> exists o, In (tid t, o) (x_reports r) /\ fresh_outcome o) ->
    forall t, In t ts -> forall k, In k (neighbours E t) -> row_matches (x_world r) t k.
  Proof.
    intros AF t Tin k Hk. subst r.
    pose proof (build_shape_of is_word lower body c ts nofaults pref v0) as BS.
    destruct BS as [D|E' d' D F'|E' d' s' b D F' Hb].
    - congruence.
    - rewrite HD in D. inversion D; subst E' d'. unfold prio_list in F'. congruence.
    - rewrite HD in D. inversion D; subst E' d'. unfold prio_list in F'. rewrite HF in F'. inversion F'; subst s'.
      cbn [x_world x_reports] in *. subst b.
      pose proof (QRInv_loop (length ts) _ QRInv_0) as I. cbv beta in I. destruct I as [RIf R].
      pose proof (ri_cur _ _ _ _ _ _ _ _ RIf) as Cur.
      set (bf := loop body (length ts) c ts E desel nofaults pref (mkB v0 [] [] [] 0 s0)) in *.
      assert (FR : forall t', In t' ts -> exists o, In (tid t', o) (b_reports bf) /\ fresh_outcome o).
      { intros t' T'. destruct (AF t' T') as [o [A B]]. exists o. split; auto. apply in_rev. exact A. }
      destruct (FR t Tin) as [o [Ho FO]].
      apply (R t o Tin Ho FO k Hk).
      destruct (neighbour_cases is_word lower c ts E desel HD ND IDS t k Tin Hk) as [->|[Hq|[Hq|[u [U [Pu _]]]]]].
      + rewrite state_of_self. discriminate.
      + destruct (Cur t o Tin Ho FO) as [_ Pq]. rewrite state_of_node.
        * rewrite (Pq k Hq). discriminate.
        * intros ->. destruct (IDS t t Tin Tin) as [A _]. exact (A Hq).
      + destruct (Cur t o Tin Ho FO) as [Dq _]. rewrite state_of_node.
        * unfold deps_exist in Dq. rewrite forallb_forall in Dq. specialize (Dq k Hq).
          destruct (lookup k (fs (b_world bf))); [discriminate|discriminate Dq].
        * intros ->. destruct (IDS t t Tin Tin) as [_ A]. exact (A Hq).
      + destruct (FR u U) as [ou [Hou FOu]]. destruct (Cur u ou U Hou FOu) as [_ Pq]. rewrite state_of_node.
        * rewrite (Pq k Pu). discriminate.
        * intros ->. destruct (IDS t u Tin U) as [A _]. exact (A Pu).
  Qed.
End RecoverQuiet.

(* Kill, recover, build again: if the recovery build reports every task as executed or unchanged,
   the next build (no --force) starts no function and leaves files and database as they are. *)
Theorem quiet_after_recovery
  is_word lower body c0 c1 c2 ts E desel0 desel1 desel2 s0 faults faults2 pref0 pref1 pref2 k w :
  create_dag is_word lower c0 ts = DagOk E desel0 ->
  create_dag is_word lower c1 ts = DagOk E desel1 ->
  create_dag is_word lower c2 ts = DagOk E desel2 ->
  from_dag (task_ids ts) E (map (fun t => (tid t, tprio t)) ts) = Some s0 ->
  NoDup (task_ids ts) ->
  (forall t, In t ts -> wf_task t) -> (forall t, In t ts -> m_persist t = false) ->
  (forall i, good_fault (faults i)) ->
  (forall t u, In t ts -> In u ts -> ~ In (tid t) (prods u) /\ ~ In (tid t) (deps u)) ->
  all_sc body ts w -> force c2 = false ->
  let wc := crash_world is_word lower body k c0 ts faults pref0 w in
  let r1 := build is_word lower body c1 ts nofaults pref1 wc in
  (forall t, In t ts -> exists o, In (tid t, o) (x_reports r1) /\ fresh_outcome o) ->
  let r2 := build is_word lower body c2 ts faults2 pref2 (x_world r1) in
  x_log r2 = [] /\ x_world r2 = x_world r1 /\ forall i o, In (i, o) (x_reports r2) -> quiet_outcome o.
Proof.
  intros HD0 HD1 HD2 HF ND WF NP GF IDS SCw NF wc r1 AF r2. subst r2.
  apply (quiet_build is_word lower body c2 ts faults2 pref2 (x_world r1) E desel2 NF HD2).
  intros t T kk Hk. subst r1.
  destruct (crash_world_shape is_word lower body c0 ts faults pref0 w E desel0 s0 HD0 HF ND WF NP GF SCw k)
    as [S|[tstar (Ts & SCo & Cur)]]; fold wc in S || fold wc in SCo, Cur.
  - apply (all_fresh_rows_match is_word lower body c1 ts nofaults pref1 wc E desel1 s0 HD1 HF ND WF NP
             (fun _ => Logic.I) S IDS AF t T kk Hk).
  - apply (recovery_all_fresh_rows_match is_word lower body c1 ts pref1 wc E desel1 s0 HD1 HF ND WF NP IDS
             tstar Ts SCo Cur AF t T kk Hk).
Qed.
