(* Facts about create_dag: what is rejected, and how declarations show up as edges. *)
From Verif Require Import Base.Prelude Base.Graph Model.Sorter Model.Expr Model.Engine.
From Verif Require Import Proofs.GraphProofs Proofs.SorterProofs.

Section D.
  Variable is_word : N -> bool.
  Variable lower : list N -> list N.
  Notation cdag := (create_dag is_word lower).

  Lemma base_edges_dep ts t d : In t ts -> In d (deps t) -> In (d, tid t) (base_edges ts).
  Proof.
    intros T D. unfold base_edges. apply in_flat_map. exists t. split; auto.
    apply in_or_app. left. apply in_map_iff. exists d. auto.
  Qed.

  Lemma base_edges_prod ts t p : In t ts -> In p (prods t) -> In (tid t, p) (base_edges ts).
  Proof.
    intros T P. unfold base_edges. apply in_flat_map. exists t. split; auto.
    apply in_or_app. right. apply in_map_iff. exists p. auto.
  Qed.

  Lemma base_edges_inv ts a b :
    In (a, b) (base_edges ts) ->
    exists t, In t ts /\ ((b = tid t /\ In a (deps t)) \/ (a = tid t /\ In b (prods t))).
  Proof.
    unfold base_edges. rewrite in_flat_map. intros [t [T H]]. exists t. split; auto.
    apply in_app_or in H. destruct H as [H|H]; apply in_map_iff in H; destruct H as [x [Hx Hi]];
      inversion Hx; subst; auto.
  Qed.

  (* what create_dag accepted *)
  Lemma create_dag_ok c ts E desel :
    cdag c ts = DagOk E desel ->
    has_cycle (base_edges ts) = false /\ dup_products ts (base_edges ts) = false /\
    exists AE, all_after_edges is_word lower ts ts = Some AE /\ E = base_edges ts ++ AE /\ has_cycle E = false.
  Proof.
    unfold create_dag.
    destruct (has_cycle (base_edges ts)); [discriminate|].
    destruct (dup_products ts (base_edges ts)); [discriminate|].
    destruct (all_after_edges is_word lower ts ts) as [AE|]; [|discriminate].
    destruct (has_cycle (base_edges ts ++ AE)) eqn:HC; [discriminate|].
    intros H. repeat split; auto. exists AE.
    assert (E = base_edges ts ++ AE).
    { repeat match type of H with
             | match ?x with _ => _ end = _ => destruct x; try discriminate
             end; inversion H; reflexivity. }
    subst E. auto.
  Qed.

  (* C09 (soundness): a cycle through dependencies and products, or a product declared by
     two tasks, is rejected *)
  Theorem cycle_rejected c ts v : Reach (base_edges ts) v v -> cdag c ts = DagErr.
  Proof.
    intros R. unfold create_dag.
    assert (H : has_cycle (base_edges ts) = true) by (apply has_cycle_iff; eauto).
    rewrite H. reflexivity.
  Qed.

  Lemma dedupN_two seen l a b :
    In a l -> In b l -> a <> b -> ~ In a seen -> ~ In b seen -> (2 <= length (dedupN seen l))%nat.
  Proof.
    revert seen. induction l as [|x l IH]; intros seen Ha Hb Hne Na Nb; [destruct Ha|].
    simpl. destruct (memN x seen) eqn:M.
    - apply memN_In in M. destruct Ha as [->|Ha]; [contradiction|].
      destruct Hb as [->|Hb]; [contradiction|]. apply IH; auto.
    - simpl. destruct (N.eq_dec x a) as [->|Xa].
      + destruct Hb as [->|Hb]; [congruence|].
        assert (In b (dedupN (a :: seen) l)).
        { apply dedupN_complete; auto. intros [C|C]; [congruence|auto]. }
        destruct (dedupN (a :: seen) l); [destruct H|simpl; lia].
      + destruct (N.eq_dec x b) as [->|Xb].
        * destruct Ha as [->|Ha]; [congruence|].
          assert (In a (dedupN (b :: seen) l)).
          { apply dedupN_complete; auto. intros [C|C]; [congruence|auto]. }
          destruct (dedupN (b :: seen) l); [destruct H|simpl; lia].
        * destruct Ha as [->|Ha]; [congruence|]. destruct Hb as [->|Hb]; [congruence|].
          assert (2 <= length (dedupN (x :: seen) l))%nat.
          { apply IH; auto; intros [C|C]; auto. }
          lia.
  Qed.

  Theorem duplicate_product_rejected c ts t1 t2 p :
    In t1 ts -> In t2 ts -> tid t1 <> tid t2 -> In p (prods t1) -> In p (prods t2) ->
    cdag c ts = DagErr.
  Proof.
    intros T1 T2 Hne P1 P2. unfold create_dag.
    destruct (has_cycle (base_edges ts)); [reflexivity|].
    assert (D : dup_products ts (base_edges ts) = true).
    { unfold dup_products. apply existsb_exists. exists p. split.
      - apply in_flat_map. exists t1. auto.
      - apply Nat.ltb_lt.
        assert (In (tid t1) (preds (base_edges ts) p)).
        { unfold preds. apply in_map_iff. exists (tid t1, p). split; auto.
          apply filter_In. split; [apply base_edges_prod; auto|]. simpl. apply N.eqb_refl. }
        assert (In (tid t2) (preds (base_edges ts) p)).
        { unfold preds. apply in_map_iff. exists (tid t2, p). split; auto.
          apply filter_In. split; [apply base_edges_prod; auto|]. simpl. apply N.eqb_refl. }
        pose proof (dedupN_two [] _ _ _ H H0 Hne (fun x => x) (fun x => x)). lia. }
    rewrite D. reflexivity.
  Qed.

  (* C09 (completeness): an acyclic graph with unique producers whose expressions parse is
     accepted *)
  Theorem wellformed_accepted c ts AE :
    has_cycle (base_edges ts) = false -> dup_products ts (base_edges ts) = false ->
    all_after_edges is_word lower ts ts = Some AE ->
    has_cycle (base_edges ts ++ AE) = false ->
    (forall e, kexpr c = Some e -> e <> [] -> exists a, compile is_word e = Ok a) ->
    (forall e, mexpr c = Some e -> e <> [] -> exists a, compile is_word e = Ok a) ->
    exists E desel, cdag c ts = DagOk E desel.
  Proof.
    intros H1 H2 H3 H4 HK HM. unfold create_dag. rewrite H1, H2, H3, H4.
    destruct (kexpr c) as [[|k0 ke]|] eqn:K; destruct (mexpr c) as [[|m0 me]|] eqn:M;
      try (destruct (HK _ eq_refl) as [a Ha]; [discriminate|rewrite Ha]);
      try (destruct (HM _ eq_refl) as [a' Ha']; [discriminate|rewrite Ha']);
      eauto.
  Qed.

  (* after the fix of F3: a cycle through any mix of dependencies, products and `after`
     edges is rejected by create_dag itself *)
  Theorem accepted_graph_acyclic c ts E desel :
    cdag c ts = DagOk E desel -> forall v, ~ Reach E v v.
  Proof.
    intros D. destruct (create_dag_ok _ _ _ _ D) as (_ & _ & AE & _ & -> & HC).
    apply has_cycle_false_acyclic. exact HC.
  Qed.

  Theorem full_cycle_rejected c ts AE v :
    all_after_edges is_word lower ts ts = Some AE -> Reach (base_edges ts ++ AE) v v ->
    cdag c ts = DagErr.
  Proof.
    intros HA R. unfold create_dag.
    destruct (has_cycle (base_edges ts)); [reflexivity|].
    destruct (dup_products ts (base_edges ts)); [reflexivity|]. rewrite HA.
    assert (H : has_cycle (base_edges ts ++ AE) = true) by (apply has_cycle_iff; eauto).
    rewrite H. reflexivity.
  Qed.

  (* declarations are edges of the accepted graph *)
  Theorem consumer_depends_on_producer c ts E desel u t p :
    cdag c ts = DagOk E desel -> In u ts -> In t ts -> In p (prods u) -> In p (deps t) ->
    Reach E (tid u) (tid t).
  Proof.
    intros D U T P Q. destruct (create_dag_ok _ _ _ _ D) as (_ & _ & AE & _ & -> & _).
    eapply RS.
    - apply in_or_app. left. apply base_edges_prod; eauto.
    - apply R1. apply in_or_app. left. apply base_edges_dep; auto.
  Qed.

  Lemma all_after_edges_In ts all AE t :
    all_after_edges is_word lower ts all = Some AE -> In t ts ->
    exists a, after_edges_of is_word lower all t = Some a /\ incl a AE.
  Proof.
    revert AE. induction ts as [|x l IH]; intros AE H T; [destruct T|].
    simpl in H. destruct (after_edges_of is_word lower all x) as [a|] eqn:A; [|discriminate].
    destruct (all_after_edges is_word lower l all) as [b|] eqn:B; [|discriminate].
    inversion H; subst. destruct T as [->|T].
    - exists a. split; auto. intros e He. apply in_or_app. auto.
    - destruct (IH b eq_refl T) as [a' [Ha' Hi]]. exists a'. split; auto.
      intros e He. apply in_or_app. right. auto.
  Qed.

  (* `after` with an upstream task that has a product yields a path *)
  Theorem after_with_product_is_edge c ts E desel t u ui p :
    cdag c ts = DagOk E desel -> In t ts -> In ui (after t) ->
    find_task ts ui = Some u -> In p (prods u) ->
    Reach E ui (tid t).
  Proof.
    intros D T A F P. destruct (create_dag_ok _ _ _ _ D) as (_ & _ & AE & HA & -> & _).
    destruct (all_after_edges_In _ _ _ _ HA T) as [a [Ha Hi]].
    unfold after_edges_of in Ha.
    destruct (match after_expr t with None => Some [] | Some e => after_matches is_word lower ts (tid t) e end)
      as [ups2|]; [|discriminate].
    inversion Ha; subst a; clear Ha.
    assert (Tu : tid u = ui /\ In u ts).
    { unfold find_task in F. apply find_some in F. destruct F as [F1 F2]. apply N.eqb_eq in F2. auto. }
    destruct Tu as [Tu Uin].
    eapply RS.
    - apply in_or_app. left. rewrite <- Tu. apply base_edges_prod; eauto.
    - apply R1. apply in_or_app. right. apply Hi. apply in_flat_map. exists ui. split.
      + apply in_or_app. left. exact A.
      + apply in_map_iff. exists p. split; auto. unfold prods_of. rewrite F. exact P.
  Qed.

  (* deselection is exactly "outside the keyword closure or outside the marker closure" *)
  Theorem deselected_spec c ts E desel i :
    cdag c ts = DagOk E desel ->
    In i desel ->
    In i (task_ids ts) /\
    ((exists e a, kexpr c = Some e /\ e <> [] /\ compile is_word e = Ok a /\
                  ~ In i (remaining ts E (fun t => eval (kw_match lower (tnames t)) a))) \/
     (exists e a, mexpr c = Some e /\ e <> [] /\ compile is_word e = Ok a /\
                  ~ In i (remaining ts E (fun t => eval (mark_match (tmarks t)) a)))).
  Proof.
    unfold create_dag.
    destruct (has_cycle (base_edges ts)); [discriminate|].
    destruct (dup_products ts (base_edges ts)); [discriminate|].
    destruct (all_after_edges is_word lower ts ts) as [AE|]; [|discriminate].
    set (E' := base_edges ts ++ AE).
    destruct (has_cycle E'); [discriminate|].
    destruct (kexpr c) as [[|k0 ke]|] eqn:K; destruct (mexpr c) as [[|m0 me]|] eqn:M;
      try destruct (compile is_word (k0 :: ke)) as [ak| |] eqn:CK; try discriminate;
      try destruct (compile is_word (m0 :: me)) as [am| |] eqn:CM; try discriminate;
      intros H; inversion H; subst E desel; clear H; simpl; try (intros []);
      rewrite ?app_nil_r; intros Hin;
      try (apply in_app_or in Hin; destruct Hin as [Hin|Hin]);
      apply filter_In in Hin; destruct Hin as [Hi Hn];
      apply negb_true_iff in Hn; apply memN_false_In in Hn; split; auto.
    all: try (left; do 2 eexists; repeat split; eauto; discriminate).
    all: try (right; do 2 eexists; repeat split; eauto; discriminate).
  Qed.
End D.
