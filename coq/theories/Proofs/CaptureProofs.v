(* Attribution of captured output and restoration of the process state. *)
From Verif Require Import Base.Prelude Model.Capture.

Lemma fold_write_active m ws : forall st,
  active st = true ->
  fold_left (do_write m) ws st =
  mkC true (buf_out st ++ captured_text m SOut ws) (buf_err st ++ captured_text m SErr ws)
      (term_out st ++ passthrough_text m SOut ws) (term_err st ++ passthrough_text m SErr ws).
Proof.
  induction ws as [|w ws IH]; intros st A; simpl.
  - rewrite !app_nil_r. destruct st; simpl in *; subst; reflexivity.
  - rewrite IH.
    + unfold do_write. rewrite A. simpl.
      destruct (w_stream w); simpl; destruct (captures m (w_level w)); simpl;
        destruct m; simpl; rewrite <- ?app_assoc, ?app_nil_r; reflexivity.
    + unfold do_write. rewrite A. destruct (w_stream w); reflexivity.
Qed.

Lemma fold_write_inactive m ws : forall st,
  active st = false ->
  fold_left (do_write m) ws st =
  mkC false (buf_out st) (buf_err st) (term_out st ++ all_text SOut ws) (term_err st ++ all_text SErr ws).
Proof.
  induction ws as [|w ws IH]; intros st A; simpl.
  - rewrite !app_nil_r. destruct st; simpl in *; subst; reflexivity.
  - rewrite IH.
    + unfold do_write. rewrite A. simpl.
      destruct (w_stream w); simpl; rewrite <- ?app_assoc, ?app_nil_r; reflexivity.
    + unfold do_write. rewrite A. destruct (w_stream w); reflexivity.
Qed.

Definition clean (st : cstate) : Prop := active st = false /\ buf_out st = [] /\ buf_err st = [].

(* C14: the sections of a phase are exactly what the task wrote at a captured level during that
   phase, per stream, in order; nothing is left in the buffers; what is not captured (and, in
   tee mode, everything at Python level too) reaches the real stream *)
Theorem run_phase_spec m t ph ws st :
  clean st ->
  fst (run_phase m t ph ws st) = expected_phase m t ph ws /\
  clean (snd (run_phase m t ph ws st)) /\
  term_out (snd (run_phase m t ph ws st)) = term_out st ++ passthrough_text m SOut ws /\
  term_err (snd (run_phase m t ph ws st)) = term_err st ++ passthrough_text m SErr ws.
Proof.
  intros (A & BO & BE). unfold run_phase.
  rewrite fold_write_active by reflexivity. simpl. rewrite BO, BE. simpl.
  unfold expected_phase, clean. simpl.
  destruct (captured_text m SOut ws); destruct (captured_text m SErr ws); auto.
Qed.

Theorem run_ttask_spec m tk st :
  clean st ->
  fst (run_ttask m tk st) = expected_task m tk /\ clean (snd (run_ttask m tk st)) /\
  term_out (snd (run_ttask m tk st)) =
    term_out st ++ passthrough_text m SOut (t_setup tk) ++ passthrough_text m SOut (t_call tk) ++
    passthrough_text m SOut (t_teardown tk) ++ all_text SOut (t_between tk) /\
  term_err (snd (run_ttask m tk st)) =
    term_err st ++ passthrough_text m SErr (t_setup tk) ++ passthrough_text m SErr (t_call tk) ++
    passthrough_text m SErr (t_teardown tk) ++ all_text SErr (t_between tk).
Proof.
  intros C0. unfold run_ttask.
  pose proof (run_phase_spec m (t_id tk) PSetup (t_setup tk) st C0) as (A1 & C1 & O1 & R1).
  destruct (run_phase m (t_id tk) PSetup (t_setup tk) st) as [s1 st1]. cbn [fst snd] in *.
  pose proof (run_phase_spec m (t_id tk) PCall (t_call tk) st1 C1) as (A2 & C2 & O2 & R2).
  destruct (run_phase m (t_id tk) PCall (t_call tk) st1) as [s2 st2]. cbn [fst snd] in *.
  pose proof (run_phase_spec m (t_id tk) PTeardown (t_teardown tk) st2 C2) as (A3 & C3 & O3 & R3).
  destruct (run_phase m (t_id tk) PTeardown (t_teardown tk) st2) as [s3 st3]. cbn [fst snd] in *.
  destruct C3 as (X & Y & Z). rewrite (fold_write_inactive m (t_between tk) st3 X).
  unfold expected_task, clean. cbn [active buf_out buf_err term_out term_err]. subst s1 s2 s3.
  repeat split; auto.
  - rewrite O3, O2, O1, <- !app_assoc. reflexivity.
  - rewrite R3, R2, R1, <- !app_assoc. reflexivity.
Qed.

(* for any sequence of tasks: every section belongs to the task and phase that wrote it *)
Theorem sections_exact m tks : forall st,
  clean st ->
  fst (run_ttasks m tks st) = flat_map (expected_task m) tks /\ clean (snd (run_ttasks m tks st)).
Proof.
  induction tks as [|tk r IH]; intros st C0; cbn [run_ttasks flat_map fst snd]; auto.
  pose proof (run_ttask_spec m tk st C0) as (A1 & C1 & _).
  destruct (run_ttask m tk st) as [s st1]. cbn [fst snd] in *.
  pose proof (IH st1 C1) as (A2 & C2).
  destruct (run_ttasks m r st1) as [s' st2]. cbn [fst snd] in *. subst. auto.
Qed.

(* what the four methods capture *)
Theorem fd_captures_everything s ws :
  captured_text MFd s ws = all_text s ws /\ passthrough_text MFd s ws = [].
Proof.
  unfold captured_text, passthrough_text, all_text. split.
  - apply flat_map_ext. intros w. simpl. rewrite andb_true_r. reflexivity.
  - induction ws as [|w ws IH]; auto. cbn [flat_map]. rewrite IH. simpl. rewrite andb_false_r. reflexivity.
Qed.

Theorem no_captures_nothing s ws :
  captured_text MNo s ws = [] /\ passthrough_text MNo s ws = all_text s ws.
Proof.
  unfold captured_text, passthrough_text, all_text. split.
  - induction ws as [|w ws IH]; auto. cbn [flat_map]. rewrite IH. simpl.
    rewrite andb_false_r. reflexivity.
  - apply flat_map_ext. intros w. simpl. rewrite andb_true_r. reflexivity.
Qed.

Theorem tee_passes_everything s ws : passthrough_text MTee s ws = all_text s ws.
Proof.
  unfold passthrough_text, all_text. apply flat_map_ext. intros w.
  rewrite orb_true_r, andb_true_r. reflexivity.
Qed.

Theorem sys_python_level_only s ws :
  captured_text MSys s ws =
  flat_map (fun w => if stream_eqb (w_stream w) s && match w_level w with LPy => true | _ => false end
                     then w_data w else []) ws.
Proof.
  unfold captured_text. apply flat_map_ext. intros w. destruct (w_level w); reflexivity.
Qed.

(* ------------------------------------------------------------------ C15 *)
(* with the unconfigure hook a build leaves descriptors, stream objects and the number of open
   descriptors as it found them - for every capture method *)
Theorem build_restores_process m p : build_p true m p = p.
Proof.
  unfold build_p, start_and_suspend, stop. destruct m; destruct p; simpl; try reflexivity.
  f_equal. lia.
Qed.

Fixpoint builds (stops : bool) (ms : list method) (p : pstate) : pstate :=
  match ms with [] => p | m :: r => builds stops r (build_p stops m p) end.

Theorem builds_restore_process ms : forall p, builds true ms p = p.
Proof. induction ms as [|m r IH]; intros p; cbn [builds]; auto. rewrite build_restores_process. apply IH. Qed.

(* F10 (before the repair): without it, after one build under fd capture stdin points at
   /dev/null, sys.stdin is the capture object and six descriptors more are open - per build *)
Theorem no_unconfigure_refuted p :
  let q := build_p false MFd p in
  fd0 q = DEVNULL /\ py_in q = PYCAP_IN /\ nfds q = (nfds p + 6)%nat.
Proof. destruct p; simpl; auto. Qed.

Theorem leak_grows_with_builds n p :
  nfds (builds false (repeat MFd n) p) = (nfds p + 6 * n)%nat.
Proof.
  revert p. induction n as [|n IH]; intros p; cbn [repeat builds]; [lia|].
  rewrite IH. destruct p; simpl. lia.
Qed.
