(* Obligations tying Model/Catalog.v to the facts extracted from data_catalog.py. *)
From Verif Require Import Base.Prelude Model.Catalog Gen.CatalogFacts.

(* the validator applies the pattern to the whole name *)
Lemma catalog_re_fn_ok : x_name_re_fn = ReFullmatch.
Proof. reflexivity. Qed.

(* the character class is the documented alphabet *)
Lemma catalog_class_ok :
  forallb (fun c => Bool.eqb (memN c x_name_class) (name_class c)) (map N.of_nat (seq 0 300)) = true.
Proof. vm_compute. reflexivity. Qed.

Lemma catalog_layout_ok :
  x_dir_parts = dir_parts /\ x_suffix_value = suffix_value /\ x_suffix_node = suffix_node.
Proof. repeat split. Qed.
