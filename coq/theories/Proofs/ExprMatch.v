(* Matchers and Boolean evaluation. *)
From Verif Require Import Base.Prelude Model.Expr.

Lemma prefixb_spec p s : prefixb p s = true <-> exists post, s = p ++ post.
Proof.
  revert s; induction p as [|x p IH]; intros s; simpl.
  - split; eauto.
  - destruct s as [|y s].
    + split; [discriminate|]. intros [post H]. discriminate.
    + rewrite andb_true_iff, N.eqb_eq, IH. split.
      * intros [-> [post ->]]. eauto.
      * intros [post H]. inversion H; subst. eauto.
Qed.

Lemma substringb_spec p s :
  substringb p s = true <-> exists pre post, s = pre ++ p ++ post.
Proof.
  induction s as [|y s IH].
  - simpl. rewrite orb_false_r, prefixb_spec. split.
    + intros [post H]. exists [], post. exact H.
    + intros [pre [post H]]. destruct pre; simpl in H; [eauto | discriminate].
  - cbn [substringb]. rewrite orb_true_iff, prefixb_spec, IH. split.
    + intros [[post H]|[pre [post H]]].
      * exists [], post. exact H.
      * exists (y :: pre), post. simpl. congruence.
    + intros [[|z pre] [post H]]; simpl in H.
      * left. eauto.
      * right. inversion H; subst. eauto.
Qed.

Section M.
  Variable lower : list N -> list N.

  Theorem kw_matcher_spec names sub :
    kw_match lower names sub = true <->
    exists n, In n names /\ exists pre post, lower n = pre ++ lower sub ++ post.
  Proof.
    unfold kw_match. rewrite existsb_exists.
    split; intros [n [Hn H]]; exists n; split; auto; apply substringb_spec; auto.
  Qed.

  Theorem mark_matcher_spec marks name :
    mark_match marks name = true <-> In name marks.
  Proof. apply memL_In. Qed.
End M.

(* Boolean semantics of evaluation (by definition, stated for the record) *)
Theorem eval_boolean m :
  eval m AFalse = false /\
  (forall s, eval m (AId s) = m s) /\
  (forall a, eval m (ANot a) = negb (eval m a)) /\
  (forall a b, eval m (AAnd a b) = andb (eval m a) (eval m b)) /\
  (forall a b, eval m (AOr a b) = orb (eval m a) (eval m b)).
Proof. repeat split. Qed.

(* precedence and associativity, for arbitrary identifiers *)
Example prec_or_and x y z :
  parse_tokens [ID x; OR; ID y; AND; ID z] = Ok (AOr (AId x) (AAnd (AId y) (AId z))).
Proof. reflexivity. Qed.
Example prec_and_or x y z :
  parse_tokens [ID x; AND; ID y; OR; ID z] = Ok (AOr (AAnd (AId x) (AId y)) (AId z)).
Proof. reflexivity. Qed.
Example prec_not_and x y :
  parse_tokens [NOT; ID x; AND; ID y] = Ok (AAnd (ANot (AId x)) (AId y)).
Proof. reflexivity. Qed.
Example prec_not_or x y :
  parse_tokens [NOT; ID x; OR; ID y] = Ok (AOr (ANot (AId x)) (AId y)).
Proof. reflexivity. Qed.
Example assoc_or x y z :
  parse_tokens [ID x; OR; ID y; OR; ID z] = Ok (AOr (AOr (AId x) (AId y)) (AId z)).
Proof. reflexivity. Qed.
Example parens x y z :
  parse_tokens [ID x; AND; LP; ID y; OR; ID z; RP] = Ok (AAnd (AId x) (AOr (AId y) (AId z))).
Proof. reflexivity. Qed.
Example empty_is_false : parse_tokens [] = Ok AFalse.
Proof. reflexivity. Qed.
