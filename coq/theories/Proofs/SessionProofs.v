(* In-process builds equal fresh-process builds - where that is true. *)
From Verif Require Import Base.Prelude Model.Clean Model.Collect Model.Session Proofs.CollectProofs.

Section S.
  Variable is_pkg : path -> bool.
  Variable src : path -> modsrc.

  (* no file registers tasks through @task at import time *)
  Definition no_decorated (ps : list path) : Prop :=
    forall p, In p ps -> match src p with MOk _ d => d = 0%nat | MBroken => True end.

  (* every cached entry is a file that imports without error *)
  Definition cache_ok (m : mcache) : Prop :=
    forall k f, mc_get k m = Some f -> src f <> MBroken.

  Lemma mc_get_set k v m k' :
    mc_get k' (mc_set k v m) = if eqbP k' k then Some v else mc_get k' m.
  Proof.
    induction m as [|[a b] r IH]; simpl.
    - destruct (eqbP k' k); reflexivity.
    - destruct (eqbP k a) eqn:E1; simpl.
      + apply eqbP_spec in E1. subst a. destruct (eqbP k' k); reflexivity.
      + destruct (eqbP k' a) eqn:E2.
        * apply eqbP_spec in E2. subst a. destruct (eqbP k' k) eqn:E3; [|reflexivity].
          apply eqbP_spec in E3. subst. assert (eqbP k k = true) by (apply eqbP_spec; reflexivity). congruence.
        * exact IH.
  Qed.

  Lemma collect_file_cache_ok m p :
    cache_ok m -> cache_ok (snd (collect_file is_pkg src m p)).
  Proof.
    intros C. unfold collect_file.
    destruct (src p) as [pre dec|] eqn:S;
      destruct (match mc_get (modname is_pkg p) m with Some f => eqbP f p | None => false end); simpl; auto.
    intros k f H. rewrite mc_get_set in H. destruct (eqbP k (modname is_pkg p)).
    - inversion H; subst. congruence.
    - eapply C; eauto.
  Qed.

  (* the result for one file does not depend on the cache *)
  Lemma collect_file_fresh m p :
    cache_ok m -> match src p with MOk _ d => d = 0%nat | MBroken => True end ->
    fst (collect_file is_pkg src m p) = fst (collect_file is_pkg src [] p).
  Proof.
    intros C D. unfold collect_file. simpl.
    destruct (mc_get (modname is_pkg p) m) as [f|] eqn:G; [|destruct (src p); reflexivity].
    destruct (eqbP f p) eqn:E; [|destruct (src p); reflexivity].
    apply eqbP_spec in E. subst f. destruct (src p) as [pre dec|] eqn:S.
    - subst dec. simpl. rewrite Nat.add_0_r. reflexivity.
    - exfalso. exact (C _ _ G S).
  Qed.

  Lemma collect_files_fresh ps : forall m m',
    cache_ok m -> cache_ok m' -> no_decorated ps ->
    fst (collect_files is_pkg src m ps) = fst (collect_files is_pkg src m' ps) /\
    cache_ok (snd (collect_files is_pkg src m ps)).
  Proof.
    induction ps as [|p r IH]; intros m m' C C' D; simpl; [auto|].
    pose proof (collect_file_fresh m p C (D p (or_introl eq_refl))) as F1.
    pose proof (collect_file_fresh m' p C' (D p (or_introl eq_refl))) as F2.
    pose proof (collect_file_cache_ok m p C) as K1.
    pose proof (collect_file_cache_ok m' p C') as K2.
    destruct (collect_file is_pkg src m p) as [x m1].
    destruct (collect_file is_pkg src m' p) as [x' m1']. simpl in *.
    assert (D' : no_decorated r) by (intros q Hq; apply D; right; exact Hq).
    destruct (IH m1 m1' K1 K2 D') as [E K].
    destruct (collect_files is_pkg src m1 r) as [xs m2].
    destruct (collect_files is_pkg src m1' r) as [xs' m2']. simpl in *.
    split; [congruence|exact K].
  Qed.

  Lemma cache_ok_nil : cache_ok [].
  Proof. intros k f H. discriminate. Qed.

  (* C15: for projects whose task files register nothing through @task at import time, every
     build of a sequence run in one process collects exactly what the same build collects in a
     fresh process - including files whose import fails, again and again *)
  Theorem inprocess_equals_fresh bs : forall m,
    cache_ok m -> (forall ps, In ps bs -> no_decorated ps) ->
    run_builds is_pkg src m bs = fresh_builds is_pkg src bs.
  Proof.
    induction bs as [|ps r IH]; intros m C D; simpl; [reflexivity|].
    destruct (collect_files_fresh ps m [] C cache_ok_nil (D ps (or_introl eq_refl))) as [E K].
    destruct (collect_files is_pkg src m ps) as [xs m1]. simpl in *.
    unfold fresh_builds in *. simpl. rewrite E. f_equal.
    apply IH; [exact K|]. intros qs Hq. apply D. right; exact Hq.
  Qed.
End S.

(* F11 (known): a file that declares its task with @task - second build collects nothing *)
Definition p_dec : path := [[116; 97; 115; 107; 95; 100]%N].
Theorem decorated_second_build_refuted :
  run_builds (fun _ => false) (fun _ => MOk 0 1) [] [[p_dec]; [p_dec]] = [[RTasks 1]; [RTasks 0]] /\
  fresh_builds (fun _ => false) (fun _ => MOk 0 1) [[p_dec]; [p_dec]] = [[RTasks 1]; [RTasks 1]].
Proof. vm_compute. split; reflexivity. Qed.

(* F20 (repaired): before, the module of a failed import stayed cached: error, then silence *)
Theorem broken_import_regression :
  (let '(x1, m1) := collect_file_old (fun _ => false) (fun _ => MBroken) [] p_dec in
   (x1, fst (collect_file_old (fun _ => false) (fun _ => MBroken) m1 p_dec))) = (RError, RTasks 0) /\
  run_builds (fun _ => false) (fun _ => MBroken) [] [[p_dec]; [p_dec]] = [[RError]; [RError]].
Proof. vm_compute. split; reflexivity. Qed.
