(* Build-level statements about EngineP.pbuild, derived from the loop invariant. *)
From Verif Require Import Base.Prelude Base.Graph Model.Sorter Model.Expr Model.Engine Model.EngineP.
From Verif Require Import Proofs.GraphProofs Proofs.SorterProofs Proofs.EngineTask Proofs.EngineLoop
  Proofs.EngineDag Proofs.EnginePTask Proofs.EnginePLoop.

Lemma rev_split {A} (L pre post : list A) x :
  rev L = pre ++ x :: post -> L = rev post ++ x :: rev pre.
Proof.
  intros H. rewrite <- (rev_involutive L), H, rev_app_distr. simpl. rewrite <- app_assoc. reflexivity.
Qed.

Section B.
  Variable is_word : N -> bool.
  Variable lower : list N -> list N.
  Variable matches : N -> N -> bool.
  Variable body : N -> N -> list N -> N -> N.
  Variable dyn_files : task -> list N -> list N.
  Variable children : task -> list N -> list ptask.

  Notation pbuildf := (pbuild is_word lower matches body dyn_files children).

  (* the shape of every result: rejected graph, or the final state of the loop, which
     satisfies the invariant *)
  Lemma pbuild_cases fuel c ts faults pref w :
    let r := pbuildf fuel c ts faults pref w in
    (x_reports r = [] /\ x_log r = [] /\ x_world r = w) \/
    exists E0 d0 s0 bf h,
      pdag is_word lower c ts = DagOk E0 d0 /\
      PI is_word lower c ts s0 bf h /\
      x_reports r = rev (pb_reports bf) /\ x_log r = rev (pb_log bf) /\ x_world r = pb_world bf.
  Proof.
    unfold pbuild. destruct (pdag is_word lower c ts) as [|E0 d0] eqn:D; [left; auto|].
    destruct (from_dag _ E0 _) as [s0|] eqn:S; [|left; auto].
    right. fold (pids ts) in S. fold (pprio ts) in S.
    pose proof (PI_0 is_word lower matches body c faults pref ts E0 d0 s0 D S w) as L0.
    destruct (loop_PI is_word lower matches body dyn_files children c faults pref ts E0 s0 S fuel _ _ L0) as [h L].
    exists E0, d0, s0. eexists. exists h. split; [reflexivity|]. split; [exact L|]. simpl. auto.
  Qed.

  (* C18 / C01: no event occurs twice - the function of every task, declared, generator or
     generated, is started at most once in a build, however often the graph is re-created *)
  Theorem pbuild_log_nodup fuel c ts faults pref w :
    NoDup (x_log (pbuildf fuel c ts faults pref w)).
  Proof.
    destruct (pbuild_cases fuel c ts faults pref w) as [(_ & H & _)|(E0 & d0 & s0 & bf & h & _ & L & _ & H & _)];
      rewrite H; [constructor|]. apply NoDup_rev. apply (pi_log_nodup _ _ _ _ _ _ _ L).
  Qed.

  (* C18: a consumer's function starts only after the task that declares the same pattern
     (or file) as its product has been dealt with: after the consumer's start, no event of
     the producer occurs *)
  Theorem pbuild_consumer_after_producer fuel c ts faults pref w pre post u t :
    x_log (pbuildf fuel c ts faults pref w) = pre ++ Start (tid (base t)) :: post ->
    In u ts -> In t ts -> feeds u t ->
    forall e, In e post -> ev_task e <> tid (base u).
  Proof.
    intros H Hu Ht Hf e He.
    destruct (pbuild_cases fuel c ts faults pref w) as [(_ & H' & _)|(E0 & d0 & s0 & bf & h & _ & L & _ & H' & _)];
      rewrite H' in H; [destruct pre; discriminate|].
    apply rev_split in H.
    apply (pi_log_order _ _ _ _ _ _ _ L _ _ _ H u t Hu (pi_incl _ _ _ _ _ _ _ L t Ht) eq_refl Hf).
    apply in_rev in He. exact He.
  Qed.

  (* ... and the producer has been reported before the consumer is *)
  Theorem pbuild_reported_after_producer fuel c ts faults pref w pre post u t o :
    x_reports (pbuildf fuel c ts faults pref w) = pre ++ (tid (base t), o) :: post ->
    In u ts -> In t ts -> feeds u t -> In (tid (base u)) (map fst pre).
  Proof.
    intros H Hu Ht Hf.
    destruct (pbuild_cases fuel c ts faults pref w) as [(H' & _)|(E0 & d0 & s0 & bf & h & _ & L & H' & _)];
      rewrite H' in H; [destruct pre; discriminate|].
    apply rev_split in H.
    pose proof (pi_rep_order _ _ _ _ _ _ _ L _ _ _ _ H u t Hu (pi_incl _ _ _ _ _ _ _ L t Ht) eq_refl Hf) as Q.
    rewrite map_rev in Q. apply in_rev in Q. exact Q.
  Qed.
End B.
