(* Invariants of the build loop with provisional nodes and task generators (EngineP.ploop):
   the scheduler is re-created whenever a generator adds tasks, the task list grows, and still
   every task - declared or generated - is handed out at most once, a consumer of a pattern
   only after the declared producer of that pattern has been reported. *)
From Verif Require Import Base.Prelude Base.Graph Model.Sorter Model.Expr Model.Engine Model.EngineP.
From Verif Require Import Proofs.GraphProofs Proofs.SorterProofs Proofs.EngineTask Proofs.EngineLoop
  Proofs.EngineDag Proofs.EnginePTask.

Definition ev_task (e : event) : N := match e with Start t | Finish t => t end.

Definition pids (ts : list ptask) : list N := map (fun t => tid (base t)) ts.
Definition pprio (ts : list ptask) : list (N * Z) := map (fun t => (tid (base t), tprio (base t))) ts.

(* the declared producer/consumer relation: through a pattern, or through an ordinary file *)
Definition feeds (u t : ptask) : Prop :=
  (exists p, In p (pprods u) /\ In p (pdeps t)) \/
  (exists n, In n (prods (base u)) /\ In n (deps (base t))).

Section L.
  Variable is_word : N -> bool.
  Variable lower : list N -> list N.
  Variable matches : N -> N -> bool.
  Variable body : N -> N -> list N -> N -> N.
  Variable dyn_files : task -> list N -> list N.
  Variable children : task -> list N -> list ptask.
  Variable c : config.
  Variable faults : N -> fault.
  Variable pref : list N.

  Notation pdagf := (pdag is_word lower c).
  Notation pstepf := (pstep is_word lower matches body dyn_files children c faults pref).
  Notation ploopf := (fun fuel => ploop is_word lower matches body dyn_files children fuel c faults pref).
  Notation rpt := (run_ptask matches body dyn_files children).

  Lemma feeds_reach ts E d u t :
    pdagf ts = DagOk E d -> In u ts -> In t ts -> feeds u t ->
    Reach E (tid (base u)) (tid (base t)).
  Proof.
    intros D U T F. unfold pdag in D.
    assert (U' : In (static_task u) (map static_task ts)) by (apply in_map; exact U).
    assert (T' : In (static_task t) (map static_task ts)) by (apply in_map; exact T).
    destruct F as [[p [P1 P2]]|[n [P1 P2]]].
    - apply (consumer_depends_on_producer is_word lower c _ E d (static_task u) (static_task t) (pat_node p) D U' T').
      + simpl. apply in_or_app. right. apply in_map. exact P1.
      + simpl. apply in_or_app. right. apply in_map. exact P2.
    - apply (consumer_depends_on_producer is_word lower c _ E d (static_task u) (static_task t) n D U' T').
      + simpl. apply in_or_app. left. exact P1.
      + simpl. apply in_or_app. left. exact P2.
  Qed.

  Lemma find_ptask_spec ts i t : find_ptask ts i = Some t -> In t ts /\ tid (base t) = i.
  Proof.
    unfold find_ptask. intros H. apply find_some in H. destruct H as [H1 H2].
    apply N.eqb_eq in H2. auto.
  Qed.

  Lemma has_ptask_false ts i : has_ptask ts i = false -> ~ In i (pids ts).
  Proof.
    unfold has_ptask. destruct (find_ptask ts i) as [t|] eqn:F; [discriminate|]. intros _ C.
    unfold pids in C. apply in_map_iff in C. destruct C as [t [E Hin]].
    unfold find_ptask in F. pose proof (find_none _ _ F t Hin) as Q. simpl in Q.
    apply N.eqb_neq in Q. auto.
  Qed.

  (* the events of one task: none, or its start and finish *)
  Lemma ptask_events E dyn desel w t f :
    let r := rpt c E dyn desel w t f in
    p_events r = [] \/ p_events r = [Start (tid (base t)); Finish (tid (base t))].
  Proof.
    unfold run_ptask. cbn zeta.
    repeat match goal with
           | |- context [if ?x then _ else _] => destruct x; simpl; auto
           | |- context [match ?x with inl _ => _ | inr _ => _ end] => destruct x as [?|[|]]; simpl; auto
           | |- context [let '(_, _) := ?x in _] => destruct x as [? [|]]; simpl; auto
           | |- context [match children ?a ?b with _ => _ end] => destruct (children a b); simpl; auto
           end.
  Qed.

  Variable ts0 : list ptask.
  Variable E0 : list edge.
  Variable d0 : list N.
  Variable s0 : sorter.
  Hypothesis dag0 : pdagf ts0 = DagOk E0 d0.
  Hypothesis sorter0 : from_dag (pids ts0) E0 (pprio ts0) = Some s0.

  Record PI (b : pbstate) (h : list N) : Prop := {
    pi_reach : reachable s0 (pb_sorter b) h;
    pi_proc : processing (pb_sorter b) = [];
    pi_fin : forall x, In x (finished (pb_sorter b)) <-> In x h;
    pi_covers : covers (pb_sorter b);
    pi_gnodes : forall x, In x (gnodes (pb_sorter b)) <-> In x (pids (pb_tasks b)) /\ ~ In x h;
    pi_gedges : gedges (pb_sorter b) = closure_edges (pids (pb_tasks b)) (pb_edges b);
    (* (the deselected tasks are those of all graphs so far: the skip marker stays on a task) *)
    pi_dag : exists d, pdagf (pb_tasks b) = DagOk (pb_edges b) d;
    pi_incl : incl ts0 (pb_tasks b);
    pi_rep_h : forall i o, In (i, o) (pb_reports b) -> In i h;
    pi_h_rep : forall i, In i h -> exists o, In (i, o) (pb_reports b);
    pi_h_tasks : forall i, In i h -> In i (pids (pb_tasks b));
    pi_log_h : forall e, In e (pb_log b) -> In (ev_task e) h;
    pi_log_nodup : NoDup (pb_log b);
    (* a handed-out task's declared producers have been handed out *)
    pi_feeds : forall u t, In u ts0 -> In t (pb_tasks b) -> feeds u t ->
               In (tid (base t)) h -> In (tid (base u)) h;
    pi_rep_order : forall l1 i o l2, pb_reports b = l1 ++ (i, o) :: l2 ->
               forall u t, In u ts0 -> In t (pb_tasks b) -> tid (base t) = i -> feeds u t ->
               In (tid (base u)) (map fst l2);
    pi_log_order : forall l1 i l2, pb_log b = l1 ++ Start i :: l2 ->
               forall u t, In u ts0 -> In t (pb_tasks b) -> tid (base t) = i -> feeds u t ->
               forall e, In e l1 -> ev_task e <> tid (base u)
  }.

  Definition pb0 (w : world) : pbstate := mkPB w [] [] [] 0 s0 ts0 E0 d0.

  Lemma PI_0 w : PI (pb0 w) [].
  Proof.
    destruct (from_dag_spec _ _ _ _ sorter0) as (G & GE & _ & [F1 F2] & _ & CV & _).
    constructor; simpl.
    - constructor.
    - exact F1.
    - rewrite F2. intros x; tauto.
    - exact CV.
    - rewrite G. intros x; tauto.
    - exact GE.
    - exists d0. exact dag0.
    - apply incl_refl.
    - intros i o [].
    - intros i [].
    - intros i [].
    - intros e [].
    - constructor.
    - intros u t _ _ _ [].
    - intros l1 i o l2 H. destruct l1; discriminate.
    - intros l1 i l2 H. destruct l1; discriminate.
  Qed.

  Lemma sorter0_fresh : fresh s0 /\ True.
  Proof. destruct (from_dag_spec _ _ _ _ sorter0) as (_ & _ & _ & F & _). auto. Qed.

  Lemma closure_edges_src ids E u v : In (u, v) (closure_edges ids E) -> In u ids.
  Proof. intros H. apply closure_edges_spec in H. tauto. Qed.

  Lemma rebuild_processing n e p old : processing (rebuild n e p old) = processing old.
  Proof. reflexivity. Qed.

  Lemma rebuild_finished n e p old : finished (rebuild n e p old) = finished old.
  Proof. unfold rebuild. simpl. apply app_nil_r. Qed.

  Lemma rebuild_gedges n e p old : gedges (rebuild n e p old) = e.
  Proof. reflexivity. Qed.

  Lemma pids_app a b : pids (a ++ b) = pids a ++ pids b.
  Proof. apply map_app. Qed.

  Lemma step_PI b h b' stop :
    PI b h -> pstepf b = Some (b', stop) -> exists i, ~ In i h /\ PI b' (h ++ [i]).
  Proof.
    intros L H. unfold pstep in H.
    destruct (pick (pb_sorter b) pref) as [i|] eqn:P; [|discriminate].
    destruct (find_ptask (pb_tasks b) i) as [t|] eqn:F; [|discriminate].
    destruct (find_ptask_spec _ _ _ F) as [Tin Ti].
    set (r := rpt c (pb_edges b) (pb_dyn b) (pb_desel b) (pb_world b) t (faults i)) in *.
    set (new := filter (fun k => negb (has_ptask (pb_tasks b) (tid (base k)))) (p_children r)) in *.
    pose proof (pick_valid _ _ _ P) as V.
    assert (Hready : In i (ready (pb_sorter b))).
    { destruct V as (_ & I & _). apply I. left; reflexivity. }
    apply ready_spec in Hready. destruct Hready as (Hg & _ & Hpred).
    destruct sorter0_fresh as [FR0 _].
    pose proof (inv_reachable s0 _ _ FR0 (pi_reach b h L)) as (NDh & HPF & HFG).
    assert (Hih : ~ In i h).
    { intros C0. destruct (HPF i C0) as [C1|C1].
      - rewrite (pi_proc b h L) in C1. destruct C1.
      - exact (HFG i C1 Hg). }
    exists i. split; [exact Hih|].
    (* the declared producers of the picked task have been handed out *)
    assert (ANC : forall u t', In u ts0 -> In t' (pb_tasks b) -> tid (base t') = i -> feeds u t' ->
                               In (tid (base u)) h).
    { intros u t' Hu Ht' Hi Hf.
      assert (R : Reach (pb_edges b) (tid (base u)) i).
      { rewrite <- Hi. destruct (pi_dag b h L) as [dd DD]. apply (feeds_reach (pb_tasks b) (pb_edges b) dd u t'); auto.
        apply (pi_incl b h L). exact Hu. }
      apply (pi_fin b h L).
      assert (Ed : In (tid (base u), i) (gedges (pb_sorter b))).
      { rewrite (pi_gedges b h L). apply closure_edges_spec. repeat split.
        - unfold pids. apply in_map_iff. exists u. split; auto. apply (pi_incl b h L). exact Hu.
        - unfold pids. apply in_map_iff. exists t'. split; auto.
        - apply reachb_iff. exact R. }
      destruct (pi_covers b h L _ _ Ed) as [G|Fi]; auto.
      exfalso. exact (Hpred _ Ed G). }
    assert (EVS : p_events r = [] \/ p_events r = [Start i; Finish i]).
    { subst r. rewrite <- Ti. apply ptask_events. }
    assert (NEWfresh : forall k, In k new -> ~ In (tid (base k)) (pids (pb_tasks b))).
    { intros k Hk. apply filter_In in Hk. destruct Hk as [_ Hk]. apply negb_true_iff in Hk.
      apply has_ptask_false. exact Hk. }
    (* facts shared by all branches: reports, log *)
    assert (REP_H : forall rs, (forall j o, In (j, o) rs -> j = i \/ In (j, o) (pb_reports b)) ->
                    forall j o, In (j, o) rs -> In j (h ++ [i])).
    { intros rs Hrs j o Hin. apply in_or_app. destruct (Hrs j o Hin) as [->|Hold].
      - right; left; reflexivity.
      - left. eapply (pi_rep_h b h L); eauto. }
    assert (LOG_H : forall e, In e (rev (p_events r) ++ pb_log b) -> In (ev_task e) (h ++ [i])).
    { intros e He. apply in_app_or in He. apply in_or_app. destruct He as [He|He].
      - right. apply in_rev in He. destruct EVS as [Q|Q]; rewrite Q in He; [destruct He|].
        destruct He as [<-|[<-|[]]]; left; reflexivity.
      - left. apply (pi_log_h b h L). exact He. }
    assert (LOG_ND : NoDup (rev (p_events r) ++ pb_log b)).
    { destruct EVS as [Q|Q]; rewrite Q; simpl; [apply (pi_log_nodup b h L)|].
      constructor; [|constructor; [|apply (pi_log_nodup b h L)]].
      - intros [C0|C0]; [discriminate|]. apply (pi_log_h b h L) in C0. exact (Hih C0).
      - intros C0. apply (pi_log_h b h L) in C0. exact (Hih C0). }
    assert (LOG_ORD : forall tasks', (forall t', In t' tasks' -> tid (base t') <> i -> In (tid (base t')) h -> In t' (pb_tasks b)) ->
              (forall t', In t' tasks' -> tid (base t') = i -> In t' (pb_tasks b)) ->
              forall l1 j l2, rev (p_events r) ++ pb_log b = l1 ++ Start j :: l2 ->
              forall u t', In u ts0 -> In t' tasks' -> tid (base t') = j -> feeds u t' ->
              forall e, In e l1 -> ev_task e <> tid (base u)).
    { intros tasks' OLD1 OLD2 l1 j l2 Heq u t' Hu Ht' Hj Hf e He.
      assert (UI : forall t'', In t'' (pb_tasks b) -> tid (base t'') = i -> feeds u t'' -> tid (base u) <> i).
      { intros t'' A B C0 D. apply Hih. rewrite <- D. eapply ANC; eauto. }
      destruct EVS as [Q|Q]; rewrite Q in Heq; simpl in Heq.
      - assert (Jh : In j h).
        { apply (pi_log_h b h L (Start j)). rewrite Heq. apply in_or_app. right; left; reflexivity. }
        assert (Hne : j <> i) by (intros ->; exact (Hih Jh)).
        assert (Told : In t' (pb_tasks b)) by (apply OLD1; auto; rewrite Hj; auto).
        exact (pi_log_order b h L l1 j l2 Heq u t' Hu Told Hj Hf e He).
      - destruct l1 as [|e1 l1]; [discriminate|]. inversion Heq as [[H1 H2]]. subst e1.
        destruct l1 as [|e2 l1].
        + simpl in H2. inversion H2 as [[H3 H4]]. rewrite <- H3 in Hj. destruct He as [<-|[]]. simpl.
          intros D. exact (UI t' (OLD2 t' Ht' Hj) Hj Hf (eq_sym D)).
        + inversion H2 as [[H3 H4]]. subst e2.
          assert (Jh : In j h).
          { apply (pi_log_h b h L (Start j)). rewrite H4. apply in_or_app. right; left; reflexivity. }
          assert (Hne : j <> i) by (intros ->; exact (Hih Jh)).
          assert (Told : In t' (pb_tasks b)) by (apply OLD1; auto; rewrite Hj; auto).
          assert (Uh : In (tid (base u)) h).
          { eapply (pi_feeds b h L); eauto. rewrite Hj. exact Jh. }
          destruct He as [<-|[<-|He]]; simpl.
          * intros D. apply Hih. rewrite D. exact Uh.
          * intros D. apply Hih. rewrite D. exact Uh.
          * exact (pi_log_order b h L l1 j l2 H4 u t' Hu Told Hj Hf _ He). }
    assert (REP_ORD1 : forall o1 l1 j o l2, (i, o1) :: pb_reports b = l1 ++ (j, o) :: l2 ->
              forall u t', In u ts0 -> In t' (pb_tasks b) -> tid (base t') = j -> feeds u t' ->
              In (tid (base u)) (map fst l2)).
    { intros o1 l1 j o l2 Heq u t' Hu Ht' Hj Hf. destruct l1 as [|x l1]; simpl in Heq.
      - inversion Heq as [[A1 A2 A3]].
        destruct (pi_h_rep b h L _ (ANC u t' Hu Ht' (eq_trans Hj (eq_sym A1)) Hf)) as [o' Ho'].
        apply in_map_iff. exists (tid (base u), o'). auto.
      - inversion Heq as [[A1 A2]]. exact (pi_rep_order b h L l1 j o l2 A2 u t' Hu Ht' Hj Hf). }
    (* the sorter after take/done *)
    pose proof (advance_reachable s0 (pb_sorter b) h pref i (pi_reach b h L) P) as RA.
    fold (advance (pb_sorter b) i) in H.
    assert (FINA : forall x, In x (finished (advance (pb_sorter b) i)) <-> In x (h ++ [i])).
    { intros x. rewrite advance_finished. simpl. rewrite (pi_fin b h L x), in_app_iff. simpl. tauto. }
    assert (HT' : forall tasks', incl (pb_tasks b) tasks' -> forall j, In j (h ++ [i]) -> In j (pids tasks')).
    { intros tasks' Hinc j Hj. apply in_app_or in Hj.
      assert (In j (pids (pb_tasks b))).
      { destruct Hj as [Hj|[<-|[]]]; [apply (pi_h_tasks b h L); exact Hj|].
        unfold pids. apply in_map_iff. exists t. auto. }
      unfold pids in *. apply in_map_iff in H0. destruct H0 as [x [A B]].
      apply in_map_iff. exists x. auto. }
    assert (GNA : forall x, In x (gnodes (advance (pb_sorter b) i)) <-> In x (pids (pb_tasks b)) /\ ~ In x (h ++ [i])).
    { intros x. rewrite advance_gnodes, (pi_gnodes b h L x), in_app_iff. simpl. split.
      - intros [[A B] C0]. split; auto. intros [D|[D|[]]]; [auto|congruence].
      - intros [A B]. split; [split; auto|]. intros ->. apply B. right; left; reflexivity. }
    destruct new as [|n0 newr] eqn:NEW.
    - (* no new task: graph and task list unchanged *)
      rewrite app_nil_r in H. inversion H; subst b' stop; clear H.
      constructor; cbn [pb_world pb_dyn pb_reports pb_log pb_nfail pb_sorter pb_tasks pb_edges pb_desel].
      + exact RA.
      + apply advance_processing. apply (pi_proc b h L).
      + exact FINA.
      + apply covers_done, covers_take. apply (pi_covers b h L).
      + exact GNA.
      + rewrite advance_gedges. apply (pi_gedges b h L).
      + apply (pi_dag b h L).
      + apply (pi_incl b h L).
      + apply REP_H. intros j o [Q|Q]; [inversion Q; auto|auto].
      + intros j Hj. apply in_app_or in Hj. destruct Hj as [Hj|[<-|[]]].
        * destruct (pi_h_rep b h L j Hj) as [o Ho]. exists o. right; exact Ho.
        * exists (p_out r). left; reflexivity.
      + apply HT'. apply incl_refl.
      + exact LOG_H.
      + exact LOG_ND.
      + intros u t' Hu Ht' Hf Hin. apply in_or_app. left.
        apply in_app_or in Hin. destruct Hin as [Hin|[Hin|[]]].
        * eapply (pi_feeds b h L); eauto.
        * eapply ANC; eauto.
      + intros l1 j o l2 Heq u t' Hu Ht' Hj Hf. eapply REP_ORD1; eauto.
      + apply LOG_ORD; auto.
    - (* the project grew *)
      destruct (pdagf (pb_tasks b ++ n0 :: newr)) as [|E' d'] eqn:DG.
      + (* re-creating the DAG failed: the build stops *)
        inversion H; subst b' stop; clear H.
        constructor; cbn [pb_world pb_dyn pb_reports pb_log pb_nfail pb_sorter pb_tasks pb_edges pb_desel].
        * exact RA.
        * apply advance_processing. apply (pi_proc b h L).
        * exact FINA.
        * apply covers_done, covers_take. apply (pi_covers b h L).
        * exact GNA.
        * rewrite advance_gedges. apply (pi_gedges b h L).
        * apply (pi_dag b h L).
        * apply (pi_incl b h L).
        * apply REP_H. intros j o [Q|[Q|Q]]; [inversion Q; auto|inversion Q; auto|auto].
        * intros j Hj. apply in_app_or in Hj. destruct Hj as [Hj|[<-|[]]].
          -- destruct (pi_h_rep b h L j Hj) as [o Ho]. exists o. right; right; exact Ho.
          -- exists OFail. left; reflexivity.
        * apply HT'. apply incl_refl.
        * exact LOG_H.
        * exact LOG_ND.
        * intros u t' Hu Ht' Hf Hin. apply in_or_app. left.
          apply in_app_or in Hin. destruct Hin as [Hin|[Hin|[]]].
          -- eapply (pi_feeds b h L); eauto.
          -- eapply ANC; eauto.
        * intros l1 j o l2 Heq u t' Hu Ht' Hj Hf.
          destruct l1 as [|x l1]; simpl in Heq.
          -- inversion Heq as [[A1 A2 A3]]. simpl. right.
             destruct (pi_h_rep b h L _ (ANC u t' Hu Ht' (eq_trans Hj (eq_sym A1)) Hf)) as [o' Ho'].
             apply in_map_iff. exists (tid (base u), o'). auto.
          -- inversion Heq as [[A1 A2]]. eapply REP_ORD1; eauto.
        * apply LOG_ORD; auto.
      + inversion H; subst b' stop; clear H.
        set (ts' := pb_tasks b ++ n0 :: newr) in *.
        assert (INC : incl (pb_tasks b) ts') by (intros x Hx; apply in_or_app; left; exact Hx).
        assert (NEWID : forall t', In t' ts' -> In (tid (base t')) (h ++ [i]) -> In t' (pb_tasks b)).
        { intros t' Ht' Hh. apply in_app_or in Ht'. destruct Ht' as [Ht'|Ht']; auto.
          exfalso. apply (NEWfresh t' Ht'). apply (HT' (pb_tasks b) (incl_refl _)). exact Hh. }
        constructor; cbn [pb_world pb_dyn pb_reports pb_log pb_nfail pb_sorter pb_tasks pb_edges pb_desel].
        * assert (Q : reachable s0 (apply_op (advance (pb_sorter b) i) (ORebuild (map (fun t0 => tid (base t0)) ts') (closure_edges (map (fun t0 => tid (base t0)) ts') E') (map (fun t0 => (tid (base t0), tprio (base t0))) ts')))
                                ((h ++ [i]) ++ batch_of (ORebuild (map (fun t0 => tid (base t0)) ts') (closure_edges (map (fun t0 => tid (base t0)) ts') E') (map (fun t0 => (tid (base t0), tprio (base t0))) ts')))).
          { apply reachS; [exact RA|exact I]. }
          simpl in Q. rewrite app_nil_r in Q. exact Q.
        * rewrite rebuild_processing. apply advance_processing. apply (pi_proc b h L).
        * intros x. rewrite rebuild_finished. apply FINA.
        * apply covers_rebuild. intros u v. apply closure_edges_src.
        * intros x. unfold rebuild. cbn [gnodes done]. rewrite remove_all_In.
          rewrite (FINA x). reflexivity.
        * reflexivity.
        * exists d'. exact DG.
        * intros x Hx. apply INC. apply (pi_incl b h L). exact Hx.
        * apply REP_H. intros j o [Q|Q]; [inversion Q; auto|auto].
        * intros j Hj. apply in_app_or in Hj. destruct Hj as [Hj|[<-|[]]].
          -- destruct (pi_h_rep b h L j Hj) as [o Ho]. exists o. right; exact Ho.
          -- exists (p_out r). left; reflexivity.
        * apply HT'. exact INC.
        * exact LOG_H.
        * exact LOG_ND.
        * intros u t' Hu Ht' Hf Hin. apply in_or_app. left.
          pose proof (NEWID t' Ht' Hin) as Told.
          apply in_app_or in Hin. destruct Hin as [Hin|[Hin|[]]].
          -- eapply (pi_feeds b h L); eauto.
          -- eapply ANC; eauto.
        * intros l1 j o l2 Heq u t' Hu Ht' Hj Hf.
          assert (Told : In t' (pb_tasks b)).
          { apply NEWID; auto. rewrite Hj. eapply REP_H with (rs := (i, p_out r) :: pb_reports b).
            - intros j' o' [Q|Q]; [inversion Q; auto|auto].
            - rewrite Heq. apply in_or_app. right; left; reflexivity. }
          eapply REP_ORD1; eauto.
        * apply LOG_ORD.
          -- intros t' Ht' Hne Hh. apply NEWID; auto. apply in_or_app. left; exact Hh.
          -- intros t' Ht' Hi. apply NEWID; auto. apply in_or_app. right; left; auto.
  Qed.

  (* C01/C18: whenever a task is handed out, every task of the project AS IT IS THEN - declared, or
     generated earlier in this build - that declares something it reads has been handed out (and, the
     loop being sequential, has finished) *)
  Lemma pick_after_current_producers b h i :
    PI b h -> pick (pb_sorter b) pref = Some i ->
    forall u t, In u (pb_tasks b) -> In t (pb_tasks b) -> tid (base t) = i -> feeds u t ->
    In (tid (base u)) h.
  Proof.
    intros L P u t Hu Ht Hi Hf.
    pose proof (pick_valid _ _ _ P) as V.
    assert (Hready : In i (ready (pb_sorter b))).
    { destruct V as (_ & I & _). apply I. left; reflexivity. }
    apply ready_spec in Hready. destruct Hready as (Hg & _ & Hpred).
    assert (R : Reach (pb_edges b) (tid (base u)) i).
    { rewrite <- Hi. destruct (pi_dag b h L) as [dd DD]. apply (feeds_reach (pb_tasks b) (pb_edges b) dd u t); auto. }
    apply (pi_fin b h L).
    assert (Ed : In (tid (base u), i) (gedges (pb_sorter b))).
    { rewrite (pi_gedges b h L). apply closure_edges_spec. repeat split.
      - unfold pids. apply in_map_iff. exists u. split; auto.
      - unfold pids. apply in_map_iff. exists t. split; auto.
      - apply reachb_iff. exact R. }
    destruct (pi_covers b h L _ _ Ed) as [G|Fi]; auto.
    exfalso. exact (Hpred _ Ed G).
  Qed.

  Lemma loop_PI fuel : forall b h, PI b h -> exists h', PI (ploopf fuel b) h'.
  Proof.
    induction fuel as [|f IH]; intros b h L; simpl; [eauto|].
    destruct (is_active (pb_sorter b)); [|eauto].
    destruct (pstepf b) as [[b' [|]]|] eqn:S; [| |eauto].
    - destruct (step_PI _ _ _ _ L S) as [i [_ L']]. eauto.
    - destruct (step_PI _ _ _ _ L S) as [i [_ L']]. eapply IH; eauto.
  Qed.
  (* the loop never gets stuck: while tasks remain, one can be handed out *)
  Lemma pstep_some b h : PI b h -> is_active (pb_sorter b) = true -> exists b' st, pstepf b = Some (b', st).
  Proof.
    intros L A.
    assert (NE : gnodes (pb_sorter b) <> []).
    { unfold is_active in A. destruct (gnodes (pb_sorter b)); [discriminate|discriminate]. }
    assert (AC : acyclic (pb_edges b)).
    { destruct (pi_dag b h L) as [dd D]. unfold pdag in D.
      destruct (create_dag_ok is_word lower c _ _ _ D) as (_ & _ & AE & _ & _ & HC).
      exact (has_cycle_false_acyclic _ HC). }
    assert (SO : strict_order (gedges (pb_sorter b))).
    { rewrite (pi_gedges b h L). eapply closure_strict_order; [apply closure_edges_closure_spec|exact AC]. }
    pose proof (no_deadlock _ SO NE (pi_proc b h L)) as R.
    destruct (pick_some _ pref R) as [i P].
    assert (Hi : In i (pids (pb_tasks b))).
    { pose proof (pick_valid _ _ _ P) as (_ & I & _).
      assert (Hr : In i (ready (pb_sorter b))) by (apply I; left; reflexivity).
      apply ready_spec in Hr. destruct Hr as [Hr _]. apply (pi_gnodes b h L) in Hr. tauto. }
    assert (F : exists t, find_ptask (pb_tasks b) i = Some t).
    { unfold pids in Hi. apply in_map_iff in Hi. destruct Hi as [t [Ht Hin]].
      unfold find_ptask. destruct (find (fun t0 => N.eqb (tid (base t0)) i) (pb_tasks b)) as [t'|] eqn:Fd; [eauto|].
      pose proof (find_none _ _ Fd t Hin) as Q. simpl in Q. rewrite Ht, N.eqb_refl in Q. discriminate. }
    destruct F as [t F]. unfold pstep. rewrite P, F.
    destruct (filter _ (p_children _)) as [|n0 newr]; cbv beta iota zeta; [do 2 eexists; reflexivity|].
    destruct (pdag is_word lower c (pb_tasks b ++ n0 :: newr)) as [|E' d']; cbv beta iota zeta; do 2 eexists; reflexivity.
  Qed.

  (* when nothing is left in the scheduler every task of the (grown) project has a report *)
  Lemma all_reported b h :
    PI b h -> gnodes (pb_sorter b) = [] ->
    forall t, In t (pb_tasks b) -> exists o, In (tid (base t), o) (pb_reports b).
  Proof.
    intros L G t Ht. apply (pi_h_rep b h L).
    destruct (in_dec N.eq_dec (tid (base t)) h) as [D|D]; auto.
    exfalso. assert (In (tid (base t)) (gnodes (pb_sorter b))).
    { apply (pi_gnodes b h L). split; auto. unfold pids. apply in_map_iff. exists t. auto. }
    rewrite G in H. exact H.
  Qed.

  (* the tasks a generator created join the project in the same step *)
  Lemma children_join b b' i t :
    pick (pb_sorter b) pref = Some i -> find_ptask (pb_tasks b) i = Some t ->
    pstepf b = Some (b', false) ->
    forall k, In k (p_children (rpt c (pb_edges b) (pb_dyn b) (pb_desel b) (pb_world b) t (faults i))) ->
    In (tid (base k)) (pids (pb_tasks b')).
  Proof.
    intros P F H k Hk. unfold pstep in H. rewrite P, F in H.
    set (r := rpt c (pb_edges b) (pb_dyn b) (pb_desel b) (pb_world b) t (faults i)) in *.
    assert (CASE : In (tid (base k)) (pids (pb_tasks b)) \/
                   In k (filter (fun k0 => negb (has_ptask (pb_tasks b) (tid (base k0)))) (p_children r))).
    { destruct (has_ptask (pb_tasks b) (tid (base k))) eqn:HP.
      - left. unfold has_ptask in HP. destruct (find_ptask (pb_tasks b) (tid (base k))) as [t'|] eqn:F'; [|discriminate].
        destruct (find_ptask_spec _ _ _ F') as [A B]. unfold pids. apply in_map_iff. exists t'. auto.
      - right. apply filter_In. split; auto. rewrite HP. reflexivity. }
    destruct (filter _ (p_children r)) as [|n0 newr] eqn:NEW; cbv beta iota zeta in H.
    - inversion H; subst b'. cbn [pb_tasks]. rewrite app_nil_r. destruct CASE as [C0|[]]. exact C0.
    - destruct (pdag is_word lower c (pb_tasks b ++ n0 :: newr)) as [|E' d'] eqn:DG; cbv beta iota zeta in H; [inversion H|].
      inversion H; subst b'. cbn [pb_tasks]. rewrite pids_app. apply in_or_app.
      destruct CASE as [C0|C0]; [left; exact C0|right]. unfold pids. apply in_map_iff. exists k. auto.
  Qed.
End L.
