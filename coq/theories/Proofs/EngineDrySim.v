(* C10, over-approximation: the dry run and the real build that follows it (same project, same
   options except the dry-run flag, no failure limit) are run in lockstep from the same world.
   Invariant: the real world differs from the dry world only below tasks the dry run has
   announced; a task whose function the real build starts has been announced. *)
From Verif Require Import Base.Prelude Base.Graph Model.Sorter Model.Expr Model.Engine.
From Verif Require Import Proofs.GraphProofs Proofs.SorterProofs Proofs.EngineTask Proofs.EngineLoop
  Proofs.EngineDag Proofs.EngineBuild Proofs.EngineHistory Proofs.EngineQuiet Proofs.EngineDry.

Section PerTask.
  Variable body : N -> N -> list N -> N -> N.

  Lemma persist_fires_ext E w wr t : same_view E w wr t -> persist_fires E wr t = persist_fires E w t.
  Proof.
    intros V. unfold persist_fires. rewrite (all_exist_ext E w wr t V), (any_changed_ext E w wr t V). reflexivity.
  Qed.

  Lemma verdict_ext c cd E w wr t : force cd = force c -> same_view E w wr t -> verdict cd E w t = verdict c E wr t.
  Proof.
    intros FE V. unfold verdict. rewrite FE, (preds_exist_ext E w wr t V). destruct (negb (preds_exist E w t)); auto.
    destruct (force c); auto. symmetry. apply check_loop_ext.
    intros k Hk. apply V. exact Hk.
  Qed.

  (* the outcome is SKIP exactly when a skip marker / deselection / true skipif applies *)
  Lemma skip_iff c E dyn desel w t f :
    r_out (run_task body c E dyn desel w t f) = OSkip <->
    skipflag t dyn desel = true \/ existsb (fun b => b) (m_skipif t) = true.
  Proof.
    split.
    - pose proof (run_task_spec body c E dyn desel w t f) as SP.
      remember (run_task body c E dyn desel w t f) as r eqn:Er. clear Er.
      destruct SP; simpl; intros; try discriminate; auto.
    - intros H. rewrite (skip_spec body c E dyn desel w t f H). reflexivity.
  Qed.

  (* a real build (no dry-run flag, no would-be-executed marks) never reports "would be executed" *)
  Lemma real_never_would c E dyn desel w t f :
    dry_run c = false -> has_dyn MWould (tid t) dyn = false ->
    r_out (run_task body c E dyn desel w t f) <> OWould.
  Proof.
    intros ND NW. pose proof (run_task_spec body c E dyn desel w t f) as SP.
    remember (run_task body c E dyn desel w t f) as r eqn:Er. clear Er.
    destruct SP; simpl; try discriminate; congruence.
  Qed.

  (* files change only when the function was started *)
  Lemma no_events_no_files c E dyn desel w t f :
    r_events (run_task body c E dyn desel w t f) = [] -> fs (r_world (run_task body c E dyn desel w t f)) = fs w.
  Proof.
    pose proof (run_task_spec body c E dyn desel w t f) as SP.
    remember (run_task body c E dyn desel w t f) as r eqn:Er. clear Er.
    destruct SP; simpl; intros; try discriminate; auto. destruct (dry_run c); auto.
  Qed.

  (* a failure of the dry run (a needed node is missing) is a failure of the real build too,
     unless an ancestor has failed there *)
  Lemma dry_fail_real c cd E dyn_d dyn_r desel w wr t f :
    dry_run c = false -> dry_run cd = true -> force cd = force c ->
    skipflag t dyn_d desel = skipflag t dyn_r desel ->
    has_dyn MWould (tid t) dyn_r = false ->
    (has_dyn MWould (tid t) dyn_d = false -> same_view E w wr t) ->
    r_out (run_task body cd E dyn_d desel w t f) = OFail ->
    r_out (run_task body c E dyn_r desel wr t f) = OFail \/
    r_out (run_task body c E dyn_r desel wr t f) = OSkipPrevFailed.
  Proof.
    intros ND DD FE SK NWr V FD.
    pose proof (run_task_spec body cd E dyn_d desel w t f) as SD.
    remember (run_task body cd E dyn_d desel w t f) as rd eqn:Ed. clear Ed.
    assert (DRY : skipflag t dyn_d desel = false /\ existsb (fun b => b) (m_skipif t) = false /\
                  has_dyn MWould (tid t) dyn_d = false /\ persist_fires E w t = false /\
                  exists b, verdict cd E w t = inl b).
    { destruct SD; simpl in FD; try discriminate; try congruence. repeat split; eauto. }
    destruct DRY as (S1 & S2 & NWd & PF & b & VD).
    specialize (V NWd).
    pose proof (run_task_spec body c E dyn_r desel wr t f) as SR.
    remember (run_task body c E dyn_r desel wr t f) as rr eqn:Er. clear Er.
    rewrite SK in S1. rewrite <- (persist_fires_ext E w wr t V) in PF.
    rewrite (verdict_ext c cd E w wr t FE V) in VD.
    destruct SR; simpl; auto; congruence.
  Qed.

  (* a task whose function the real build starts was announced by the dry run *)
  Lemma dry_announces c cd E dyn_d dyn_r desel w wr t f :
    dry_run c = false -> dry_run cd = true -> force cd = force c ->
    skipflag t dyn_d desel = skipflag t dyn_r desel ->
    has_dyn MAncFailed (tid t) dyn_d = false ->
    (has_dyn MWould (tid t) dyn_d = false -> same_view E w wr t) ->
    r_events (run_task body c E dyn_r desel wr t f) <> [] ->
    r_out (run_task body cd E dyn_d desel w t f) = OWould.
  Proof.
    intros ND DD FE SK AF V EV.
    destruct (has_dyn MWould (tid t) dyn_d) eqn:NWd.
    - pose proof (run_task_spec body c E dyn_r desel wr t f) as SR.
      remember (run_task body c E dyn_r desel wr t f) as rr eqn:Er. clear Er.
      assert (REAL : skipflag t dyn_r desel = false /\ existsb (fun b => b) (m_skipif t) = false).
      { destruct SR; simpl in EV; try (exfalso; apply EV; reflexivity); auto. }
      destruct REAL as [S1 S2]. rewrite <- SK in S1.
      pose proof (run_task_spec body cd E dyn_d desel w t f) as SD.
      remember (run_task body cd E dyn_d desel w t f) as rd eqn:Ed. clear Ed.
      destruct SD; simpl; auto; congruence.
    - apply (dry_announces_local body c cd E dyn_d dyn_r desel w wr t f); auto.
  Qed.
End PerTask.

Lemma desc_spec ts E u d : In d (descending_tasks ts E u) <-> In d (task_ids ts) /\ Reach E u d.
Proof. unfold descending_tasks. rewrite filter_In, reachb_iff. tauto. Qed.

Section Sim.
  Variable is_word : N -> bool.
  Variable lower : list N -> list N.
  Variable body : N -> N -> list N -> N -> N.
  Variable c cd : config.
  Variable ts : list task.
  Variable E : list edge.
  Variable desel : list N.
  Variable faults : N -> fault.
  Variable pref : list N.
  Variable w : world.
  Variable s0 : sorter.
  Hypothesis ND : dry_run c = false.
  Hypothesis DD : dry_run cd = true.
  Hypothesis FE : force cd = force c.
  Hypothesis MF : max_fail c = None.
  Hypothesis MFd : max_fail cd = None.
  Hypothesis HD : create_dag is_word lower c ts = DagOk E desel.
  Hypothesis HF : from_dag (task_ids ts) E (map (fun t => (tid t, tprio t)) ts) = Some s0.
  Hypothesis NDup : NoDup (task_ids ts).
  Hypothesis IDS : forall t u, In t ts -> In u ts -> ~ In (tid t) (prods u) /\ ~ In (tid t) (deps u).

  Notation stepd := (step body cd ts E desel faults pref).
  Notation stepr := (step body c ts E desel faults pref).
  Notation LI := (LInv ts E desel s0 w).

  Record Sim (bd br : bstate) : Prop := {
    sm_ld : LI bd;
    sm_lr : LI br;
    sm_sorter : b_sorter bd = b_sorter br;
    sm_ids : map fst (b_reports bd) = map fst (b_reports br);
    sm_world : b_world bd = w;
    sm_would : forall i, In (Start i) (b_log br) -> In (i, OWould) (b_reports bd);
    sm_skip : forall i, has_dyn MSkip i (b_dyn bd) = has_dyn MSkip i (b_dyn br);
    sm_fail : forall i, has_dyn MAncFailed i (b_dyn bd) = true -> has_dyn MAncFailed i (b_dyn br) = true;
    sm_nowould : forall i, has_dyn MWould i (b_dyn br) = false;
    sm_files : forall k, lookup k (fs (b_world br)) <> lookup k (fs w) ->
               exists u, In u ts /\ In (Start (tid u)) (b_log br) /\ In k (prods u);
    sm_rows : forall t k, In t ts -> ~ In (tid t) (map fst (b_reports br)) ->
              dblookup (tid t) k (db (b_world br)) = dblookup (tid t) k (db w)
  }.

  Lemma option_N_dec (a b : option N) : {a = b} + {a <> b}.
  Proof. decide equality. apply N.eq_dec. Qed.

  (* an unreported task without a would-be-executed mark in the dry run sees the same world *)
  Lemma sim_same_view bd br t :
    Sim bd br -> In t ts -> ~ In (tid t) (map fst (b_reports br)) ->
    has_dyn MWould (tid t) (b_dyn bd) = false -> same_view E w (b_world br) t.
  Proof.
    intros S T NR NW k Hk. split; [|apply (sm_rows bd br S t k T NR)].
    destruct (N.eq_dec k (tid t)) as [->|Kne]; [rewrite !state_of_self; reflexivity|].
    rewrite !state_of_node by exact Kne.
    destruct (option_N_dec (lookup k (fs (b_world br))) (lookup k (fs w))) as [e|ne]; auto.
    exfalso. destruct (sm_files bd br S k ne) as [u [U [SU PU]]].
    (* u was executed, hence announced, hence all its descendants are marked in the dry run *)
    pose proof (sm_would bd br S (tid u) SU) as WU.
    assert (UR : In (tid u) (map fst (b_reports br))).
    { destruct (li_log_tasks _ _ _ _ _ _ (sm_lr bd br S) _ SU) as [o [A _]]. simpl in A.
      apply in_map_iff. exists (tid u, o). auto. }
    assert (MARK : Reach E (tid u) (tid t) -> False).
    { intros R. assert (D : In (tid t) (descending_tasks ts E (tid u))).
      { apply (desc_spec ts E). split; auto. unfold task_ids. apply in_map. exact T. }
      pose proof (li_marks _ _ _ _ _ _ (sm_ld bd br S) (tid u) OWould MWould (tid t) WU eq_refl D). congruence. }
    destruct (neighbour_cases is_word lower c ts E desel HD NDup IDS t k T Hk) as [->|[Hq|[Hq|[u' [U' [Pu' Ru']]]]]].
    - congruence.
    - (* k is a product of t and of u: u = t, but t is unreported *)
      destruct (N.eq_dec (tid u) (tid t)) as [e|ne2].
      + apply NR. rewrite <- e. exact UR.
      + assert (Dg : create_dag is_word lower c ts = DagErr).
        { apply (duplicate_product_rejected is_word lower c ts u t k); auto. }
        congruence.
    - apply MARK. apply (consumer_depends_on_producer is_word lower c ts E desel u t k); auto.
    - destruct (N.eq_dec (tid u') (tid u)) as [e|ne2].
      + apply MARK. rewrite <- e. exact Ru'.
      + assert (Dg : create_dag is_word lower c ts = DagErr).
        { apply (duplicate_product_rejected is_word lower c ts u' u k); auto. }
        congruence.
  Qed.

  Lemma has_dyn_mark_desc m m' i ds dyn :
    has_dyn m i (mark_desc m' ds dyn) = (dm_eqb m' m && memN i ds) || has_dyn m i dyn.
  Proof. unfold mark_desc. rewrite has_dyn_app, has_dyn_mark. reflexivity. Qed.

  Definition dyn_after (o : outcome) (desc : list N) (dyn : list (N * dynmark)) : list (N * dynmark) :=
    match o with
    | OSkip => mark_desc MSkip desc dyn
    | OWould => mark_desc MWould desc dyn
    | OFail => mark_desc MAncFailed desc dyn
    | _ => dyn
    end.

  Lemma has_dyn_after m i o desc dyn :
    has_dyn m i (dyn_after o desc dyn) =
    (match mark_of o with Some m' => dm_eqb m' m && memN i desc | None => false end) || has_dyn m i dyn.
  Proof.
    destruct o; simpl; try reflexivity; apply has_dyn_mark_desc.
  Qed.

  Lemma step_shape cc b b' st :
    step body cc ts E desel faults pref b = Some (b', st) ->
    exists i t, pick (b_sorter b) pref = Some i /\ find_task ts i = Some t /\ tid t = i /\ In t ts /\
      let r := run_task body cc E (b_dyn b) desel (b_world b) t (faults i) in
      b' = mkB (r_world r) (dyn_after (r_out r) (descending_tasks ts E i) (b_dyn b))
               ((i, r_out r) :: b_reports b) (rev (r_events r) ++ b_log b)
               (match r_out r with OFail => S (b_nfail b) | _ => b_nfail b end)
               (done (take (b_sorter b) [i]) [i]).
  Proof.
    unfold step. intros H.
    destruct (pick (b_sorter b) pref) as [i|]; [|discriminate].
    destruct (find_task ts i) as [t|] eqn:F; [|discriminate].
    destruct (find_task_spec ts i t F) as [Ti Tin].
    exists i, t. repeat split; auto. injection H as Hb Hs. rewrite <- Hb. unfold dyn_after.
    destruct (r_out (run_task body cc E (b_dyn b) desel (b_world b) t (faults i))); reflexivity.
  Qed.

  Lemma Sim_step bd br bd' br' sd sr :
    Sim bd br -> stepd bd = Some (bd', sd) -> stepr br = Some (br', sr) -> Sim bd' br'.
  Proof.
    intros S Hd Hr.
    pose proof (step_inv body cd ts E desel faults pref s0 w HF NDup bd bd' sd (sm_ld bd br S) Hd) as Ld'.
    pose proof (step_inv body c ts E desel faults pref s0 w HF NDup br br' sr (sm_lr bd br S) Hr) as Lr'.
    destruct (step_shape cd bd bd' sd Hd) as (i & t & P & F & Ti & Tin & Ed).
    destruct (step_shape c br br' sr Hr) as (i' & t' & P' & F' & Ti' & Tin' & Er).
    rewrite (sm_sorter bd br S) in P.
    assert (Ei : i' = i) by congruence. clear Ti'. subst i'.
    assert (Et : t' = t) by congruence. subst t'.
    clear P' F' Tin'.
    rewrite (sm_world bd br S) in Ed. cbv zeta in Ed, Er.
    set (rd := run_task body cd E (b_dyn bd) desel w t (faults i)) in *.
    set (rr := run_task body c E (b_dyn br) desel (b_world br) t (faults i)) in *.
    (* the picked task is unreported *)
    assert (Hnr : ~ In i (map fst (b_reports br))).
    { pose proof (pick_valid _ _ _ P) as V. destruct V as (_ & I & _).
      assert (Hr0 : In i (ready (b_sorter br))) by (apply I; left; reflexivity).
      apply ready_spec in Hr0. destruct Hr0 as [Hg _]. apply (li_gnodes _ _ _ _ _ _ (sm_lr bd br S)) in Hg. tauto. }
    assert (SK : skipflag t (b_dyn bd) desel = skipflag t (b_dyn br) desel).
    { unfold skipflag. rewrite (sm_skip bd br S). reflexivity. }
    assert (NWr : has_dyn MWould (tid t) (b_dyn br) = false) by apply (sm_nowould bd br S).
    assert (VW : has_dyn MWould (tid t) (b_dyn bd) = false -> same_view E w (b_world br) t).
    { intros NW. apply (sim_same_view bd br t S Tin); auto. rewrite Ti. exact Hnr. }
    assert (SKIP : r_out rd = OSkip <-> r_out rr = OSkip).
    { unfold rd, rr. rewrite !skip_iff. rewrite SK. tauto. }
    assert (NOW : r_out rr <> OWould) by (apply real_never_would; auto).
    subst bd' br'. constructor; cbn [b_world b_dyn b_reports b_log b_sorter].
    - exact Ld'.
    - exact Lr'.
    - rewrite (sm_sorter bd br S). reflexivity.
    - simpl. rewrite (sm_ids bd br S). reflexivity.
    - apply dry_run_world. exact DD.
    - (* would *)
      intros j Hj. apply in_app_or in Hj. destruct Hj as [Hj|Hj].
      + left. apply in_rev in Hj.
        destruct (events_shape body c E (b_dyn br) desel (b_world br) t (faults i)) as [Z|Z]; fold rr in Z; rewrite Z in Hj.
        * destruct Hj.
        * destruct Hj as [Hj|[Hj|[]]]; [|discriminate]. inversion Hj; subst j.
          assert (Q : r_out rd = OWould).
          { unfold rd.
            apply (dry_announces body c cd E (b_dyn bd) (b_dyn br) desel w (b_world br) t (faults i)); auto.
            - (* no failed ancestor in the dry run: otherwise the real build would not have started it *)
              destruct (has_dyn MAncFailed (tid t) (b_dyn bd)) eqn:AF; auto.
              apply (sm_fail bd br S) in AF.
              pose proof (run_task_spec body c E (b_dyn br) desel (b_world br) t (faults i)) as SR.
              fold rr in SR. destruct SR; simpl in Z; try discriminate; congruence.
            - fold rr. rewrite Z. discriminate. }
          rewrite Q. rewrite ?Ti. reflexivity.
      + right. apply (sm_would bd br S). exact Hj.
    - (* skip marks *)
      intros j. rewrite !has_dyn_after.
      assert (Q : (match mark_of (r_out rd) with Some m' => dm_eqb m' MSkip && memN j (descending_tasks ts E i) | None => false end) =
                  (match mark_of (r_out rr) with Some m' => dm_eqb m' MSkip && memN j (descending_tasks ts E i) | None => false end)).
      { destruct (r_out rd) eqn:Od; destruct (r_out rr) eqn:Or; simpl; auto;
          try (exfalso; destruct SKIP as [A B]; try (specialize (A eq_refl); discriminate); try (specialize (B eq_refl); discriminate)). }
      rewrite Q, (sm_skip bd br S). reflexivity.
    - (* failure marks *)
      intros j. rewrite !has_dyn_after. intros H. apply orb_true_iff in H. apply orb_true_iff.
      destruct H as [H|H]; [|right; apply (sm_fail bd br S); exact H].
      destruct (r_out rd) eqn:Od; simpl in H; try discriminate.
      apply memN_In in H.
      destruct (dry_fail_real body c cd E (b_dyn bd) (b_dyn br) desel w (b_world br) t (faults i) ND DD FE SK NWr VW Od) as [Or|Or];
        fold rr in Or; rewrite Or; simpl.
      + left. apply memN_In. exact H.
      + right.
        (* the real build skipped it because an ancestor failed: that ancestor marks j as well *)
        assert (AFr : has_dyn MAncFailed (tid t) (b_dyn br) = true).
        { pose proof (run_task_spec body c E (b_dyn br) desel (b_world br) t (faults i)) as SR.
          fold rr in SR. destruct SR; simpl in Or; try discriminate; auto. }
        destruct (li_marks_conv _ _ _ _ _ _ (sm_lr bd br S) MAncFailed (tid t) AFr) as (a & oa & Ia & Ma & Da).
        apply (li_marks _ _ _ _ _ _ (sm_lr bd br S) a oa MAncFailed j Ia Ma).
        apply (desc_spec ts E) in Da. apply (desc_spec ts E) in H. apply (desc_spec ts E).
        destruct Da as [_ Ra]. destruct H as [Hj Rj]. split; auto. rewrite Ti in Ra. eapply Reach_trans; eauto.
    - (* the real build has no would-be-executed marks *)
      intros j. rewrite has_dyn_after.
      destruct (r_out rr) eqn:Or; simpl; try apply (sm_nowould bd br S). congruence.
    - (* files *)
      intros k Hk.
      destruct (option_N_dec (lookup k (fs (r_world rr))) (lookup k (fs (b_world br)))) as [e|ne].
      + rewrite e in Hk. destruct (sm_files bd br S k Hk) as [u [U [SU PU]]]. exists u. repeat split; auto.
        apply in_or_app. right. exact SU.
      + exists t. split; auto. split.
        * apply in_or_app. left. apply -> in_rev.
          destruct (events_shape body c E (b_dyn br) desel (b_world br) t (faults i)) as [Z|Z]; fold rr in Z.
          -- exfalso. apply ne.
             pose proof (no_events_no_files body c E (b_dyn br) desel (b_world br) t (faults i) Z) as Q.
             fold rr in Q. rewrite Q. reflexivity.
          -- rewrite Z. simpl. rewrite ?Ti. auto.
        * destruct (in_dec N.eq_dec k (prods t)) as [I|I]; auto.
          exfalso. apply ne. unfold rr. apply task_footprint. exact I.
    - (* rows *)
      intros t' k T' NR'. simpl in NR'.
      assert (Tne : tid t' <> tid t). { intros e. apply NR'. left. congruence. }
      unfold rr. rewrite other_rows_untouched by exact Tne.
      apply (sm_rows bd br S t' k T'). intros C0. apply NR'. right. exact C0.
  Qed.

  Lemma Sim_0 : Sim (mkB w [] [] [] 0 s0) (mkB w [] [] [] 0 s0).
  Proof.
    constructor; cbn [b_world b_dyn b_reports b_log b_sorter].
    - apply (LInv_b0 body ts E desel faults s0 w HF NDup).
    - apply (LInv_b0 body ts E desel faults s0 w HF NDup).
    - reflexivity.
    - reflexivity.
    - reflexivity.
    - intros i [].
    - intros i. reflexivity.
    - intros i H. discriminate.
    - intros i. reflexivity.
    - intros k H. congruence.
    - intros t k _ _. reflexivity.
  Qed.

  Lemma step_nostop cc b b' st : max_fail cc = None -> step body cc ts E desel faults pref b = Some (b', st) -> st = false.
  Proof.
    intros M H. unfold step in H.
    destruct (pick (b_sorter b) pref) as [i|]; [|discriminate].
    destruct (find_task ts i) as [t|]; [|discriminate].
    inversion H. rewrite M. destruct (r_out _); reflexivity.
  Qed.

  Lemma step_both bd br : Sim bd br ->
    (stepd bd = None /\ stepr br = None) \/ exists bd' br', stepd bd = Some (bd', false) /\ stepr br = Some (br', false).
  Proof.
    intros S. unfold step. rewrite (sm_sorter bd br S).
    destruct (pick (b_sorter br) pref) as [i|]; [|left; auto].
    destruct (find_task ts i) as [t|]; [|left; auto].
    right. rewrite MF, MFd. do 2 eexists. split.
    - f_equal. f_equal. destruct (r_out _); reflexivity.
    - f_equal. f_equal. destruct (r_out _); reflexivity.
  Qed.

  Lemma Sim_loop fuel : forall bd br, Sim bd br ->
    Sim (loop body fuel cd ts E desel faults pref bd) (loop body fuel c ts E desel faults pref br).
  Proof.
    induction fuel as [|f IH]; intros bd br S; simpl; auto.
    rewrite (sm_sorter bd br S). destruct (is_active (b_sorter br)); auto.
    destruct (step_both bd br S) as [[A B]|(bd' & br' & A & B)]; rewrite A, B; auto.
    apply IH. eapply Sim_step; eauto.
  Qed.
End Sim.

(* C10: every task whose function the real build starts was reported "would be executed" by the
   dry run of the same project with the same options from the same world - for every graph,
   selection, marker placement (skip, skipif, persist), force, schedule oracle and failing task
   functions; builds without a failure limit *)
Theorem dry_run_over_approximates is_word lower body c cd ts faults pref w E desel s0 :
  dry_run c = false -> dry_run cd = true -> force cd = force c ->
  max_fail c = None -> max_fail cd = None ->
  create_dag is_word lower c ts = DagOk E desel -> create_dag is_word lower cd ts = DagOk E desel ->
  from_dag (task_ids ts) E (map (fun t => (tid t, tprio t)) ts) = Some s0 ->
  NoDup (task_ids ts) ->
  (forall t u, In t ts -> In u ts -> ~ In (tid t) (prods u) /\ ~ In (tid t) (deps u)) ->
  forall i, In (Start i) (x_log (build is_word lower body c ts faults pref w)) ->
            In (i, OWould) (x_reports (build is_word lower body cd ts faults pref w)).
Proof.
  intros ND DD FE MF MFd HD HDd HF NDup IDS i Hi.
  pose proof (build_shape_of is_word lower body c ts faults pref w) as BR.
  pose proof (build_shape_of is_word lower body cd ts faults pref w) as BD.
  destruct BR as [D|E1 d1 D F1|E1 d1 s1 b1 D F1 Hb1].
  - congruence.
  - cbn [x_log] in Hi. destruct Hi.
  - rewrite HD in D. inversion D; subst E1 d1. unfold prio_list in F1. rewrite HF in F1. inversion F1; subst s1.
    destruct BD as [D2|E2 d2 D2 F2|E2 d2 s2 b2 D2 F2 Hb2].
    + congruence.
    + rewrite HDd in D2. inversion D2; subst E2 d2. unfold prio_list in F2. congruence.
    + rewrite HDd in D2. inversion D2; subst E2 d2. unfold prio_list in F2. rewrite HF in F2. inversion F2; subst s2.
      cbn [x_reports x_log] in *. subst b1 b2.
      pose proof (Sim_loop is_word lower body c cd ts E desel faults pref w s0 ND DD FE MF MFd HD HF NDup IDS (length ts) _ _
                    (Sim_0 body ts E desel faults w s0 HF NDup)) as S.
      apply -> in_rev. apply (sm_would _ _ _ _ _ _ _ S). apply in_rev. exact Hi.
Qed.
