(* `pytask clean` only ever lists (and in force mode removes) unknown, non-excluded paths. *)
From Verif Require Import Base.Prelude Model.Clean.

Section Ind.
  Variable P : ftree -> Prop.
  Hypothesis HF : forall n, P (File n).
  Hypothesis HD : forall n cs, Forall P cs -> P (Dir n cs).
  Fixpoint ftree_ind' (t : ftree) : P t :=
    match t with
    | File n => HF n
    | Dir n cs => HD n cs ((fix go (l : list ftree) : Forall P l :=
                              match l with
                              | [] => Forall_nil P
                              | x :: r => Forall_cons x (ftree_ind' x) (go r)
                              end) cs)
    end.
End Ind.

Definition is_dir (t : ftree) : bool := match t with Dir _ _ => true | File _ => false end.

(* t' sits at parent path p' inside t (which sits at parent path p) *)
Inductive Sub : path -> ftree -> path -> ftree -> Prop :=
| Sub_refl p t : Sub p t p t
| Sub_child p n cs c p' t' : In c cs -> Sub (p ++ [n]) c p' t' -> Sub p (Dir n cs) p' t'.

(* ... and no directory strictly above t' on the way down from t is excluded *)
Inductive SubOpen (excl : path -> bool) : path -> ftree -> path -> ftree -> Prop :=
| SO_refl p t : SubOpen excl p t p t
| SO_child p n cs c p' t' : excl (p ++ [n]) = false -> In c cs ->
                            SubOpen excl (p ++ [n]) c p' t' -> SubOpen excl p (Dir n cs) p' t'.

Section C.
  Variable known : path -> bool.
  Variable excl : path -> bool.
  Notation unk := (unknown known excl).
  Notation lst := (listing known excl).

  (* the listing as (parent path, subtree) pairs *)
  Fixpoint listing_sub (dirs : bool) (p : path) (t : ftree) : list (path * ftree) :=
    match t with
    | File n => if unk p t then [(p, t)] else []
    | Dir n cs =>
      if unk p t && dirs then [(p, t)]
      else if excl (p ++ [n]) then []
      else flat_map (listing_sub dirs (p ++ [n])) cs
    end.

  Lemma listing_is_sub dirs t : forall p,
    lst dirs p t = map (fun pt => (fst pt ++ [tname (snd pt)], is_dir (snd pt))) (listing_sub dirs p t).
  Proof.
    induction t as [n|n cs IH] using ftree_ind'; intros p.
    - simpl. destruct (negb _); reflexivity.
    - cbn [listing listing_sub]. destruct (unk p (Dir n cs) && dirs); [reflexivity|].
      destruct (excl (p ++ [n])); [reflexivity|].
      induction cs as [|c cs IHc]; simpl; auto.
      inversion IH; subst. rewrite map_app. f_equal; auto.
  Qed.

  (* an unknown subtree contains nothing excluded and no known file *)
  Theorem unknown_all t : forall p,
    unk p t = true ->
    forall r d, In (r, d) (all_paths p t) -> excl r = false /\ (d = false -> known r = false).
  Proof.
    induction t as [n|n cs IH] using ftree_ind'; intros p U r d Hin.
    - simpl in *. destruct Hin as [Hin|[]]. inversion Hin; subst.
      apply negb_true_iff, orb_false_iff in U. tauto.
    - cbn [unknown] in U. apply andb_true_iff in U. destruct U as [U1 U2].
      apply negb_true_iff in U1. cbn [all_paths] in Hin. destruct Hin as [Hin|Hin].
      + inversion Hin; subst. split; auto. discriminate.
      + apply in_flat_map in Hin. destruct Hin as [c [Hc Hr]].
        rewrite Forall_forall in IH. rewrite forallb_forall in U2. eapply IH; eauto.
  Qed.

  (* C11: whatever is listed is an unknown subtree of the given path, reached without
     descending into an excluded directory; directories only with --directories *)
  Theorem listed_spec dirs t : forall p p' t',
    In (p', t') (listing_sub dirs p t) ->
    unk p' t' = true /\ SubOpen excl p t p' t' /\ (is_dir t' = true -> dirs = true).
  Proof.
    induction t as [n|n cs IH] using ftree_ind'; intros p p' t' Hin.
    - simpl in Hin. destruct (negb (known (p ++ [n]) || excl (p ++ [n]))) eqn:U; [|destruct Hin].
      destruct Hin as [Hin|[]]. inversion Hin; subst. simpl. rewrite U.
      repeat split; [constructor | discriminate].
    - cbn [listing_sub] in Hin. destruct (unk p (Dir n cs) && dirs) eqn:UD.
      + destruct Hin as [Hin|[]]. inversion Hin; subst.
        apply andb_true_iff in UD. destruct UD as [U D]. repeat split; auto. constructor.
      + destruct (excl (p ++ [n])) eqn:Ex; [destruct Hin|].
        apply in_flat_map in Hin. destruct Hin as [c [Hc Hin]].
        rewrite Forall_forall in IH. destruct (IH c Hc _ _ _ Hin) as (A & B & C0).
        repeat split; auto. eapply SO_child; eauto.
  Qed.

  (* so: every listed file is unknown and not excluded, and everything at or below a listed
     directory is not excluded and, if a file, not known *)
  Theorem listed_safe dirs p t p' t' :
    In (p', t') (listing_sub dirs p t) ->
    forall r d, In (r, d) (all_paths p' t') -> excl r = false /\ (d = false -> known r = false).
  Proof.
    intros Hin. destruct (listed_spec dirs t p p' t' Hin) as (U & _ & _).
    apply unknown_all. exact U.
  Qed.

  Lemma SubOpen_Sub p t p' t' : SubOpen excl p t p' t' -> Sub p t p' t'.
  Proof. induction 1; [constructor | econstructor; eauto]. Qed.

  (* anything outside the given paths is never listed: a listed subtree is a subtree *)
  Theorem listed_inside dirs p t p' t' :
    In (p', t') (listing_sub dirs p t) -> Sub p t p' t'.
  Proof. intros H. apply SubOpen_Sub. apply (listed_spec dirs t p p' t' H). Qed.

  Lemma Sub_all_paths p t p' t' :
    Sub p t p' t' -> forall x, In x (all_paths p' t') -> In x (all_paths p t).
  Proof.
    induction 1 as [|p n cs c p' t' Hc _ IH]; auto. intros x Hx.
    cbn [all_paths]. right. apply in_flat_map. exists c. auto.
  Qed.

  (* force mode keeps only paths that existed, and removes only listed subtrees: a path that
     disappears lies at or below a listed path *)
  Theorem force_removes_only_listed dirs t : forall p,
    match remove_listed known excl dirs p t with
    | None => In (p, t) (listing_sub dirs p t)
    | Some t2 =>
      forall x, In x (all_paths p t) ->
        In x (all_paths p t2) \/ exists p' t', In (p', t') (listing_sub dirs p t) /\ In x (all_paths p' t')
    end.
  Proof.
    induction t as [n|n cs IH] using ftree_ind'; intros p.
    - simpl. destruct (negb _); simpl; auto.
    - cbn [remove_listed listing_sub]. destruct (unk p (Dir n cs) && dirs); [left; reflexivity|].
      destruct (excl (p ++ [n])); [intros x Hx; left; exact Hx|].
      intros x Hx. cbn [all_paths] in *. destruct Hx as [Hx|Hx]; [left; left; exact Hx|].
      apply in_flat_map in Hx. destruct Hx as [c [Hc Hx]].
      rewrite Forall_forall in IH. specialize (IH c Hc (p ++ [n])).
      destruct (remove_listed known excl dirs (p ++ [n]) c) as [c2|] eqn:R.
      + destruct (IH x Hx) as [K|(p' & t' & L & K)].
        * left. right. apply in_flat_map. exists c2. split; auto.
          apply in_flat_map. exists c. rewrite R. split; auto. left; reflexivity.
        * right. exists p', t'. split; auto. apply in_flat_map. exists c. auto.
      + right. exists (p ++ [n]), c. split; auto. apply in_flat_map. exists c. auto.
  Qed.

  Theorem force_invents_nothing dirs t : forall p t2,
    remove_listed known excl dirs p t = Some t2 ->
    forall x, In x (all_paths p t2) -> In x (all_paths p t).
  Proof.
    induction t as [n|n cs IH] using ftree_ind'; intros p t2 R x Hx.
    - simpl in R. destruct (negb _); inversion R; subst. exact Hx.
    - cbn [remove_listed] in R. destruct (unk p (Dir n cs) && dirs); [discriminate|].
      destruct (excl (p ++ [n])); [inversion R; subst; exact Hx|].
      inversion R; subst. cbn [all_paths] in *. destruct Hx as [Hx|Hx]; [left; exact Hx|right].
      apply in_flat_map in Hx. destruct Hx as [c2 [Hc2 Hx]].
      apply in_flat_map in Hc2. destruct Hc2 as [c [Hc Hc2]].
      destruct (remove_listed known excl dirs (p ++ [n]) c) as [c3|] eqn:R3; [|destruct Hc2].
      destruct Hc2 as [<-|[]]. apply in_flat_map. exists c. split; auto.
      rewrite Forall_forall in IH. eapply IH; eauto.
  Qed.
End C.

(* dry-run mode removes nothing *)
Theorem dry_run_removes_nothing known excl dirs p t :
  snd (clean known excl DryRun dirs p t) = Some t.
Proof. reflexivity. Qed.

(* both modes print the same list *)
Theorem force_lists_what_dry_run_lists known excl dirs p t :
  fst (clean known excl Force dirs p t) = fst (clean known excl DryRun dirs p t).
Proof. reflexivity. Qed.

(* ---- the default patterns protect .pytask and .git when traversed from above *)
Definition s_pytask : comp := [46; 112; 121; 116; 97; 115; 107]%N.   (* .pytask *)
Definition s_git : comp := [46; 103; 105; 116]%N.                     (* .git *)
Definition star : comp := [42]%N.

Lemma glob_star_any fuel s : (length s + 1 < fuel)%nat -> glob fuel [42%N] s = true.
Proof.
  revert s. induction fuel as [|f IH]; intros s L; [lia|].
  destruct s as [|c s]; simpl.
  - destruct f; [lia|]. reflexivity.
  - apply orb_true_iff. right. apply IH. simpl in L. lia.
Qed.

Lemma comp_match_star s : comp_match star s = true.
Proof. unfold comp_match, star. apply glob_star_any. simpl. lia. Qed.

Lemma glob_refl s : forall fuel, (length s < fuel)%nat ->
  forallb (fun c => negb (N.eqb c 42) && negb (N.eqb c 63)) s = true -> glob fuel s s = true.
Proof.
  induction s as [|c s IH]; intros fuel L H; destruct fuel as [|f]; try (simpl in L; lia); simpl; auto.
  simpl in H. apply andb_true_iff in H. destruct H as [Hc Hs].
  apply andb_true_iff in Hc. destruct Hc as [H1 H2]. apply negb_true_iff in H1.
  rewrite H1, N.eqb_refl, orb_true_r. simpl. apply IH; auto. simpl in L. lia.
Qed.

Definition literal (c : comp) : bool := forallb (fun x => negb (N.eqb x 42) && negb (N.eqb x 63)) c.

Lemma comp_match_refl c : literal c = true -> comp_match c c = true.
Proof. intros H. unfold comp_match. apply glob_refl; auto. lia. Qed.

Lemma comps_match_lit_app l : forall a b,
  forallb literal l = true -> comps_match (l ++ a) (l ++ b) = comps_match a b.
Proof.
  induction l as [|c l IH]; intros a b H; simpl; auto.
  simpl in H. apply andb_true_iff in H. destruct H as [Hc Hl].
  rewrite comp_match_refl by exact Hc. simpl. apply IH. exact Hl.
Qed.

(* the direct children of <root>/.pytask match the pattern "<root>/.pytask/*" *)
Theorem pytask_children_excluded root name pats :
  forallb literal root = true ->
  In (true, root ++ [s_pytask; star]) pats ->
  excluded pats (root ++ [s_pytask; name]) = true.
Proof.
  intros Lit Hin. unfold excluded. apply existsb_exists. exists (true, root ++ [s_pytask; star]).
  split; auto. cbn [fst snd path_match]. rewrite comps_match_lit_app by exact Lit.
  assert (E : comp_match s_pytask s_pytask = true) by (vm_compute; reflexivity).
  cbn [comps_match]. rewrite comp_match_star, E. reflexivity.
Qed.

(* any path with a component ".git" followed by one more component matches ".git/*" *)
Theorem git_children_excluded pre name pats :
  In (false, [s_git; star]) pats ->
  excluded pats (pre ++ [s_git; name]) = true.
Proof.
  intros Hin. unfold excluded. apply existsb_exists. exists (false, [s_git; star]). split; auto.
  assert (E : comp_match s_git s_git = true) by (vm_compute; reflexivity).
  cbn [fst snd path_match length]. rewrite app_length. cbn [length].
  replace (length pre + 2 - 2)%nat with (length pre) by lia.
  rewrite skipn_app, skipn_all, Nat.sub_diag. cbn [skipn app comps_match].
  rewrite comp_match_star, E.
  replace (Nat.leb 2 (length pre + 2)) with true by (symmetry; apply Nat.leb_le; lia). reflexivity.
Qed.
