(* Obligations tying the hook chains assumed by Model/Engine.v and Model/Capture.v to the
   plugin/hook table extracted from the sources: the call order is COMPUTED with pluggy's
   insertion algorithm (Base/Pluggy.v) from the extracted registration order and flags. *)
From Verif Require Import Base.Prelude Base.Pluggy Gen.HookFacts.

Definition names (h : nat) : list (list N) :=
  map (fun i => nth i x_plugins []) (nonwrapper_plugins (impls_of_hook x_hookimpls h)).
Definition wrapper_names (h : nat) : list (list N) :=
  map (fun i => nth (i_plugin i) x_plugins []) (filter i_wrapper (call_order (impls_of_hook x_hookimpls h))).

(* pytask_execute_task_setup: provisional, skipping, persist, execute - the order of the tests in
   Engine.run_task (skip marks before the persist hook before the change check) *)
Lemma setup_order_ok : names 0 = [[112; 114; 111; 118; 105; 115; 105; 111; 110; 97; 108]%N; [115; 107; 105; 112; 112; 105; 110; 103]%N; [112; 101; 114; 115; 105; 115; 116]%N; [101; 120; 101; 99; 117; 116; 101]%N].
Proof. vm_compute. reflexivity. Qed.

(* pytask_execute_task (firstresult): provisional (None for ordinary tasks), then execute *)
Lemma execute_order_ok : names 1 = [[112; 114; 111; 118; 105; 115; 105; 111; 110; 97; 108]%N; [101; 120; 101; 99; 117; 116; 101]%N].
Proof. vm_compute. reflexivity. Qed.

Lemma teardown_order_ok : names 2 = [[101; 120; 101; 99; 117; 116; 101]%N].
Proof. vm_compute. reflexivity. Qed.

(* pytask_execute_task_process_report (firstresult): skipping, profile, persist, provisional, execute *)
Lemma process_report_order_ok : names 3 = [[115; 107; 105; 112; 112; 105; 110; 103]%N; [112; 114; 111; 102; 105; 108; 101]%N; [112; 101; 114; 115; 105; 115; 116]%N; [112; 114; 111; 118; 105; 115; 105; 111; 110; 97; 108]%N; [101; 120; 101; 99; 117; 116; 101]%N].
Proof. vm_compute. reflexivity. Qed.

(* the capture plugin wraps the three task phases ... *)
Lemma capture_wraps_phases :
  In [99; 97; 112; 116; 117; 114; 101]%N (wrapper_names 0) /\ In [99; 97; 112; 116; 117; 114; 101]%N (wrapper_names 1) /\ In [99; 97; 112; 116; 117; 114; 101]%N (wrapper_names 2).
Proof. vm_compute. tauto. Qed.

(* ... and restores the process in pytask_unconfigure (F10 repaired) *)
Definition x_capture_stops : bool := memL [99; 97; 112; 116; 117; 114; 101]%N (names 4).
Lemma capture_unconfigure_ok : x_capture_stops = true.
Proof. vm_compute. reflexivity. Qed.

(* build(): exception class -> exit code, and the numeric exit codes *)
Lemma exit_table_ok : x_exit_table = [(0%nat, 2%N); (1%nat, 2%N); (2%nat, 3%N); (3%nat, 4%N); (4%nat, 1%N); (1%nat, 1%N)] /\ x_exit_codes = [0; 1; 2; 3; 4]%N.
Proof. split; reflexivity. Qed.
