(* `pytask clean` with several path arguments, and the force loop that walks the listed paths
   one after the other (rmtree / unlink).  The listing keeps first occurrences and drops paths
   inside a listed directory; therefore the loop never meets a path that is already gone, and
   what it removes is exactly what is listed (with everything below).  Before the repairs F26
   and F27 it did meet such paths: see the _refuted theorems at the end. *)
From Verif Require Import Base.Prelude Model.Clean Proofs.CleanProofs.

Lemma eqbP_iff a : forall b, eqbP a b = true <-> a = b.
Proof.
  induction a as [|x a IH]; intros [|y b]; simpl; try (split; [discriminate|intros H; inversion H]); [tauto|].
  rewrite andb_true_iff, eqbL_spec, IH. split; [intros [-> ->]; reflexivity | intros H; inversion H; auto].
Qed.

Lemma eqbP_refl a : eqbP a a = true.
Proof. apply eqbP_iff. reflexivity. Qed.

Lemma existsb_eqbP_In q s : existsb (eqbP q) s = true <-> In q s.
Proof.
  rewrite existsb_exists. split.
  - intros [y [Hy E]]. apply eqbP_iff in E. subst. exact Hy.
  - intros H. exists q. split; auto. apply eqbP_refl.
Qed.

Lemma is_prefix_spec a : forall b, is_prefix a b = true <-> exists c, b = a ++ c.
Proof.
  induction a as [|x a IH]; intros b; simpl.
  - split; auto. intros _. exists b. reflexivity.
  - destruct b as [|y b].
    + split; [discriminate|]. intros [c H]. discriminate.
    + rewrite andb_true_iff, eqbL_spec, IH. split.
      * intros [-> [c ->]]. exists c. reflexivity.
      * intros [c H]. inversion H; subst. split; auto. exists c. reflexivity.
Qed.

Lemma is_prefix_refl a : is_prefix a a = true.
Proof. apply is_prefix_spec. exists []. rewrite app_nil_r. reflexivity. Qed.

Lemma is_prefix_trans a b c : is_prefix a b = true -> is_prefix b c = true -> is_prefix a c = true.
Proof.
  rewrite !is_prefix_spec. intros [x ->] [y ->]. exists (x ++ y). rewrite app_assoc. reflexivity.
Qed.

Lemma strictly_above_length a b : strictly_above a b = true -> (length a < length b)%nat.
Proof.
  unfold strictly_above. rewrite andb_true_iff, negb_true_iff. intros [P N].
  apply is_prefix_spec in P. destruct P as [c ->]. rewrite app_length.
  destruct c as [|z c]; [|simpl; lia]. rewrite app_nil_r, eqbP_refl in N. discriminate.
Qed.

Lemma strictly_above_prefix a b : strictly_above a b = true -> is_prefix a b = true.
Proof. unfold strictly_above. rewrite andb_true_iff. tauto. Qed.

Definition antichain (l : list path) : Prop :=
  forall a b, In a l -> In b l -> is_prefix a b = true -> a = b.

(* ---- lists *)
Lemma NoDup_map_filter {A B} (f : A -> B) (p : A -> bool) l :
  NoDup (map f l) -> NoDup (map f (filter p l)).
Proof.
  induction l as [|x l IH]; simpl; intros H; [constructor|].
  inversion H as [|? ? Hn Hd]; subst. destruct (p x); simpl; auto.
  constructor; auto. intros C. apply Hn. apply in_map_iff in C. destruct C as [y [E Hy]].
  apply filter_In in Hy. apply in_map_iff. exists y. tauto.
Qed.

Lemma dedupe_In x l : In x (dedupe l) -> In x l.
Proof.
  revert x. induction l as [|y l IH]; simpl; intros x H; auto.
  destruct H as [H|H]; auto. apply filter_In in H. right. apply IH. tauto.
Qed.

Lemma dedupe_paths q l : In q (map fst l) -> In q (map fst (dedupe l)).
Proof.
  induction l as [|y l IH]; simpl; intros H; auto.
  destruct (eqbP (fst y) q) eqn:E.
  - apply eqbP_iff in E. left. exact E.
  - right. destruct H as [H|H]; [subst; rewrite eqbP_refl in E; discriminate|].
    specialize (IH H). apply in_map_iff in IH. destruct IH as [z [Ez Hz]].
    apply in_map_iff. exists z. split; auto. apply filter_In. split; auto.
    subst q. rewrite E. reflexivity.
Qed.

Lemma dedupe_NoDup l : NoDup (map fst (dedupe l)).
Proof.
  induction l as [|y l IH]; simpl; [constructor|]. constructor.
  - intros C. apply in_map_iff in C. destruct C as [z [Ez Hz]]. apply filter_In in Hz.
    destruct Hz as [_ Hz]. rewrite <- Ez, eqbP_refl in Hz. discriminate.
  - apply NoDup_map_filter. exact IH.
Qed.

Lemma drop_nested_In x l :
  In x (drop_nested l) <-> In x l /\ forall y, In y l -> strictly_above (fst y) (fst x) = false.
Proof.
  unfold drop_nested. rewrite filter_In, negb_true_iff. split; intros [H1 H2]; split; auto.
  - intros y Hy. destruct (strictly_above (fst y) (fst x)) eqn:E; auto.
    assert (T : existsb (fun y0 => strictly_above (fst y0) (fst x)) l = true)
      by (apply existsb_exists; exists y; auto). congruence.
  - destruct (existsb _ l) eqn:E; auto. apply existsb_exists in E. destruct E as [y [Hy E]].
    rewrite H2 in E by exact Hy. discriminate.
Qed.

Lemma drop_nested_antichain l : antichain (map fst (drop_nested l)).
Proof.
  intros a b Ha Hb P. apply in_map_iff in Ha, Hb.
  destruct Ha as [xa [<- Ha]]. destruct Hb as [xb [<- Hb]].
  apply drop_nested_In in Ha, Hb. destruct Ha as [Ha _]. destruct Hb as [_ Hb].
  specialize (Hb xa Ha). unfold strictly_above in Hb. rewrite P in Hb. simpl in Hb.
  apply negb_false_iff, eqbP_iff in Hb. exact Hb.
Qed.

Lemma drop_nested_NoDup l : NoDup (map fst l) -> NoDup (map fst (drop_nested l)).
Proof. apply NoDup_map_filter. Qed.

(* every path of the list is at or below a path that survives *)
Lemma drop_nested_covers l : forall n x, (length (fst x) <= n)%nat -> In x l ->
  exists y, In y (drop_nested l) /\ is_prefix (fst y) (fst x) = true.
Proof.
  induction n as [|n IH]; intros x L Hx.
  - exists x. split; [|apply is_prefix_refl]. apply drop_nested_In. split; auto.
    intros y _. destruct (strictly_above (fst y) (fst x)) eqn:E; auto.
    apply strictly_above_length in E. lia.
  - destruct (existsb (fun y => strictly_above (fst y) (fst x)) l) eqn:E.
    + apply existsb_exists in E. destruct E as [y [Hy E]].
      pose proof (strictly_above_length _ _ E) as Ll.
      assert (Ly : (length (fst y) <= n)%nat) by (unfold path, comp in *; lia).
      destruct (IH y Ly Hy) as [z [Hz Pz]]. exists z. split; auto.
      eapply is_prefix_trans; eauto. apply strictly_above_prefix. exact E.
    + exists x. split; [|apply is_prefix_refl]. apply drop_nested_In. split; auto.
      intros y Hy. destruct (strictly_above (fst y) (fst x)) eqn:E2; auto.
      assert (T : existsb (fun y0 => strictly_above (fst y0) (fst x)) l = true)
        by (apply existsb_exists; exists y; auto). congruence.
Qed.

(* ---- the force loop *)
Lemma rm_seq_ok l : forall s,
  NoDup l -> antichain l -> (forall q, In q l -> In q s) ->
  exists s', rm_seq l s = Some s' /\
             forall r, In r s' <-> In r s /\ forall q, In q l -> is_prefix q r = false.
Proof.
  induction l as [|q l IH]; intros s ND AC Hin.
  - exists s. split; [reflexivity|]. intros r. split; [intros H; split; auto; intros q []|tauto].
  - inversion ND as [|? ? Hn Hd]; subst. cbn [rm_seq]. unfold rm_one.
    assert (Q : existsb (eqbP q) s = true) by (apply existsb_eqbP_In, Hin; left; reflexivity).
    rewrite Q. set (s1 := filter (fun r => negb (is_prefix q r)) s).
    destruct (IH s1) as [s' [R Ch]]; auto.
    + intros a b Ha Hb. apply AC; right; assumption.
    + intros q' Hq'. apply filter_In. split; [apply Hin; right; exact Hq'|].
      apply negb_true_iff. destruct (is_prefix q q') eqn:P; auto.
      assert (q = q') by (apply AC; [left; reflexivity | right; exact Hq' | exact P]).
      subst. contradiction.
    + exists s'. split; auto. intros r. rewrite Ch. unfold s1. rewrite filter_In, negb_true_iff. split.
      * intros [[A B] D]. split; auto. intros q0 [<-|H0]; auto.
      * intros [A B]. repeat split; auto. apply B. left; reflexivity.
        intros q0 H0. apply B. right. exact H0.
Qed.

Section M.
  Variable known : path -> bool.
  Variable excl : path -> bool.

  Lemma all_paths_head p t : In (p ++ [tname t], is_dir t) (all_paths p t).
  Proof. destruct t; simpl; auto. Qed.

  (* a listed path is a path of the argument's tree *)
  Lemma listing_in_all_paths dirs p t x :
    In x (listing known excl dirs p t) -> In x (all_paths p t).
  Proof.
    rewrite listing_is_sub. intros H. apply in_map_iff in H. destruct H as [[p' t'] [<- H]].
    apply (Sub_all_paths p t p' t'); [eapply listed_inside; eauto|]. apply all_paths_head.
  Qed.

  (* nothing is listed that one of the arguments does not list on its own: the guarantees of
     CleanProofs (unknown, not excluded, inside the given path) carry over *)
  Theorem multi_listed_from_args dirs args x :
    In x (listing_multi known excl dirs args) ->
    exists a, In a args /\ In x (listing known excl dirs (fst a) (snd a)).
  Proof.
    unfold listing_multi. intros H. apply drop_nested_In in H. destruct H as [H _].
    apply dedupe_In in H. unfold listing_all in H. apply in_flat_map in H. exact H.
  Qed.

  (* nothing is lost: what an argument lists is listed, or lies inside a listed directory *)
  Theorem multi_covers dirs args a x :
    In a args -> In x (listing known excl dirs (fst a) (snd a)) ->
    exists y, In y (listing_multi known excl dirs args) /\ is_prefix (fst y) (fst x) = true.
  Proof.
    intros Ha Hx.
    assert (L : In (fst x) (map fst (listing_all known excl dirs args))).
    { apply in_map. unfold listing_all. apply in_flat_map. exists a. auto. }
    apply dedupe_paths in L. apply in_map_iff in L. destruct L as [x' [E Hx']].
    destruct (drop_nested_covers _ _ x' (le_n _) Hx') as [y [Hy P]].
    exists y. split; auto. rewrite <- E. exact P.
  Qed.

  Lemma multi_NoDup dirs args : NoDup (map fst (listing_multi known excl dirs args)).
  Proof. apply drop_nested_NoDup, dedupe_NoDup. Qed.

  Lemma multi_antichain dirs args : antichain (map fst (listing_multi known excl dirs args)).
  Proof. apply drop_nested_antichain. Qed.

  (* the force loop runs through, and what is left is everything that is not at or below a
     listed path *)
  Theorem force_multi_removes_exactly_listed dirs args s :
    (forall a x, In a args -> In x (all_paths (fst a) (snd a)) -> In (fst x) s) ->
    exists s', snd (clean_multi known excl Force dirs args s) = Some s' /\
      forall r, In r s' <->
                In r s /\ forall q, In q (map fst (fst (clean_multi known excl DryRun dirs args s))) ->
                                     is_prefix q r = false.
  Proof.
    intros Hfs. cbn [clean_multi fst snd].
    apply rm_seq_ok; [apply multi_NoDup | apply multi_antichain|].
    intros q Hq. apply in_map_iff in Hq. destruct Hq as [x [<- Hx]].
    apply multi_listed_from_args in Hx. destruct Hx as [a [Ha Hx]].
    eapply Hfs; eauto. eapply listing_in_all_paths; eauto.
  Qed.

  Theorem dry_multi_removes_nothing dirs args s :
    snd (clean_multi known excl DryRun dirs args s) = Some s.
  Proof. reflexivity. Qed.

  Theorem force_multi_lists_what_dry_lists dirs args s :
    fst (clean_multi known excl Force dirs args s) = fst (clean_multi known excl DryRun dirs args s).
  Proof. reflexivity. Qed.
End M.

(* ---- the listings before the repairs, on the witnesses the harness found *)
Definition c_aa : comp := [97; 97]%N.
Definition c_in : comp := [105; 110]%N.
Definition c_u1 : comp := [117; 49]%N.
Definition c_u4 : comp := [117; 52]%N.
Definition c_p : comp := [112]%N.
Definition t_in : ftree := Dir c_in [File c_u4].
Definition t_aa : ftree := Dir c_aa [File c_u1; t_in].
Definition fs_w : list path := map fst (all_paths [c_p] t_aa).
Definition nothing (_ : path) : bool := false.

(* `pytask clean aa aa`: every file listed twice, the second unlink raises (F26) *)
Theorem repeated_argument_refuted :
  snd (clean_multi_f26 nothing nothing false [([c_p], t_aa); ([c_p], t_aa)] fs_w) = None.
Proof. vm_compute. reflexivity. Qed.

(* `pytask clean aa aa/in -d`: aa and aa/in listed, aa/in is gone when its turn comes (F27) *)
Theorem nested_argument_refuted :
  snd (clean_multi_f27 nothing nothing true [([c_p], t_aa); ([c_p; c_aa], t_in)] fs_w) = None.
Proof. vm_compute. reflexivity. Qed.

Theorem repeated_argument_regression :
  clean_multi nothing nothing Force false [([c_p], t_aa); ([c_p], t_aa)] fs_w =
  ([([c_p; c_aa; c_u1], false); ([c_p; c_aa; c_in; c_u4], false)], Some [[c_p; c_aa]; [c_p; c_aa; c_in]]).
Proof. vm_compute. reflexivity. Qed.

Theorem nested_argument_regression :
  clean_multi nothing nothing Force true [([c_p], t_aa); ([c_p; c_aa], t_in)] fs_w =
  ([([c_p; c_aa], true)], Some []).
Proof. vm_compute. reflexivity. Qed.
