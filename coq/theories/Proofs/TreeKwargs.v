(* "exactly the declared values": the keyword arguments have the declared names, in order, and
   nothing else; every argument is the loaded image of the declaration of that name. *)
From Verif Require Import Base.Prelude Model.Tree Proofs.TreeProofs.

Theorem load_kwargs_names {Nd V : Type} (load : Nd -> V) decls :
  map fst (load_kwargs load decls) = map fst decls /\
  length (load_kwargs load decls) = length decls.
Proof.
  unfold load_kwargs. rewrite map_map, map_length. split; auto.
Qed.

Theorem load_kwargs_only_declared {Nd V : Type} (load : Nd -> V) decls name v :
  In (name, v) (load_kwargs load decls) ->
  exists t, In (name, t) decls /\ v = tmap load t.
Proof.
  unfold load_kwargs. rewrite in_map_iff. intros ((n & t) & E & H). cbn [fst snd] in E.
  inversion E; subst. exists t. auto.
Qed.

(* the i-th argument is the image of the i-th declaration *)
Theorem load_kwargs_nth {Nd V : Type} (load : Nd -> V) decls i :
  nth_error (load_kwargs load decls) i =
  option_map (fun p => (fst p, tmap load (snd p))) (nth_error decls i).
Proof.
  unfold load_kwargs. revert i. induction decls as [|d r IH]; intros [|i]; cbn; auto.
Qed.

Example load_kwargs_example :
  load_kwargs (fun n => (n * 10)%N) [(1%N, Node KList [Leaf 2%N; Node KTuple [Leaf 3%N]]); (5%N, Leaf 7%N)] =
  [(1%N, Node KList [Leaf 20%N; Node KTuple [Leaf 30%N]]); (5%N, Leaf 70%N)].
Proof. vm_compute. reflexivity. Qed.
