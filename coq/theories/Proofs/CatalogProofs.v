From Verif Require Import Base.Prelude Model.Catalog.

(* the documented alphabet: accepted by fullmatch exactly when valid *)
Theorem fullmatch_is_spec s : name_accepted ReFullmatch s = name_valid s.
Proof. reflexivity. Qed.

Theorem name_valid_spec s :
  name_valid s = true <-> s <> [] /\ forall c, In c s -> name_class c = true.
Proof.
  unfold name_valid. destruct s as [|c r].
  - split; [discriminate|]. intros [H _]. congruence.
  - rewrite forallb_forall. split.
    + intros H. split; [discriminate|exact H].
    + intros [_ H]. exact H.
Qed.

(* F13: prefix matching accepts names outside the alphabet, e.g. "a/../../x", "a b" *)
Theorem match_refuted :
  name_accepted ReMatch [97; 47; 46; 46; 47; 46; 46; 47; 120]%N = true /\
  name_valid [97; 47; 46; 46; 47; 46; 46; 47; 120]%N = false /\
  name_accepted ReMatch [97; 32; 98]%N = true /\ name_valid [97; 32; 98]%N = false.
Proof. vm_compute. repeat split. Qed.

Lemma no_slash_in_valid s : name_valid s = true -> ~ In slash s.
Proof.
  intros V H. apply name_valid_spec in V. destruct V as [_ V]. apply V in H.
  vm_compute in H. discriminate.
Qed.

Lemma split_first_slash (a b ra rb : list N) :
  ~ In slash a -> ~ In slash b -> a ++ slash :: ra = b ++ slash :: rb -> a = b /\ ra = rb.
Proof.
  revert b. induction a as [|x a IH]; intros [|y b] Na Nb H; simpl in *.
  - inversion H. auto.
  - inversion H; subst. exfalso. apply Nb. left; reflexivity.
  - inversion H; subst. exfalso. apply Na. left; reflexivity.
  - inversion H; subst. destruct (IH b) as [-> ->]; auto.
Qed.

Section P.
  Variable sha_hex : list N -> list N.
  Variable utf8 : list N -> list N.
  Hypothesis sha_inj : forall a b, sha_hex a = sha_hex b -> a = b.
  Hypothesis sha_len : forall a, length (sha_hex a) = 64.
  Hypothesis utf8_inj : forall a b, utf8 a = utf8 b -> a = b.
  Notation efile := (entry_file sha_hex utf8).
  Notation nfile := (entry_node_file sha_hex utf8).

  (* different entry names of one catalog never share a file *)
  Theorem entries_isolated root cname e1 e2 :
    efile root cname e1 = efile root cname e2 -> e1 = e2.
  Proof.
    unfold entry_file. intros H. apply app_inv_head in H. simpl in H. inversion H as [H'].
    apply app_inv_tail in H'. apply sha_inj, utf8_inj in H'. exact H'.
  Qed.

  (* different valid catalog names never share a file (same project root) *)
  Theorem catalogs_isolated root c1 c2 e1 e2 :
    name_valid c1 = true -> name_valid c2 = true ->
    efile root c1 e1 = efile root c2 e2 -> c1 = c2 /\ e1 = e2.
  Proof.
    intros V1 V2. unfold entry_file, catalog_dir. rewrite <- !app_assoc. intros H.
    apply app_inv_head in H. simpl in H. inversion H as [H1]. clear H.
    repeat (match type of H1 with (?x :: _) = (?x :: _) => inversion H1 as [H2]; clear H1; rename H2 into H1 end).
    apply split_first_slash in H1; auto using no_slash_in_valid.
    destruct H1 as [-> H1]. split; auto.
    apply app_inv_tail in H1. apply sha_inj, utf8_inj in H1. exact H1.
  Qed.

  (* the value file and the node file of any two entries never coincide *)
  Theorem value_and_node_files_differ root c e1 e2 : efile root c e1 <> nfile root c e2.
  Proof.
    unfold entry_file, entry_node_file. intros H. apply app_inv_head in H. simpl in H.
    inversion H as [H']. apply (f_equal (@length N)) in H'.
    rewrite !app_length, !sha_len in H'. simpl in H'. lia.
  Qed.
End P.

Section S.
  Variable value : Type.
  Variable dumps : value -> list N.
  Variable loads : list N -> option value.
  Hypothesis roundtrip : forall v, loads (dumps v) = Some v.

  (* what a producer returned into an entry is what every consumer loads ... *)
  Theorem load_save s p v : load value loads (save value dumps s p v) p = Some v.
  Proof. unfold load, save. simpl. rewrite eqbL_refl. apply roundtrip. Qed.

  (* ... and saving into one entry leaves every other entry as it was *)
  Theorem load_save_other s p q v : p <> q -> load value loads (save value dumps s p v) q = load value loads s q.
  Proof.
    intros Hne. unfold load, save. simpl. destruct (eqbL q p) eqn:E; auto.
    apply eqbL_spec in E. congruence.
  Qed.
End S.
