(* The protocol for one task (run_task): case analysis and the facts every
   engine property is built from. *)
From Verif Require Import Base.Prelude Base.Graph Model.Sorter Model.Expr Model.Engine.

(* ------------------------------------------------------------- maps *)
Lemma lookup_upd_eq k v m : lookup k (upd k v m) = Some v.
Proof.
  induction m as [|[k' v'] r IH]; simpl.
  - rewrite N.eqb_refl. reflexivity.
  - destruct (N.eqb k k') eqn:E; simpl; rewrite ?N.eqb_refl; auto. rewrite E. exact IH.
Qed.

Lemma lookup_upd_neq k k' v m : k <> k' -> lookup k (upd k' v m) = lookup k m.
Proof.
  intros Hne. induction m as [|[k2 v2] r IH]; simpl.
  - destruct (N.eqb_spec k k'); congruence.
  - destruct (N.eqb_spec k' k2) as [->|]; simpl.
    + destruct (N.eqb_spec k k2); congruence.
    + destruct (N.eqb_spec k k2); auto.
Qed.

Lemma dblookup_dbupd_eq t k v m : dblookup t k (dbupd t k v m) = Some v.
Proof.
  induction m as [|[[t' k'] v'] r IH]; simpl.
  - rewrite !N.eqb_refl. reflexivity.
  - destruct (N.eqb t t' && N.eqb k k') eqn:E; simpl; rewrite ?N.eqb_refl; auto.
    rewrite E. exact IH.
Qed.

Lemma dblookup_dbupd_neq t k t' k' v m :
  (t, k) <> (t', k') -> dblookup t k (dbupd t' k' v m) = dblookup t k m.
Proof.
  intros Hne. induction m as [|[[t2 k2] v2] r IH]; simpl.
  - destruct (N.eqb_spec t t'), (N.eqb_spec k k'); simpl; congruence.
  - destruct (N.eqb t' t2 && N.eqb k' k2) eqn:E; simpl.
    + apply andb_true_iff in E. destruct E as [E1 E2].
      apply N.eqb_eq in E1, E2. subst.
      destruct (N.eqb_spec t t2), (N.eqb_spec k k2); simpl; congruence.
    + destruct (N.eqb t t2 && N.eqb k k2); auto.
Qed.

(* --------------------------------------------------- record_states *)
Lemma record_fs E w t : fs (record_states E w t) = fs w.
Proof. reflexivity. Qed.

Lemma record_fold_other w t t' k ks : forall d,
  t' <> tid t ->
  dblookup t' k (fold_left (fun d k0 => match state_of w t k0 with
                                        | Some s => dbupd (tid t) k0 s d | None => d end) ks d)
  = dblookup t' k d.
Proof.
  induction ks as [|k0 ks IH]; intros d Hne; simpl; auto.
  rewrite IH by exact Hne. destruct (state_of w t k0); auto.
  apply dblookup_dbupd_neq. congruence.
Qed.

Lemma record_fold_notin w t k ks : forall d,
  ~ In k ks ->
  dblookup (tid t) k (fold_left (fun d k0 => match state_of w t k0 with
                                             | Some s => dbupd (tid t) k0 s d | None => d end) ks d)
  = dblookup (tid t) k d.
Proof.
  induction ks as [|k0 ks IH]; intros d Hn; simpl; auto.
  rewrite IH by (intros C; apply Hn; right; exact C).
  destruct (state_of w t k0); auto. apply dblookup_dbupd_neq.
  intros C. inversion C; subst. apply Hn. left; reflexivity.
Qed.

Lemma record_fold_in w t k ks : forall d s,
  In k ks -> state_of w t k = Some s ->
  dblookup (tid t) k (fold_left (fun d k0 => match state_of w t k0 with
                                             | Some s => dbupd (tid t) k0 s d | None => d end) ks d)
  = Some s.
Proof.
  induction ks as [|k0 ks IH]; intros d s Hin Hs; simpl; [destruct Hin|].
  destruct (in_dec N.eq_dec k ks) as [I|I].
  - apply IH; auto.
  - destruct Hin as [->|Hin]; [|contradiction].
    rewrite record_fold_notin by exact I. rewrite Hs. apply dblookup_dbupd_eq.
Qed.

(* the purge (F28): rows of the task for nodes outside [ks] disappear, nothing else changes *)
Lemma dbpurge_other t ks t' k m : t' <> t -> dblookup t' k (dbpurge t ks m) = dblookup t' k m.
Proof.
  intros Hne. induction m as [|[[a b] v] m IH]; simpl; auto.
  destruct (N.eqb t a && negb (memN b ks)) eqn:D; simpl.
  - apply andb_true_iff in D. destruct D as [D _]. apply N.eqb_eq in D. subst a.
    replace (N.eqb t' t) with false by (symmetry; apply N.eqb_neq; exact Hne). simpl. exact IH.
  - rewrite IH. reflexivity.
Qed.

Lemma dbpurge_in t ks k m : In k ks -> dblookup t k (dbpurge t ks m) = dblookup t k m.
Proof.
  intros Hin. induction m as [|[[a b] v] m IH]; simpl; auto.
  destruct (N.eqb t a && negb (memN b ks)) eqn:D; simpl.
  - apply andb_true_iff in D. destruct D as [_ D]. apply negb_true_iff, memN_false_In in D.
    destruct (N.eqb t a && N.eqb k b) eqn:Q; [|exact IH].
    apply andb_true_iff in Q. destruct Q as [_ Q]. apply N.eqb_eq in Q. subst b. contradiction.
  - rewrite IH. reflexivity.
Qed.

Lemma dbpurge_notin t ks k m : ~ In k ks -> dblookup t k (dbpurge t ks m) = None.
Proof.
  intros Hn. induction m as [|[[a b] v] m IH]; simpl; auto.
  destruct (N.eqb t a && negb (memN b ks)) eqn:D; simpl; [exact IH|].
  destruct (N.eqb t a && N.eqb k b) eqn:Q; [|exact IH].
  apply andb_true_iff in Q. destruct Q as [Q1 Q2]. apply N.eqb_eq in Q2. subst b.
  rewrite Q1 in D. simpl in D. apply negb_false_iff, memN_In in D. contradiction.
Qed.

Theorem record_states_other E w t t' k :
  t' <> tid t -> dblookup t' k (db (record_states E w t)) = dblookup t' k (db w).
Proof.
  intros H. unfold record_states. simpl. rewrite record_fold_other by exact H. apply dbpurge_other. exact H.
Qed.

Theorem record_states_row E w t k s :
  In k (neighbours E t) -> state_of w t k = Some s ->
  dblookup (tid t) k (db (record_states E w t)) = Some s.
Proof. intros H1 H2. unfold record_states. simpl. apply record_fold_in; auto. Qed.

(* after recording, the task has rows for its neighbours only *)
Theorem record_states_notin E w t k :
  ~ In k (neighbours E t) ->
  dblookup (tid t) k (db (record_states E w t)) = None.
Proof.
  intros H. unfold record_states. simpl. rewrite record_fold_notin by exact H. apply dbpurge_notin. exact H.
Qed.

Lemma state_of_record E w t t2 k : state_of (record_states E w t) t2 k = state_of w t2 k.
Proof. reflexivity. Qed.

(* ------------------------------------------------------------ body *)
Section Body.
  Variable body : N -> N -> list N -> N -> N.

  Definition dep_values (w : world) (t : task) : list N :=
    map (fun d => match lookup d (fs w) with Some c => c | None => 0%N end) (deps t).

  Definition deps_exist (w : world) (t : task) : bool :=
    forallb (fun d => match lookup d (fs w) with Some _ => true | None => false end) (deps t).

  Definition skipf (f : fault) (p : N) : bool :=
    match f with Omit ps => memN p ps | _ => false end.

  Definition writes (w : world) (t : task) (f : fault) : list (N * N) :=
    fold_left (fun m p => if skipf f p then m else upd p (body (tid t) (tsrc t) (dep_values w t) p) m)
              (prods t) (fs w).

  Lemma run_body_eq w t f :
    run_body body w t f =
    match f with
    | RaiseBefore => (w, true)
    | _ => if deps_exist w t
           then (mkWorld (writes w t f) (db w), match f with RaiseAfter => true | _ => false end)
           else (w, true)
    end.
  Proof. destruct f; reflexivity. Qed.

  Lemma run_body_db w t f : db (fst (run_body body w t f)) = db w.
  Proof.
    rewrite run_body_eq. destruct f; try reflexivity; destruct (deps_exist w t); reflexivity.
  Qed.

  Lemma fold_upd_frame (g : N -> bool) (h : N -> N) ps : forall m k,
    ~ In k ps ->
    lookup k (fold_left (fun m p => if g p then m else upd p (h p) m) ps m) = lookup k m.
  Proof.
    induction ps as [|p ps IH]; intros m k Hn; simpl; auto.
    rewrite IH by (intros C; apply Hn; right; exact C).
    destruct (g p); auto. apply lookup_upd_neq. intros ->. apply Hn. left; reflexivity.
  Qed.

  (* a task function writes nothing but its declared products *)
  Theorem run_body_frame w t f k :
    ~ In k (prods t) -> lookup k (fs (fst (run_body body w t f))) = lookup k (fs w).
  Proof.
    intros Hn. rewrite run_body_eq.
    destruct f; try reflexivity; destruct (deps_exist w t); try reflexivity;
      cbn [fst fs]; unfold writes; apply fold_upd_frame; exact Hn.
  Qed.

  Lemma fold_upd_exists (g : N -> bool) (h : N -> N) ps : forall m k,
    lookup k m <> None ->
    lookup k (fold_left (fun m p => if g p then m else upd p (h p) m) ps m) <> None.
  Proof.
    induction ps as [|p ps IH]; intros m k Hk; simpl; auto.
    apply IH. destruct (g p); auto.
    destruct (N.eq_dec k p) as [->|Hne].
    - rewrite lookup_upd_eq. discriminate.
    - rewrite lookup_upd_neq by exact Hne. exact Hk.
  Qed.

  (* files are never removed by a task function *)
  Theorem run_body_monotone w t f k :
    lookup k (fs w) <> None -> lookup k (fs (fst (run_body body w t f))) <> None.
  Proof.
    intros Hk. rewrite run_body_eq.
    destruct f; try exact Hk; destruct (deps_exist w t); try exact Hk;
      cbn [fst fs]; unfold writes; apply fold_upd_exists; exact Hk.
  Qed.

  Lemma fold_upd_value (g : N -> bool) (h : N -> N) ps : forall m p,
    In p ps -> g p = false ->
    lookup p (fold_left (fun m p => if g p then m else upd p (h p) m) ps m) = Some (h p).
  Proof.
    induction ps as [|q ps IH]; intros m p Hin Hg; simpl; [destruct Hin|].
    destruct (in_dec N.eq_dec p ps) as [I|I]; [apply IH; auto|].
    destruct Hin as [->|]; [|contradiction].
    rewrite (fold_upd_frame g h ps _ p I). rewrite Hg. apply lookup_upd_eq.
  Qed.

  (* an undisturbed run writes body(...) into every product *)
  Theorem run_body_nofault w t p :
    deps_exist w t = true -> In p (prods t) ->
    snd (run_body body w t NoFault) = false /\
    lookup p (fs (fst (run_body body w t NoFault))) =
      Some (body (tid t) (tsrc t) (dep_values w t) p).
  Proof.
    intros D Hp. rewrite run_body_eq, D. cbn [fst snd fs]. split; auto.
    unfold writes.
    apply (fold_upd_value (skipf NoFault) (fun p => body (tid t) (tsrc t) (dep_values w t) p)); auto.
  Qed.

  Theorem run_body_needs_deps w t f :
    snd (run_body body w t f) = false -> deps_exist w t = true.
  Proof.
    rewrite run_body_eq. destruct f; cbn [snd]; try discriminate;
      destruct (deps_exist w t); cbn [snd]; auto; discriminate.
  Qed.

  (* ---------------------------------------------------- run_task leaves *)
  Definition skipflag (t : task) (dyn : list (N * dynmark)) (desel : list N) : bool :=
    m_skip t || has_dyn MSkip (tid t) dyn || memN (tid t) desel.

  Definition verdict (c : config) (E : list edge) (w : world) (t : task) : bool + bool :=
    if negb (preds_exist E w t) then inl true
    else if force c then inr true
    else check_loop w t (neighbours E t) (fun k => memN k (pred_nodes E t) || N.eqb k (tid t)).

  Definition prods_exist (w : world) (t : task) : bool :=
    forallb (fun p => match lookup p (fs w) with Some _ => true | None => false end) (prods t).

  Definition persist_fires (E : list edge) (w : world) (t : task) : bool :=
    m_persist t && all_exist E w t && any_changed E w t.

  Inductive rt_spec (c : config) (E : list edge) (dyn : list (N * dynmark)) (desel : list N)
            (w : world) (t : task) (f : fault) : tres -> Prop :=
  | RT_skip : skipflag t dyn desel = true -> rt_spec c E dyn desel w t f (mkTres OSkip w [])
  | RT_skipif : skipflag t dyn desel = false -> existsb (fun b => b) (m_skipif t) = true ->
                rt_spec c E dyn desel w t f (mkTres OSkip w [])
  | RT_anc : skipflag t dyn desel = false -> existsb (fun b => b) (m_skipif t) = false ->
             has_dyn MAncFailed (tid t) dyn = true ->
             rt_spec c E dyn desel w t f (mkTres OSkipPrevFailed w [])
  | RT_wouldmark : skipflag t dyn desel = false -> existsb (fun b => b) (m_skipif t) = false ->
                   has_dyn MAncFailed (tid t) dyn = false ->
                   has_dyn MWould (tid t) dyn = true ->
                   rt_spec c E dyn desel w t f (mkTres OWould w [])
  | RT_persist : skipflag t dyn desel = false -> existsb (fun b => b) (m_skipif t) = false ->
                 has_dyn MAncFailed (tid t) dyn = false -> has_dyn MWould (tid t) dyn = false ->
                 persist_fires E w t = true ->
                 rt_spec c E dyn desel w t f (mkTres OPersist (if dry_run c then w else record_states E w t) [])
  | RT_missing b : skipflag t dyn desel = false -> existsb (fun b => b) (m_skipif t) = false ->
                   has_dyn MAncFailed (tid t) dyn = false -> persist_fires E w t = false ->
                   has_dyn MWould (tid t) dyn = false -> verdict c E w t = inl b ->
                   rt_spec c E dyn desel w t f (mkTres OFail w [])
  | RT_unchanged : skipflag t dyn desel = false -> existsb (fun b => b) (m_skipif t) = false ->
                   has_dyn MAncFailed (tid t) dyn = false -> persist_fires E w t = false ->
                   has_dyn MWould (tid t) dyn = false -> verdict c E w t = inr false ->
                   rt_spec c E dyn desel w t f (mkTres OSkipUnchanged w [])
  | RT_dry : skipflag t dyn desel = false -> existsb (fun b => b) (m_skipif t) = false ->
             has_dyn MAncFailed (tid t) dyn = false -> persist_fires E w t = false ->
             has_dyn MWould (tid t) dyn = false -> verdict c E w t = inr true ->
             dry_run c = true ->
             rt_spec c E dyn desel w t f (mkTres OWould w [])
  | RT_raised w1 : skipflag t dyn desel = false -> existsb (fun b => b) (m_skipif t) = false ->
                   has_dyn MAncFailed (tid t) dyn = false -> persist_fires E w t = false ->
                   has_dyn MWould (tid t) dyn = false -> verdict c E w t = inr true ->
                   dry_run c = false -> run_body body w t f = (w1, true) ->
                   rt_spec c E dyn desel w t f (mkTres OFail w1 [Start (tid t); Finish (tid t)])
  | RT_success w1 : skipflag t dyn desel = false -> existsb (fun b => b) (m_skipif t) = false ->
                    has_dyn MAncFailed (tid t) dyn = false -> persist_fires E w t = false ->
                    has_dyn MWould (tid t) dyn = false -> verdict c E w t = inr true ->
                    dry_run c = false -> run_body body w t f = (w1, false) ->
                    prods_exist w1 t = true ->
                    rt_spec c E dyn desel w t f
                            (mkTres OSuccess (record_states E w1 t) [Start (tid t); Finish (tid t)])
  | RT_noprod w1 : skipflag t dyn desel = false -> existsb (fun b => b) (m_skipif t) = false ->
                   has_dyn MAncFailed (tid t) dyn = false -> persist_fires E w t = false ->
                   has_dyn MWould (tid t) dyn = false -> verdict c E w t = inr true ->
                   dry_run c = false -> run_body body w t f = (w1, false) ->
                   prods_exist w1 t = false ->
                   rt_spec c E dyn desel w t f (mkTres OFail w1 [Start (tid t); Finish (tid t)]).

  Theorem run_task_spec c E dyn desel w t f :
    rt_spec c E dyn desel w t f (run_task body c E dyn desel w t f).
  Proof.
    unfold run_task, run_task_with. fold (skipflag t dyn desel).
    destruct (skipflag t dyn desel) eqn:H1; [apply RT_skip; auto|].
    destruct (existsb (fun b => b) (m_skipif t)) eqn:H2; [apply RT_skipif; auto|].
    destruct (has_dyn MAncFailed (tid t) dyn) eqn:H3; [apply RT_anc; auto|].
    destruct (has_dyn MWould (tid t) dyn) eqn:H5; [apply RT_wouldmark; auto|].
    fold (persist_fires E w t).
    destruct (persist_fires E w t) eqn:H4; [apply RT_persist; auto|].
    fold (verdict c E w t).
    destruct (verdict c E w t) as [b|[|]] eqn:H6.
    - eapply RT_missing; eauto.
    - destruct (dry_run c) eqn:H7; [apply RT_dry; auto|].
      destruct (run_body body w t f) as [w1 raised] eqn:H8.
      destruct raised; [apply RT_raised; auto|].
      fold (prods_exist w1 t). destruct (prods_exist w1 t) eqn:H9.
      + apply RT_success; auto.
      + apply RT_noprod; auto.
    - apply RT_unchanged; auto.
  Qed.

  (* ----------------------------------------------- consequences (local) *)
  Ltac rt c E dyn desel w t f :=
    let H := fresh "SP" in
    pose proof (run_task_spec c E dyn desel w t f) as H;
    remember (run_task body c E dyn desel w t f) as r eqn:Er; clear Er.

  Ltac rb_db :=
    match goal with
    | H : run_body body ?w ?t ?f = (?w1, _) |- _ =>
      let D := fresh "D" in
      pose proof (run_body_db w t f) as D; rewrite H in D; cbn [fst] in D
    end.
  Ltac rb_with L :=
    match goal with
    | H : run_body body ?w ?t ?f = (?w1, _) |- _ =>
      let D := fresh "D" in
      pose proof L as D; rewrite H in D; cbn [fst] in D
    end.

  Definition ran (o : outcome) : bool :=
    match o with OSuccess | OFail => true | _ => false end.

  (* C08: outcomes other than success/fail mean the function did not run and no file changed *)
  Theorem nonrun_outcomes_silent c E dyn desel w t f :
    let r := run_task body c E dyn desel w t f in
    ran (r_out r) = false -> r_events r = [] /\ fs (r_world r) = fs w.
  Proof.
    intros r. subst r. rt c E dyn desel w t f.
    destruct SP; simpl; intros; try discriminate; auto.
    destruct (dry_run c); auto.
  Qed.

  (* events are either none or exactly one Start/Finish pair of this task *)
  Theorem events_shape c E dyn desel w t f :
    let r := run_task body c E dyn desel w t f in
    r_events r = [] \/ r_events r = [Start (tid t); Finish (tid t)].
  Proof. intros r. subst r. rt c E dyn desel w t f. destruct SP; simpl; auto. Qed.

  (* C08: success means ran once, all products exist, states recorded *)
  Theorem success_spec c E dyn desel w t f :
    let r := run_task body c E dyn desel w t f in
    r_out r = OSuccess ->
    r_events r = [Start (tid t); Finish (tid t)] /\
    prods_exist (r_world r) t = true /\ deps_exist w t = true /\
    exists w1, run_body body w t f = (w1, false) /\ r_world r = record_states E w1 t.
  Proof.
    intros r. subst r. rt c E dyn desel w t f.
    destruct SP; simpl; intros; try discriminate.
    repeat split; auto.
    - apply (run_body_needs_deps w t f).
      match goal with H : run_body _ _ _ _ = _ |- _ => rewrite H end. reflexivity.
    - eauto.
  Qed.

  (* C08: FAIL is reported exactly when a needed node is missing, the function (or a node
     it reads) raised, or a declared product was not created - and only for a task that no
     marker kept from running *)
  Definition reaches_check (c : config) (E : list edge) (dyn : list (N * dynmark)) (desel : list N)
             (w : world) (t : task) : bool :=
    negb (skipflag t dyn desel) && negb (existsb (fun b => b) (m_skipif t)) &&
    negb (has_dyn MAncFailed (tid t) dyn) && negb (persist_fires E w t) &&
    negb (has_dyn MWould (tid t) dyn).

  Theorem fail_iff c E dyn desel w t f :
    r_out (run_task body c E dyn desel w t f) = OFail <->
    reaches_check c E dyn desel w t = true /\
    ((exists b, verdict c E w t = inl b) \/
     (verdict c E w t = inr true /\ dry_run c = false /\
      (snd (run_body body w t f) = true \/
       prods_exist (fst (run_body body w t f)) t = false))).
  Proof.
    unfold reaches_check. rt c E dyn desel w t f. split.
    - destruct SP; simpl; intros; try discriminate;
        repeat match goal with H : _ = false |- _ => rewrite H end; simpl;
        (split; [reflexivity|]); eauto;
        right; repeat split; auto;
        match goal with H : run_body _ _ _ _ = _ |- _ => rewrite H end; simpl; auto.
    - intros [RC HV]. rewrite !andb_true_iff, !negb_true_iff in RC.
      destruct RC as [[[[A1 A2] A3] A4] A5].
      destruct SP; simpl; auto; try congruence.
      + destruct HV as [[b Hb]|[Hb _]]; congruence.
      + destruct HV as [[b Hb]|(_ & Hb & _)]; congruence.
      + destruct HV as [[b Hb]|(_ & _ & [Hb|Hb])]; try congruence;
          match goal with H : run_body _ _ _ _ = _ |- _ => rewrite H in Hb end; simpl in Hb; congruence.
  Qed.

  (* C04 / C08: a run that did not succeed or persist leaves the database alone *)
  Theorem db_changes_only_on_success_or_persist c E dyn desel w t f :
    let r := run_task body c E dyn desel w t f in
    r_out r <> OSuccess -> r_out r <> OPersist -> db (r_world r) = db w.
  Proof.
    intros r. subst r. rt c E dyn desel w t f.
    destruct SP; simpl; intros; try congruence; auto; rb_db; exact D.
  Qed.

  (* rows of other tasks are never touched *)
  Theorem other_rows_untouched c E dyn desel w t f t' k :
    t' <> tid t ->
    dblookup t' k (db (r_world (run_task body c E dyn desel w t f))) = dblookup t' k (db w).
  Proof.
    intros Hne. rt c E dyn desel w t f.
    destruct SP; cbn [r_world]; auto;
      try (destruct (dry_run c); [reflexivity|]);
      try rewrite record_states_other by exact Hne; auto; rb_db; rewrite D; reflexivity.
  Qed.

  (* footprint: only declared products of this task can change *)
  Theorem task_footprint c E dyn desel w t f k :
    ~ In k (prods t) ->
    lookup k (fs (r_world (run_task body c E dyn desel w t f))) = lookup k (fs w).
  Proof.
    intros Hn. rt c E dyn desel w t f.
    destruct SP; cbn [r_world]; try (destruct (dry_run c); [reflexivity|]); rewrite ?record_fs; auto;
      rb_with (run_body_frame w t f k Hn); exact D.
  Qed.

  Theorem task_monotone c E dyn desel w t f k :
    lookup k (fs w) <> None ->
    lookup k (fs (r_world (run_task body c E dyn desel w t f))) <> None.
  Proof.
    intros Hk. rt c E dyn desel w t f.
    destruct SP; cbn [r_world]; try (destruct (dry_run c); [exact Hk|]); rewrite ?record_fs; auto;
      rb_with (run_body_monotone w t f k Hk); exact D.
  Qed.

  (* C10: in a dry run nothing is started and no file changes *)
  Theorem dry_run_silent c E dyn desel w t f :
    dry_run c = true ->
    let r := run_task body c E dyn desel w t f in
    r_events r = [] /\ fs (r_world r) = fs w /\ ran (r_out r) = false \/
    r_events r = [] /\ fs (r_world r) = fs w /\ r_out r = OFail.
  Proof.
    intros D r. subst r. rt c E dyn desel w t f.
    destruct SP; simpl; rewrite ?D; auto; congruence.
  Qed.

  (* C10: in a dry run neither files nor recorded states change - for any task, also a
     persisted one (F22, repaired: PERSISTENCE used to be recorded in dry runs) *)
  Theorem dry_run_world c E dyn desel w t f :
    dry_run c = true -> r_world (run_task body c E dyn desel w t f) = w.
  Proof.
    intros D. rt c E dyn desel w t f.
    destruct SP; simpl; rewrite ?D; auto; congruence.
  Qed.

  (* C06: a skip marker (own, inherited, deselection, true skipif) means SKIP, silently *)
  Theorem skip_spec c E dyn desel w t f :
    skipflag t dyn desel = true \/ existsb (fun b => b) (m_skipif t) = true ->
    run_task body c E dyn desel w t f = mkTres OSkip w [].
  Proof.
    intros H. rt c E dyn desel w t f.
    destruct SP; auto; destruct H; congruence.
  Qed.

  (* C04: an inherited failure mark means SKIP_PREVIOUS_FAILED (or SKIP), silently *)
  Theorem anc_failed_spec c E dyn desel w t f :
    has_dyn MAncFailed (tid t) dyn = true ->
    let r := run_task body c E dyn desel w t f in
    (r_out r = OSkipPrevFailed \/ r_out r = OSkip) /\ r_events r = [] /\ r_world r = w.
  Proof.
    intros H r. subst r. rt c E dyn desel w t f.
    destruct SP; simpl; auto; congruence.
  Qed.

  (* ------------------------------------------- change detection (C02/C03) *)
  Definition row_matches (w : world) (t : task) (k : N) : Prop :=
    exists s, state_of w t k = Some s /\ dblookup (tid t) k (db w) = Some s.

  Lemma changed_false_iff w t k : changed w t k = false <-> row_matches w t k.
  Proof.
    unfold changed, row_matches. destruct (state_of w t k) as [s|].
    - destruct (dblookup (tid t) k (db w)) as [r|].
      + rewrite negb_false_iff, N.eqb_eq. split.
        * intros ->. eauto.
        * intros [s' [H1 H2]]. congruence.
      + split; [discriminate|]. intros [s' [_ H]]. discriminate.
    - split; [discriminate|]. intros [s' [H _]]. discriminate.
  Qed.

  Lemma check_loop_false w t isp ks :
    check_loop w t ks isp = inr false <-> forall k, In k ks -> row_matches w t k.
  Proof.
    induction ks as [|k ks IH]; simpl.
    - split; auto. intros _ k [].
    - destruct (state_of w t k) as [s|] eqn:Es.
      + destruct (changed w t k) eqn:Ec.
        * split; [discriminate|]. intros H.
          assert (row_matches w t k) by (apply H; left; reflexivity).
          apply changed_false_iff in H0. congruence.
        * rewrite IH. apply changed_false_iff in Ec. split.
          -- intros H k' [<-|Hk]; auto.
          -- intros H k' Hk. apply H. right; exact Hk.
      + split.
        * destruct (isp k); discriminate.
        * intros H. destruct (H k (or_introl eq_refl)) as [s [C _]]. congruence.
  Qed.

  (* C02 (decision soundness): "unchanged" is reported only if every neighbour -
     dependencies, the task's own source, products - exists and equals its recorded state *)
  Theorem unchanged_sound c E dyn desel w t f :
    r_out (run_task body c E dyn desel w t f) = OSkipUnchanged ->
    force c = false /\ forall k, In k (neighbours E t) -> row_matches w t k.
  Proof.
    rt c E dyn desel w t f. destruct SP; simpl; intros; try discriminate.
    match goal with H : verdict _ _ _ _ = inr false |- _ => unfold verdict in H;
      destruct (negb (preds_exist E w t)); [discriminate|];
      destruct (force c); [discriminate|]; split; auto;
      exact (proj1 (check_loop_false _ _ _ _) H) end.
  Qed.

  Lemma preds_exist_of_match E w t :
    (forall k, In k (neighbours E t) -> row_matches w t k) -> preds_exist E w t = true.
  Proof.
    intros H. unfold preds_exist. apply forallb_forall. intros k Hk.
    destruct (H k) as [s [A _]]; [unfold neighbours; apply in_or_app; left; exact Hk|].
    rewrite A. reflexivity.
  Qed.

  Lemma any_changed_false E w t :
    (forall k, In k (neighbours E t) -> row_matches w t k) -> any_changed E w t = false.
  Proof.
    intros H. unfold any_changed. apply not_true_is_false. intros C.
    apply existsb_exists in C. destruct C as [k [Hk Hc]].
    apply H in Hk. apply changed_false_iff in Hk. congruence.
  Qed.

  (* C03 (decision completeness): with nothing changed since the recorded rows and no
     marker in the way, the task is reported unchanged and is not started *)
  Theorem unchanged_complete c E dyn desel w t f :
    force c = false ->
    skipflag t dyn desel = false -> existsb (fun b => b) (m_skipif t) = false ->
    has_dyn MAncFailed (tid t) dyn = false -> has_dyn MWould (tid t) dyn = false ->
    (forall k, In k (neighbours E t) -> row_matches w t k) ->
    run_task body c E dyn desel w t f = mkTres OSkipUnchanged w [].
  Proof.
    intros F S1 S2 S3 S4 HM.
    assert (PF : persist_fires E w t = false).
    { unfold persist_fires. rewrite (any_changed_false E w t HM). apply andb_false_r. }
    assert (V : verdict c E w t = inr false).
    { unfold verdict. rewrite (preds_exist_of_match E w t HM), F. apply check_loop_false. exact HM. }
    rt c E dyn desel w t f. destruct SP; auto; congruence.
  Qed.

  (* C08 (F32, repaired): a task that no marker keeps from running and one of whose dependencies does
     not exist fails without being started - whatever else changed, with or without --force *)
  Theorem missing_dependency_fails c E dyn desel w t f :
    reaches_check c E dyn desel w t = true -> preds_exist E w t = false ->
    run_task body c E dyn desel w t f = mkTres OFail w [].
  Proof.
    intros RC PE.
    assert (V : verdict c E w t = inl true) by (unfold verdict; rewrite PE; reflexivity).
    unfold reaches_check in RC. rewrite !andb_true_iff, !negb_true_iff in RC.
    destruct RC as [[[[A1 A2] A3] A4] A5].
    rt c E dyn desel w t f. destruct SP; auto; congruence.
  Qed.

  (* every neighbour with a state gets its row; used after SUCCESS and PERSISTENCE *)
  Theorem recorded_rows_match E w t :
    (forall k, In k (neighbours E t) -> state_of w t k <> None) ->
    forall k, In k (neighbours E t) -> row_matches (record_states E w t) t k.
  Proof.
    intros HE k Hk. specialize (HE k Hk).
    destruct (state_of w t k) as [s|] eqn:Es; [|congruence].
    exists s. split.
    - rewrite state_of_record. exact Es.
    - apply record_states_row; auto.
  Qed.

  (* C17: a persisted task whose nodes all exist and one of which changed is not
     started, the new states are recorded ... *)
  Theorem persist_spec c E dyn desel w t f :
    skipflag t dyn desel = false -> existsb (fun b => b) (m_skipif t) = false ->
    has_dyn MAncFailed (tid t) dyn = false ->
    has_dyn MWould (tid t) dyn = false ->
    m_persist t = true -> all_exist E w t = true -> any_changed E w t = true ->
    run_task body c E dyn desel w t f =
    mkTres OPersist (if dry_run c then w else record_states E w t) [].
  Proof.
    intros S1 S2 S3 SW P A Ch.
    assert (PF : persist_fires E w t = true) by (unfold persist_fires; rewrite P, A, Ch; auto).
    rt c E dyn desel w t f. destruct SP; auto; congruence.
  Qed.

  Lemma all_exist_spec E w t :
    all_exist E w t = true <-> forall k, In k (neighbours E t) -> state_of w t k <> None.
  Proof.
    unfold all_exist. rewrite forallb_forall. split; intros H k Hk; specialize (H k Hk).
    - destruct (state_of w t k); [discriminate|discriminate].
    - destruct (state_of w t k); [reflexivity|congruence].
  Qed.

  (* ... so the next (unforced) look at the same files reports it unchanged *)
  Theorem persist_then_unchanged c c' E dyn dyn' desel w t f f' :
    skipflag t dyn desel = false -> existsb (fun b => b) (m_skipif t) = false ->
    has_dyn MAncFailed (tid t) dyn = false ->
    has_dyn MWould (tid t) dyn = false ->
    m_persist t = true -> all_exist E w t = true -> any_changed E w t = true ->
    dry_run c = false ->
    force c' = false -> skipflag t dyn' desel = false ->
    has_dyn MAncFailed (tid t) dyn' = false -> has_dyn MWould (tid t) dyn' = false ->
    let w1 := r_world (run_task body c E dyn desel w t f) in
    run_task body c' E dyn' desel w1 t f' = mkTres OSkipUnchanged w1 [].
  Proof.
    intros S1 S2 S3 SW P A Ch ND F' S1' S3' S4' w1. subst w1.
    rewrite (persist_spec c E dyn desel w t f S1 S2 S3 SW P A Ch). rewrite ND. simpl.
    apply unchanged_complete; auto.
    apply recorded_rows_match. apply all_exist_spec. exact A.
  Qed.

  (* C17: with a missing product (or any missing node) the persist marker changes
     nothing: the task is treated exactly like an unmarked one *)
  Theorem persist_missing_product_irrelevant c E dyn desel w t f :
    all_exist E w t = false ->
    run_task body c E dyn desel w t f = run_task_with body false c E dyn desel w t f.
  Proof.
    intros A. unfold run_task. rewrite A, andb_false_r. reflexivity.
  Qed.

  Theorem unmarked_is_run_task_with_false c E dyn desel w t f :
    m_persist t = false ->
    run_task body c E dyn desel w t f = run_task_with body false c E dyn desel w t f.
  Proof. intros P. unfold run_task. rewrite P. reflexivity. Qed.

  Lemma missing_product_not_all_exist E w t p :
    In p (succ_nodes E t) -> p <> tid t -> lookup p (fs w) = None -> all_exist E w t = false.
  Proof.
    intros Hp Hne Hl. apply not_true_is_false. intros A.
    apply all_exist_spec with (k := p) in A.
    - unfold state_of in A. destruct (N.eqb_spec p (tid t)); congruence.
    - unfold neighbours. apply in_or_app. right. right. exact Hp.
  Qed.

  (* C03 (immediate repeat): after a success, looking at the same world again
     reports the task unchanged *)
  Theorem success_then_unchanged c c' E dyn dyn' desel w t f f' :
    r_out (run_task body c E dyn desel w t f) = OSuccess ->
    (forall k, In k (pred_nodes E t) -> lookup k (fs (r_world (run_task body c E dyn desel w t f))) <> None) ->
    (forall k, In k (succ_nodes E t) -> In k (prods t)) ->
    ~ In (tid t) (prods t) ->
    force c' = false -> skipflag t dyn' desel = false ->
    existsb (fun b => b) (m_skipif t) = false ->
    has_dyn MAncFailed (tid t) dyn' = false -> has_dyn MWould (tid t) dyn' = false ->
    let w1 := r_world (run_task body c E dyn desel w t f) in
    run_task body c' E dyn' desel w1 t f' = mkTres OSkipUnchanged w1 [].
  Proof.
    intros HS HP HSucc HT F' S1' S2' S3' S4' w1. subst w1.
    destruct (success_spec c E dyn desel w t f HS) as (_ & PE & _ & w1 & RB & RW).
    apply unchanged_complete; auto.
    rewrite RW in *. apply recorded_rows_match.
    intros k Hk. unfold neighbours in Hk. apply in_app_or in Hk.
    destruct Hk as [Hk|Hk].
    - specialize (HP k Hk). rewrite record_fs in HP. unfold state_of.
      destruct (N.eqb k (tid t)); [discriminate|exact HP].
    - destruct Hk as [<-|Hk].
      + unfold state_of. rewrite N.eqb_refl. discriminate.
      + apply HSucc in Hk. unfold state_of.
        destruct (N.eqb_spec k (tid t)) as [->|]; [contradiction|].
        unfold prods_exist in PE. rewrite forallb_forall in PE. specialize (PE k Hk).
        rewrite record_fs in PE. destruct (lookup k (fs w1)); [discriminate|discriminate].
  Qed.
End Body.
