(* Two valid batches of the same scheduler state differ only in ties: whatever the iteration
   order of the ready set (hash seed), the tasks picked by one run and not by the other have
   equal priority; with pairwise distinct priorities among the ready tasks the batch is the
   same set of tasks for every iteration order. *)
From Coq Require Import Sorting.Permutation.
From Verif Require Import Base.Prelude Model.Sorter Proofs.SorterProofs.
Local Open Scope Z_scope.

Theorem batches_differ_only_in_ties s n b1 b2 x y :
  valid_batch s n b1 -> valid_batch s n b2 ->
  In x b1 -> ~ In x b2 -> In y b2 -> ~ In y b1 -> pr s x = pr s y.
Proof.
  intros V1 V2 X1 X2 Y2 Y1.
  destruct V1 as (_ & I1 & _ & _ & T1). destruct V2 as (_ & I2 & _ & _ & T2).
  pose proof (T2 x y (I1 x X1) X2 Y2). pose proof (T1 y x (I2 y Y2) Y1 X1). lia.
Qed.

(* same length, no duplicates, one included in the other: the same set *)
Lemma incl_same_length_incl (b1 b2 : list N) :
  NoDup b1 -> NoDup b2 -> length b1 = length b2 -> incl b1 b2 -> incl b2 b1.
Proof.
  intros N1 N2 L I. apply NoDup_length_incl; auto. lia.
Qed.

(* the priority of every task of b1 missing from b2 is matched by a task of b2 missing from b1 *)
Lemma missing_has_partner (b1 b2 : list N) x :
  NoDup b1 -> NoDup b2 -> length b1 = length b2 -> In x b1 -> ~ In x b2 ->
  exists y, In y b2 /\ ~ In y b1.
Proof.
  intros N1 N2 L X1 X2.
  destruct (existsb (fun y => negb (memN y b1)) b2) eqn:E.
  - apply existsb_exists in E. destruct E as (y & Hy & Hn).
    exists y. split; auto. apply negb_true_iff, memN_false_In in Hn. exact Hn.
  - exfalso. apply X2. apply (incl_same_length_incl b2 b1); auto.
    intros y Hy. destruct (memN y b1) eqn:M.
    + apply memN_In; exact M.
    + assert (existsb (fun y => negb (memN y b1)) b2 = true) as C
        by (apply existsb_exists; exists y; rewrite M; auto).
      congruence.
Qed.

Theorem distinct_priorities_unique_batch s n b1 b2 :
  (forall x y, In x (ready s) -> In y (ready s) -> pr s x = pr s y -> x = y) ->
  valid_batch s n b1 -> valid_batch s n b2 -> forall x, In x b1 <-> In x b2.
Proof.
  intros Inj V1 V2.
  assert (forall c1 c2, valid_batch s n c1 -> valid_batch s n c2 -> incl c1 c2) as H.
  { intros c1 c2 W1 W2 x X1. destruct (memN x c2) eqn:M; [apply memN_In; exact M|].
    apply memN_false_In in M. exfalso.
    pose proof W1 as (D1 & I1 & L1 & _). pose proof W2 as (D2 & I2 & L2 & _).
    destruct (missing_has_partner c1 c2 x D1 D2 ltac:(lia) X1 M) as (y & Y2 & Y1).
    pose proof (batches_differ_only_in_ties s n c1 c2 x y W1 W2 X1 M Y2 Y1) as P.
    apply Inj in P; auto. subst. contradiction. }
  intros x. split; apply H; auto.
Qed.

(* hence: with distinct priorities the scheduler's pick does not depend on the set order *)
Corollary get_ready_order_independent s n o1 o2 :
  (forall x y, In x (ready s) -> In y (ready s) -> pr s x = pr s y -> x = y) ->
  NoDup o1 -> Permutation o1 (ready s) -> NoDup o2 -> Permutation o2 (ready s) -> (1 <= n)%nat ->
  forall x, In x (get_ready s n o1) <-> In x (get_ready s n o2).
Proof.
  intros Inj D1 P1 D2 P2 Hn.
  apply (distinct_priorities_unique_batch s n); auto; apply get_ready_valid; auto.
Qed.

Example ties_example :
  let s := mkSorter [1;2;3;4]%N [] [(1%N,1);(4%N,-1)] [] [] in
  get_ready s 2 [1;2;3;4]%N = [3;1]%N /\ get_ready s 2 [4;3;2;1]%N = [2;1]%N /\ pr s 2%N = pr s 3%N.
Proof. vm_compute. auto. Qed.
