(* The effect list refines the build: applying all effects gives the world the build returns;
   commits of a task come only after all of its writes. *)
From Verif Require Import Base.Prelude Base.Graph Model.Sorter Model.Expr Model.Engine Model.Crash.
From Verif Require Import Proofs.EngineTask.

Lemma apply_effects_app w a b : apply_effects (apply_effects w a) b = apply_effects w (a ++ b).
Proof. unfold apply_effects. rewrite fold_left_app. reflexivity. Qed.

Section E.
  Variable body : N -> N -> list N -> N -> N.

  Lemma apply_writes_gen (skip : N -> bool) (h : N -> N) ps : forall w,
    apply_effects w (flat_map (fun p => if skip p then [] else [EWrite p (h p)]) ps) =
    mkWorld (fold_left (fun m p => if skip p then m else upd p (h p) m) ps (fs w)) (db w).
  Proof.
    induction ps as [|p ps IH]; intros w; simpl.
    - destruct w; reflexivity.
    - destruct (skip p); simpl.
      + apply IH.
      + unfold apply_effects in *. simpl. rewrite IH. reflexivity.
  Qed.

  Lemma write_effects_eq w t f :
    write_effects body w t f =
    match f with
    | RaiseBefore => []
    | _ => if deps_exist w t
           then flat_map (fun p => if skipf f p then [] else [EWrite p (body (tid t) (tsrc t) (dep_values w t) p)]) (prods t)
           else []
    end.
  Proof. destruct f; reflexivity. Qed.

  Lemma apply_write_effects w t f :
    apply_effects w (write_effects body w t f) = fst (run_body body w t f).
  Proof.
    rewrite write_effects_eq, run_body_eq.
    destruct f; try (destruct w; reflexivity); destruct (deps_exist w t); try (destruct w; reflexivity);
      cbn [fst]; unfold writes; apply apply_writes_gen.
  Qed.

  Lemma apply_commits_gen (w0 : world) t ks : forall w,
    apply_effects w (flat_map (fun k => match state_of w0 t k with
                                        | Some s => [ECommit (tid t) k s] | None => [] end) ks) =
    mkWorld (fs w) (fold_left (fun d k => match state_of w0 t k with
                                          | Some s => dbupd (tid t) k s d | None => d end) ks (db w)).
  Proof.
    induction ks as [|k ks IH]; intros w; simpl.
    - destruct w; reflexivity.
    - destruct (state_of w0 t k); simpl.
      + unfold apply_effects in *. simpl. rewrite IH. reflexivity.
      + apply IH.
  Qed.

  Lemma apply_commit_effects E w t :
    apply_effects w (commit_effects E w t) = record_states E w t.
  Proof.
    unfold commit_effects, record_states. cbn [apply_effects fold_left apply_effect].
    change (fold_left apply_effect ?l ?x) with (apply_effects x l).
    rewrite apply_commits_gen. reflexivity.
  Qed.

  Lemma apply_report w t o : apply_effects w [EReport t o] = w.
  Proof. reflexivity. Qed.

  (* per task: the effects, applied in order, give the world the protocol returns *)
  Theorem task_effects_refine c E dyn desel w t f :
    apply_effects w (task_effects body c E dyn desel w t f) = r_world (run_task body c E dyn desel w t f).
  Proof.
    unfold task_effects. rewrite <- apply_effects_app, apply_report.
    pose proof (run_task_spec body c E dyn desel w t f) as SP.
    remember (run_task body c E dyn desel w t f) as r eqn:Er.
    destruct SP; simpl; try reflexivity.
    - destruct (dry_run c); [reflexivity|apply apply_commit_effects].
    - rewrite apply_write_effects. match goal with H : run_body _ _ _ _ = _ |- _ => rewrite H end. reflexivity.
    - rewrite <- apply_effects_app, apply_write_effects.
      match goal with H : run_body _ _ _ _ = _ |- _ => rewrite H end. simpl. apply apply_commit_effects.
    - rewrite apply_write_effects. match goal with H : run_body _ _ _ _ = _ |- _ => rewrite H end. reflexivity.
  Qed.

  (* rows are written only after the task function has finished and every product exists:
     in the effects of one task no write follows a commit, and commits appear only for
     SUCCESS (all products exist) and PERSISTENCE (all nodes exist) *)
  Definition is_write (e : effect) : bool := match e with EWrite _ _ => true | _ => false end.
  Definition is_commit (e : effect) : bool := match e with ECommit _ _ _ | EPurge _ _ => true | _ => false end.

  Lemma write_effects_all_writes w t f : forallb is_write (write_effects body w t f) = true.
  Proof.
    rewrite write_effects_eq. destruct f; try reflexivity; destruct (deps_exist w t); try reflexivity;
      induction (prods t) as [|p0 ps0 IH]; simpl; auto;
      match goal with |- context [if ?b then _ else _] => destruct b end; simpl; auto.
  Qed.

  Lemma commit_effects_all_commits E w t : forallb is_commit (commit_effects E w t) = true.
  Proof.
    unfold commit_effects. induction (neighbours E t) as [|k ks IH]; simpl; auto.
    destruct (state_of w t k); simpl; auto.
  Qed.

  Theorem commits_follow_writes c E dyn desel w t f pre e post :
    task_effects body c E dyn desel w t f = pre ++ e :: post ->
    is_commit e = true -> forallb (fun x => negb (is_write x)) post = true.
  Proof.
    unfold task_effects. intros H C.
    assert (G : forall (ws cs : list effect) r0, forallb is_write ws = true -> forallb is_commit cs = true ->
                (ws ++ cs) ++ [EReport (tid t) r0] = pre ++ e :: post ->
                forallb (fun x => negb (is_write x)) post = true).
    { clear H. intros ws cs r0 HW HC Heq. rewrite <- app_assoc in Heq.
      revert pre Heq. induction ws as [|x ws IH]; intros pre Heq.
      - simpl in Heq. revert pre Heq. induction cs as [|y cs IHc]; intros pre Heq.
        + destruct pre as [|a pre]; simpl in Heq; inversion Heq; subst; try discriminate.
          destruct pre; discriminate.
        + simpl in HC. apply andb_true_iff in HC. destruct HC as [Hy Hcs].
          destruct pre as [|a pre]; simpl in Heq; inversion Heq; subst.
          * rewrite forallb_app. simpl. rewrite andb_true_r.
            clear - Hcs. induction cs as [|z cs IH]; simpl in *; auto.
            apply andb_true_iff in Hcs. destruct Hcs as [Hz Hc]. rewrite IH by exact Hc.
            destruct z; simpl in *; auto; discriminate.
          * eapply IHc; eauto.
      - simpl in HW. apply andb_true_iff in HW. destruct HW as [Hx Hws].
        destruct pre as [|a pre]; simpl in Heq; inversion Heq; subst.
        + destruct e; simpl in *; discriminate.
        + eapply IH; eauto. }
    destruct (r_out (run_task body c E dyn desel w t f)).
    - eapply G; [apply write_effects_all_writes | apply commit_effects_all_commits | exact H].
    - destruct (r_events (run_task body c E dyn desel w t f)).
      + eapply (G [] []); eauto.
      + eapply (G _ []); [apply write_effects_all_writes | reflexivity |].
        rewrite app_nil_r. exact H.
    - eapply (G [] []); eauto.
    - eapply (G [] []); eauto.
    - eapply (G [] []); eauto.
    - destruct (dry_run c).
      + eapply (G [] []); eauto.
      + eapply (G []); [reflexivity | apply commit_effects_all_commits | exact H].
    - eapply (G [] []); eauto.
  Qed.
End E.

Section B.
  Variable is_word : N -> bool.
  Variable lower : list N -> list N.
  Variable body : N -> N -> list N -> N -> N.

  Lemma loop_effects_refine fuel c ts E desel faults pref : forall b,
    apply_effects (b_world b) (loop_effects body fuel c ts E desel faults pref b) =
    b_world (loop body fuel c ts E desel faults pref b).
  Proof.
    induction fuel as [|f IH]; intros b; simpl; auto.
    destruct (is_active (b_sorter b)); auto.
    destruct (step body c ts E desel faults pref b) as [[b' stop]|] eqn:S.
    - unfold step in S.
      destruct (pick (b_sorter b) pref) as [i|]; [|discriminate].
      destruct (find_task ts i) as [t|]; [|discriminate].
      injection S as Hb Hs.
      assert (W : apply_effects (b_world b) (task_effects body c E (b_dyn b) desel (b_world b) t (faults i)) = b_world b').
      { rewrite <- Hb. cbn [b_world]. apply task_effects_refine. }
      destruct stop; auto.
      rewrite <- apply_effects_app, W. apply IH.
    - destruct (pick (b_sorter b) pref) as [i|]; auto. destruct (find_task ts i); auto.
  Qed.

  (* the whole build: all effects applied = the world the build returns *)
  Theorem build_effects_refine c ts faults pref w :
    apply_effects w (build_effects is_word lower body c ts faults pref w) =
    x_world (build is_word lower body c ts faults pref w).
  Proof.
    unfold build_effects, build. destruct (create_dag is_word lower c ts) as [|E desel]; auto.
    destruct (from_dag _ _ _) as [s|]; auto. simpl.
    apply (loop_effects_refine (length ts) c ts E desel faults pref (mkB w [] [] [] 0 s)).
  Qed.

  Theorem crash_world_complete c ts faults pref w k :
    (length (build_effects is_word lower body c ts faults pref w) <= k)%nat ->
    crash_world is_word lower body k c ts faults pref w = x_world (build is_word lower body c ts faults pref w).
  Proof.
    intros L. unfold crash_world. rewrite firstn_all2 by exact L. apply build_effects_refine.
  Qed.
End B.
