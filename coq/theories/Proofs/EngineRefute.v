(* Concrete witnesses on the faithful model (unchanged tree) for statements that
   are false of the code; each is replayed against the implementation by the checks. *)
From Verif Require Import Base.Prelude Base.Graph Model.Sorter Model.Expr Model.Engine Model.EngineRun.

Definition wbuild := build (word_of []) (lower_of []) hbody.
Definition cfg0 := mkConfig false false None None None.
Definition tk (i : N) (deps prods after : list N) : task :=
  mkTask i 1000 deps prods after None false [] false 0%Z [] [].

(* F1: `after` on a task without products creates no edge: the dependant may start first *)
Definition f1_tasks := [tk 1 [] [] []; tk 2 [] [103] [1]]%N.
Lemma f1_after_ignored :
  x_log (wbuild cfg0 f1_tasks (fun _ => NoFault) [2; 1]%N (mkWorld [] [])) =
  [Start 2; Finish 2; Start 1; Finish 1]%N /\
  x_exit (wbuild cfg0 f1_tasks (fun _ => NoFault) [2; 1]%N (mkWorld [] [])) = XOk.
Proof. vm_compute. split; reflexivity. Qed.

(* with a product on the upstream task the same declaration is honoured *)
Definition f1_tasks_ok := [tk 1 [] [104] []; tk 2 [] [103] [1]]%N.
Lemma f1_after_with_product :
  x_log (wbuild cfg0 f1_tasks_ok (fun _ => NoFault) [2; 1]%N (mkWorld [] [])) =
  [Start 1; Finish 1; Start 2; Finish 2]%N.
Proof. vm_compute. reflexivity. Qed.

(* F3 (repaired in /repo): a cycle closed only through `after` is now rejected while the
   DAG is created: graph exit code, nothing runs, nothing is recorded *)
Definition f3_tasks := [tk 1 [] [101] [2]; tk 2 [101] [102] []]%N.
Lemma f3_after_cycle_exit :
  wbuild cfg0 f3_tasks (fun _ => NoFault) [] (mkWorld [] []) = mkRes XDag (mkWorld [] []) [] [].
Proof. vm_compute. reflexivity. Qed.

(* a deselected `after` target without products is not pulled in by -k *)
Definition f1k_tasks :=
  [mkTask 1 1000 [] [] [] None false [] false 0%Z [[116; 49]] [];      (* "t1" *)
   mkTask 2 1000 [] [103] [1] None false [] false 0%Z [[116; 50]] []]%N. (* "t2" *)
Lemma f1_selection_drops_after_target :
  x_reports (wbuild (mkConfig false false None (Some [116; 50]%N) None) f1k_tasks
                    (fun _ => NoFault) [1; 2]%N (mkWorld [] [])) = [(1, OSkip); (2, OSuccess)]%N.
Proof. vm_compute. reflexivity. Qed.

(* F24 (C04, known): "a task that needed to run and failed still needs to run in the next build" is
   false when the function raised only after restoring its products to the recorded content: the
   rows of the earlier successful run match again.  Task 1: 101 -> 111.  Build; 111 is edited by
   hand; build with the function raising after its writes (FAIL, code 1); build: unchanged (3). *)
Example failed_after_restoring_then_unchanged_refuted :
  let t1 := mkTask 1 1 [101%N] [111%N] [] None false [] false 0%Z [] [] in
  let cfg := mkConfig false false None None None in
  map (fun o => match o with (x, r, l, _, _, _) => (x, r, l) end)
      (run_hist [] [] [HSet 101 5; HBuild cfg [t1] [] []; HSet 111 77; HBuild cfg [t1] [(1%N, RaiseAfter)] [];
                       HBuild cfg [t1] [] []])
  = [(0, [(1, 0)], [2; 3]); (1, [(1, 1)], [2; 3]); (0, [(1, 3)], [])]%N.
Proof. vm_compute. reflexivity. Qed.
