(* Completeness of the executable closure: reachb decides Reach. *)
From Verif Require Import Base.Prelude Base.Graph.

Lemma dedupN_complete l : forall seen x, In x l -> ~ In x seen -> In x (dedupN seen l).
Proof.
  induction l as [|y r IH]; intros seen x Hx Hs; simpl in *; [tauto|].
  destruct (memN y seen) eqn:E.
  - destruct Hx as [->|Hx].
    + apply memN_In in E. contradiction.
    + apply IH; auto.
  - destruct (N.eq_dec x y) as [->|Hne]; [left; reflexivity|].
    destruct Hx as [->|Hx]; [congruence|]. right. apply IH; auto.
    intros [C|C]; [congruence | auto].
Qed.

Lemma dedupN_NoDup l : forall seen, NoDup (dedupN seen l).
Proof.
  induction l as [|y r IH]; intros seen; simpl; [constructor|].
  destruct (memN y seen); [apply IH|]. constructor; [|apply IH].
  intros C. apply dedupN_In in C. destruct C as [_ C]. apply C. left; reflexivity.
Qed.

Lemma vertices_In E u v : In (u, v) E -> In u (vertices E) /\ In v (vertices E).
Proof.
  intros H. unfold vertices. split; apply dedupN_complete; auto; apply in_or_app.
  - left. apply in_map_iff. exists (u, v); auto.
  - right. apply in_map_iff. exists (u, v); auto.
Qed.

Lemma vertices_NoDup E : NoDup (vertices E).
Proof. apply dedupN_NoDup. Qed.

Lemma Reach_target_vertex E u v : Reach E u v -> In v (vertices E).
Proof. induction 1 as [u v H|u w v H _ IH]; auto. apply (vertices_In E u v H). Qed.

Lemma Reach_source_vertex E u v : Reach E u v -> In u (vertices E).
Proof. destruct 1 as [u v H|u w v H _]; apply (vertices_In _ _ _ H). Qed.

(* the set {u} + visited is closed under successors, except for the frontier *)
Definition closed_except (E : list edge) (u : N) (frontier visited : list N) : Prop :=
  forall x, (x = u \/ In x visited) ->
            In x frontier \/ forall y, In (x, y) E -> In y visited.

Lemma NoDup_app_intro {A} (l1 l2 : list A) :
  NoDup l1 -> NoDup l2 -> (forall x, In x l2 -> ~ In x l1) -> NoDup (l1 ++ l2).
Proof.
  induction l1 as [|a l1 IH]; simpl; intros H1 H2 D; auto.
  inversion H1; subst. constructor.
  - intros C. apply in_app_or in C. destruct C as [C|C]; auto.
    apply (D a C). left; reflexivity.
  - apply IH; auto. intros x Hx C. apply (D x Hx). right; exact C.
Qed.

Lemma bfs_complete E u fuel : forall frontier visited,
  closed_except E u frontier visited ->
  NoDup visited -> incl visited (vertices E) ->
  length (vertices E) < length visited + fuel ->
  forall v, Reach E u v -> In v (bfs fuel E frontier visited).
Proof.
  induction fuel as [|f IH]; intros frontier visited CE ND INC LEN v R.
  - exfalso. pose proof (NoDup_incl_length ND INC). lia.
  - simpl. destruct (dedupN visited (flat_map (succs E) frontier)) as [|n new] eqn:EN.
    + (* fixed point: everything known is closed *)
      assert (CL : forall x, (x = u \/ In x visited) -> forall y, In (x, y) E -> In y visited).
      { intros x Hx y Hxy. destruct (CE x Hx) as [Fr|Cl]; [|eauto].
        destruct (in_dec N.eq_dec y visited) as [|Hn]; auto. exfalso.
        assert (In y (dedupN visited (flat_map (succs E) frontier))).
        { apply dedupN_complete; auto. apply in_flat_map. exists x. split; auto.
          apply succs_In. exact Hxy. }
        rewrite EN in H. exact H. }
      clear - R CL. induction R as [u v H|u w v H R IH'].
      * apply (CL u); auto.
      * apply IH'. intros x [->|Hx] y Hxy.
        -- apply (CL w); auto. right. apply (CL u); auto.
        -- apply (CL x); auto.
    + remember (n :: new) as nw eqn:Enw.
      assert (HN : forall y, In y nw -> ~ In y visited /\ exists x, In x frontier /\ In (x, y) E).
      { intros y Hy. rewrite <- EN in Hy. apply dedupN_In in Hy. destruct Hy as [Hy Hn].
        split; auto. apply in_flat_map in Hy. destruct Hy as [x [Hx Hs]].
        exists x. split; auto. apply succs_In. exact Hs. }
      apply IH; auto.
      * intros x Hx.
        destruct (in_dec N.eq_dec x nw) as [Hnw|Hnw]; [left; exact Hnw|right].
        assert (Hx' : x = u \/ In x visited).
        { destruct Hx as [->|Hx]; auto. apply in_app_or in Hx. tauto. }
        intros y Hxy. apply in_or_app.
        destruct (CE x Hx') as [Fr|Cl]; [|left; eauto].
        destruct (in_dec N.eq_dec y visited) as [|Hn]; [left; assumption|right].
        rewrite <- EN. apply dedupN_complete; auto.
        apply in_flat_map. exists x. split; auto. apply succs_In. exact Hxy.
      * apply NoDup_app_intro; auto.
        -- rewrite <- EN. apply dedupN_NoDup.
        -- intros x Hx. apply (HN x Hx).
      * intros x Hx. apply in_app_or in Hx. destruct Hx as [Hx|Hx]; auto.
        destruct (HN x Hx) as [_ [y [_ Hy]]]. apply (vertices_In E y x Hy).
      * rewrite app_length. rewrite Enw. simpl. simpl in LEN. lia.
Qed.

Theorem reachb_complete E u v : Reach E u v -> reachb E u v = true.
Proof.
  intros R. unfold reachb, descendants. apply memN_In.
  apply (bfs_complete E u); auto.
  - intros x [->|[]]. left. left. reflexivity.
  - constructor.
  - intros x [].
Qed.

Theorem reachb_iff E u v : reachb E u v = true <-> Reach E u v.
Proof. split; [apply reachb_sound | apply reachb_complete]. Qed.

Theorem reachb_trans E u w v :
  reachb E u w = true -> reachb E w v = true -> reachb E u v = true.
Proof.
  rewrite !reachb_iff. apply Reach_trans.
Qed.

Theorem has_cycle_iff E : has_cycle E = true <-> exists v, Reach E v v.
Proof.
  unfold has_cycle. rewrite existsb_exists. split.
  - intros [v [_ H]]. exists v. apply reachb_iff. exact H.
  - intros [v H]. exists v. split.
    + eapply Reach_source_vertex; eauto.
    + apply reachb_iff. exact H.
Qed.

Theorem has_cycle_false_acyclic E : has_cycle E = false -> forall v, ~ Reach E v v.
Proof.
  intros H v R. assert (has_cycle E = true) by (apply has_cycle_iff; eauto). congruence.
Qed.
