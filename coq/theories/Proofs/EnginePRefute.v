(* What is false of the unchanged code (C18), shown on the executable model and replayed on
   the implementation by the harness, and concrete runs showing the theorems are not vacuous. *)
From Verif Require Import Base.Prelude Base.Graph Model.Sorter Model.Expr Model.Engine Model.EngineRun
  Model.EngineP Model.EnginePRun.
Local Open Scope N_scope.

Definition cfg0 : config := mkConfig false false None None None.
Definition consumer9 : ptask :=
  mkPT (mkTask 4 1 [] [121] [] None false [] false 0%Z [] []) [9] [] false false.

(* the files g0,g1,g2 match pattern 9; the consumer runs; g2 is deleted; the next build *)
Definition shrink_history : list phop :=
  [PSet 10900 5; PSet 10901 6; PSet 10902 7; PBuild cfg0 [consumer9] [] [];
   PDel 10902; PBuild cfg0 [consumer9] [] []].

Definition reports_of (o : N * list (N * N) * list N * list (N * N * N) * list (N * N)) : list (N * N) :=
  match o with (_, r, _, _, _) => r end.
Definition files_of (o : N * list (N * N) * list N * list (N * N * N) * list (N * N)) : list (N * N) :=
  match o with (_, _, _, _, f) => f end.

(* F6: after the set of matching files SHRANK the consumer is reported unchanged (code 3) and
   its product still holds the value computed from three files, which differs from what the
   two remaining files give *)
Theorem shrink_refuted :
  exists o1 o2, run_phist shrink_history = [o1; o2] /\
    reports_of o1 = [(4, ocode OSuccess)] /\ reports_of o2 = [(4, ocode OSkipUnchanged)] /\
    lookup 121 (files_of o2) = Some (hbody 4 1 [5; 6; 7] 121) /\
    lookup 10902 (files_of o2) = None /\
    hbody 4 1 [5; 6; 7] 121 <> hbody 4 1 [5; 6] 121.
Proof.
  eexists. eexists. split; [vm_compute; reflexivity|]. vm_compute.
  repeat split; try reflexivity. intros H; discriminate H.
Qed.

(* growth and content changes are seen (the half of the property that holds) *)
Definition grow_history : list phop :=
  [PSet 10900 5; PSet 10901 6; PBuild cfg0 [consumer9] [] [];
   PSet 10902 7; PBuild cfg0 [consumer9] [] [];
   PSet 10901 8; PBuild cfg0 [consumer9] [] [];
   PBuild cfg0 [consumer9] [] []].

Example grow_and_change_rerun :
  map reports_of (run_phist grow_history) =
  [[(4, ocode OSuccess)]; [(4, ocode OSuccess)]; [(4, ocode OSuccess)]; [(4, ocode OSkipUnchanged)]].
Proof. vm_compute. reflexivity. Qed.

(* a producer, a consumer and a generator over the same pattern: the generator's function
   runs once, every generated task runs once, all after the producer; the next build is quiet
   except for the generator (always executed) *)
Definition producer1 : ptask :=
  mkPT (mkTask 1 1 [101] [] [] None false [] false 0%Z [] []) [] [1] false true.
Definition consumer3 : ptask :=
  mkPT (mkTask 3 1 [] [121] [] None false [] false 0%Z [] []) [1] [] false false.
Definition generator5 : ptask :=
  mkPT (mkTask 5 1 [] [] [] None false [] false 0%Z [] []) [1] [] true false.

Definition gen_history : list phop :=
  [PSet 101 6; PBuild cfg0 [generator5; consumer3; producer1] [] [];
   PBuild cfg0 [generator5; consumer3; producer1] [] []].

Definition log_of (o : N * list (N * N) * list N * list (N * N * N) * list (N * N)) : list N :=
  match o with (_, _, l, _, _) => l end.

Example generator_runs_once_children_once :
  map log_of (run_phist gen_history) =
  [[2; 3; 10; 11; 6; 7; 40200; 40201; 40202; 40203]; [10; 11]].
Proof. vm_compute. reflexivity. Qed.
