(* What is false of the unchanged code (C18), shown on the executable model and replayed on
   the implementation by the harness, and concrete runs showing the theorems are not vacuous. *)
From Verif Require Import Base.Prelude Base.Graph Model.Sorter Model.Expr Model.Engine Model.EngineRun
  Model.EngineP Model.EnginePRun.
Local Open Scope N_scope.

Definition cfg0 : config := mkConfig false false None None None.
Definition consumer9 : ptask :=
  mkPT (mkTask 4 1 [] [121] [] None false [] false 0%Z [] []) [9] [] false false.

(* the files g0,g1,g2 match pattern 9; the consumer runs; g2 is deleted; the next build *)
Definition shrink_history : list phop :=
  [PSet 10900 5; PSet 10901 6; PSet 10902 7; PBuild cfg0 [consumer9] [] [];
   PDel 10902; PBuild cfg0 [consumer9] [] []].

Definition reports_of (o : N * list (N * N) * list N * list (N * N * N) * list (N * N)) : list (N * N) :=
  match o with (_, r, _, _, _) => r end.
Definition files_of (o : N * list (N * N) * list N * list (N * N * N) * list (N * N)) : list (N * N) :=
  match o with (_, _, _, _, f) => f end.

(* F6: after the set of matching files SHRANK the consumer is reported unchanged (code 3) and
   its product still holds the value computed from three files, which differs from what the
   two remaining files give *)
Theorem shrink_refuted :
  exists o1 o2, run_phist shrink_history = [o1; o2] /\
    reports_of o1 = [(4, ocode OSuccess)] /\ reports_of o2 = [(4, ocode OSkipUnchanged)] /\
    lookup 121 (files_of o2) = Some (hbody 4 1 [5; 6; 7] 121) /\
    lookup 10902 (files_of o2) = None /\
    hbody 4 1 [5; 6; 7] 121 <> hbody 4 1 [5; 6] 121.
Proof.
  eexists. eexists. split; [vm_compute; reflexivity|]. vm_compute.
  repeat split; try reflexivity. intros H; discriminate H.
Qed.

(* growth and content changes are seen (the half of the property that holds) *)
Definition grow_history : list phop :=
  [PSet 10900 5; PSet 10901 6; PBuild cfg0 [consumer9] [] [];
   PSet 10902 7; PBuild cfg0 [consumer9] [] [];
   PSet 10901 8; PBuild cfg0 [consumer9] [] [];
   PBuild cfg0 [consumer9] [] []].

Example grow_and_change_rerun :
  map reports_of (run_phist grow_history) =
  [[(4, ocode OSuccess)]; [(4, ocode OSuccess)]; [(4, ocode OSuccess)]; [(4, ocode OSkipUnchanged)]].
Proof. vm_compute. reflexivity. Qed.

(* a producer, a consumer and a generator over the same pattern: the generator's function
   runs once, every generated task runs once, all after the producer; the next build is quiet
   except for the generator (always executed) *)
Definition producer1 : ptask :=
  mkPT (mkTask 1 1 [101] [] [] None false [] false 0%Z [] []) [] [1] false true.
Definition consumer3 : ptask :=
  mkPT (mkTask 3 1 [] [121] [] None false [] false 0%Z [] []) [1] [] false false.
Definition generator5 : ptask :=
  mkPT (mkTask 5 1 [] [] [] None false [] false 0%Z [] []) [1] [] true false.

Definition gen_history : list phop :=
  [PSet 101 6; PBuild cfg0 [generator5; consumer3; producer1] [] [];
   PBuild cfg0 [generator5; consumer3; producer1] [] []].

Definition log_of (o : N * list (N * N) * list N * list (N * N * N) * list (N * N)) : list N :=
  match o with (_, _, l, _, _) => l end.

Example generator_runs_once_children_once :
  map log_of (run_phist gen_history) =
  [[2; 3; 10; 11; 6; 7; 40200; 40201; 40202; 40203]; [10; 11]].
Proof. vm_compute. reflexivity. Qed.


(* F29 (C10): an ordinary task writes g7 into the directory of pattern 9 as a plain path product; a
   consumer of the pattern reads it.  After an edit of the writer's source file the dry run announces
   the writer (code 6) and reports the consumer unchanged (code 3) - the edge writer -> g7 -> consumer
   exists only once the consumer's pattern has been resolved, after the marker was handed out - and
   the real build that follows executes both (code 0). *)
Definition cfg_dry : config := mkConfig false true None None None.
Definition writer7 : ptask :=
  mkPT (mkTask 1 1 [101] [10907] [] None false [] false 0%Z [] []) [] [] false false.
Definition consumer9b : ptask :=
  mkPT (mkTask 2 1 [] [121] [] None false [] false 0%Z [] []) [9] [] false false.
Definition dry_pattern_history : list phop :=
  [PSet 101 5; PSet 10900 7; PBuild cfg0 [writer7; consumer9b] [] [1; 2]; PBuild cfg0 [writer7; consumer9b] [] [1; 2];
   PSet 101 6; PBuild cfg_dry [writer7; consumer9b] [] [1; 2]; PBuild cfg0 [writer7; consumer9b] [] [1; 2]].

Theorem dry_run_misses_pattern_consumer_refuted :
  map reports_of (skipn 2 (run_phist dry_pattern_history)) =
  [[(1, ocode OWould); (2, ocode OSkipUnchanged)]; [(1, ocode OSuccess); (2, ocode OSuccess)]].
Proof. vm_compute. reflexivity. Qed.

(* F30 (C17): a persist task whose product is a directory pattern fails in every build (the persist
   hook asks the provisional node for a state it does not have); its function never runs (empty
   log), also under --force; the consumer of the pattern is skipped because its predecessor failed *)
Definition cfg_force : config := mkConfig true false None None None.
Definition persist_producer : ptask :=
  mkPT (mkTask 1 1 [101] [] [] None false [] true 0%Z [] []) [] [1] false false.
Definition persist_pattern_history : list phop :=
  [PSet 101 6; PBuild cfg0 [persist_producer; consumer3] [] [1; 3]; PBuild cfg_force [persist_producer; consumer3] [] [1; 3]].

Theorem persist_pattern_producer_refuted :
  map (fun o => match o with (x, r, l, _, _) => (x, r, l) end) (run_phist persist_pattern_history) =
  [(1, [(1, ocode OFail); (3, ocode OSkipPrevFailed)], []); (1, [(1, ocode OFail); (3, ocode OSkipPrevFailed)], [])].
Proof. vm_compute. reflexivity. Qed.

(* F31 (C04): task 1 (try_first) writes g7 into the directory of pattern 9 and raises; the generator over
   pattern 9 then creates a task for g7 - created after the failure, it carries no marker and is
   executed (code 0) on the product of the failed task *)
Definition failing_writer : ptask :=
  mkPT (mkTask 1 1 [101] [10907] [] None false [] false 1%Z [] []) [] [] false false.
Definition generator9 : ptask :=
  mkPT (mkTask 4 1 [] [] [] None false [] false 0%Z [[116; 97; 115; 107; 95; 116; 52; 95]] []) [9] [] true false.
Definition late_child_history : list phop :=
  [PSet 101 5; PSet 10900 7; PBuild cfg0 [failing_writer; generator9] [(1, RaiseAfter)] [1; 4; 20900; 20907]].

Theorem late_generated_task_runs_below_failure_refuted :
  map reports_of (run_phist late_child_history) =
  [[(1, ocode OFail); (4, ocode OSuccess); (20900, ocode OSuccess); (20907, ocode OSuccess)]].
Proof. vm_compute. reflexivity. Qed.
