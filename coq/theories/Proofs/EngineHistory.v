(* C02 over whole histories.  The database rows of a task always describe ONE run of its
   function: the row of each product holds body(recorded source, recorded dependencies).
   This holds after any history of edits and builds - plain, forced, selected, dry-run, failing,
   stopped early - because rows of a task are only ever written together, right after its
   function ran (persist is the exception the property excludes).  Hence: whenever a task is
   reported unchanged, its products on disk are exactly what its function would write from the
   dependencies as they are now. *)
From Verif Require Import Base.Prelude Base.Graph Model.Sorter Model.Expr Model.Engine.
From Verif Require Import Proofs.GraphProofs Proofs.SorterProofs Proofs.EngineTask Proofs.EngineLoop
  Proofs.EngineDag Proofs.EngineBuild.

Section H.
  Variable is_word : N -> bool.
  Variable lower : list N -> list N.
  Variable body : N -> N -> list N -> N -> N.

  Notation buildf := (build is_word lower body).
  Notation cdag := (create_dag is_word lower).

  Definition rec (w : world) (t : task) (k : N) : option N := dblookup (tid t) k (db w).

  (* self-consistency of the rows of t *)
  Definition SC (w : world) (t : task) : Prop :=
    forall s dv, rec w t (tid t) = Some s -> map (rec w t) (deps t) = map Some dv ->
    forall p v, In p (prods t) -> rec w t p = Some v -> v = body (tid t) s dv p.

  (* ids of tasks and nodes are disjoint; no node is dependency and product of one task *)
  Definition wf_task (t : task) : Prop :=
    ~ In (tid t) (deps t) /\ ~ In (tid t) (prods t) /\ forall d, In d (deps t) -> ~ In d (prods t).

  (* task functions that either write all their products or raise *)
  Definition good_fault (f : fault) : Prop := match f with Omit _ => False | _ => True end.

  Definition covers_decl (E : list edge) (t : task) : Prop :=
    incl (deps t) (pred_nodes E t) /\ incl (prods t) (succ_nodes E t).

  Lemma map_Some_inj (l1 l2 : list N) : map Some l1 = map Some l2 -> l1 = l2.
  Proof.
    revert l2. induction l1 as [|a r IH]; intros [|b r2] H; simpl in H; try discriminate; auto.
    inversion H; subst. f_equal. apply IH. assumption.
  Qed.

  Lemma in_neighbours_dep E t d : covers_decl E t -> In d (deps t) -> In d (neighbours E t).
  Proof. intros [A _] H. unfold neighbours. apply in_or_app. left. apply A. exact H. Qed.

  Lemma in_neighbours_prod E t p : covers_decl E t -> In p (prods t) -> In p (neighbours E t).
  Proof.
    intros [_ B] H. unfold neighbours. apply in_or_app. right. apply in_or_app. right. apply B. exact H.
  Qed.

  Lemma in_neighbours_self E t : In (tid t) (neighbours E t).
  Proof. unfold neighbours. apply in_or_app. right. left. reflexivity. Qed.

  Lemma state_of_self w t : state_of w t (tid t) = Some (tsrc t).
  Proof. unfold state_of. rewrite N.eqb_refl. reflexivity. Qed.

  Lemma state_of_node w t k : k <> tid t -> state_of w t k = lookup k (fs w).
  Proof. intros H. unfold state_of. apply N.eqb_neq in H. rewrite H. reflexivity. Qed.

  (* right after a successful run the rows of the task are self-consistent *)
  Lemma success_sc c E dyn desel w t f :
    wf_task t -> covers_decl E t -> good_fault f ->
    r_out (run_task body c E dyn desel w t f) = OSuccess ->
    SC (r_world (run_task body c E dyn desel w t f)) t.
  Proof.
    intros (W1 & W2 & W3) CD GF H.
    destruct (success_spec body c E dyn desel w t f H) as (_ & PE & DE & w1 & RB & RW).
    rewrite RW. clear RW.
    (* the function was not disturbed *)
    assert (F : f = NoFault).
    { rewrite run_body_eq in RB. destruct f; auto; try discriminate.
      - rewrite DE in RB. discriminate.
      - destruct GF. }
    subst f.
    assert (Wdeps : forall d, In d (deps t) -> lookup d (fs w1) = lookup d (fs w)).
    { intros d Hd. pose proof (run_body_frame body w t NoFault d (W3 d Hd)) as Q.
      rewrite RB in Q. exact Q. }
    assert (Wprod : forall p, In p (prods t) -> lookup p (fs w1) = Some (body (tid t) (tsrc t) (dep_values w t) p)).
    { intros p Hp. destruct (run_body_nofault body w t p DE Hp) as [_ Q]. rewrite RB in Q. exact Q. }
    intros s dv Hs Hdv p v Hp Hv. unfold rec in *.
    rewrite (record_states_row E w1 t (tid t) (tsrc t) (in_neighbours_self E t) (state_of_self w1 t)) in Hs.
    inversion Hs; subst s; clear Hs.
    assert (Pne : p <> tid t) by (intros ->; exact (W2 Hp)).
    rewrite (record_states_row E w1 t p (body (tid t) (tsrc t) (dep_values w t) p)
               (in_neighbours_prod E t p CD Hp)) in Hv
      by (rewrite state_of_node by exact Pne; apply Wprod; exact Hp).
    inversion Hv; subst v; clear Hv.
    f_equal.
    (* the recorded dependency values are the ones the function read *)
    apply map_Some_inj. rewrite <- Hdv. unfold dep_values.
    rewrite map_map. apply map_ext_in. intros d Hd.
    assert (Dne : d <> tid t) by (intros ->; exact (W1 Hd)).
    unfold deps_exist in DE. rewrite forallb_forall in DE. specialize (DE d Hd).
    destruct (lookup d (fs w)) as [cv|] eqn:L; [|discriminate].
    symmetry. apply record_states_row; [apply in_neighbours_dep; auto|].
    rewrite state_of_node by exact Dne. rewrite Wdeps by exact Hd. exact L.
  Qed.

  (* one turn of any task preserves the self-consistency of t0's rows *)
  Lemma turn_preserves_sc c E dyn desel w t f t0 :
    (tid t = tid t0 -> t = t0) -> m_persist t0 = false ->
    wf_task t0 -> (t = t0 -> covers_decl E t0) -> good_fault f ->
    SC w t0 -> SC (r_world (run_task body c E dyn desel w t f)) t0.
  Proof.
    intros Same NP WF CD GF S.
    destruct (N.eq_dec (tid t) (tid t0)) as [Eq|Ne].
    - specialize (Same Eq). subst t0.
      destruct (r_out (run_task body c E dyn desel w t f)) eqn:O;
        try (assert (D : db (r_world (run_task body c E dyn desel w t f)) = db w)
               by (apply db_changes_only_on_success_or_persist; rewrite O; discriminate);
             unfold SC, rec in *; rewrite D; exact S).
      + apply success_sc; auto.
      + (* persist cannot fire without the marker *)
        exfalso. pose proof (run_task_spec body c E dyn desel w t f) as SP.
        remember (run_task body c E dyn desel w t f) as r. destruct SP; simpl in O; try discriminate.
        unfold persist_fires in *. rewrite NP in *. simpl in *. discriminate.
    - unfold SC, rec in *. intros s dv Hs Hdv p v Hp Hv.
      assert (R : forall k, dblookup (tid t0) k (db (r_world (run_task body c E dyn desel w t f))) = dblookup (tid t0) k (db w)).
      { intros k. apply other_rows_untouched. congruence. }
      rewrite R in Hs, Hv. eapply S; eauto.
      rewrite <- Hdv. apply map_ext. intros k. symmetry. apply R.
  Qed.

  (* ------------------------------------------------------------ the build loop *)
  Section Loop.
    Variable c : config.
    Variable ts : list task.
    Variable E : list edge.
    Variable desel : list N.
    Variable faults : N -> fault.
    Variable pref : list N.
    Variable P : world -> Prop.
    Hypothesis turn : forall w t dyn, In t ts -> P w ->
      P (r_world (run_task body c E dyn desel w t (faults (tid t)))).

    Lemma step_pres b b' st :
      step body c ts E desel faults pref b = Some (b', st) -> P (b_world b) -> P (b_world b').
    Proof.
      unfold step. intros H Pw.
      destruct (pick (b_sorter b) pref) as [i|]; [|discriminate].
      destruct (find_task ts i) as [t|] eqn:F; [|discriminate].
      inversion H; subst. cbn [b_world].
      assert (Ti : tid t = i /\ In t ts).
      { unfold find_task in F. apply find_some in F. destruct F as [A B]. apply N.eqb_eq in B. auto. }
      destruct Ti as [<- Tin]. apply turn; auto.
    Qed.

    Lemma loop_pres fuel : forall b, P (b_world b) ->
      P (b_world (loop body fuel c ts E desel faults pref b)).
    Proof.
      induction fuel as [|f IH]; intros b Pw; simpl; auto.
      destruct (is_active (b_sorter b)); auto.
      destruct (step body c ts E desel faults pref b) as [[b' [|]]|] eqn:S; auto.
      - eapply step_pres; eauto.
      - apply IH. eapply step_pres; eauto.
    Qed.
  End Loop.

  Lemma accepted_covers c ts E desel t :
    cdag c ts = DagOk E desel -> In t ts -> covers_decl E t.
  Proof.
    intros D Tin. destruct (create_dag_ok is_word lower c ts E desel D) as (_ & _ & AE & _ & -> & _).
    split; intros k Hk.
    - unfold pred_nodes. apply dedupN_complete; [|intros []]. unfold preds. apply in_map_iff.
      exists (k, tid t). split; auto. apply filter_In. split.
      + apply in_or_app. left. apply base_edges_dep; auto.
      + simpl. apply N.eqb_refl.
    - unfold succ_nodes. apply dedupN_complete; [|intros []]. unfold succs. apply in_map_iff.
      exists (tid t, k). split; auto. apply filter_In. split.
      + apply in_or_app. left. apply base_edges_prod; auto.
      + simpl. apply N.eqb_refl.
  Qed.

  (* a whole build - whatever its options, faults, schedule, outcome - preserves the
     self-consistency of the rows of t0, provided the project defines the id of t0 as t0 *)
  Theorem build_preserves_sc c ts faults pref w t0 :
    (forall t, In t ts -> tid t = tid t0 -> t = t0) -> m_persist t0 = false -> wf_task t0 ->
    (forall i, good_fault (faults i)) ->
    SC w t0 -> SC (x_world (buildf c ts faults pref w)) t0.
  Proof.
    intros Same NP WF GF S.
    pose proof (build_shape_of is_word lower body c ts faults pref w) as BS.
    destruct BS as [|E desel|E desel s0 b D F Hb]; cbn [x_world]; auto.
    subst b. apply (loop_pres c ts E desel faults pref (fun w => SC w t0)); auto.
    intros w' t dyn Tin Sw. apply turn_preserves_sc; auto.
    intros ->. eapply accepted_covers; eauto.
  Qed.

  (* C10: a dry-run build leaves the whole world - files and recorded states - as it was, for
     every project, selection, schedule, also when tasks are marked persist *)
  Theorem dry_run_world_unchanged c ts faults pref w :
    dry_run c = true -> x_world (buildf c ts faults pref w) = w.
  Proof.
    intros D.
    pose proof (build_shape_of is_word lower body c ts faults pref w) as BS.
    destruct BS as [|E desel|E desel s0 b D' F Hb]; cbn [x_world]; auto.
    subst b. apply (loop_pres c ts E desel faults pref (fun v => v = w)); auto.
    intros v t dyn _ ->. apply dry_run_world. exact D.
  Qed.

  (* ... hence any build that follows behaves exactly as if the dry run had not taken place *)
  Corollary dry_run_does_not_interfere c ts faults pref w c' ts' faults' pref' :
    dry_run c = true ->
    buildf c' ts' faults' pref' (x_world (buildf c ts faults pref w)) = buildf c' ts' faults' pref' w.
  Proof. intros D. rewrite dry_run_world_unchanged by exact D. reflexivity. Qed.

  (* ------------------------------------------------------------ histories *)
  (* a fixed catalogue of task definitions: every project of the history draws from it *)
  Variable defn : N -> option task.

  Definition project_ok (ts : list task) : Prop := forall t, In t ts -> defn (tid t) = Some t.

  Inductive hreach : world -> Prop :=
  | hr_init : hreach (mkWorld [] [])
  | hr_set w n v : hreach w -> hreach (mkWorld (upd n v (fs w)) (db w))
  | hr_del w n : hreach w -> hreach (mkWorld (del n (fs w)) (db w))
  | hr_build w c ts faults pref : hreach w -> project_ok ts -> (forall i, good_fault (faults i)) ->
      hreach (x_world (buildf c ts faults pref w)).

  (* C02: after ANY history the rows of every non-persist task are self-consistent *)
  Theorem history_sc w t0 :
    hreach w -> defn (tid t0) = Some t0 -> m_persist t0 = false -> wf_task t0 -> SC w t0.
  Proof.
    intros R D NP WF. induction R as [|w n v R IH|w n R IH|w c ts faults pref R IH PO GF].
    - intros s dv Hs. discriminate.
    - exact IH.
    - exact IH.
    - apply build_preserves_sc; auto.
      intros t Tin Eq. specialize (PO t Tin). rewrite Eq in PO. congruence.
  Qed.

  (* C02, the statement: in a world reached by any history, a task reported unchanged has, in
     every product, exactly what its function writes from the dependencies as they are now *)
  Theorem unchanged_means_up_to_date w c E dyn desel t f :
    hreach w -> defn (tid t) = Some t -> m_persist t = false -> wf_task t -> covers_decl E t ->
    r_out (run_task body c E dyn desel w t f) = OSkipUnchanged ->
    deps_exist w t = true /\
    forall p, In p (prods t) -> lookup p (fs w) = Some (body (tid t) (tsrc t) (dep_values w t) p).
  Proof.
    intros R D NP WF CD U. destruct WF as (W1 & W2 & W3).
    pose proof (history_sc w t R D NP (conj W1 (conj W2 W3))) as S.
    destruct (unchanged_sound body c E dyn desel w t f U) as [_ RM].
    assert (Rself : rec w t (tid t) = Some (tsrc t)).
    { destruct (RM _ (in_neighbours_self E t)) as [s [A B]]. rewrite state_of_self in A.
      inversion A; subst. exact B. }
    assert (Rdep : forall d, In d (deps t) -> exists v, lookup d (fs w) = Some v /\ rec w t d = Some v).
    { intros d Hd. destruct (RM _ (in_neighbours_dep E t d CD Hd)) as [s [A B]].
      rewrite state_of_node in A by (intros ->; exact (W1 Hd)). eauto. }
    assert (DE : deps_exist w t = true).
    { unfold deps_exist. apply forallb_forall. intros d Hd. destruct (Rdep d Hd) as [v [A _]]. rewrite A. reflexivity. }
    split; [exact DE|]. intros p Hp.
    destruct (RM _ (in_neighbours_prod E t p CD Hp)) as [s [A B]].
    rewrite state_of_node in A by (intros ->; exact (W2 Hp)).
    rewrite A. f_equal.
    apply (S (tsrc t) (dep_values w t) Rself); auto.
    unfold dep_values. rewrite map_map. apply map_ext_in. intros d Hd.
    destruct (Rdep d Hd) as [v [L Rv]]. rewrite L. exact Rv.
  Qed.
End H.

(* ------------------------------------------------------------------------------------
   The state a build leaves behind: every task that was executed or reported unchanged is
   "current" in the final world - its products hold what its function writes from the
   dependencies as they are at the end of the build. *)
Section Current.
  Variable is_word : N -> bool.
  Variable lower : list N -> list N.
  Variable body : N -> N -> list N -> N -> N.
  Variable c : config.
  Variable ts : list task.
  Variable faults : N -> fault.
  Variable pref : list N.
  Variable w : world.
  Variable E : list edge.
  Variable desel : list N.
  Variable s0 : sorter.
  Hypothesis HD : create_dag is_word lower c ts = DagOk E desel.
  Hypothesis HF : from_dag (task_ids ts) E (map (fun t => (tid t, tprio t)) ts) = Some s0.
  Hypothesis ND : NoDup (task_ids ts).
  Hypothesis WF : forall t, In t ts -> wf_task t.
  Hypothesis NP : forall t, In t ts -> m_persist t = false.
  Hypothesis GF : forall i, good_fault (faults i).
  Hypothesis SC0 : forall t, In t ts -> SC body w t.

  Notation stepf := (step body c ts E desel faults pref).
  Notation loopf := (fun fuel => loop body fuel c ts E desel faults pref).
  Notation LI := (LInv ts E desel s0 w).

  (* "current": what a from-scratch run of t would leave, given its dependencies *)
  Definition current (v : world) (t : task) : Prop :=
    deps_exist v t = true /\
    forall p, In p (prods t) -> lookup p (fs v) = Some (body (tid t) (tsrc t) (dep_values v t) p).

  Definition fresh_outcome (o : outcome) : Prop := o = OSuccess \/ o = OSkipUnchanged.

  Record CInv (b : bstate) : Prop := {
    ci_li : LI b;
    ci_sc : forall t, In t ts -> SC body (b_world b) t;
    ci_cur : forall t o, In t ts -> In (tid t, o) (b_reports b) -> fresh_outcome o -> current (b_world b) t
  }.

  Lemma current_frame v v' t :
    (forall k, In k (deps t) \/ In k (prods t) -> lookup k (fs v') = lookup k (fs v)) ->
    current v t -> current v' t.
  Proof.
    intros Fr [D P].
    assert (DV : dep_values v' t = dep_values v t).
    { unfold dep_values. apply map_ext_in. intros d Hd. rewrite Fr by (left; exact Hd). reflexivity. }
    split.
    - unfold deps_exist in *. rewrite forallb_forall in *. intros d Hd. rewrite Fr by (left; exact Hd). apply D; exact Hd.
    - intros p Hp. rewrite Fr by (right; exact Hp). rewrite DV. apply P; exact Hp.
  Qed.

  Lemma CInv_step b b' st : CInv b -> stepf b = Some (b', st) -> CInv b'.
  Proof.
    intros [L S C] H.
    pose proof (step_inv body c ts E desel faults pref s0 w HF ND b b' st L H) as L'.
    unfold step in H.
    destruct (pick (b_sorter b) pref) as [i|] eqn:P; [|discriminate].
    destruct (find_task ts i) as [ti|] eqn:F; [|discriminate].
    destruct (find_task_spec ts i ti F) as [Ti Tin].
    set (r := run_task body c E (b_dyn b) desel (b_world b) ti (faults i)) in *.
    inversion H; subst b' st; clear H.
    (* the picked task has not been reported *)
    assert (Hnr : ~ In i (map fst (b_reports b))).
    { pose proof (pick_valid _ _ _ P) as V. destruct V as (_ & I & _).
      assert (Hr : In i (ready (b_sorter b))) by (apply I; left; reflexivity).
      apply ready_spec in Hr. destruct Hr as [Hg _]. apply (li_gnodes _ _ _ _ _ _ L) in Hg. tauto. }
    constructor; cbn [b_world b_reports].
    - exact L'.
    - intros t Ht. subst r. rewrite <- Ti. apply turn_preserves_sc.
      + intros Eq. apply (tid_inj ts ND); auto.
      + apply NP; exact Ht.
      + apply WF; exact Ht.
      + intros _. eapply accepted_covers; eauto.
      + apply GF.
      + apply S; exact Ht.
    - intros t o Ht Hin FO. destruct Hin as [Heq|Hin].
      + (* the task that just had its turn *)
        inversion Heq as [[H1 H2]]. assert (t = ti) by (apply (tid_inj ts ND); auto; congruence). subst t.
        clear Heq. subst o.
        assert (CD : covers_decl E ti) by (eapply accepted_covers; eauto).
        destruct (WF ti Tin) as (W1 & W2 & W3).
        destruct FO as [FO|FO].
        * (* executed successfully *)
          destruct (success_spec body c E (b_dyn b) desel (b_world b) ti (faults i) FO) as (_ & PE & DE & w1 & RB & RW).
          fold r in RW. rewrite RW.
          assert (Fn : faults i = NoFault).
          { rewrite run_body_eq in RB. pose proof (GF i) as G. destruct (faults i); auto; try discriminate.
            - rewrite DE in RB. discriminate.
            - destruct G. }
          rewrite Fn in RB.
          assert (Wd : forall d, In d (deps ti) -> lookup d (fs w1) = lookup d (fs (b_world b))).
          { intros d Hd. pose proof (run_body_frame body (b_world b) ti NoFault d (W3 d Hd)) as Q. rewrite RB in Q. exact Q. }
          assert (DV : dep_values (record_states E w1 ti) ti = dep_values (b_world b) ti).
          { unfold dep_values. apply map_ext_in. intros d Hd. rewrite record_fs. rewrite Wd by exact Hd. reflexivity. }
          split.
          -- unfold deps_exist in *. rewrite forallb_forall in *. intros d Hd. rewrite record_fs, Wd by exact Hd. apply DE; exact Hd.
          -- intros p Hp. rewrite record_fs, DV.
             destruct (run_body_nofault body (b_world b) ti p DE Hp) as [_ Q]. rewrite RB in Q. exact Q.
        * (* reported unchanged: by the self-consistency of its rows *)
          assert (RWu : r_world r = b_world b).
          { pose proof (run_task_spec body c E (b_dyn b) desel (b_world b) ti (faults i)) as SP.
            fold r in SP. destruct SP; simpl in FO; try discriminate; reflexivity. }
          rewrite RWu.
          pose proof (S ti Tin) as Sti.
          destruct (unchanged_sound body c E (b_dyn b) desel (b_world b) ti (faults i) FO) as [_ RM].
          assert (Rself : rec (b_world b) ti (tid ti) = Some (tsrc ti)).
          { destruct (RM _ (in_neighbours_self E ti)) as [s [A B]]. rewrite state_of_self in A. inversion A; subst. exact B. }
          assert (Rdep : forall d, In d (deps ti) -> exists v, lookup d (fs (b_world b)) = Some v /\ rec (b_world b) ti d = Some v).
          { intros d Hd. destruct (RM _ (in_neighbours_dep E ti d CD Hd)) as [s [A B]].
            rewrite state_of_node in A by (intros ->; exact (W1 Hd)). eauto. }
          split.
          -- unfold deps_exist. apply forallb_forall. intros d Hd. destruct (Rdep d Hd) as [v [A _]]. rewrite A. reflexivity.
          -- intros p Hp. destruct (RM _ (in_neighbours_prod E ti p CD Hp)) as [s [A B]].
             rewrite state_of_node in A by (intros ->; exact (W2 Hp)). rewrite A. f_equal.
             apply (Sti (tsrc ti) (dep_values (b_world b) ti) Rself); auto.
             unfold dep_values. rewrite map_map. apply map_ext_in. intros d Hd.
             destruct (Rdep d Hd) as [v [Lk Rv]]. rewrite Lk. exact Rv.
      + (* a task reported earlier: the picked task writes none of its nodes *)
        assert (Tne : tid t <> i).
        { intros Eq. apply Hnr. rewrite <- Eq. apply in_map_iff. exists (tid t, o). auto. }
        apply (current_frame (b_world b)); [|eapply C; eauto].
        intros k Hk. subst r. apply task_footprint. intros Hp.
        destruct Hk as [Hk|Hk].
        * (* k is a dependency of t produced by ti: ti is an ancestor of t, hence reported *)
          assert (R : Reach E (tid ti) (tid t)).
          { apply (consumer_depends_on_producer is_word lower c ts E desel ti t k); auto. }
          apply in_split in Hin. destruct Hin as [l1 [l2 Hs]].
          pose proof (li_order _ _ _ _ _ _ L l1 (tid t) o l2 Hs (tid ti)) as Q.
          apply Hnr. rewrite <- Ti.
          assert (In (tid ti) (map fst l2)).
          { apply Q; auto. unfold task_ids. apply in_map. exact Tin. }
          rewrite Hs, map_app. apply in_or_app. right. right. exact H.
        * (* k is a product of both: rejected by create_dag *)
          assert (cdag : create_dag is_word lower c ts = DagErr).
          { apply (duplicate_product_rejected is_word lower c ts t ti k); auto. congruence. }
          congruence.
  Qed.

  Lemma CInv_0 : CInv (mkB w [] [] [] 0 s0).
  Proof.
    constructor; cbn [b_world b_reports].
    - apply (LInv_b0 body ts E desel faults s0 w HF ND).
    - exact SC0.
    - intros t o _ [].
  Qed.

  Lemma CInv_loop fuel : forall b, CInv b -> CInv (loopf fuel b).
  Proof.
    induction fuel as [|f IH]; intros b I; simpl; auto.
    destruct (is_active (b_sorter b)); auto.
    destruct (stepf b) as [[b' [|]]|] eqn:S; auto.
    - eapply CInv_step; eauto.
    - apply IH. eapply CInv_step; eauto.
  Qed.

  (* C02: in the world a build leaves behind, every task reported as executed or unchanged
     has in each product exactly what its function writes from its dependencies as they are
     then; the rows of all tasks stay self-consistent for the next build *)
  Theorem build_leaves_current t o :
    let r := build is_word lower body c ts faults pref w in
    In t ts -> In (tid t, o) (x_reports r) -> fresh_outcome o -> current (x_world r) t.
  Proof.
    intros r Tin Hin FO. subst r.
    pose proof (build_shape_of is_word lower body c ts faults pref w) as BS.
    destruct BS as [D|E' d' D F'|E' d' s' b D F' Hb].
    - congruence.
    - rewrite HD in D. inversion D; subst E' d'. unfold prio_list in F'. congruence.
    - rewrite HD in D. inversion D; subst E' d'. unfold prio_list in F'. rewrite HF in F'. inversion F'; subst s'.
    cbn [x_world x_reports] in *. subst b.
    pose proof (CInv_loop (length ts) _ CInv_0) as I. cbv beta in I.
    destruct I as [_ _ Cur]. apply (Cur t o Tin); auto. apply in_rev. exact Hin.
  Qed.
End Current.

(* ------------------------------------------------------------------------------------
   "... exactly the content a from-scratch build would produce": the equations
   product = function(dependencies) have one solution.  Two worlds that agree on every node no
   task produces and in which every task is current agree on every product.  [topo l]: l lists
   the tasks so that producers come before consumers (an accepted graph has such an order: the
   order in which a build reports its tasks, C01). *)
Section Unique.
  Variable body : N -> N -> list N -> N -> N.

  Definition topo (l : list task) : Prop :=
    forall l1 t l2, l = l1 ++ t :: l2 ->
    forall d u, In d (deps t) -> In u l -> In d (prods u) -> In u l1.

  Lemma produced_dec (l : list task) (k : N) :
    (exists u, In u l /\ In k (prods u)) \/ (forall u, In u l -> ~ In k (prods u)).
  Proof.
    induction l as [|a r IH].
    - right. intros u [].
    - destruct (in_dec N.eq_dec k (prods a)) as [I|I].
      + left. exists a. split; [left; reflexivity|exact I].
      + destruct IH as [[u [A B]]|H].
        * left. exists u. split; [right; exact A|exact B].
        * right. intros u [<-|Hu]; auto.
  Qed.

  Theorem current_unique (l : list task) (v1 v2 : world) :
    topo l ->
    (forall k, (forall u, In u l -> ~ In k (prods u)) -> lookup k (fs v1) = lookup k (fs v2)) ->
    (forall t, In t l -> current body v1 t /\ current body v2 t) ->
    forall t p, In t l -> In p (prods t) -> lookup p (fs v1) = lookup p (fs v2).
  Proof.
    intros T Src Cur.
    assert (G : forall l1 l2, l = l1 ++ l2 -> forall t p, In t l1 -> In p (prods t) ->
                lookup p (fs v1) = lookup p (fs v2)).
    { intros l1. induction l1 as [|t0 l1' IH] using rev_ind; intros l2 Hl t p Ht Hp; [destruct Ht|].
      rewrite <- app_assoc in Hl. simpl in Hl.
      apply in_app_or in Ht. destruct Ht as [Ht|[<-|[]]]; [eapply IH; eauto|].
      assert (Tin : In t0 l) by (rewrite Hl; apply in_or_app; right; left; reflexivity).
      destruct (Cur t0 Tin) as [[D1 P1] [D2 P2]].
      rewrite (P1 p Hp), (P2 p Hp). f_equal. f_equal.
      unfold dep_values. apply map_ext_in. intros d Hd.
      assert (Eq : lookup d (fs v1) = lookup d (fs v2)).
      { destruct (produced_dec l d) as [[u [Hu Hdu]]|Hn].
        - apply (IH (t0 :: l2) Hl u d); auto. eapply T; eauto.
        - apply Src. exact Hn. }
      rewrite Eq. reflexivity. }
    intros t p Ht Hp. apply (G l [] (eq_sym (app_nil_r l)) t p Ht Hp).
  Qed.
End Unique.
