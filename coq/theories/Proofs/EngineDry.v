(* C10, over-approximation, the local step: if the real build starts the function of a task
   whose neighbours (files and rows) look the same as they did to the dry run, the dry run
   announced that task as "would be executed".  (What the two-run induction needs per task;
   the induction over two runs in lockstep is not done - see DESIGN.md.) *)
From Verif Require Import Base.Prelude Base.Graph Model.Sorter Model.Expr Model.Engine.
From Verif Require Import Proofs.GraphProofs Proofs.SorterProofs Proofs.EngineTask.

Section D.
  Variable body : N -> N -> list N -> N -> N.

  Definition same_view (E : list edge) (w wr : world) (t : task) : Prop :=
    forall k, In k (neighbours E t) ->
      state_of wr t k = state_of w t k /\ dblookup (tid t) k (db wr) = dblookup (tid t) k (db w).

  Lemma changed_ext w wr t k :
    state_of wr t k = state_of w t k -> dblookup (tid t) k (db wr) = dblookup (tid t) k (db w) ->
    changed wr t k = changed w t k.
  Proof. intros A B. unfold changed. rewrite A, B. reflexivity. Qed.

  Lemma check_loop_ext w wr t isp ks :
    (forall k, In k ks -> state_of wr t k = state_of w t k /\ dblookup (tid t) k (db wr) = dblookup (tid t) k (db w)) ->
    check_loop wr t ks isp = check_loop w t ks isp.
  Proof.
    induction ks as [|k r IH]; intros H; simpl; auto.
    destruct (H k (or_introl eq_refl)) as [A B]. rewrite A, (changed_ext w wr t k A B).
    rewrite IH; auto. intros k' Hk'. apply H. right; exact Hk'.
  Qed.

  Lemma forallb_ext_in' {A} (g h : A -> bool) l : (forall x, In x l -> g x = h x) -> forallb g l = forallb h l.
  Proof.
    induction l as [|a r IH]; intros H; simpl; auto.
    rewrite (H a (or_introl eq_refl)), IH; auto. intros x Hx. apply H. right; exact Hx.
  Qed.

  Lemma existsb_ext_in' {A} (g h : A -> bool) l : (forall x, In x l -> g x = h x) -> existsb g l = existsb h l.
  Proof.
    induction l as [|a r IH]; intros H; simpl; auto.
    rewrite (H a (or_introl eq_refl)), IH; auto. intros x Hx. apply H. right; exact Hx.
  Qed.

  Lemma all_exist_ext E w wr t : same_view E w wr t -> all_exist E wr t = all_exist E w t.
  Proof.
    intros V. unfold all_exist. apply forallb_ext_in'. intros k Hk. destruct (V k Hk) as [A _]. rewrite A. reflexivity.
  Qed.

  Lemma preds_exist_ext E w wr t : same_view E w wr t -> preds_exist E wr t = preds_exist E w t.
  Proof.
    intros V. unfold preds_exist. apply forallb_ext_in'. intros k Hk.
    destruct (V k) as [A _]; [unfold neighbours; apply in_or_app; left; exact Hk|]. rewrite A. reflexivity.
  Qed.

  Lemma any_changed_ext E w wr t : same_view E w wr t -> any_changed E wr t = any_changed E w t.
  Proof.
    intros V. unfold any_changed. apply existsb_ext_in'. intros k Hk. destruct (V k Hk) as [A B].
    apply changed_ext; auto.
  Qed.

  Theorem dry_announces_local c cd E dyn_d dyn_r desel w wr t f :
    dry_run c = false -> dry_run cd = true -> force cd = force c ->
    skipflag t dyn_d desel = skipflag t dyn_r desel ->
    has_dyn MAncFailed (tid t) dyn_d = false ->
    same_view E w wr t ->
    r_events (run_task body c E dyn_r desel wr t f) <> [] ->
    r_out (run_task body cd E dyn_d desel w t f) = OWould.
  Proof.
    intros ND D FE SK AF V EV.
    assert (PF : persist_fires E wr t = persist_fires E w t).
    { unfold persist_fires. rewrite (all_exist_ext E w wr t V), (any_changed_ext E w wr t V). reflexivity. }
    assert (VE : verdict cd E w t = verdict c E wr t).
    { unfold verdict. rewrite FE, (preds_exist_ext E w wr t V). destruct (negb (preds_exist E w t)); auto.
      destruct (force c); auto. symmetry. apply check_loop_ext.
      intros k Hk. apply V. exact Hk. }
    pose proof (run_task_spec body c E dyn_r desel wr t f) as SR.
    remember (run_task body c E dyn_r desel wr t f) as rr eqn:Er. clear Er.
    assert (REAL : skipflag t dyn_r desel = false /\ existsb (fun b => b) (m_skipif t) = false /\
                   persist_fires E wr t = false /\ verdict c E wr t = inr true).
    { destruct SR; simpl in EV; try (exfalso; apply EV; reflexivity); auto. }
    destruct REAL as (S1 & S2 & P & VR).
    pose proof (run_task_spec body cd E dyn_d desel w t f) as SD.
    remember (run_task body cd E dyn_d desel w t f) as rd eqn:Ed. clear Ed.
    rewrite <- SK in S1. rewrite PF in P. rewrite <- VE in VR.
    destruct SD; simpl; auto; congruence.
  Qed.
End D.
