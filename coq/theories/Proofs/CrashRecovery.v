(* C05, the recovery half.  A build is killed after any prefix of its effects; the next build
   (same project, no function fails) starts from the world the kill left.  The safety half
   (Proofs/CrashSafety.v) says what that build may conclude when it LOOKS at the crash world;
   here the whole recovery build is followed: every task it reports as executed or unchanged
   has, when it ends, in each product exactly what its function writes from the dependencies
   as they are then - also the task whose rows were being committed when the process died,
   and whatever its torn rows say.

   The rows of the torn task need not be self-consistent (some are from the killed run, some
   from the run before), so the history invariant SC of EngineHistory.v is not available for
   it.  What replaces it is determinism: the torn task and all its ancestors completed their
   functions before the kill ("settled"); when the recovery build re-executes one of them it
   writes what is already there, so the torn task's dependencies are, whenever its turn comes,
   what they were when its function ran, and its products are current whether or not it runs. *)
From Verif Require Import Base.Prelude Base.Graph Model.Sorter Model.Expr Model.Engine Model.Crash.
From Verif Require Import Proofs.GraphProofs Proofs.SorterProofs Proofs.EngineTask Proofs.EngineLoop
  Proofs.EngineDag Proofs.EngineBuild Proofs.EngineHistory Proofs.CrashProofs Proofs.CrashSafety.

(* what the function of a task that does not fail leaves in a product: what was there, or the
   value computed from the dependencies *)
Lemma turn_products_nofault body c E dyn desel w t p :
  In p (prods t) ->
  let r := run_task body c E dyn desel w t NoFault in
  lookup p (fs (r_world r)) = lookup p (fs w) \/
  (deps_exist w t = true /\
   lookup p (fs (r_world r)) = Some (body (tid t) (tsrc t) (dep_values w t) p)).
Proof.
  intros Hp r. subst r.
  pose proof (run_task_spec body c E dyn desel w t NoFault) as SP.
  remember (run_task body c E dyn desel w t NoFault) as r eqn:Er. clear Er.
  assert (RB : forall w1 x, run_body body w t NoFault = (w1, x) ->
               lookup p (fs w1) = lookup p (fs w) \/
               (deps_exist w t = true /\ lookup p (fs w1) = Some (body (tid t) (tsrc t) (dep_values w t) p))).
  { intros w1 x H. destruct (deps_exist w t) eqn:DE.
    - right. split; auto. destruct (run_body_nofault body w t p DE Hp) as [_ Q]. rewrite H in Q. exact Q.
    - left. rewrite run_body_eq, DE in H. inversion H; subst. reflexivity. }
  destruct SP; cbn [r_world]; try (left; reflexivity);
    try (destruct (dry_run c); left; reflexivity);
    rewrite ?record_fs; eapply RB; eauto.
Qed.

Section Recover.
  Variable is_word : N -> bool.
  Variable lower : list N -> list N.
  Variable body : N -> N -> list N -> N -> N.
  Variable c : config.                    (* the configuration of the recovery build *)
  Variable ts : list task.
  Variable pref : list N.
  Variable v0 : world.                    (* the world the kill left *)
  Variable E : list edge.
  Variable desel : list N.
  Variable s0 : sorter.
  Hypothesis HD : create_dag is_word lower c ts = DagOk E desel.
  Hypothesis HF : from_dag (task_ids ts) E (map (fun t => (tid t, tprio t)) ts) = Some s0.
  Hypothesis ND : NoDup (task_ids ts).
  Hypothesis WF : forall t, In t ts -> wf_task t.
  Hypothesis NP : forall t, In t ts -> m_persist t = false.

  Definition nofaults : N -> fault := fun _ => NoFault.

  Variable tstar : task.                  (* the task whose rows were being committed *)
  Hypothesis Tstar : In tstar ts.

  Definition settled (u : task) : Prop := u = tstar \/ Reach E (tid u) (tid tstar).

  Hypothesis SC0 : forall t, In t ts -> t <> tstar -> SC body v0 t.
  Hypothesis CUR0 : forall u, In u ts -> settled u -> current body v0 u.

  Notation stepf := (step body c ts E desel nofaults pref).
  Notation loopf := (fun fuel => loop body fuel c ts E desel nofaults pref).
  Notation LI := (LInv ts E desel s0 v0).

  Record RInv (b : bstate) : Prop := {
    ri_li : LI b;
    ri_sc : forall t, In t ts -> t <> tstar -> SC body (b_world b) t;
    ri_set : forall u, In u ts -> settled u -> forall p, In p (prods u) ->
             lookup p (fs (b_world b)) = lookup p (fs v0);
    ri_cur : forall t o, In t ts -> In (tid t, o) (b_reports b) -> fresh_outcome o ->
             current body (b_world b) t
  }.

  (* a settled task reads only what settled tasks write, or what nobody writes *)
  Lemma settled_nodes b u :
    RInv b -> In u ts -> settled u ->
    forall k, In k (deps u) \/ In k (prods u) -> lookup k (fs (b_world b)) = lookup k (fs v0).
  Proof.
    intros [L _ S _] Hu Su k [Hk|Hk]; [|apply (S u Hu Su k Hk)].
    destruct (produced_dec ts k) as [[x [Hx Hkx]]|Hn].
    - apply (S x Hx); auto.
      assert (R : Reach E (tid x) (tid u))
        by (apply (consumer_depends_on_producer is_word lower c ts E desel x u k); auto).
      destruct Su as [->|Su]; [right; exact R|right; eapply Reach_trans; eauto].
    - apply (li_fs_frame _ _ _ _ _ _ L). intros t Ht _. apply Hn. exact Ht.
  Qed.

  Lemma settled_current b u : RInv b -> In u ts -> settled u -> current body (b_world b) u.
  Proof.
    intros I Hu Su. apply (current_frame body v0); [|apply CUR0; auto].
    apply settled_nodes; auto.
  Qed.

  Lemma RInv_step b b' st : RInv b -> stepf b = Some (b', st) -> RInv b'.
  Proof.
    intros Inv H. pose proof Inv as [L S St C].
    pose proof (step_inv body c ts E desel nofaults pref s0 v0 HF ND b b' st L H) as L'.
    unfold step in H.
    destruct (pick (b_sorter b) pref) as [i|] eqn:P; [|discriminate].
    destruct (find_task ts i) as [ti|] eqn:F; [|discriminate].
    destruct (find_task_spec ts i ti F) as [Ti Tin].
    unfold nofaults in H.
    set (r := run_task body c E (b_dyn b) desel (b_world b) ti NoFault) in *.
    inversion H; subst b' st; clear H.
    assert (Hnr : ~ In i (map fst (b_reports b))).
    { pose proof (pick_valid _ _ _ P) as V. destruct V as (_ & Iv & _).
      assert (Hr : In i (ready (b_sorter b))) by (apply Iv; left; reflexivity).
      apply ready_spec in Hr. destruct Hr as [Hg _]. apply (li_gnodes _ _ _ _ _ _ L) in Hg. tauto. }
    constructor; cbn [b_world b_reports].
    - exact L'.
    - intros t Ht Hne. subst r. apply turn_preserves_sc.
      + intros Eq. apply (tid_inj ts ND); auto.
      + apply NP; exact Ht.
      + apply WF; exact Ht.
      + intros _. eapply accepted_covers; eauto.
      + exact Logic.I.
      + apply S; auto.
    - (* settled products keep their values: another task does not write them, and the task
         itself writes what is there *)
      intros u Hu Su p Hp. rewrite <- (St u Hu Su p Hp).
      destruct (N.eq_dec (tid u) (tid ti)) as [e|ne].
      + assert (u = ti) by (apply (tid_inj ts ND); auto). subst u.
        destruct (turn_products_nofault body c E (b_dyn b) desel (b_world b) ti p Hp) as [Q|[DE Q]];
          fold r in Q; [exact Q|].
        rewrite Q. destruct (settled_current b ti Inv Tin Su) as [_ Cp]. symmetry. apply Cp. exact Hp.
      + subst r. apply task_footprint. intros Hp'.
        assert (cdag : create_dag is_word lower c ts = DagErr)
          by (apply (duplicate_product_rejected is_word lower c ts u ti p); auto).
        congruence.
    - intros t o Ht Hin FO. destruct Hin as [Heq|Hin].
      + inversion Heq as [[H1 H2]]. assert (t = ti) by (apply (tid_inj ts ND); auto; congruence). subst t.
        clear Heq. subst o.
        assert (CD : covers_decl E ti) by (eapply accepted_covers; eauto).
        destruct (WF ti Tin) as (W1 & W2 & W3).
        destruct FO as [FO|FO].
        * destruct (success_spec body c E (b_dyn b) desel (b_world b) ti NoFault FO) as (_ & PE & DE & w1 & RB & RW).
          fold r in RW. rewrite RW.
          assert (Wd : forall d, In d (deps ti) -> lookup d (fs w1) = lookup d (fs (b_world b))).
          { intros d Hd. pose proof (run_body_frame body (b_world b) ti NoFault d (W3 d Hd)) as Q. rewrite RB in Q. exact Q. }
          assert (DV : dep_values (record_states E w1 ti) ti = dep_values (b_world b) ti).
          { unfold dep_values. apply map_ext_in. intros d Hd. rewrite record_fs. rewrite Wd by exact Hd. reflexivity. }
          split.
          -- unfold deps_exist in *. rewrite forallb_forall in *. intros d Hd. rewrite record_fs, Wd by exact Hd. apply DE; exact Hd.
          -- intros p Hp. rewrite record_fs, DV.
             destruct (run_body_nofault body (b_world b) ti p DE Hp) as [_ Q]. rewrite RB in Q. exact Q.
        * assert (RWu : r_world r = b_world b).
          { pose proof (run_task_spec body c E (b_dyn b) desel (b_world b) ti NoFault) as SP.
            fold r in SP. destruct SP; simpl in FO; try discriminate; reflexivity. }
          rewrite RWu.
          destruct (N.eq_dec (tid ti) (tid tstar)) as [e|ne].
          -- (* the torn task, reported unchanged: current whatever its rows say *)
             assert (ti = tstar) by (apply (tid_inj ts ND); auto). subst ti.
             apply settled_current; auto. left; reflexivity.
          -- assert (ti <> tstar) by (intros ->; apply ne; reflexivity).
             apply (sc_match_current body E); auto.
             destruct (unchanged_sound body c E (b_dyn b) desel (b_world b) ti NoFault FO) as [_ RM]. exact RM.
      + assert (Tne : tid t <> i).
        { intros Eq. apply Hnr. rewrite <- Eq. apply in_map_iff. exists (tid t, o). auto. }
        apply (current_frame body (b_world b)); [|eapply C; eauto].
        intros k Hk. subst r. apply task_footprint. intros Hp.
        destruct Hk as [Hk|Hk].
        * assert (R : Reach E (tid ti) (tid t)).
          { apply (consumer_depends_on_producer is_word lower c ts E desel ti t k); auto. }
          apply in_split in Hin. destruct Hin as [l1 [l2 Hs]].
          pose proof (li_order _ _ _ _ _ _ L l1 (tid t) o l2 Hs (tid ti)) as Q.
          apply Hnr. rewrite <- Ti.
          assert (In (tid ti) (map fst l2)).
          { apply Q; auto. unfold task_ids. apply in_map. exact Tin. }
          rewrite Hs, map_app. apply in_or_app. right. right. exact H.
        * assert (cdag : create_dag is_word lower c ts = DagErr).
          { apply (duplicate_product_rejected is_word lower c ts t ti k); auto. congruence. }
          congruence.
  Qed.

  Lemma RInv_0 : RInv (mkB v0 [] [] [] 0 s0).
  Proof.
    constructor; cbn [b_world b_reports].
    - apply (LInv_b0 body ts E desel nofaults s0 v0 HF ND).
    - exact SC0.
    - reflexivity.
    - intros t o _ [].
  Qed.

  Lemma RInv_loop fuel : forall b, RInv b -> RInv (loopf fuel b).
  Proof.
    induction fuel as [|f IH]; intros b I; simpl; auto.
    destruct (is_active (b_sorter b)); auto.
    destruct (stepf b) as [[b' [|]]|] eqn:S; auto.
    - eapply RInv_step; eauto.
    - apply IH. eapply RInv_step; eauto.
  Qed.

  (* the recovery build: whatever it reports as executed or unchanged is current when it ends;
     the rows of every task other than the torn one stay self-consistent *)
  Theorem recovery_leaves_current t o :
    let r := build is_word lower body c ts nofaults pref v0 in
    In t ts -> In (tid t, o) (x_reports r) -> fresh_outcome o -> current body (x_world r) t.
  Proof.
    intros r Tin Hin FO. subst r.
    pose proof (build_shape_of is_word lower body c ts nofaults pref v0) as BS.
    destruct BS as [D|E' d' D F'|E' d' s' b D F' Hb].
    - congruence.
    - rewrite HD in D. inversion D; subst E' d'. unfold prio_list in F'. congruence.
    - rewrite HD in D. inversion D; subst E' d'. unfold prio_list in F'. rewrite HF in F'. inversion F'; subst s'.
      cbn [x_world x_reports] in *. subst b.
      pose proof (RInv_loop (length ts) _ RInv_0) as I. cbv beta in I.
      destruct I as [_ _ _ Cur]. apply (Cur t o Tin); auto. apply in_rev. exact Hin.
  Qed.
End Recover.

(* ------------------------------------------------------------------------------------
   The shape of a crash world: either the rows of every task are self-consistent (the kill
   fell between tasks, among the file writes of a function, or the last commit run was
   complete), or exactly one task - the one whose rows were being committed - may have torn
   rows; that task and all its ancestors have completed their functions and are current. *)
Lemma run_task_not_persist body c E dyn desel w t f :
  m_persist t = false -> r_out (run_task body c E dyn desel w t f) <> OPersist.
Proof.
  intros NP. pose proof (run_task_spec body c E dyn desel w t f) as SP.
  remember (run_task body c E dyn desel w t f) as r eqn:Er. clear Er.
  destruct SP; simpl; try discriminate.
  unfold persist_fires in *. rewrite NP in *. simpl in *. discriminate.
Qed.

Lemma current_fs body v v' t : fs v' = fs v -> current body v t -> current body v' t.
Proof. intros F. apply current_frame. intros k _. rewrite F. reflexivity. Qed.

Section Shape.
  Variable is_word : N -> bool.
  Variable lower : list N -> list N.
  Variable body : N -> N -> list N -> N -> N.
  Variable c : config.                    (* the configuration of the killed build *)
  Variable ts : list task.
  Variable faults : N -> fault.
  Variable pref : list N.
  Variable w : world.                     (* the world before the killed build *)
  Variable E : list edge.
  Variable desel : list N.
  Variable s0 : sorter.
  Hypothesis HD : create_dag is_word lower c ts = DagOk E desel.
  Hypothesis HF : from_dag (task_ids ts) E (map (fun t => (tid t, tprio t)) ts) = Some s0.
  Hypothesis ND : NoDup (task_ids ts).
  Hypothesis WF : forall t, In t ts -> wf_task t.
  Hypothesis NP : forall t, In t ts -> m_persist t = false.
  Hypothesis GF : forall i, good_fault (faults i).

  Definition torn_at (v : world) (tstar : task) : Prop :=
    In tstar ts /\
    (forall t, In t ts -> t <> tstar -> SC body v t) /\
    (forall u, In u ts -> u = tstar \/ Reach E (tid u) (tid tstar) -> current body v u).

  Definition shape (v : world) : Prop := all_sc body ts v \/ exists tstar, torn_at v tstar.

  Notation CI := (CInv body ts w E desel s0).
  Notation stepf := (step body c ts E desel faults pref).

  Definition XInv (b : bstate) : Prop :=
    CI b /\ forall i, ~ In (i, OPersist) (b_reports b).

  Lemma XInv_step b b' st : XInv b -> stepf b = Some (b', st) -> XInv b'.
  Proof.
    intros [C Npers] H. split.
    - eapply (CInv_step is_word lower body c ts faults pref w E desel s0); eauto.
    - unfold step in H.
      destruct (pick (b_sorter b) pref) as [i|] eqn:P; [|discriminate].
      destruct (find_task ts i) as [ti|] eqn:F; [|discriminate].
      destruct (find_task_spec ts i ti F) as [Ti Tin].
      inversion H; subst b' st; clear H. cbn [b_reports].
      intros j [Heq|Hin]; [|eapply Npers; eauto].
      inversion Heq as [[H1 H2]]. subst j.
      apply (run_task_not_persist body c E (b_dyn b) desel (b_world b) ti (faults i) (NP ti Tin)). exact H2.
  Qed.

  Lemma all_sc_of b : XInv b -> all_sc body ts (b_world b).
  Proof. intros [C _] t T. apply (ci_sc _ _ _ _ _ _ _ C t T). Qed.

  (* an ancestor of a task that was executed successfully was itself executed or unchanged *)
  Lemma ancestors_fresh b' t rest :
    LInv ts E desel s0 w b' -> b_reports b' = (tid t, OSuccess) :: rest ->
    (forall i, ~ In (i, OPersist) rest) ->
    forall u, In u ts -> Reach E (tid u) (tid t) -> In t ts ->
    exists ou, In (tid u, ou) rest /\ fresh_outcome ou.
  Proof.
    intros L' HR Npers u Hu R Tin.
    assert (Hin : In (tid u) (map fst rest)).
    { apply (li_order _ _ _ _ _ _ L' [] (tid t) OSuccess rest HR (tid u)); auto.
      unfold task_ids. apply in_map. exact Hu. }
    apply in_map_iff in Hin. destruct Hin as [[x ou] [Hx Hin]]. simpl in Hx. subst x.
    exists ou. split; auto.
    assert (Dt : forall x, Reach E x (tid t) -> In (tid t) (descending_tasks ts E x)).
    { intros x Rx. apply (descending_spec body ts E desel faults). split; auto.
      unfold task_ids. apply in_map. exact Tin. }
    assert (MK : forall x ox m, In (x, ox) rest -> mark_of ox = Some m -> Reach E x (tid t) -> False).
    { intros x ox m Hx Hm Rx.
      pose proof (li_out _ _ _ _ _ _ L' [] (tid t) OSuccess rest HR x ox m Hx Hm (Dt x Rx)) as Q.
      destruct m; simpl in Q; try discriminate. destruct Q; discriminate. }
    destruct ou; try (left; reflexivity); try (right; reflexivity); exfalso.
    - eapply (MK (tid u) OFail MAncFailed); eauto.
    - eapply (MK (tid u) OSkip MSkip); eauto.
    - (* skipped because an earlier task failed: that task is an ancestor as well *)
      apply in_split in Hin. destruct Hin as [l1 [l2 Hs]].
      assert (HR2 : b_reports b' = ((tid t, OSuccess) :: l1) ++ (tid u, OSkipPrevFailed) :: l2)
        by (rewrite HR, Hs; reflexivity).
      destruct (li_out_conv _ _ _ _ _ _ L' _ _ _ HR2) as [x [Hx Dx]].
      apply (descending_spec body ts E desel faults) in Dx. destruct Dx as [_ Rxu].
      apply (MK x OFail MAncFailed); auto.
      + rewrite Hs. apply in_or_app. right. right. exact Hx.
      + eapply Reach_trans; eauto.
    - eapply Npers; eauto.
    - eapply (MK (tid u) OWould MWould); eauto.
  Qed.

  (* one task's turn, cut anywhere *)
  Lemma task_prefix_shape b b' st i t n :
    XInv b -> pick (b_sorter b) pref = Some i -> find_task ts i = Some t ->
    stepf b = Some (b', st) ->
    shape (apply_effects (b_world b) (firstn n (task_effects body c E (b_dyn b) desel (b_world b) t (faults i)))).
  Proof.
    intros X P F St.
    pose proof (XInv_step b b' st X St) as [C' Npers'].
    pose proof X as [C Npers].
    destruct (find_task_spec ts i t F) as [Ti T].
    pose proof (all_sc_of b X) as S.
    set (v := b_world b) in *. set (f := faults i).
    unfold task_effects.
    set (r := run_task body c E (b_dyn b) desel v t f).
    set (A := match r_out r with
              | OPersist => if dry_run c then [] else commit_effects E v t
              | OSuccess => write_effects body v t f ++ commit_effects E (fst (run_body body v t f)) t
              | OFail => match r_events r with [] => [] | _ => write_effects body v t f end
              | _ => []
              end).
    assert (PRE : exists m, apply_effects v (firstn n (A ++ [EReport (tid t) (r_out r)])) = apply_effects v (firstn m A)).
    { destruct (Nat.le_gt_cases n (length A)) as [Le|G].
      - exists n. rewrite firstn_app. replace (n - length A)%nat with 0%nat by lia. simpl. rewrite app_nil_r. reflexivity.
      - exists (length A). rewrite firstn_all2 by (rewrite app_length; simpl; lia). rewrite firstn_all.
        rewrite <- apply_effects_app. reflexivity. }
    destruct PRE as [m ->]. clear n.
    assert (DBSC : forall v', db v' = db v -> shape v').
    { intros v' D. left. intros t' T'. apply (SC_db body v v' t' D). apply S. exact T'. }
    subst A. destruct (r_out r) eqn:O; try (rewrite firstn_nil; left; exact S).
    - (* success *)
      destruct (success_spec body c E (b_dyn b) desel v t f O) as (_ & PE & DE & w1 & RB & RW).
      rewrite RB. cbn [fst].
      rewrite firstn_app.
      destruct (Nat.le_gt_cases m (length (write_effects body v t f))) as [Le|G].
      + replace (m - length (write_effects body v t f))%nat with 0%nat by lia. simpl. rewrite app_nil_r.
        apply DBSC. apply apply_writes_db. apply firstn_forallb. apply write_effects_all_writes.
      + rewrite firstn_all2 by lia. rewrite <- apply_effects_app, apply_write_effects, RB. cbn [fst].
        set (cs := firstn (m - length (write_effects body v t f)) (commit_effects E w1 t)).
        assert (CS : forallb is_commit cs = true) by (apply firstn_forallb; apply commit_effects_all_commits).
        assert (OWN : forall e, In e cs -> owned_by t e).
        { intros e He. apply (commit_effects_owner E w1 t). eapply firstn_In'; eauto. }
        assert (FS : fs (apply_effects w1 cs) = fs w1) by (apply apply_commits_fs; exact CS).
        (* the state after the completed turn *)
        assert (Wb' : b_world b' = record_states E w1 t /\ b_reports b' = (tid t, OSuccess) :: b_reports b).
        { unfold step in St. rewrite P, F in St. fold v f r in St. inversion St; subst b'. cbn [b_world b_reports].
          rewrite O, Ti. split; [exact RW|reflexivity]. }
        destruct Wb' as [Wb' Rb'].
        assert (FS' : fs (apply_effects w1 cs) = fs (b_world b')) by (rewrite FS, Wb', record_fs; reflexivity).
        right. exists t. split; [exact T|]. split.
        * (* another task: its rows are as before the turn *)
          intros t' T' Hne.
          assert (ne : tid t' <> tid t) by (intros e; apply Hne; apply (tid_inj ts ND); auto).
          assert (Sv : SC body v t') by (apply S; exact T').
          assert (Dw : db w1 = db v).
          { pose proof (run_body_db body v t f) as Q. rewrite RB in Q. exact Q. }
          assert (R : forall k0, dblookup (tid t') k0 (db (apply_effects w1 cs)) = dblookup (tid t') k0 (db v)).
          { intros k0. rewrite (apply_commits_other t cs w1 (tid t') k0 OWN ne). rewrite Dw. reflexivity. }
          unfold SC, rec in *. intros s dv Hs Hdv p x Hp Hx.
          rewrite R in Hs, Hx.
          eapply Sv; eauto. rewrite <- Hdv. apply map_ext. intros k0. symmetry. apply R.
        * (* the task and its ancestors: current after the completed turn, and the files are those *)
          intros u Hu Su. apply (current_fs body (b_world b')); [exact FS'|].
          destruct Su as [->|Ru].
          -- apply (ci_cur _ _ _ _ _ _ _ C' t OSuccess T); [rewrite Rb'; left; reflexivity|left; reflexivity].
          -- destruct (ancestors_fresh b' t (b_reports b) (ci_li _ _ _ _ _ _ _ C') Rb' Npers u Hu Ru T) as [ou [Hin FO]].
             apply (ci_cur _ _ _ _ _ _ _ C' u ou Hu); [rewrite Rb'; right; exact Hin|exact FO].
    - (* failure: at most writes *)
      destruct (r_events r); [rewrite firstn_nil; left; exact S|].
      apply DBSC. apply apply_writes_db. apply firstn_forallb. apply write_effects_all_writes.
    - (* persist: not for these tasks *)
      exfalso. apply (run_task_not_persist body c E (b_dyn b) desel v t f (NP t T)). exact O.
  Qed.

  (* the loop, cut anywhere *)
  Lemma loop_prefix_shape fuel : forall b n,
    XInv b ->
    shape (apply_effects (b_world b) (firstn n (loop_effects body fuel c ts E desel faults pref b))).
  Proof.
    induction fuel as [|f IH]; intros b n X; cbn [loop_effects].
    - rewrite firstn_nil. left. apply all_sc_of; exact X.
    - destruct (is_active (b_sorter b)); [|rewrite firstn_nil; left; apply all_sc_of; exact X].
      destruct (pick (b_sorter b) pref) as [i|] eqn:P; [|rewrite firstn_nil; left; apply all_sc_of; exact X].
      destruct (find_task ts i) as [t|] eqn:F; [|rewrite firstn_nil; left; apply all_sc_of; exact X].
      destruct (step body c ts E desel faults pref b) as [[b' [|]]|] eqn:St;
        try (rewrite firstn_nil; left; apply all_sc_of; exact X).
      + eapply task_prefix_shape; eauto.
      + set (es := task_effects body c E (b_dyn b) desel (b_world b) t (faults i)).
        rewrite firstn_app.
        destruct (Nat.le_gt_cases n (length es)) as [Le|G].
        * replace (n - length es)%nat with 0%nat by lia. simpl. rewrite app_nil_r.
          unfold es. eapply task_prefix_shape; eauto.
        * rewrite firstn_all2 by lia. rewrite <- apply_effects_app.
          assert (W : apply_effects (b_world b) es = b_world b').
          { unfold step in St. rewrite P, F in St. injection St as Hb _. rewrite <- Hb. cbn [b_world]. apply task_effects_refine. }
          rewrite W. apply IH. eapply XInv_step; eauto.
  Qed.

  Hypothesis SCw : all_sc body ts w.

  Theorem crash_world_shape k : shape (crash_world is_word lower body k c ts faults pref w).
  Proof.
    unfold crash_world, build_effects. rewrite HD. unfold prio_list in *. rewrite HF.
    apply (loop_prefix_shape (length ts) (mkB w [] [] [] 0 s0) k). split.
    - apply (CInv_0 body ts faults w E desel s0 HF ND SCw).
    - intros i [].
  Qed.
End Shape.

(* ------------------------------------------------------------------------------------
   Kill, then recover.  [w]: any world in which the rows of every task are self-consistent
   (every world reached by edits and complete builds).  The killed build runs under
   configuration [c0] with arbitrary (good) faults and is cut after [k] effects; the recovery
   build runs under [c1] on the same project, and no function fails in it.  Both
   configurations accept the project with the same graph. *)
Theorem crash_then_recovery is_word lower body c0 c1 ts E desel0 desel1 s0 faults pref0 pref1 k w :
  create_dag is_word lower c0 ts = DagOk E desel0 ->
  create_dag is_word lower c1 ts = DagOk E desel1 ->
  from_dag (task_ids ts) E (map (fun t => (tid t, tprio t)) ts) = Some s0 ->
  NoDup (task_ids ts) ->
  (forall t, In t ts -> wf_task t) -> (forall t, In t ts -> m_persist t = false) ->
  (forall i, good_fault (faults i)) ->
  all_sc body ts w ->
  let wc := crash_world is_word lower body k c0 ts faults pref0 w in
  let r := build is_word lower body c1 ts nofaults pref1 wc in
  forall t o, In t ts -> In (tid t, o) (x_reports r) -> fresh_outcome o -> current body (x_world r) t.
Proof.
  intros HD0 HD1 HF ND WF NP GF SCw wc r t o T Hin FO.
  destruct (crash_world_shape is_word lower body c0 ts faults pref0 w E desel0 s0 HD0 HF ND WF NP GF SCw k)
    as [S|[tstar (Ts & SCo & Cur)]]; fold wc in S || fold wc in SCo, Cur.
  - apply (build_leaves_current is_word lower body c1 ts nofaults pref1 wc E desel1 s0 HD1 HF ND WF NP
             (fun _ => Logic.I) S t o T Hin FO).
  - apply (recovery_leaves_current is_word lower body c1 ts pref1 wc E desel1 s0 HD1 HF ND WF NP tstar Ts SCo Cur
             t o T Hin FO).
Qed.
