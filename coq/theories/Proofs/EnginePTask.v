(* Provisional nodes, one task at a time: what a consumer receives, and that consumers and
   generated tasks follow exactly the protocol of ordinary tasks (Engine.run_task) on the
   task obtained by resolving the patterns. *)
From Verif Require Import Base.Prelude Base.Graph Model.Sorter Model.Expr Model.Engine Model.EngineP.
From Verif Require Import Proofs.GraphProofs Proofs.SorterProofs Proofs.EngineTask.

Lemma lookup_keys k m : lookup k m <> None <-> In k (map fst m).
Proof.
  induction m as [|[k' v] r IH]; simpl.
  - split; [intros H; apply H; reflexivity | intros []].
  - destruct (N.eqb k k') eqn:E.
    + apply N.eqb_eq in E. subst. split; [auto | intros _; discriminate].
    + apply N.eqb_neq in E. rewrite IH. split; [auto | intros [C|C]; [congruence | exact C]].
Qed.

Section M.
  Variable matches : N -> N -> bool.

  Notation resolved := (resolved_deps matches).
  Notation rsv := (resolve matches).
  Notation echeck := (edges_check matches).
  Notation erecord := (edges_record matches).

  (* ---------------------------------------------------------------- sortN *)
  Lemma insN_In x l y : In y (insN x l) <-> y = x \/ In y l.
  Proof.
    induction l as [|z r IH]; simpl.
    - split; [intros [H|[]]; auto | intros [H|[]]; auto].
    - destruct (x <? z)%N eqn:L; simpl.
      + split; [intros [H|H]; auto | intros [H|H]; auto].
      + destruct (x =? z)%N eqn:Q; simpl.
        * apply N.eqb_eq in Q. subst. split; [auto | intros [->|H]; auto].
        * rewrite IH. split; [intros [H|[H|H]]; auto | intros [H|[H|H]]; auto].
  Qed.

  Lemma sortN_In l y : In y (sortN l) <-> In y l.
  Proof.
    induction l as [|x r IH]; simpl; [tauto|]. rewrite insN_In, IH. split; intros [H|H]; auto.
  Qed.

  Definition lt_all (x : N) (l : list N) : Prop := forall y, In y l -> (x < y)%N.

  Inductive incr : list N -> Prop :=
  | incr_nil : incr []
  | incr_cons x l : lt_all x l -> incr l -> incr (x :: l).

  Lemma insN_incr x l : incr l -> incr (insN x l).
  Proof.
    induction 1 as [|z r Hz Hr IH]; simpl.
    - constructor; [intros y []|constructor].
    - destruct (x <? z)%N eqn:L.
      + apply N.ltb_lt in L. constructor; [|constructor; auto].
        intros y [<-|Hy]; auto. specialize (Hz y Hy). lia.
      + destruct (x =? z)%N eqn:Q; [constructor; auto|].
        apply N.ltb_ge in L. apply N.eqb_neq in Q. constructor; auto.
        intros y Hy. apply insN_In in Hy. destruct Hy as [->|Hy]; [lia | auto].
  Qed.

  Lemma sortN_incr l : incr (sortN l).
  Proof. induction l as [|x r IH]; simpl; [constructor | apply insN_incr; exact IH]. Qed.

  Lemma incr_NoDup l : incr l -> NoDup l.
  Proof.
    induction 1 as [|x l Hx Hl IH]; constructor; auto.
    intros C. specialize (Hx x C). lia.
  Qed.

  (* ------------------------------------------------- what a consumer receives *)
  Lemma matching_spec w ps f :
    In f (matching matches w ps) <->
    In f (map fst (fs w)) /\ exists p, In p ps /\ matches p f = true.
  Proof.
    unfold matching. rewrite in_map_iff. split.
    - intros [[k v] [<- H]]. apply filter_In in H. destruct H as [H1 H2]. simpl in *.
      split; [apply in_map_iff; exists (k, v); auto|].
      apply existsb_exists in H2. exact H2.
    - intros [H1 H2]. apply in_map_iff in H1. destruct H1 as [[k v] [<- H1]].
      exists (k, v). split; auto. apply filter_In. split; auto. apply existsb_exists. exact H2.
  Qed.

  (* C18: the dependencies of the resolved task are the declared ones plus EXACTLY the files
     that exist and match one of its patterns in the world in which the task is set up *)
  Theorem resolved_exact w t f :
    In f (resolved w t) <->
    lookup f (fs w) <> None /\ exists p, In p (pdeps t) /\ matches p f = true.
  Proof. unfold resolved_deps. rewrite sortN_In, matching_spec, lookup_keys. tauto. Qed.

  Theorem resolved_nodup w t : NoDup (resolved w t).
  Proof. apply incr_NoDup, sortN_incr. Qed.

  Theorem resolve_deps w t : deps (rsv w t) = deps (base t) ++ resolved w t.
  Proof. reflexivity. Qed.

  Theorem resolve_rest w t :
    tid (rsv w t) = tid (base t) /\ tsrc (rsv w t) = tsrc (base t) /\ prods (rsv w t) = prods (base t) /\
    m_skip (rsv w t) = m_skip (base t) /\ m_persist (rsv w t) = m_persist (base t).
  Proof. repeat split. Qed.

  (* without patterns nothing changes *)
  Lemma sortN_nil : sortN [] = []. Proof. reflexivity. Qed.

  Lemma matching_nil w : matching matches w [] = [].
  Proof.
    unfold matching. induction (fs w) as [|kv r IH]; simpl; auto.
  Qed.

  Lemma filter_all {A} (g : A -> bool) l : (forall x, In x l -> g x = true) -> filter g l = l.
  Proof.
    induction l as [|x r IH]; simpl; intros H; auto.
    rewrite (H x (or_introl eq_refl)). f_equal. apply IH. intros y Hy. apply H. right; exact Hy.
  Qed.

  Lemma edges_check_plain E w t : pdeps t = [] -> pprods t = [] -> echeck E w t = E.
  Proof.
    intros Hd Hp. unfold edges_check, resolved_deps. rewrite Hd, Hp, matching_nil. simpl.
    rewrite app_nil_r. apply filter_all. intros e _. rewrite !andb_false_r. reflexivity.
  Qed.

  Lemma edges_record_consumer E w w1 t : pprods t = [] -> erecord E w w1 t = echeck E w t.
  Proof.
    intros Hp. unfold edges_record. rewrite Hp, matching_nil. simpl. apply app_nil_r.
  Qed.

End M.

Section S.
  Variable matches : N -> N -> bool.
  Variable body : N -> N -> list N -> N -> N.
  Variable dyn_files : task -> list N -> list N.
  Variable children : task -> list N -> list ptask.

  Notation resolved := (resolved_deps matches).
  Notation rsv := (resolve matches).
  Notation echeck := (edges_check matches).
  Notation erecord := (edges_record matches).
  Notation rpt := (run_ptask matches body dyn_files children).

  (* ------------------------------------------------- refinement to Engine.run_task *)
  Definition pres_of (r : tres) : pres := mkPres (r_out r) (r_world r) (r_events r) [].

  Lemma run_pbody_consumer w t f :
    pprods t = [] -> clears t = false ->
    run_pbody matches body dyn_files w t (rsv w t) f = run_body body w (rsv w t) f.
  Proof.
    intros Hp Hc. unfold run_pbody, run_body. rewrite Hp, Hc. rewrite app_nil_r. reflexivity.
  Qed.

  (* C18 ("under the same incremental rules as ordinary tasks"): a task that consumes patterns
     and produces none goes through exactly the protocol of an ordinary task - the one whose
     dependencies are the resolved files, in the graph where its pattern nodes are replaced
     by them *)
  Theorem consumer_is_ordinary c E dyn desel w t f :
    is_gen t = false -> pprods t = [] -> clears t = false ->
    rpt c E dyn desel w t f = pres_of (run_task body c (echeck E w t) dyn desel w (rsv w t) f).
  Proof.
    intros Hg Hp Hc. unfold run_ptask, run_task, run_task_with. rewrite Hg.
    rewrite !(edges_record_consumer matches _ _ _ _ Hp). rewrite (run_pbody_consumer _ _ _ Hp Hc).
    cbn [negb andb orb]. rewrite Hp, andb_false_r.
    set (rt := rsv w t). set (Ec := echeck E w t).
    destruct (m_skip rt || has_dyn MSkip (tid rt) dyn || memN (tid rt) desel); [reflexivity|].
    destruct (existsb (fun b => b) (m_skipif rt)); [reflexivity|].
    destruct (has_dyn MAncFailed (tid rt) dyn); [reflexivity|].
    destruct (has_dyn MWould (tid rt) dyn); [reflexivity|].
    destruct (m_persist rt && all_exist Ec w rt && any_changed Ec w rt); [reflexivity|].
    rewrite andb_true_r.
    destruct (if negb (preds_exist Ec w rt) then inl true
              else if force c then inr true else check_loop w rt (neighbours Ec rt) _) as [x|[|]]; try reflexivity.
    destruct (dry_run c); [reflexivity|].
    destruct (run_body body w rt f) as [w1 raised]. destruct raised; [reflexivity|].
    rewrite (edges_record_consumer matches E w w1 t Hp).
    destruct (forallb _ (prods rt)); reflexivity.
  Qed.

  (* ... and a task without any provisional node - every generated task of the harness, every
     ordinary task of a project that also has provisional nodes - is Engine.run_task itself *)
  Theorem plain_is_ordinary c E dyn desel w t f :
    is_gen t = false -> pdeps t = [] -> pprods t = [] -> clears t = false ->
    rpt c E dyn desel w t f = pres_of (run_task body c E dyn desel w (rsv w t) f).
  Proof.
    intros Hg Hd Hp Hc. rewrite consumer_is_ordinary; auto. rewrite edges_check_plain; auto.
  Qed.

  (* the resolved files are neighbours that the change check looks at *)
  Lemma resolved_are_neighbours E w t f :
    In f (resolved w t) -> In f (neighbours (echeck E w t) (rsv w t)).
  Proof.
    intros H. unfold neighbours. apply in_or_app. left. unfold pred_nodes.
    apply dedupN_complete; [|intros []]. unfold preds. apply in_map_iff.
    exists (f, tid (base t)). split; [reflexivity|]. apply filter_In. split.
    - unfold edges_check. apply in_or_app. right. apply in_map_iff. exists f. split; auto.
    - simpl. apply N.eqb_refl.
  Qed.

  (* C18 ("executed again whenever that set of files or their content changes", the half that
     holds): a consumer is reported unchanged only if EVERY file matching now has a recorded
     state equal to its present content - a file that appeared, or whose content differs from
     what was recorded, forces execution *)
  Theorem unchanged_consumer_sound c E dyn desel w t f :
    is_gen t = false -> pprods t = [] -> clears t = false ->
    p_out (rpt c E dyn desel w t f) = OSkipUnchanged ->
    forall g, In g (resolved w t) -> g <> tid (base t) ->
      exists s, lookup g (fs w) = Some s /\ dblookup (tid (base t)) g (db w) = Some s.
  Proof.
    intros Hg Hp Hc H g Hin Hne. rewrite consumer_is_ordinary in H; auto. simpl in H.
    apply unchanged_sound in H. destruct H as [_ H].
    specialize (H g (resolved_are_neighbours E w t g Hin)).
    destruct H as [s [H1 H2]]. exists s. split; auto.
    unfold state_of in H1. apply N.eqb_neq in Hne. simpl in H1. rewrite Hne in H1. exact H1.
  Qed.

  (* contrapositive, as the property words it *)
  Corollary new_or_changed_file_forces_execution c E dyn desel w t f g :
    is_gen t = false -> pprods t = [] -> clears t = false ->
    In g (resolved w t) -> g <> tid (base t) ->
    dblookup (tid (base t)) g (db w) <> lookup g (fs w) ->
    p_out (rpt c E dyn desel w t f) <> OSkipUnchanged.
  Proof.
    intros Hg Hp Hc Hin Hne Hd H.
    destruct (unchanged_consumer_sound c E dyn desel w t f Hg Hp Hc H g Hin Hne) as [s [A B]].
    congruence.
  Qed.

  (* a successful consumer wrote, into every product, the value computed from the declared
     dependencies followed by the matching files in increasing order *)
  Theorem consumer_success_spec c E dyn desel w t f :
    is_gen t = false -> pprods t = [] -> clears t = false ->
    p_out (rpt c E dyn desel w t f) = OSuccess ->
    p_events (rpt c E dyn desel w t f) = [Start (tid (base t)); Finish (tid (base t))] /\
    forall p, In p (prods (base t)) -> lookup p (fs (p_world (rpt c E dyn desel w t f))) <> None.
  Proof.
    intros Hg Hp Hc H. rewrite consumer_is_ordinary in *; auto. simpl in *.
    destruct (success_spec body c (echeck E w t) dyn desel w (rsv w t) f H) as (A & B & _ & _).
    split; [exact A|]. intros p Hin. unfold prods_exist in B.
    rewrite forallb_forall in B. specialize (B p Hin). simpl in B.
    destruct (lookup p (fs (r_world (run_task body c (echeck E w t) dyn desel w (rsv w t) f)))); [discriminate|discriminate B].
  Qed.
End S.
