(* Entry points used by the correspondence check for Model/Expr.v. *)
From Verif Require Import Base.Prelude Model.Expr.

(* candidate identifiers: maximal runs of characters other than blank, tab and
   parentheses, first occurrences, at most 4 (the harness computes the same) *)
Definition is_sepc (c : N) : bool := memN c [32; 9; 40; 41]%N.

Fixpoint runs (cur : list N) (s : list N) : list (list N) :=
  match s with
  | [] => match cur with [] => [] | _ => [rev cur] end
  | c :: r => if is_sepc c
              then match cur with [] => runs [] r | _ => rev cur :: runs [] r end
              else runs (c :: cur) r
  end.

Fixpoint dedupe (seen : list (list N)) (l : list (list N)) : list (list N) :=
  match l with
  | [] => []
  | x :: r => if memL x seen then dedupe seen r else x :: dedupe (x :: seen) r
  end.

Definition cand_ids (s : list N) : list (list N) := firstn 4 (dedupe [] (runs [] s)).

Fixpoint index_of (x : list N) (l : list (list N)) (i : nat) : option nat :=
  match l with
  | [] => None
  | y :: r => if eqbL x y then Some i else index_of x r (S i)
  end.

(* assignment number [k]: identifier j is true iff bit j of k is set *)
Definition matcher_of (ids : list (list N)) (k : N) (s : list N) : bool :=
  match index_of s ids 0 with
  | Some j => N.testbit k (N.of_nat j)
  | None => false
  end.

Fixpoint tt_bits (ids : list (list N)) (a : ast) (n : nat) (k : N) : N :=
  match n with
  | O => 0
  | S n' => ((if eval (matcher_of ids k) a then N.shiftl 1 k else 0) + tt_bits ids a n' (k + 1))%N
  end.

(* 0 = rejected, 1 = out of fuel (never), 2 + truth table otherwise *)
Definition code_ids (is_word : N -> bool) (ids : list (list N)) (s : list N) : N :=
  match compile is_word s with
  | Err _ => 0
  | Fuel => 1
  | Ok a => (2 + tt_bits ids a (Nat.pow 2 (length ids)) 0)%N
  end.

Definition code (extra : list N) (s : list N) : N :=
  code_ids (word_of extra) (cand_ids s) s.

(* error column as Python reports it for lexical errors; 0 otherwise *)
Definition lex_err_col (extra : list N) (s : list N) : nat :=
  match lex (word_of extra) s with Err p => p | _ => 0 end.

(* all concatenations of exactly n lexemes, first lexeme major *)
Fixpoint seqs (alpha : list (list N)) (n : nat) : list (list N) :=
  match n with
  | O => [[]]
  | S n' => flat_map (fun a => map (app a) (seqs alpha n')) alpha
  end.

Definition mix (h c : N) : N := ((h * 1000003 + c + 1) mod 2305843009213693951)%N.

Definition digest (extra : list N) (l : list (list N)) : N :=
  fold_left (fun h s => mix h (code extra s)) l 0%N.

(* digest of the block "prefix ++ (all sequences of n lexemes)" *)
Definition block_digest (extra : list N) (alpha : list (list N)) (prefix : list N) (n : nat) : N :=
  digest extra (map (app prefix) (seqs alpha n)).

Definition block_codes (extra : list N) (alpha : list (list N)) (prefix : list N) (n : nat) : list N :=
  map (fun s => code extra (prefix ++ s)) (seqs alpha n).

(* end-to-end matcher runs: 0 rejected, 1 fuel, 2 false, 3 true *)
Definition res_code (r : res bool) : N :=
  match r with Err _ => 0 | Fuel => 1 | Ok false => 2 | Ok true => 3 end.

Definition run_k (extra : list N) (lt : list (N * list N)) (names : list (list N)) (s : list N) : N :=
  res_code (select_k (word_of extra) (lower_of lt) names s).

Definition run_m (extra : list N) (marks : list (list N)) (s : list N) : N :=
  res_code (select_m (word_of extra) marks s).
