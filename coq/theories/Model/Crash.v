(* The effects of a build, one by one: every file write of a task function and every
   database commit (update_states_in_database commits one row at a time).  A process that
   is killed has performed a prefix of this list. *)
From Verif Require Import Base.Prelude Base.Graph Model.Sorter Model.Expr Model.Engine.

Inductive effect :=
| EWrite (n c : N)              (* Path.write_text finished for product n *)
| ECommit (t k s : N)           (* row (t, k) := s committed *)
| EPurge (t : N) (ks : list N)  (* rows (t, k) with k outside ks deleted, committed (F28) *)
| EReport (t : N) (o : outcome) (* the task's report has been logged *).

Definition apply_effect (w : world) (e : effect) : world :=
  match e with
  | EWrite n c => mkWorld (upd n c (fs w)) (db w)
  | ECommit t k s => mkWorld (fs w) (dbupd t k s (db w))
  | EPurge t ks => mkWorld (fs w) (dbpurge t ks (db w))
  | EReport _ _ => w
  end.

Definition apply_effects (w : world) (es : list effect) : world := fold_left apply_effect es w.

Section Eff.
  Variable body : N -> N -> list N -> N -> N.

  Definition write_effects (w : world) (t : task) (f : fault) : list effect :=
    match f with
    | RaiseBefore => []
    | _ =>
      if forallb (fun d => match lookup d (fs w) with Some _ => true | None => false end) (deps t)
      then
        let dv := map (fun d => match lookup d (fs w) with Some c => c | None => 0%N end) (deps t) in
        let skip p := match f with Omit ps => memN p ps | _ => false end in
        flat_map (fun p => if skip p then [] else [EWrite p (body (tid t) (tsrc t) dv p)]) (prods t)
      else []
    end.

  Definition commit_effects (E : list edge) (w : world) (t : task) : list effect :=
    EPurge (tid t) (neighbours E t) ::
    flat_map (fun k => match state_of w t k with
                       | Some s => [ECommit (tid t) k s]
                       | None => [] end) (neighbours E t).

  (* the effects of the protocol for one task, in order *)
  Definition task_effects (c : config) (E : list edge) (dyn : list (N * dynmark)) (desel : list N)
             (w : world) (t : task) (f : fault) : list effect :=
    let r := run_task body c E dyn desel w t f in
    match r_out r with
    | OPersist => if dry_run c then [] else commit_effects E w t
    | OSuccess =>
      let w1 := fst (run_body body w t f) in
      write_effects w t f ++ commit_effects E w1 t
    | OFail =>
      match r_events r with
      | [] => []
      | _ => write_effects w t f
      end
    | _ => []
    end ++ [EReport (tid t) (r_out r)].
End Eff.

Section BuildEff.
  Variable is_word : N -> bool.
  Variable lower : list N -> list N.
  Variable body : N -> N -> list N -> N -> N.

  Fixpoint loop_effects (fuel : nat) (c : config) (ts : list task) (E : list edge) (desel : list N)
           (faults : N -> fault) (pref : list N) (b : bstate) : list effect :=
    match fuel with
    | O => []
    | S f =>
      if is_active (b_sorter b) then
        match pick (b_sorter b) pref with
        | None => []
        | Some i =>
          match find_task ts i with
          | None => []
          | Some t =>
            let es := task_effects body c E (b_dyn b) desel (b_world b) t (faults i) in
            match step body c ts E desel faults pref b with
            | Some (b', true) => es
            | Some (b', false) => es ++ loop_effects f c ts E desel faults pref b'
            | None => []
            end
          end
        end
      else []
    end.

  Definition build_effects (c : config) (ts : list task) (faults : N -> fault) (pref : list N) (w : world)
    : list effect :=
    match create_dag is_word lower c ts with
    | DagErr => []
    | DagOk E desel =>
      match from_dag (task_ids ts) E (map (fun t => (tid t, tprio t)) ts) with
      | None => []
      | Some s => loop_effects (length ts) c ts E desel faults pref (mkB w [] [] [] 0 s)
      end
    end.

  (* the world a process leaves behind when it is killed after k effects *)
  Definition crash_world (k : nat) (c : config) (ts : list task) (faults : N -> fault) (pref : list N) (w : world)
    : world :=
    apply_effects w (firstn k (build_effects c ts faults pref w)).
End BuildEff.
