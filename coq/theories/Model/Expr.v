(* Model of src/_pytask/mark/expression.py and the two matchers of
   src/_pytask/mark/__init__.py.  Characters are code points (N); strings are
   lists of code points.  [is_word] (regex \w) and [lower] (str.lower) are
   parameters: the theorems hold for every choice, the correspondence check
   instantiates them with tables read off CPython. *)
From Verif Require Import Base.Prelude.

Inductive tok := LP | RP | OR | AND | NOT | ID (s : list N).

Inductive ast :=
| AFalse
| AId (s : list N)
| ANot (a : ast)
| AAnd (a b : ast)
| AOr (a b : ast).

Inductive res (A : Type) := Ok (x : A) | Err (pos : nat) | Fuel.
Arguments Ok {A} x. Arguments Err {A} pos. Arguments Fuel {A}.

(* ---------------------------------------------------------------- lexer *)

Definition ws_chars : list N := [32; 9]%N.                 (* " ", "\t" *)
Definition lparen : N := 40%N.
Definition rparen : N := 41%N.
(* : + - . [ ] / \ *)
Definition ident_punct : list N := [58; 43; 45; 46; 91; 93; 47; 92]%N.

Definition kw_or : list N := [111; 114]%N.
Definition kw_and : list N := [97; 110; 100]%N.
Definition kw_not : list N := [110; 111; 116]%N.

Section Lexer.
  Variable is_word : N -> bool.

  Definition is_ident_char (c : N) : bool := is_word c || memN c ident_punct.

  Definition classify (s : list N) : tok :=
    if eqbL s kw_or then OR
    else if eqbL s kw_and then AND
    else if eqbL s kw_not then NOT
    else ID s.

  (* Separators, tested before the identifier regex as in Scanner.lex:
     Some None = whitespace, Some (Some t) = parenthesis token. *)
  Definition sep_tok (c : N) : option (option tok) :=
    if memN c ws_chars then Some None
    else if N.eqb c lparen then Some (Some LP)
    else if N.eqb c rparen then Some (Some RP)
    else None.

  (* [acc] is the identifier being scanned, reversed. Tokens carry the 0-based
     position of their first character. *)
  Definition flush (acc : list N) (pos : nat) (k : list (tok * nat)) : list (tok * nat) :=
    match acc with
    | [] => k
    | _ => (classify (rev acc), pos - length acc) :: k
    end.

  Definition push_sep (st : option tok) (pos : nat) (k : list (tok * nat)) :=
    match st with Some t => (t, pos) :: k | None => k end.

  Fixpoint lex_aux (acc : list N) (pos : nat) (s : list N) : res (list (tok * nat)) :=
    match s with
    | [] => Ok (flush acc pos [])
    | c :: r =>
      match sep_tok c with
      | Some st =>
        match lex_aux [] (S pos) r with
        | Ok k => Ok (flush acc pos (push_sep st pos k))
        | e => e
        end
      | None =>
        if is_ident_char c then lex_aux (c :: acc) (S pos) r else Err (S pos)
      end
    end.

  Definition lex (s : list N) : res (list (tok * nat)) := lex_aux [] 0 s.
End Lexer.

(* --------------------------------------------------------------- parser *)
(* The token list has no explicit EOF token: "current token is EOF" is the
   empty list.  Positions are dropped before parsing; [err_pos] recovers the
   column for the error message (Python reports current.pos + 1). *)

Definition R := res (ast * list tok).

Fixpoint p_expr (f : nat) (ts : list tok) : R :=
  match f with
  | O => Fuel
  | S f =>
    match p_and f ts with
    | Ok (a, r) => p_or_loop f a r
    | e => e
    end
  end
with p_or_loop (f : nat) (acc : ast) (ts : list tok) : R :=
  match f with
  | O => Fuel
  | S f =>
    match ts with
    | OR :: r =>
      match p_and f r with
      | Ok (b, r') => p_or_loop f (AOr acc b) r'
      | e => e
      end
    | _ => Ok (acc, ts)
    end
  end
with p_and (f : nat) (ts : list tok) : R :=
  match f with
  | O => Fuel
  | S f =>
    match p_not f ts with
    | Ok (a, r) => p_and_loop f a r
    | e => e
    end
  end
with p_and_loop (f : nat) (acc : ast) (ts : list tok) : R :=
  match f with
  | O => Fuel
  | S f =>
    match ts with
    | AND :: r =>
      match p_not f r with
      | Ok (b, r') => p_and_loop f (AAnd acc b) r'
      | e => e
      end
    | _ => Ok (acc, ts)
    end
  end
with p_not (f : nat) (ts : list tok) : R :=
  match f with
  | O => Fuel
  | S f =>
    match ts with
    | NOT :: r =>
      match p_not f r with
      | Ok (a, r') => Ok (ANot a, r')
      | e => e
      end
    | LP :: r =>
      match p_expr f r with
      | Ok (a, RP :: r') => Ok (a, r')
      | Ok (_, r') => Err (length r')
      | e => e
      end
    | ID s :: r => Ok (AId s, r)
    | _ => Err (length ts)
    end
  end.

(* Errors of the parser carry the number of tokens *remaining* at the point of
   rejection; [parse] turns this into nothing more than accept/reject. *)

Definition fuel_for (ts : list tok) : nat := 5 * length ts + 5.

Definition parse_tokens (ts : list tok) : res ast :=
  match ts with
  | [] => Ok AFalse
  | _ =>
    match p_expr (fuel_for ts) ts with
    | Ok (a, []) => Ok a
    | Ok (_, r) => Err (length r)
    | Err p => Err p
    | Fuel => Fuel
    end
  end.

Definition compile (is_word : N -> bool) (s : list N) : res ast :=
  match lex is_word s with
  | Ok k => parse_tokens (map fst k)
  | Err p => Err p
  | Fuel => Fuel
  end.

(* ----------------------------------------------------------- evaluation *)

Fixpoint eval (m : list N -> bool) (a : ast) : bool :=
  match a with
  | AFalse => false
  | AId s => m s
  | ANot a => negb (eval m a)
  | AAnd a b => eval m a && eval m b
  | AOr a b => eval m a || eval m b
  end.

(* ------------------------------------------------------------- matchers *)

Fixpoint prefixb (p s : list N) : bool :=
  match p, s with
  | [], _ => true
  | x :: p', y :: s' => N.eqb x y && prefixb p' s'
  | _ :: _, [] => false
  end.

Fixpoint substringb (p s : list N) : bool :=
  prefixb p s ||
  match s with
  | [] => false
  | _ :: s' => substringb p s'
  end.

Section Matchers.
  Variable lower : list N -> list N.

  (* KeywordMatcher.__call__ *)
  Definition kw_match (names : list (list N)) (sub : list N) : bool :=
    existsb (fun n => substringb (lower sub) (lower n)) names.

  (* MarkMatcher.__call__ *)
  Definition mark_match (marks : list (list N)) (name : list N) : bool :=
    memL name marks.
End Matchers.

(* The whole of "-k expr" / "-m expr" for one task. *)
Definition select_k is_word lower (names : list (list N)) (s : list N) : res bool :=
  match compile is_word s with
  | Ok a => Ok (eval (kw_match lower names) a)
  | Err p => Err p
  | Fuel => Fuel
  end.

Definition select_m is_word (marks : list (list N)) (s : list N) : res bool :=
  match compile is_word s with
  | Ok a => Ok (eval (mark_match marks) a)
  | Err p => Err p
  | Fuel => Fuel
  end.

(* ------------------------------------------ executable instantiations *)
(* ASCII \w plus a table of further word characters supplied by the harness. *)
Definition ascii_word (c : N) : bool :=
  ((48 <=? c) && (c <=? 57) || (65 <=? c) && (c <=? 90) ||
   (97 <=? c) && (c <=? 122) || (c =? 95))%N.

Definition word_of (extra : list N) (c : N) : bool := ascii_word c || memN c extra.

(* per-character lowering: ASCII rule plus a table *)
Fixpoint assocN (c : N) (t : list (N * list N)) : option (list N) :=
  match t with
  | [] => None
  | (k, v) :: r => if N.eqb c k then Some v else assocN c r
  end.

Definition lower_char (t : list (N * list N)) (c : N) : list N :=
  match assocN c t with
  | Some v => v
  | None => if ((65 <=? c) && (c <=? 90))%N then [(c + 32)%N] else [c]
  end.

Definition lower_of (t : list (N * list N)) (s : list N) : list N :=
  flat_map (lower_char t) s.
