(* Model of _pytask._hashlib.hash_value, cache._make_memoize_key / path.hash_path,
   nodes._get_state and the signature properties of nodes.py, plus the lexical path
   normalisation applied at collection.

   sha256(...).hexdigest(), md5(...).hexdigest(), str.encode() and hash(float) are
   parameters; theorems assume what is stated in each Section (injectivity, width). *)
From Verif Require Import Base.Prelude.

Inductive pyval :=
| VNone
| VBool (b : bool)
| VInt (z : Z)
| VFloat (id : N)              (* an abstract float, identified up to == *)
| VStr (s : list N)
| VBytes (b : list N)
| VPath (s : list N)           (* str(path) *)
| VTuple (l : list pyval)
| VList (l : list pyval).

Inductive hres := HInt (z : Z) | HHex (h : list N).

(* ---- decimal printing (str(int)) *)
Fixpoint dec_pos (fuel : nat) (n : N) (acc : list N) : list N :=
  match fuel with
  | O => acc
  | S f => let d := (48 + n mod 10)%N in
           if (n <? 10)%N then d :: acc else dec_pos f (n / 10)%N (d :: acc)
  end.

Definition dec (z : Z) : list N :=
  match z with
  | Z0 => [48]%N
  | Zpos p => dec_pos (S (N.to_nat (N.log2 (Npos p)))) (Npos p) []
  | Zneg p => (45 :: dec_pos (S (N.to_nat (N.log2 (Npos p)))) (Npos p) [])%N
  end.

(* ---- CPython hash of an int: sign * (|n| mod (2^61-1)), with -1 mapped to -2 *)
Definition P61 : Z := 2305843009213693951%Z.
Definition py_hash_int (z : Z) : Z :=
  let m := (Z.abs z mod P61)%Z in
  let h := if (z <? 0)%Z then (- m)%Z else m in
  if (h =? -1)%Z then (-2)%Z else h.

Definition none_const : Z := 4238894112%Z.       (* 0xFCA86420 *)

Section Hash.
  Variable sha_hex : list N -> list N.    (* bytes -> 64 hex characters *)
  Variable utf8 : list N -> list N.       (* str.encode() *)
  Variable fhash : N -> Z.                (* hash(float) *)

  Definition str_of (h : hres) : list N :=
    match h with HInt z => dec z | HHex x => x end.

  Fixpoint hash_value (v : pyval) : hres :=
    match v with
    | VNone => HInt none_const
    | VBool b => HInt (if b then 1 else 0)%Z
    | VInt z => HInt (py_hash_int z)
    | VFloat f => HInt (fhash f)
    | VStr s => HHex (sha_hex (utf8 s))
    | VPath s => HHex (sha_hex (utf8 s))
    | VBytes b => HHex (sha_hex b)
    | VTuple l => HHex (sha_hex (utf8 (flat_map (fun x => str_of (hash_value x)) l)))
    | VList l => HHex (sha_hex (utf8 (flat_map (fun x => str_of (hash_value x)) l)))
    end.

  (* "".join(str(hash_value(a)) for a in args), then sha256 of its encoding: the shape of
     every signature property *)
  Definition sig_of (args : list pyval) : list N :=
    sha_hex (utf8 (flat_map (fun x => str_of (hash_value x)) args)).

  Definition sig_path_node (path : list N) : list N := sig_of [VPath path].
  Definition sig_task (base_name path : list N) : list N := sig_of [VStr base_name; VPath path].
  Definition sig_task_without_path (name : list N) : list N := sig_of [VStr name].
  Definition sig_directory_node (root : option (list N)) (pattern : list N) : list N :=
    sig_of [match root with Some r => VPath r | None => VNone end; VStr pattern].
  (* PythonNode: (arg_name, path, task_name, task_path); path is a tuple of str | int *)
  Definition sig_python_node (arg : list N) (tree_path : list pyval) (task_name task_path : list N) : list N :=
    sig_of [VStr arg; VTuple tree_path; VStr task_name; VPath task_path].

  (* ---- memoised file state *)
  Variable md5_hex : list N -> list N.

  (* hash_path(path, modification_time) is memoised under this key *)
  Definition memo_key (prefix : list N) (path : list N) (mtime : N) : list N :=
    prefix ++ md5_hex (utf8 (str_of (hash_value (VPath path)) ++ str_of (hash_value (VFloat mtime)))).

  Definition cache := list (list N * list N).

  Fixpoint cache_get (k : list N) (c : cache) : option (list N) :=
    match c with
    | [] => None
    | (k', v) :: r => if eqbL k k' then Some v else cache_get k r
    end.

  (* _get_state on an existing file: returns (state, new cache) *)
  Definition file_state (prefix : list N) (c : cache) (path : list N) (mtime : N) (content : list N)
    : list N * cache :=
    let k := memo_key prefix path mtime in
    match cache_get k c with
    | Some h => (h, c)
    | None => let h := sha_hex content in (h, (k, h) :: c)
    end.
End Hash.

(* ---- lexical normalisation (os.path.normpath on absolute POSIX paths, by components) *)
Definition comp := list N.
Definition c_dot : comp := [46]%N.
Definition c_dotdot : comp := [46; 46]%N.

Fixpoint norm_aux (stack : list comp) (cs : list comp) : list comp :=
  match cs with
  | [] => rev stack
  | c :: r =>
    if eqbL c [] || eqbL c c_dot then norm_aux stack r
    else if eqbL c c_dotdot then norm_aux (match stack with [] => [] | _ :: s => s end) r
    else norm_aux (c :: stack) r
  end.

(* components of an absolute path (after the leading "/") *)
Definition normpath (cs : list comp) : list comp := norm_aux [] cs.

Fixpoint split_slash (cur : list N) (s : list N) : list comp :=
  match s with
  | [] => [rev cur]
  | c :: r => if N.eqb c 47 then rev cur :: split_slash [] r else split_slash (c :: cur) r
  end.

Fixpoint join_slash (cs : list comp) : list N :=
  match cs with
  | [] => []
  | c :: r => (47 :: c ++ join_slash r)%N
  end.

(* normpath of an absolute path string "/a/b/../c" (single leading slash) *)
Definition normpath_str (s : list N) : list N :=
  match s with
  | 47%N :: r => match normpath (split_slash [] r) with
                 | [] => [47]%N
                 | cs => join_slash cs
                 end
  | _ => s
  end.

(* ---- the path under which a declaration is collected (collect.pytask_collect_node): a
   relative declaration is joined onto the directory of the task module; the result - and an
   absolute declaration as well - is normalised lexically.  Strings are POSIX paths. *)
Definition is_abs (s : list N) : bool := match s with 47%N :: _ => true | _ => false end.

Definition collected_path (task_dir decl : list N) : list N :=
  if is_abs decl then normpath_str decl else normpath_str (task_dir ++ [47%N] ++ decl).
