(* Executable instantiation of Model/EngineP.v with the conventions of the harness:
   pattern p matches the files 10000+100p .. 10000+100p+99; the producer of pattern p (its own
   task id) writes as many files as the content of its first dependency says (mod 4); a generator
   creates one copy task per file it received. *)
From Verif Require Import Base.Prelude Base.Graph Model.Sorter Model.Expr Model.Engine Model.EngineRun Model.EngineP.
From Verif Require Model.Hashing.

(* the name of a generated task: the generator's own name up to "::", then task_t<id>_ *)
Fixpoint upto_colons (s : list N) : list N :=
  match s with
  | 58 :: 58 :: _ => [58; 58]
  | c :: r => c :: upto_colons r
  | [] => []
  end%N.

Definition child_name (rt : task) (id : N) : list N :=
  (match tnames rt with n :: _ => upto_colons n | [] => [] end)
  ++ [116; 97; 115; 107; 95; 116]%N ++ Hashing.dec (Z.of_N id) ++ [95]%N.

Definition h_matches (p n : N) : bool := ((10000 + 100 * p <=? n) && (n <? 10000 + 100 * p + 100))%N.

Definition h_dyn_files (rt : task) (dv : list N) : list N :=
  match dv with
  | c :: _ => map (fun j => (10000 + 100 * tid rt + N.of_nat j)%N) (seq 0 (N.to_nat (c mod 4)))
  | [] => []
  end.

(* a generator marked [[2]] creates a two-stage pipeline per file: the second task consumes the
   product of the first *)
Definition h_children (rt : task) (files : list N) : list ptask :=
  let two := existsb (fun m => eqbL m [2%N]) (tmarks rt) in
  flat_map (fun f : N =>
    let k := (f - 10000)%N in
    mkPT (mkTask (20000 + k)%N (tsrc rt) [f] [(30000 + k)%N] [] None false [] false 0%Z [child_name rt (20000 + k)%N] []) [] [] false false ::
    (if two then [mkPT (mkTask (40000 + k)%N (tsrc rt) [(30000 + k)%N] [(50000 + k)%N] [] None false [] false 0%Z [child_name rt (40000 + k)%N] []) [] [] false false]
     else [])) files.

Inductive phop :=
| PSet (n c : N)
| PDel (n : N)
| PBuild (c : config) (ts : list ptask) (faults : list (N * fault)) (pref : list N).

Fixpoint run_phistory (w : world) (ops : list phop) : list (N * list (N * N) * list N * list (N * N * N) * list (N * N)) :=
  match ops with
  | [] => []
  | PSet n c :: r => run_phistory (mkWorld (upd n c (fs w)) (db w)) r
  | PDel n :: r => run_phistory (mkWorld (del n (fs w)) (db w)) r
  | PBuild c ts fl pref :: r =>
    let res := pbuild (word_of []) (lower_of []) h_matches hbody h_dyn_files h_children 200 c ts (fault_of fl) pref w in
    (xcode (x_exit res), map (fun p => (fst p, ocode (snd p))) (x_reports res), map ecode (x_log res),
     db (x_world res), fs (x_world res)) :: run_phistory (x_world res) r
  end.

Definition run_phist (ops : list phop) := run_phistory (mkWorld [] []) ops.
