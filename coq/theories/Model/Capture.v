(* Model of _pytask.capture: (1) attribution of output to report sections, (2) what a build
   does to the standard streams of the calling process.

   Text is a list of code points.  A write has a stream, a level - Python level
   (print / sys.stdout.write), descriptor level (os.write to fd 1/2), child process - and data.
   The capture objects keep one buffer per stream (a temporary file); snap() returns its
   content and truncates it. *)
From Verif Require Import Base.Prelude.

Inductive method := MFd | MSys | MTee | MNo.
Inductive level := LPy | LFd | LChild.
Inductive stream := SOut | SErr.

Record write := mkW { w_stream : stream; w_level : level; w_data : list N }.

Record cstate := mkC {
  active : bool;                 (* MultiCapture started (true) / suspended (false) *)
  buf_out : list N; buf_err : list N;     (* temporary files *)
  term_out : list N; term_err : list N    (* what reached the real streams *)
}.

Definition captures (m : method) (l : level) : bool :=
  match m, l with
  | MFd, _ => true
  | MSys, LPy | MTee, LPy => true
  | _, _ => false
  end.

Definition do_write (m : method) (st : cstate) (w : write) : cstate :=
  let cap := active st && captures m (w_level w) in
  let tee := match m with MTee => true | _ => false end in
  let to_term := negb cap || tee in
  let d := w_data w in
  match w_stream w with
  | SOut => mkC (active st) (if cap then buf_out st ++ d else buf_out st) (buf_err st)
                (if to_term then term_out st ++ d else term_out st) (term_err st)
  | SErr => mkC (active st) (buf_out st) (if cap then buf_err st ++ d else buf_err st)
                (term_out st) (if to_term then term_err st ++ d else term_err st)
  end.

Definition resume (st : cstate) : cstate := mkC true (buf_out st) (buf_err st) (term_out st) (term_err st).
Definition suspend (st : cstate) : cstate := mkC false (buf_out st) (buf_err st) (term_out st) (term_err st).

(* readouterr: snap both buffers and truncate them *)
Definition read (st : cstate) : (list N * list N) * cstate :=
  ((buf_out st, buf_err st), mkC (active st) [] [] (term_out st) (term_err st)).

Inductive phase := PSetup | PCall | PTeardown.

(* a report section: (task, phase, stream, text) *)
Definition section := (N * phase * stream * list N)%type.

(* CaptureManager.task_capture: resume; the phase runs; suspend; read; attach non-empty parts *)
Definition run_phase (m : method) (t : N) (ph : phase) (ws : list write) (st : cstate) : list section * cstate :=
  let st1 := fold_left (do_write m) ws (resume st) in
  let '((o, e), st2) := read (suspend st1) in
  ((match o with [] => [] | _ => [(t, ph, SOut, o)] end) ++
   (match e with [] => [] | _ => [(t, ph, SErr, e)] end), st2).

(* one task: its three phases; [between] is what pytask itself prints after the task
   (progress marks, tables) while capturing is suspended *)
Record ttask := mkT { t_id : N; t_setup : list write; t_call : list write; t_teardown : list write; t_between : list write }.

Definition run_ttask (m : method) (tk : ttask) (st : cstate) : list section * cstate :=
  let '(s1, st1) := run_phase m (t_id tk) PSetup (t_setup tk) st in
  let '(s2, st2) := run_phase m (t_id tk) PCall (t_call tk) st1 in
  let '(s3, st3) := run_phase m (t_id tk) PTeardown (t_teardown tk) st2 in
  (s1 ++ s2 ++ s3, fold_left (do_write m) (t_between tk) st3).

Fixpoint run_ttasks (m : method) (tks : list ttask) (st : cstate) : list section * cstate :=
  match tks with
  | [] => ([], st)
  | tk :: r => let '(s, st1) := run_ttask m tk st in
               let '(s', st2) := run_ttasks m r st1 in (s ++ s', st2)
  end.

Definition init_c : cstate := mkC false [] [] [] [].

(* ---- specification side: what each section should contain *)
Definition stream_eqb (a b : stream) : bool :=
  match a, b with SOut, SOut | SErr, SErr => true | _, _ => false end.

Definition captured_text (m : method) (s : stream) (ws : list write) : list N :=
  flat_map (fun w => if stream_eqb (w_stream w) s && captures m (w_level w) then w_data w else []) ws.

Definition passthrough_text (m : method) (s : stream) (ws : list write) : list N :=
  flat_map (fun w => if stream_eqb (w_stream w) s &&
                        (negb (captures m (w_level w)) || match m with MTee => true | _ => false end)
                     then w_data w else []) ws.

Definition all_text (s : stream) (ws : list write) : list N :=
  flat_map (fun w => if stream_eqb (w_stream w) s then w_data w else []) ws.

Definition expected_phase (m : method) (t : N) (ph : phase) (ws : list write) : list section :=
  (match captured_text m SOut ws with [] => [] | o => [(t, ph, SOut, o)] end) ++
  (match captured_text m SErr ws with [] => [] | e => [(t, ph, SErr, e)] end).

Definition expected_task (m : method) (tk : ttask) : list section :=
  expected_phase m (t_id tk) PSetup (t_setup tk) ++ expected_phase m (t_id tk) PCall (t_call tk) ++
  expected_phase m (t_id tk) PTeardown (t_teardown tk).

(* ------------------------------------------------------------------------------------
   (2) the calling process: standard descriptors, Python stream objects, open descriptors *)
Record pstate := mkP {
  fd0 : N; fd1 : N; fd2 : N;            (* what descriptors 0,1,2 point at (open-file ids) *)
  py_in : N; py_out : N; py_err : N;    (* identity of sys.stdin/stdout/stderr *)
  nfds : nat;                           (* number of open descriptors *)
  saved : list (N * N * N * N * N * N)  (* stack of what start_capturing saved *)
}.

Definition DEVNULL : N := 900. Definition TMP1 : N := 901. Definition TMP2 : N := 902.
Definition PYCAP_IN : N := 910. Definition PYCAP_OUT : N := 911. Definition PYCAP_ERR : N := 912.

(* CaptureManager.start_capturing followed by suspend(in_=False), as in pytask_post_parse *)
Definition start_and_suspend (m : method) (p : pstate) : pstate :=
  let sv := (fd0 p, fd1 p, fd2 p, py_in p, py_out p, py_err p) in
  match m with
  | MFd =>   (* three saved duplicates + /dev/null + two temporary files stay open; out/err are handed
               back by suspend, stdin stays redirected *)
    mkP DEVNULL (fd1 p) (fd2 p) PYCAP_IN (py_out p) (py_err p) (nfds p + 6) (sv :: saved p)
  | MSys => mkP (fd0 p) (fd1 p) (fd2 p) PYCAP_IN (py_out p) (py_err p) (nfds p) (sv :: saved p)
  | MTee => mkP (fd0 p) (fd1 p) (fd2 p) (py_in p) (py_out p) (py_err p) (nfds p) (sv :: saved p)
  | MNo => mkP (fd0 p) (fd1 p) (fd2 p) (py_in p) (py_out p) (py_err p) (nfds p) (sv :: saved p)
  end.

(* CaptureManager.stop_capturing: everything start saved is put back, its files are closed *)
Definition stop (m : method) (p : pstate) : pstate :=
  match saved p with
  | [] => p
  | (a, b, c, d, e, f) :: r =>
    mkP a b c d e f (match m with MFd => nfds p - 6 | _ => nfds p end) r
  end.

(* one programmatic build as far as the capture plugin is concerned: post_parse starts and
   suspends; every task phase resumes and suspends (no net change); unconfigure stops iff the
   plugin implements the hook *)
Definition build_p (unconfigure_stops : bool) (m : method) (p : pstate) : pstate :=
  let p1 := start_and_suspend m p in
  if unconfigure_stops then stop m p1 else p1.
