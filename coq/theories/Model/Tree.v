(* Model of the pytree operations pytask relies on (optree with none_is_leaf=True):
   containers are lists, tuples and dicts (children in sorted-key order), everything
   else - None included - is a leaf.  Used for kwargs (tree_map over declared nodes) and
   for return values (prefix test + flatten_up_to + zip with the declared leaves). *)
From Verif Require Import Base.Prelude.

Inductive kind := KList | KTuple | KDict (keys : list N).

Inductive tree (A : Type) : Type :=
| Leaf (a : A)
| Node (k : kind) (cs : list (tree A)).
Arguments Leaf {A} a. Arguments Node {A} k cs.

Definition kind_eqb (a b : kind) : bool :=
  match a, b with
  | KList, KList | KTuple, KTuple => true
  | KDict x, KDict y => eqbL x y
  | _, _ => false
  end.

Section T.
  Context {A B : Type}.

  Fixpoint leaves (t : tree A) : list A :=
    match t with
    | Leaf a => [a]
    | Node _ cs => flat_map leaves cs
    end.

  Fixpoint tmap (f : A -> B) (t : tree A) : tree B :=
    match t with
    | Leaf a => Leaf (f a)
    | Node k cs => Node k (map (tmap f) cs)
    end.

  Fixpoint shape (t : tree A) : tree unit :=
    match t with
    | Leaf _ => Leaf tt
    | Node k cs => Node k (map shape cs)
    end.

  (* subtree at a path of child indices *)
  Fixpoint at_path (p : list nat) (t : tree A) : option (tree A) :=
    match p with
    | [] => Some t
    | i :: r => match t with
                | Leaf _ => None
                | Node _ cs => match nth_error cs i with Some c => at_path r c | None => None end
                end
    end.

  (* treespec.is_prefix(other, strict=False): a leaf of the declaration matches anything *)
  Fixpoint is_prefix (s : tree A) (t : tree B) : bool :=
    match s with
    | Leaf _ => true
    | Node k cs =>
      match t with
      | Leaf _ => false
      | Node k' ts =>
        kind_eqb k k' &&
        (fix go (cs : list (tree A)) (ts : list (tree B)) : bool :=
           match cs, ts with
           | [], [] => true
           | c :: cs', t' :: ts' => is_prefix c t' && go cs' ts'
           | _, _ => false
           end) cs ts
      end
    end.

  (* treespec.flatten_up_to(tree): the subtrees of t that sit where s has leaves *)
  Fixpoint flatten_up_to (s : tree A) (t : tree B) : option (list (tree B)) :=
    match s with
    | Leaf _ => Some [t]
    | Node k cs =>
      match t with
      | Leaf _ => None
      | Node k' ts =>
        if kind_eqb k k' then
          (fix go (cs : list (tree A)) (ts : list (tree B)) : option (list (tree B)) :=
             match cs, ts with
             | [], [] => Some []
             | c :: cs', t' :: ts' =>
               match flatten_up_to c t', go cs' ts' with
               | Some a, Some b => Some (a ++ b)
               | _, _ => None
               end
             | _, _ => None
             end) cs ts
        else None
      end
    end.

  (* put values back where the declaration has leaves; returns the rebuilt tree and the
     unused values *)
  Fixpoint graft (s : tree A) (vs : list (tree B)) : option (tree B * list (tree B)) :=
    match s with
    | Leaf _ => match vs with v :: r => Some (v, r) | [] => None end
    | Node k cs =>
      match (fix go (cs : list (tree A)) (vs : list (tree B)) : option (list (tree B) * list (tree B)) :=
               match cs with
               | [] => Some ([], vs)
               | c :: cs' =>
                 match graft c vs with
                 | Some (t, r) => match go cs' r with
                                  | Some (ts, r') => Some (t :: ts, r')
                                  | None => None end
                 | None => None
                 end
               end) cs vs with
      | Some (ts, r) => Some (Node k ts, r)
      | None => None
      end
    end.
End T.

(* execute.pytask_execute_task for a "return" annotation: None = ValueError (nothing is
   saved), Some pairs = node.save(value) calls in order *)
Definition save_returns {Nd V : Type} (decl : tree Nd) (out : tree V) : option (list (Nd * tree V)) :=
  if is_prefix decl out then
    match flatten_up_to decl out with
    | Some vs => Some (combine (leaves decl) vs)
    | None => None
    end
  else None.

(* kwargs[name] = tree_map(load, declared) *)
Definition load_kwargs {Nd V : Type} (load : Nd -> V) (decls : list (N * tree Nd)) : list (N * tree V) :=
  map (fun p => (fst p, tmap load (snd p))) decls.
