From Verif Require Import Base.Prelude Model.Clean Model.Collect Model.Hashing.
Definition dec_nat (n : nat) : list N := dec (Z.of_nat n).
Definition run_module (prefixed : list (list N)) (ds : list dtask) (order : list (list N)) : option (list (list N)) :=
  module_tasks dec_nat prefixed ds order.
