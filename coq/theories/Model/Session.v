(* Consecutive builds in ONE interpreter: what survives from one build to the next is the
   module cache (sys.modules, keyed by the derived module name, Model/Collect.v).  A task file
   is executed only when it is not cached; functions decorated with @task exist as pending
   tasks only while their module is being executed (the decorator appends them to a registry
   that collection drains and unconfigure clears). *)
From Verif Require Import Base.Prelude Model.Clean Model.Collect.

(* what executing a task file does *)
Inductive modsrc :=
| MOk (prefixed decorated : nat)     (* task_* functions found by name; functions registered by @task *)
| MBroken.                           (* the import raises *)

Inductive fres := RTasks (n : nat) | RError.

(* collection of one file *)
Definition collect_file (is_pkg : path -> bool) (src : path -> modsrc) (m : mcache) (p : path) : fres * mcache :=
  let k := modname is_pkg p in
  let cached := match mc_get k m with Some f => eqbP f p | None => false end in
  match src p with
  | MBroken => if cached then (RTasks 0, m)        (* unreachable once broken modules are forgotten *)
               else (RError, m)                     (* the module is removed from the cache again *)
  | MOk pre dec => if cached then (RTasks pre, m)   (* not executed again: nothing registers *)
                   else (RTasks (pre + dec), mc_set k p m)
  end.

Fixpoint collect_files (is_pkg : path -> bool) (src : path -> modsrc) (m : mcache) (ps : list path)
  : list fres * mcache :=
  match ps with
  | [] => ([], m)
  | p :: r => let '(x, m1) := collect_file is_pkg src m p in
              let '(xs, m2) := collect_files is_pkg src m1 r in (x :: xs, m2)
  end.

(* a sequence of builds, each over its own list of files, in one process *)
Fixpoint run_builds (is_pkg : path -> bool) (src : path -> modsrc) (m : mcache) (bs : list (list path))
  : list (list fres) :=
  match bs with
  | [] => []
  | ps :: r => let '(xs, m1) := collect_files is_pkg src m ps in xs :: run_builds is_pkg src m1 r
  end.

(* the same builds, each in a fresh process *)
Definition fresh_builds (is_pkg : path -> bool) (src : path -> modsrc) (bs : list (list path)) : list (list fres) :=
  map (fun ps => fst (collect_files is_pkg src [] ps)) bs.

(* the behaviour before the repair of F20: a module whose import failed stayed cached *)
Definition collect_file_old (is_pkg : path -> bool) (src : path -> modsrc) (m : mcache) (p : path) : fres * mcache :=
  let k := modname is_pkg p in
  let cached := match mc_get k m with Some f => eqbP f p | None => false end in
  match src p with
  | MBroken => if cached then (RTasks 0, m) else (RError, mc_set k p m)
  | MOk pre dec => if cached then (RTasks pre, m) else (RTasks (pre + dec), mc_set k p m)
  end.
