(* Entry points for the scheduler correspondence check. *)
From Verif Require Import Base.Prelude Base.Graph Model.Sorter.

Fixpoint sortN_insert (x : N) (l : list N) : list N :=
  match l with [] => [x] | y :: r => if (x <=? y)%N then x :: l else y :: sortN_insert x r end.
Definition sortN (l : list N) : list N := fold_right sortN_insert [] l.


(* an operation observed on the implementation, with is_active() afterwards;
   a rebuild carries the new bipartite graph *)
Inductive iop :=
| IGet (n : nat) (b : list N) (active : bool)
| IDone (ds : list N) (active : bool)
| IRebuild (tasks : list N) (E : list edge) (p : list (N * Z)) (active : bool).

(* result codes: 0 ok; 1 model says cycle; 100+i first offending op *)
Fixpoint check_itrace (s : sorter) (ops : list iop) (i : N) : N :=
  match ops with
  | [] => 0
  | IGet n b a :: r =>
    if Nat.leb 1 n && valid_batchb s n b && Bool.eqb (is_active (take s b)) a
    then check_itrace (take s b) r (i + 1) else (100 + i)%N
  | IDone ds a :: r =>
    if Bool.eqb (is_active (done s ds)) a then check_itrace (done s ds) r (i + 1) else (100 + i)%N
  | IRebuild tasks E p a :: r =>
    match from_dag_and_sorter tasks E p s with
    | None => 1
    | Some s' => if Bool.eqb (is_active s') a then check_itrace s' r (i + 1) else (100 + i)%N
    end
  end.

(* closure computed by the model, as sorted (u,t) pairs flattened to u*2^20+t *)
Definition closure_code (tasks : list N) (E : list edge) : list N :=
  sortN (map (fun e => (fst e * 1048576 + snd e)%N) (closure_edges tasks E)).

(* (status, closure) : status as check_itrace; closure [] when cyclic *)
Definition run_sorter_case (tasks : list N) (E : list edge) (p : list (N * Z)) (ops : list iop) : N * list N :=
  match from_dag tasks E p with
  | None => (1%N, [])
  | Some s => (check_itrace s ops 0, closure_code tasks E)
  end.
