(* Executable instance for the correspondence check: sha/md5/encode are kept symbolic as
   bracketed spans which the harness evaluates with the real hashlib. *)
From Verif Require Import Base.Prelude Model.Hashing.

Definition B_SHA_L : N := 2000001. Definition B_SHA_R : N := 2000002.
Definition B_UTF_L : N := 2000003. Definition B_UTF_R : N := 2000004.
Definition B_MD5_L : N := 2000005. Definition B_MD5_R : N := 2000006.

Definition sym_sha (b : list N) : list N := B_SHA_L :: b ++ [B_SHA_R].
Definition sym_utf8 (s : list N) : list N := B_UTF_L :: s ++ [B_UTF_R].
Definition sym_md5 (b : list N) : list N := B_MD5_L :: b ++ [B_MD5_R].

(* floats are passed with their CPython hash: id = index into a table supplied by the harness *)
Fixpoint nthZ (n : nat) (l : list Z) : Z :=
  match l, n with
  | [], _ => 0%Z
  | x :: _, O => x
  | _ :: r, S k => nthZ k r
  end.

Definition run_hash (ft : list Z) (v : pyval) : Z * list N :=
  match hash_value sym_sha sym_utf8 (fun i => nthZ (N.to_nat i) ft) v with
  | HInt z => (z, [])
  | HHex h => (0%Z, h)
  end.

Definition run_sig (ft : list Z) (args : list pyval) : list N :=
  sig_of sym_sha sym_utf8 (fun i => nthZ (N.to_nat i) ft) args.

Definition run_memo_key (ft : list Z) (prefix path : list N) (mtime : N) : list N :=
  memo_key sym_sha sym_utf8 (fun i => nthZ (N.to_nat i) ft) sym_md5 prefix path mtime.

(* a sequence of _get_state calls on one cache: (path, mtime, content id) -> returned digest,
   contents are given as byte lists *)
Fixpoint run_states (ft : list Z) (prefix : list N) (c : cache) (ops : list (list N * N * list N)) : list (list N) :=
  match ops with
  | [] => []
  | (p, m, x) :: r =>
    let '(h, c') := file_state sym_sha sym_utf8 (fun i => nthZ (N.to_nat i) ft) sym_md5 prefix c p m x in
    h :: run_states ft prefix c' r
  end.
