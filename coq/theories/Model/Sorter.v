(* Model of _pytask.dag_utils.TopologicalSorter.
   Task ids are N.  [gedges] is the task-only closure graph built by from_dag
   ((u,t) iff u is an ancestor of t); it never changes, removing a node from
   [gnodes] hides its edges (networkx remove_nodes_from). *)
From Verif Require Import Base.Prelude.

Record sorter := mkSorter {
  gnodes : list N;
  gedges : list (N * N);
  prios : list (N * Z);          (* try_first 1, try_last -1, missing = 0 *)
  processing : list N;
  finished : list N
}.

Fixpoint prio_of (p : list (N * Z)) (v : N) : Z :=
  match p with
  | [] => 0%Z
  | (k, z) :: r => if N.eqb k v then z else prio_of r v
  end.

Definition pr (s : sorter) (v : N) : Z := prio_of (prios s) v.

(* in-degree 0 in the graph restricted to the remaining nodes *)
Definition indeg0 (s : sorter) (v : N) : bool :=
  forallb (fun e => negb (N.eqb (snd e) v && memN (fst e) (gnodes s))) (gedges s).

Definition readyb (s : sorter) (v : N) : bool :=
  indeg0 s v && negb (memN v (processing s)).

Definition ready (s : sorter) : list N := filter (readyb s) (gnodes s).

Definition is_active (s : sorter) : bool :=
  match gnodes s with [] => false | _ => true end.

(* ---- get_ready: sorted(ready_set, key=priority)[-n:] over an arbitrary set order *)
Fixpoint insert (s : sorter) (x : N) (l : list N) : list N :=
  match l with
  | [] => [x]
  | y :: r => if (pr s x <=? pr s y)%Z then x :: l else y :: insert s x r
  end.

Fixpoint isort (s : sorter) (l : list N) : list N :=
  match l with
  | [] => []
  | x :: r => insert s x (isort s r)
  end.

Definition lastn {A} (n : nat) (l : list A) : list A := skipn (length l - n) l.

(* [order] is the iteration order of the Python set of ready nodes *)
Definition get_ready (s : sorter) (n : nat) (order : list N) : list N :=
  lastn n (isort s order).

Definition take (s : sorter) (b : list N) : sorter :=
  mkSorter (gnodes s) (gedges s) (prios s) (b ++ processing s) (finished s).

Definition remove_all (ds l : list N) : list N := filter (fun v => negb (memN v ds)) l.

Definition done (s : sorter) (ds : list N) : sorter :=
  mkSorter (remove_all ds (gnodes s)) (gedges s) (prios s)
           (remove_all ds (processing s)) (ds ++ finished s).

(* from_dag_and_sorter: a fresh sorter for the new graph, old done nodes marked
   done, old processing set carried over *)
Definition rebuild (nodes : list N) (edges : list (N * N)) (p : list (N * Z)) (old : sorter) : sorter :=
  let fresh := mkSorter nodes edges p [] [] in
  let d := done fresh (finished old) in
  mkSorter (gnodes d) (gedges d) (prios d) (processing old) (finished d).

(* ---- executable validity of a batch (used to validate implementation traces) *)
Fixpoint nodupb (l : list N) : bool :=
  match l with [] => true | x :: r => negb (memN x r) && nodupb r end.

Fixpoint sortedb (s : sorter) (l : list N) : bool :=
  match l with
  | [] => true
  | x :: r => forallb (fun y => (pr s x <=? pr s y)%Z) r && sortedb s r
  end.

Definition valid_batchb (s : sorter) (n : nat) (b : list N) : bool :=
  nodupb b &&
  forallb (fun x => memN x (ready s)) b &&
  Nat.eqb (length b) (Nat.min n (length (ready s))) &&
  sortedb s b &&
  forallb (fun x => memN x b || forallb (fun y => (pr s x <=? pr s y)%Z) b) (ready s).

(* ---- operations, for traces *)
Inductive op :=
| OGet (n : nat) (b : list N)        (* get_ready(n) returned b *)
| ODone (ds : list N)
| ORebuild (nodes : list N) (edges : list (N * N)) (p : list (N * Z)).

Definition apply_op (s : sorter) (o : op) : sorter :=
  match o with
  | OGet _ b => take s b
  | ODone ds => done s ds
  | ORebuild n e p => rebuild n e p s
  end.

(* trace validation: every batch the implementation returned is one the model allows;
   returns the index of the first offending operation *)
Fixpoint check_trace (s : sorter) (ops : list op) (i : nat) : option nat :=
  match ops with
  | [] => None
  | o :: r =>
    let ok := match o with
              | OGet n b => Nat.leb 1 n && valid_batchb s n b
              | _ => true
              end in
    if ok then check_trace (apply_op s o) r (S i) else Some i
  end.

(* ---- from_dag: task-only closure graph of the bipartite task/node DAG *)
From Verif Require Import Base.Graph.

(* (u,t) for tasks u,t with u an ancestor of t (nx.ancestors(dag, t) & tasks) *)
Definition closure_edges (tasks : list N) (E : list edge) : list (N * N) :=
  flat_map (fun t => map (fun a => (a, t)) (filter (fun a => reachb E a t) tasks)) tasks.

(* None = check_dag raised (the graph has a cycle) *)
Definition from_dag (tasks : list N) (E : list edge) (p : list (N * Z)) : option sorter :=
  if has_cycle E then None
  else Some (mkSorter tasks (closure_edges tasks E) p [] []).

Definition from_dag_and_sorter (tasks : list N) (E : list edge) (p : list (N * Z)) (old : sorter) : option sorter :=
  if has_cycle E then None
  else Some (rebuild tasks (closure_edges tasks E) p old).
