(* The build engine with provisional nodes (directory patterns) and task generators
   (provisional.py, provisional_utils.py) on top of Model/Engine.v.

   A pattern is identified by an N; [matches p n] says whether file n matches pattern p.
   A consumer of pattern p depends on the pattern node until its own setup, where the node is
   replaced by the files matching p AT THAT MOMENT (the DAG is re-created); a producer of p gets
   the files matching p after its function has run as additional products.  The pattern node
   itself is an ordinary node of the graph (same id for producer and consumer), which is what
   orders producer before consumer.

   A task generator is always executed; the tasks its function creates are appended to the
   project, the DAG is re-created and the scheduler is rebuilt with from_dag_and_sorter. *)
From Verif Require Import Base.Prelude Base.Graph Model.Sorter Model.Expr Model.Engine.

Record ptask := mkPT {
  base : task;
  pdeps : list N;               (* patterns consumed (DirectoryNode dependencies) *)
  pprods : list N;              (* patterns produced (DirectoryNode products) *)
  is_gen : bool;                (* @task(is_generator=True) *)
  clears : bool                 (* the function empties the directory of its patterns first *)
}.

Section P.
  Variable matches : N -> N -> bool.                        (* pattern -> file -> bool *)
  Variable body : N -> N -> list N -> N -> N.
  (* which files a producer writes into its patterns, given its dependency values *)
  Variable dyn_files : task -> list N -> list N.
  (* the tasks a generator creates, given the files it received *)
  Variable children : task -> list N -> list ptask.

  Definition matching (w : world) (ps : list N) : list N :=
    map fst (filter (fun kv => existsb (fun p => matches p (fst kv)) ps) (fs w)).

  (* sorted, duplicate free list of matching files: the harness bodies sort what they receive *)
  Fixpoint insN (x : N) (l : list N) : list N :=
    match l with
    | [] => [x]
    | y :: r => if (x <? y)%N then x :: l else if (x =? y)%N then l else y :: insN x r
    end.
  Definition sortN (l : list N) : list N := fold_right insN [] l.

  Definition resolved_deps (w : world) (t : ptask) : list N := sortN (matching w (pdeps t)).

  (* the task as it looks after its provisional dependencies have been resolved *)
  Definition resolve (w : world) (t : ptask) : task :=
    let b := base t in
    mkTask (tid b) (tsrc b) (deps b ++ resolved_deps w t) (prods b) (after b) (after_expr b)
           (m_skip b) (m_skipif b) (m_persist b) (tprio b) (tnames b) (tmarks b).

  (* pattern nodes are ordinary nodes of the static graph: ids 900000 + p *)
  Definition pat_node (p : N) : N := (900000 + p)%N.

  (* edges that exist while the task is set up: the static graph, where the task's own pattern
     nodes have been replaced by the resolved dependency files (provisional products have no
     state and are skipped by the change check) *)
  Definition edges_check (E : list edge) (w : world) (t : ptask) : list edge :=
    let i := tid (base t) in
    filter (fun e => negb ((N.eqb (snd e) i && memN (fst e) (map pat_node (pdeps t))) ||
                           (N.eqb (fst e) i && memN (snd e) (map pat_node (pprods t))))) E
    ++ map (fun f => (f, i)) (resolved_deps w t).

  (* ... and when its states are recorded: additionally the files now matching its product patterns *)
  Definition edges_record (E : list edge) (w0 w1 : world) (t : ptask) : list edge :=
    edges_check E w0 t ++ map (fun f => (tid (base t), f)) (sortN (matching w1 (pprods t))).

  (* the task function: clear, write static products, write pattern files *)
  Definition run_pbody (w : world) (t : ptask) (rt : task) (f : fault) : world * bool :=
    match f with
    | RaiseBefore => (w, true)
    | _ =>
      if forallb (fun d => match lookup d (fs w) with Some _ => true | None => false end) (deps rt)
      then
        let dv := map (fun d => match lookup d (fs w) with Some c => c | None => 0%N end) (deps rt) in
        let fs0 := if clears t then filter (fun kv => negb (existsb (fun p => matches p (fst kv)) (pprods t))) (fs w)
                   else fs w in
        let skip p := match f with Omit ps => memN p ps | _ => false end in
        let targets := prods rt ++ match pprods t with [] => [] | _ => dyn_files rt dv end in
        let fs' := fold_left (fun m p => if skip p then m else upd p (body (tid rt) (tsrc rt) dv p) m) targets fs0 in
        (mkWorld fs' (db w), match f with RaiseAfter => true | _ => false end)
      else (w, true)
    end.

  Record pres := mkPres { p_out : outcome; p_world : world; p_events : list event; p_children : list ptask }.

  (* the protocol for one task with provisional nodes; mirrors Engine.run_task_with *)
  Definition run_ptask (c : config) (E : list edge) (dyn : list (N * dynmark)) (desel : list N)
             (w : world) (t : ptask) (f : fault) : pres :=
    let rt := resolve w t in
    let i := tid rt in
    let Ec := edges_check E w t in
    if m_skip rt || has_dyn MSkip i dyn || memN i desel then mkPres OSkip w [] []
    else if existsb (fun b => b) (m_skipif rt) then mkPres OSkip w [] []
    else if has_dyn MAncFailed i dyn then mkPres OSkipPrevFailed w [] []
    else if has_dyn MWould i dyn then mkPres OWould w [] []
    (* F30: the persist hook asks every neighbour for its state; a provisional product has none
       (AttributeError): the task fails before anything else happens *)
    else if negb (is_gen t) && m_persist rt && (match pprods t with [] => false | _ => true end)
         then mkPres OFail w [] []
    else if negb (is_gen t) && m_persist rt && all_exist Ec w rt && any_changed Ec w rt
         then mkPres OPersist (if dry_run c then w else record_states (edges_record E w w t) w rt) [] []
    else
      let verdict :=
        if is_gen t then inr true
        else if negb (preds_exist Ec w rt) then inl true
        else if force c then inr true
        else check_loop w rt (neighbours Ec rt) (fun k => memN k (pred_nodes Ec rt) || N.eqb k i) in
      match verdict with
      | inl _ => mkPres OFail w [] []
      | inr false => mkPres OSkipUnchanged w [] []
      | inr true =>
        (* the generator hook runs before the dry-run check: generators are executed in a dry run *)
        if dry_run c && negb (is_gen t) then mkPres OWould w [] []
        else
          let '(w1, raised) := run_pbody w t rt f in
          if raised then mkPres OFail w1 [Start i; Finish i] []
          else if is_gen t then
            (* a generator records nothing; its children are the tasks its function created;
               creating none is an error *)
            match children rt (resolved_deps w t) with
            | [] => mkPres OFail w1 [Start i; Finish i] []
            | ch => mkPres OSuccess w1 [Start i; Finish i] ch
            end
          else if forallb (fun p => match lookup p (fs w1) with Some _ => true | None => false end) (prods rt)
          then mkPres OSuccess (record_states (edges_record E w w1 t) w1 rt) [Start i; Finish i] []
          else mkPres OFail w1 [Start i; Finish i] []
      end.
End P.

(* ------------------------------------------------------------------ the build *)
Record pbstate := mkPB {
  pb_world : world;
  pb_dyn : list (N * dynmark);
  pb_reports : list (N * outcome);
  pb_log : list event;
  pb_nfail : nat;
  pb_sorter : sorter;
  pb_tasks : list ptask;
  pb_edges : list edge;
  pb_desel : list N
}.

Section PBuild.
  Variable is_word : N -> bool.
  Variable lower : list N -> list N.
  Variable matches : N -> N -> bool.
  Variable body : N -> N -> list N -> N -> N.
  Variable dyn_files : task -> list N -> list N.
  Variable children : task -> list N -> list ptask.

  Definition static_task (t : ptask) : task :=
    let b := base t in
    mkTask (tid b) (tsrc b) (deps b ++ map pat_node (pdeps t)) (prods b ++ map pat_node (pprods t)) (after b) (after_expr b)
           (m_skip b) (m_skipif b) (m_persist b) (tprio b) (tnames b) (tmarks b).

  Definition pdag (c : config) (ts : list ptask) : dagres :=
    create_dag is_word lower c (map static_task ts).

  Definition find_ptask (ts : list ptask) (i : N) : option ptask :=
    find (fun t => N.eqb (tid (base t)) i) ts.

  Definition has_ptask (ts : list ptask) (i : N) : bool :=
    match find_ptask ts i with Some _ => true | None => false end.

  Definition pstep (c : config) (faults : N -> fault) (pref : list N) (b : pbstate) : option (pbstate * bool) :=
    match pick (pb_sorter b) pref with
    | None => None
    | Some i =>
      match find_ptask (pb_tasks b) i with
      | None => None
      | Some t =>
        let r := run_ptask matches body dyn_files children c (pb_edges b) (pb_dyn b) (pb_desel b) (pb_world b) t (faults i) in
        let new := filter (fun k => negb (has_ptask (pb_tasks b) (tid (base k)))) (p_children r) in
        let ts' := pb_tasks b ++ new in
        (* re-create the DAG when the project grew *)
        let regraph := match new with
                       | [] => Some (pb_edges b, pb_desel b)
                       (* a task deselected by -k/-m carries a skip marker; the marker stays on it when the
                          graph is re-created, also if a new task that is selected depends on it
                          (... on the task OBJECT: a task that the generator creates anew - another generator had
                          created it before - is a new object without markers) *)
                       | _ => match pdag c ts' with
                              | DagOk E d => Some (E, filter (fun j => negb (memN j (map (fun k => tid (base k)) (p_children r)))) (pb_desel b) ++ d)
                              | DagErr => None end
                       end in
        match regraph with
        | None =>
          (* recreate_dag failed: the error is attached as a second report of this task and the
             build stops; graph, task list and scheduler stay as they were (and are not looked at
             again) *)
          Some (mkPB (p_world r) (pb_dyn b) ((i, OFail) :: (i, p_out r) :: pb_reports b)
                     (rev (p_events r) ++ pb_log b) (pb_nfail b) (done (take (pb_sorter b) [i]) [i])
                     (pb_tasks b) (pb_edges b) (pb_desel b), true)
        | Some (E', d') =>
          let ids := map (fun t => tid (base t)) ts' in
          let s1 := done (take (pb_sorter b) [i]) [i] in
          let s' := match new with
                    | [] => s1
                    | _ => rebuild ids (closure_edges ids E') (map (fun t => (tid (base t), tprio (base t))) ts') s1
                    end in
          let desc := filter (fun v => reachb E' i v) ids in
          let dyn' := match p_out r with
                      | OSkip => mark_desc MSkip desc (pb_dyn b)
                      | OWould => mark_desc MWould desc (pb_dyn b)
                      | OFail => mark_desc MAncFailed desc (pb_dyn b)
                      | _ => pb_dyn b
                      end in
          let nf := match p_out r with OFail => S (pb_nfail b) | _ => pb_nfail b end in
          let stop := match p_out r, max_fail c with
                      | OFail, Some m => Nat.leb m nf
                      | _, _ => false
                      end in
          Some (mkPB (p_world r) dyn' ((i, p_out r) :: pb_reports b) (rev (p_events r) ++ pb_log b) nf s' ts' E' d', stop)
        end
      end
    end.

  Fixpoint ploop (fuel : nat) (c : config) (faults : N -> fault) (pref : list N) (b : pbstate) : pbstate :=
    match fuel with
    | O => b
    | S f =>
      if is_active (pb_sorter b) then
        match pstep c faults pref b with
        | None => b
        | Some (b', true) => b'
        | Some (b', false) => ploop f c faults pref b'
        end
      else b
    end.

  Definition pbuild (fuel : nat) (c : config) (ts : list ptask) (faults : N -> fault) (pref : list N) (w : world) : bres :=
    match pdag c ts with
    | DagErr => mkRes XDag w [] []
    | DagOk E desel =>
      let ids := map (fun t => tid (base t)) ts in
      match from_dag ids E (map (fun t => (tid (base t), tprio (base t))) ts) with
      | None => mkRes XFailed w [] []
      | Some s =>
        let b := ploop fuel c faults pref (mkPB w [] [] [] 0 s ts E desel) in
        mkRes (if any_fail (pb_reports b) then XFailed else XOk)
              (pb_world b) (rev (pb_reports b)) (rev (pb_log b))
      end
    end.
End PBuild.
