(* Model of `pytask clean` (clean.py): the recursive classification of paths into
   known/unknown and the listing of what would be removed.  Paths are lists of
   components; [known] and [excl] are arbitrary predicates on paths (what is known
   and which paths match an exclude pattern is modelled separately below). *)
From Verif Require Import Base.Prelude.

Definition comp := list N.
Definition path := list comp.

Inductive ftree := File (name : comp) | Dir (name : comp) (children : list ftree).

Definition tname (t : ftree) : comp := match t with File n | Dir n _ => n end.

Section Clean.
  Variable known : path -> bool.
  Variable excl : path -> bool.

  (* _RecursivePathNode.is_unknown; [p] is the parent path *)
  Fixpoint unknown (p : path) (t : ftree) : bool :=
    match t with
    | File n => negb (known (p ++ [n]) || excl (p ++ [n]))
    | Dir n cs => negb (excl (p ++ [n])) && forallb (unknown (p ++ [n])) cs
    end.

  (* _find_all_unknown_paths_per_recursive_node: (path, is_directory) *)
  Fixpoint listing (dirs : bool) (p : path) (t : ftree) : list (path * bool) :=
    match t with
    | File n => if unknown p t then [(p ++ [n], false)] else []
    | Dir n cs =>
      if unknown p t && dirs then [(p ++ [n], true)]
      else if excl (p ++ [n]) then []        (* excluded directories have no sub nodes *)
      else flat_map (listing dirs (p ++ [n])) cs
    end.

  (* every path of the tree, with its kind *)
  Fixpoint all_paths (p : path) (t : ftree) : list (path * bool) :=
    match t with
    | File n => [(p ++ [n], false)]
    | Dir n cs => (p ++ [n], true) :: flat_map (all_paths (p ++ [n])) cs
    end.

  (* force mode: what is left of the tree *)
  Fixpoint remove_listed (dirs : bool) (p : path) (t : ftree) : option ftree :=
    match t with
    | File n => if unknown p t then None else Some t
    | Dir n cs =>
      if unknown p t && dirs then None
      else if excl (p ++ [n]) then Some t
      else Some (Dir n (flat_map (fun c => match remove_listed dirs (p ++ [n]) c with
                                           | Some c' => [c'] | None => [] end) cs))
    end.
End Clean.

Inductive mode := DryRun | Force.

(* (lines printed, resulting tree) for one path argument *)
Definition clean known excl (m : mode) (dirs : bool) (p : path) (t : ftree) : list (path * bool) * option ftree :=
  (listing known excl dirs p t,
   match m with DryRun => Some t | Force => remove_listed known excl dirs p t end).

(* ---- pathlib.PurePath.match for patterns made of literal characters, * and ? ---- *)
Fixpoint glob (fuel : nat) (pat s : list N) : bool :=
  match fuel with
  | O => false
  | S f =>
    match pat with
    | [] => match s with [] => true | _ :: _ => false end
    | c :: pr =>
      if N.eqb c 42 then
        match s with
        | [] => glob f pr []
        | _ :: sr => glob f pr s || glob f pat sr
        end
      else
        match s with
        | [] => false
        | d :: sr => (N.eqb c 63 || N.eqb c d) && glob f pr sr
        end
    end
  end.

Definition comp_match (pat s : comp) : bool := glob (S (length pat + length s) * 2) pat s.

Fixpoint comps_match (pats : list comp) (cs : list comp) : bool :=
  match pats, cs with
  | [], [] => true
  | p :: pr, c :: cr => comp_match p c && comps_match pr cr
  | _, _ => false
  end.

(* relative patterns are matched from the right, absolute ones against the whole path *)
Definition path_match (absolute : bool) (pat : list comp) (p : path) : bool :=
  if absolute then comps_match pat p
  else Nat.leb (length pat) (length p) && (match pat with [] => false | _ => true end) &&
       comps_match pat (skipn (length p - length pat) p).

Definition excluded (pats : list (bool * list comp)) (p : path) : bool :=
  existsb (fun bp => path_match (fst bp) (snd bp) p) pats.

(* ---- known paths: files of tasks and nodes, all their parents, config, root, git *)
Fixpoint prefixes (p : path) : list path :=
  match p with
  | [] => [[]]
  | c :: r => [] :: map (cons c) (prefixes r)
  end.

Fixpoint eqbP (a b : path) : bool :=
  match a, b with
  | [], [] => true
  | x :: a', y :: b' => eqbL x y && eqbP a' b'
  | _, _ => false
  end.

Definition known_list (files : list path) (config : option path) (root : path)
           (git_files : list path) (git_root : path) : list path :=
  files ++ flat_map (fun f => removelast (prefixes f)) files ++
  (match config with Some c => [c] | None => [] end) ++ [root] ++ git_files ++ [git_root ++ [[46; 103; 105; 116]%N]].

Definition known_of (l : list path) (p : path) : bool := existsb (eqbP p) l.

(* ---- several path arguments and the force loop (clean.py: _find_all_unknown_paths and the
   loop over unknown_paths in clean()).  The paths of every argument are listed in the order of
   the arguments; dict.fromkeys keeps the first occurrence of a path; a path inside a listed
   directory is dropped (F26, F27).  Force mode then walks the list: rmtree for a directory,
   unlink otherwise - unlink of a path that no longer exists raises (None). *)
Fixpoint is_prefix (a b : path) : bool :=
  match a, b with
  | [], _ => true
  | x :: a', y :: b' => eqbL x y && is_prefix a' b'
  | _ :: _, [] => false
  end.

Definition strictly_above (a b : path) : bool := is_prefix a b && negb (eqbP a b).

Fixpoint dedupe (l : list (path * bool)) : list (path * bool) :=
  match l with
  | [] => []
  | x :: r => x :: filter (fun y => negb (eqbP (fst x) (fst y))) (dedupe r)
  end.

Definition drop_nested (l : list (path * bool)) : list (path * bool) :=
  filter (fun x => negb (existsb (fun y => strictly_above (fst y) (fst x)) l)) l.

Definition listing_all known excl (dirs : bool) (args : list (path * ftree)) : list (path * bool) :=
  flat_map (fun a => listing known excl dirs (fst a) (snd a)) args.

Definition listing_multi known excl (dirs : bool) (args : list (path * ftree)) : list (path * bool) :=
  drop_nested (dedupe (listing_all known excl dirs args)).

(* the file system as the list of existing paths *)
Definition rm_one (q : path) (s : list path) : option (list path) :=
  if existsb (eqbP q) s then Some (filter (fun r => negb (is_prefix q r)) s) else None.

Fixpoint rm_seq (l : list path) (s : list path) : option (list path) :=
  match l with
  | [] => Some s
  | q :: r => match rm_one q s with Some s' => rm_seq r s' | None => None end
  end.

Definition clean_multi known excl (m : mode) (dirs : bool) (args : list (path * ftree)) (s : list path)
  : list (path * bool) * option (list path) :=
  let l := listing_multi known excl dirs args in
  (l, match m with DryRun => Some s | Force => rm_seq (map fst l) s end).

(* the listings before the repairs: every argument's paths one after the other (F26), first
   occurrences only (F27) *)
Definition clean_multi_f26 known excl (dirs : bool) (args : list (path * ftree)) (s : list path) :=
  let l := listing_all known excl dirs args in (l, rm_seq (map fst l) s).
Definition clean_multi_f27 known excl (dirs : bool) (args : list (path * ftree)) (s : list path) :=
  let l := dedupe (listing_all known excl dirs args) in (l, rm_seq (map fst l) s).
