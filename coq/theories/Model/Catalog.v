(* Model of _pytask.data_catalog.DataCatalog: name validation, entry locations, and the
   store semantics of catalog entries (PickleNode save/load). *)
From Verif Require Import Base.Prelude.

Inductive re_fn := ReMatch | ReFullmatch | ReSearch.

(* [a-zA-Z0-9-_] *)
Definition name_class (c : N) : bool :=
  ((97 <=? c) && (c <=? 122) || (65 <=? c) && (c <=? 90) || (48 <=? c) && (c <=? 57) ||
   (c =? 45) || (c =? 95))%N.

(* re.<fn>(r"[class]+", s) is not None *)
Definition name_accepted (fn : re_fn) (s : list N) : bool :=
  match fn with
  | ReFullmatch => match s with [] => false | _ => forallb name_class s end
  | ReMatch => match s with c :: _ => name_class c | [] => false end
  | ReSearch => existsb name_class s
  end.

(* what the documentation promises: non-empty, letters digits hyphen underscore only *)
Definition name_valid (s : list N) : bool :=
  match s with [] => false | _ => forallb name_class s end.

Definition slash : N := 47.

Section Paths.
  Variable sha_hex : list N -> list N.
  Variable utf8 : list N -> list N.

  Definition dir_parts : list (list N) :=
    [[46; 112; 121; 116; 97; 115; 107]; [100; 97; 116; 97; 95; 99; 97; 116; 97; 108; 111; 103; 115]]%N.
    (* ".pytask" "data_catalogs" *)
  Definition suffix_value : list N := [46; 112; 107; 108]%N.                      (* ".pkl" *)
  Definition suffix_node : list N := [45; 110; 111; 100; 101; 46; 112; 107; 108]%N. (* "-node.pkl" *)

  Definition catalog_dir (root cname : list N) : list N :=
    root ++ [slash] ++ nth 0 dir_parts [] ++ [slash] ++ nth 1 dir_parts [] ++ [slash] ++ cname.

  Definition entry_file (root cname ename : list N) : list N :=
    catalog_dir root cname ++ [slash] ++ sha_hex (utf8 ename) ++ suffix_value.

  Definition entry_node_file (root cname ename : list N) : list N :=
    catalog_dir root cname ++ [slash] ++ sha_hex (utf8 ename) ++ suffix_node.
End Paths.

(* ---- store semantics: files hold pickled values *)
Section Store.
  Variable value : Type.
  Variable dumps : value -> list N.
  Variable loads : list N -> option value.

  Definition store := list (list N * list N).

  Fixpoint sget (p : list N) (s : store) : option (list N) :=
    match s with
    | [] => None
    | (k, v) :: r => if eqbL p k then Some v else sget p r
    end.

  Definition save (s : store) (p : list N) (v : value) : store := (p, dumps v) :: s.
  Definition load (s : store) (p : list N) : option value :=
    match sget p s with Some b => loads b | None => None end.
End Store.
