(* Model of task collection: which files are visited (collect._not_ignored_paths), how
   @task-decorated functions of one module get their names (task_utils.
   parse_collected_tasks_with_task_marker / _generate_ids_for_tasks) and how they are
   merged with the prefixed functions of the module. *)
From Verif Require Import Base.Prelude Model.Clean.

(* ---------------------------------------------------------------- files *)
Section Files.
  Variable ign : path -> bool.          (* pytask_ignore_collect *)

  Fixpoint files (p : path) (t : ftree) : list path :=
    match t with
    | File n => if ign (p ++ [n]) then [] else [p ++ [n]]
    | Dir n cs => if ign (p ++ [n]) then [] else flat_map (files (p ++ [n])) cs
    end.

  Fixpoint dedupP (seen : list path) (l : list path) : list path :=
    match l with
    | [] => []
    | x :: r => if existsb (eqbP x) seen then dedupP seen r else x :: dedupP (x :: seen) r
    end.

  (* the generator with its [seen] set: a path is yielded the first time it is met *)
  Definition collect_paths (args : list (path * ftree)) : list path :=
    dedupP [] (flat_map (fun a => files (fst a) (snd a)) args).
End Files.

(* ---------------------------------------------------------------- names *)
Inductive argval := APrintable (s : list N) | AOther.      (* bool/int/float/str vs anything else *)

Record dtask := mkD {
  d_fname : list N;                       (* function.__name__ *)
  d_name : option (list N);               (* @task(name=...) *)
  d_id : option (list N);                 (* @task(id=...) *)
  d_params : list (list N);               (* parameter names of the signature, in order *)
  d_kwargs : list (list N * argval)       (* meta.kwargs: defaults and @task(kwargs=...) *)
}.

Definition prelim (d : dtask) : list N := match d_name d with Some n => n | None => d_fname d end.

Fixpoint kw_get (k : list N) (l : list (list N * argval)) : argval :=
  match l with
  | [] => AOther                         (* kwargs.get(p) is None -> placeholder *)
  | (k', v) :: r => if eqbL k k' then v else kw_get k r
  end.

Definition lbr : N := 91. Definition rbr : N := 93. Definition dash : N := 45.

Section Names.
  Variable dec_nat : nat -> list N.      (* str(i) *)

  Fixpoint join_dash (l : list (list N)) : list N :=
    match l with
    | [] => []
    | [x] => x
    | x :: r => x ++ [dash] ++ join_dash r
    end.

  Definition component (i : nat) (d : dtask) (p : list N) : list N :=
    match kw_get p (d_kwargs d) with
    | APrintable s => s
    | AOther => p ++ dec_nat i
    end.

  (* the id of the i-th task of a group; [params] are those of the FIRST task of the group *)
  Definition gen_id (params : list (list N)) (i : nat) (d : dtask) : list N :=
    let name := prelim d in
    match d_id d with
    | Some x => name ++ [lbr] ++ x ++ [rbr]
    | None =>
      match params with
      | [] => name ++ [lbr] ++ dec_nat i ++ [rbr]
      | _ => name ++ [lbr] ++ join_dash (map (component i d) params) ++ [rbr]
      end
    end.

  (* _generate_ids_for_tasks: None = ValueError (duplicated id) *)
  Fixpoint gen_ids_aux (params : list (list N)) (i : nat) (group : list (nat * dtask))
           (out : list (list N * nat)) : option (list (list N * nat)) :=
    match group with
    | [] => Some (rev out)
    | (idx, d) :: r =>
      let k := gen_id params i d in
      if existsb (fun e => eqbL (fst e) k) out then None
      else gen_ids_aux params (S i) r ((k, idx) :: out)
    end.

  Definition gen_ids (group : list (nat * dtask)) : option (list (list N * nat)) :=
    match group with
    | [] => Some []
    | (_, d0) :: _ => gen_ids_aux (d_params d0) 0 group []
    end.

  (* dict.update / item assignment: a later entry with the same key replaces the value *)
  Fixpoint dict_set (k : list N) (v : nat) (m : list (list N * nat)) : list (list N * nat) :=
    match m with
    | [] => [(k, v)]
    | (k', v') :: r => if eqbL k k' then (k, v) :: r else (k', v') :: dict_set k v r
    end.

  Definition dict_update (m new : list (list N * nat)) : list (list N * nat) :=
    fold_left (fun acc e => dict_set (fst e) (snd e) acc) new m.

  Definition indexed (ds : list dtask) : list (nat * dtask) := combine (seq 0 (length ds)) ds.

  Definition group_of (ds : list dtask) (name : list N) : list (nat * dtask) :=
    filter (fun e => eqbL (prelim (snd e)) name) (indexed ds).

  Definition has_key (k : list N) (m : list (list N * nat)) : bool :=
    existsb (fun e => eqbL (fst e) k) m.

  (* parse_collected_tasks_with_task_marker; [order] = iteration order of the set of
     preliminary names (hash-seed dependent); None = ValueError: duplicated generated ids, or a
     name - explicit or generated - that is already taken *)
  Fixpoint parse_names (ds : list dtask) (order : list (list N)) (acc : list (list N * nat))
    : option (list (list N * nat)) :=
    match order with
    | [] => Some acc
    | name :: r =>
      let new := match group_of ds name with
                 | [] => Some []
                 | [(idx, _)] => Some [(name, idx)]
                 | g => gen_ids g
                 end in
      match new with
      | None => None
      | Some ids =>
        if existsb (fun e => has_key (fst e) acc) ids then None
        else parse_names ds r (acc ++ ids)
      end
    end.

  Fixpoint nodupL (l : list (list N)) : bool :=
    match l with
    | [] => true
    | x :: r => negb (existsb (eqbL x) r) && nodupL r
    end.

  (* the tasks of one module: prefixed functions first (collect.py), then the decorated ones
     (task.py, trylast); names only - ids are path::name.  None = collection fails: a ValueError
     above, or two tasks with one id (_fail_tasks_with_duplicated_ids) *)
  Definition module_tasks (prefixed : list (list N)) (ds : list dtask) (order : list (list N))
    : option (list (list N)) :=
    match parse_names ds order [] with
    | Some m => let l := prefixed ++ map fst m in if nodupL l then Some l else None
    | None => None
    end.

  (* ---- the behaviour before the repairs of F7 and F8 (kept for the regression witnesses) *)
  Fixpoint parse_names_old (ds : list dtask) (order : list (list N)) (acc : list (list N * nat))
    : option (list (list N * nat)) :=
    match order with
    | [] => Some acc
    | name :: r =>
      match group_of ds name with
      | [] => parse_names_old ds r acc
      | [(idx, _)] => parse_names_old ds r (dict_set name idx acc)
      | g => match gen_ids g with
             | Some ids => parse_names_old ds r (dict_update acc ids)
             | None => None
             end
      end
    end.

  Definition module_tasks_old (prefixed : list (list N)) (ds : list dtask) (order : list (list N))
    : option (list (list N)) :=
    match parse_names_old ds order [] with
    | Some m => Some (prefixed ++ map fst m)
    | None => None
    end.
End Names.

(* ---------------------------------------------------------------- modules
   path.import_path: the module object for a task file is looked up in sys.modules under a
   name DERIVED from the path; different paths can derive the same name. *)
Definition dot : N := 46. Definition underscore : N := 95.

(* _module_name_from_path: components relative to the root, "." -> "_", joined by "." *)
Definition norm_comp (c : comp) : comp := map (fun x => if N.eqb x dot then underscore else x) c.
Definition modname_plain (p : path) : list comp := map norm_comp p.

(* _resolve_pkg_root_and_module_name: when the directory of the file is a package
   (has __init__.py), climb while the parent is a package; the name is the path relative to
   the package root's parent (no replacement of dots).  [is_pkg d] for a directory path d. *)
Fixpoint climb (is_pkg : path -> bool) (fuel : nat) (dir : path) : path :=
  match fuel with
  | O => dir
  | S f => match rev dir with
           | [] => dir
           | _ :: rparent => let parent := rev rparent in
                             if is_pkg parent then climb is_pkg f parent else dir
           end
  end.

Definition dir_of (p : path) : path := removelast p.

Definition modname (is_pkg : path -> bool) (p : path) : list comp :=
  let d := dir_of p in
  if is_pkg d then
    let top := climb is_pkg (length d) d in          (* the outermost package directory *)
    skipn (length top - 1) p                         (* relative to its parent *)
  else modname_plain p.


(* sys.modules as far as task files are concerned: derived name -> file it was loaded from *)
Definition mcache := list (list comp * path).

Fixpoint mc_get (k : list comp) (m : mcache) : option path :=
  match m with
  | [] => None
  | (k', v) :: r => if eqbP k k' then Some v else mc_get k r
  end.

Fixpoint mc_set (k : list comp) (v : path) (m : mcache) : mcache :=
  match m with
  | [] => [(k, v)]
  | (k', v') :: r => if eqbP k k' then (k, v) :: r else (k', v') :: mc_set k v r
  end.

(* import_path for one file: which file's code the returned module object holds.
   A cached module is reused only if it was loaded from this very file. *)
Definition import_one (is_pkg : path -> bool) (m : mcache) (p : path) : path * mcache :=
  let k := modname is_pkg p in
  match mc_get k m with
  | Some f => if eqbP f p then (f, m) else (p, mc_set k p m)
  | None => (p, mc_set k p m)
  end.

Fixpoint import_all (is_pkg : path -> bool) (m : mcache) (ps : list path) : list (path * path) :=
  match ps with
  | [] => []
  | p :: r => let '(f, m') := import_one is_pkg m p in (p, f) :: import_all is_pkg m' r
  end.

(* the behaviour before the repair (kept for the regression witness): any cached module of
   that name is reused *)
Definition import_one_old (is_pkg : path -> bool) (m : mcache) (p : path) : path * mcache :=
  let k := modname is_pkg p in
  match mc_get k m with
  | Some f => (f, m)
  | None => (p, mc_set k p m)
  end.
