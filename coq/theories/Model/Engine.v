(* The build engine without provisional nodes and task generators:
   create_dag (dag.py) -> scheduler (dag_utils.py) -> per-task protocol
   (execute.py, skipping.py, persist.py) -> exit code (build.py).

   Ids: tasks and nodes are N (disjoint ranges by convention); a file content,
   a module-source content and a recorded state are N (state = content: the
   hash layer is modelled separately in Hashing.v and assumed injective). *)
From Verif Require Import Base.Prelude Base.Graph Model.Sorter Model.Expr.

Inductive outcome := OSuccess | OFail | OSkip | OSkipUnchanged | OSkipPrevFailed | OPersist | OWould.
Inductive exitc := XOk | XFailed | XConfig | XCollect | XDag.
Inductive event := Start (t : N) | Finish (t : N).
Inductive fault := NoFault | RaiseBefore | RaiseAfter | Omit (ps : list N).
Inductive dynmark := MSkip | MAncFailed | MWould.

Record task := mkTask {
  tid : N;
  tsrc : N;                       (* content of the module that defines it *)
  deps : list N;
  prods : list N;
  after : list N;                 (* @task(after=[...]) resolved to task ids *)
  after_expr : option (list N);   (* @task(after="expr") *)
  m_skip : bool;
  m_skipif : list bool;
  m_persist : bool;
  tprio : Z;
  tnames : list (list N);         (* id, attribute names, marker names (for -k) *)
  tmarks : list (list N)          (* marker names (for -m) *)
}.

Record config := mkConfig {
  force : bool;
  dry_run : bool;
  max_fail : option nat;          (* None = unlimited *)
  kexpr : option (list N);
  mexpr : option (list N)
}.

(* ------------------------------------------------------------- maps *)
Fixpoint lookup (k : N) (m : list (N * N)) : option N :=
  match m with
  | [] => None
  | (k', v) :: r => if N.eqb k k' then Some v else lookup k r
  end.

Fixpoint upd (k v : N) (m : list (N * N)) : list (N * N) :=
  match m with
  | [] => [(k, v)]
  | (k', v') :: r => if N.eqb k k' then (k, v) :: r else (k', v') :: upd k v r
  end.

Fixpoint del (k : N) (m : list (N * N)) : list (N * N) :=
  match m with
  | [] => []
  | (k', v') :: r => if N.eqb k k' then del k r else (k', v') :: del k r
  end.

Definition dbkey := (N * N)%type.

Fixpoint dblookup (t k : N) (m : list (N * N * N)) : option N :=
  match m with
  | [] => None
  | (t', k', v) :: r => if N.eqb t t' && N.eqb k k' then Some v else dblookup t k r
  end.

Fixpoint dbupd (t k v : N) (m : list (N * N * N)) : list (N * N * N) :=
  match m with
  | [] => [(t, k, v)]
  | (t', k', v') :: r =>
    if N.eqb t t' && N.eqb k k' then (t, k, v) :: r else (t', k', v') :: dbupd t k v r
  end.

Record world := mkWorld {
  fs : list (N * N);              (* existing files: node id -> content *)
  db : list (N * N * N)           (* table `state`: (task, node-or-task) -> state *)
}.

(* ------------------------------------------------------------- the DAG *)
Definition find_task (ts : list task) (i : N) : option task :=
  find (fun t => N.eqb (tid t) i) ts.

Definition base_edges (ts : list task) : list edge :=
  flat_map (fun t => map (fun d => (d, tid t)) (deps t) ++ map (fun p => (tid t, p)) (prods t)) ts.

Definition prods_of (ts : list task) (i : N) : list N :=
  match find_task ts i with Some t => prods t | None => [] end.

Section Dag.
  Variable is_word : N -> bool.
  Variable lower : list N -> list N.

  (* tasks named by an after-expression: None = the expression does not parse *)
  Definition after_matches (ts : list task) (self : N) (e : list N) : option (list N) :=
    match compile is_word e with
    | Ok a =>
      Some (map tid (filter (fun t => negb (N.eqb (tid t) self) &&
                                      match e with [] => false | _ => eval (kw_match lower (tnames t)) a end) ts))
    | _ => None
    end.

  (* _modify_dag: an edge from every *product* of the upstream task *)
  Definition after_edges_of (ts : list task) (t : task) : option (list edge) :=
    let ups1 := after t in
    match (match after_expr t with
           | None => Some []
           | Some e => after_matches ts (tid t) e
           end) with
    | None => None
    | Some ups2 =>
      Some (flat_map (fun u => map (fun p => (p, tid t)) (prods_of ts u)) (ups1 ++ ups2))
    end.

  Fixpoint all_after_edges (ts all : list task) : option (list edge) :=
    match ts with
    | [] => Some []
    | t :: r =>
      match after_edges_of all t, all_after_edges r all with
      | Some a, Some b => Some (a ++ b)
      | _, _ => None
      end
    end.

  Definition dup_products (ts : list task) (E : list edge) : bool :=
    existsb (fun n => Nat.ltb 1 (length (dedupN [] (preds E n))))
            (flat_map prods ts).

  Definition task_ids (ts : list task) : list N := map tid ts.

  (* tasks u with a path u ->+ t *)
  Definition preceding_tasks (ts : list task) (E : list edge) (t : N) : list N :=
    filter (fun u => reachb E u t) (task_ids ts).

  Definition descending_tasks (ts : list task) (E : list edge) (t : N) : list N :=
    filter (fun v => reachb E t v) (task_ids ts).

  (* remaining set of select_by_keyword / select_by_mark *)
  Definition remaining (ts : list task) (E : list edge) (hit : task -> bool) : list N :=
    flat_map (fun t => if hit t then tid t :: preceding_tasks ts E (tid t) else []) ts.

  Inductive dagres :=
  | DagErr
  | DagOk (E : list edge) (deselected : list N).

  Definition create_dag (c : config) (ts : list task) : dagres :=
    let E0 := base_edges ts in
    if has_cycle E0 then DagErr
    else if dup_products ts E0 then DagErr
    else
      match all_after_edges ts ts with
      | None => DagErr
      | Some AE =>
        let E := E0 ++ AE in
        (* second cycle check, after the `after` edges have been added *)
        if has_cycle E then DagErr else
        let selk :=
          match kexpr c with
          | None | Some [] => Some None
          | Some e => match compile is_word e with
                      | Ok a => Some (Some (remaining ts E (fun t => eval (kw_match lower (tnames t)) a)))
                      | _ => None end
          end in
        match selk with
        | None => DagErr
        | Some rk =>
          let selm :=
            match mexpr c with
            | None | Some [] => Some None
            | Some e => match compile is_word e with
                        | Ok a => Some (Some (remaining ts E (fun t => eval (mark_match (tmarks t)) a)))
                        | _ => None end
            end in
          match selm with
          | None => DagErr
          | Some rm =>
            let out r := match r with
                         | None => []
                         | Some keep => filter (fun i => negb (memN i keep)) (task_ids ts)
                         end in
            DagOk E (out rk ++ out rm)
          end
        end
      end.
End Dag.

(* ---------------------------------------------------- per-task protocol *)
(* node_and_neighbors: predecessors (declared dependencies, then the products of
   `after` tasks wired in by _modify_dag), the task itself, successors *)
Definition pred_nodes (E : list edge) (t : task) : list N := dedupN [] (preds E (tid t)).
Definition succ_nodes (E : list edge) (t : task) : list N := dedupN [] (succs E (tid t)).
Definition neighbours (E : list edge) (t : task) : list N :=
  pred_nodes E t ++ [tid t] ++ succ_nodes E t.

(* state() of a neighbour: the task's own state is its module content *)
Definition state_of (w : world) (t : task) (k : N) : option N :=
  if N.eqb k (tid t) then Some (tsrc t) else lookup k (fs w).

Definition changed (w : world) (t : task) (k : N) : bool :=
  match state_of w t k with
  | None => true
  | Some s => match dblookup (tid t) k (db w) with
              | None => true
              | Some r => negb (N.eqb s r)
              end
  end.

Definition has_dyn (m : dynmark) (t : N) (dyn : list (N * dynmark)) : bool :=
  existsb (fun p => N.eqb (fst p) t &&
                    match snd p, m with
                    | MSkip, MSkip | MAncFailed, MAncFailed | MWould, MWould => true
                    | _, _ => false end) dyn.

(* update_states_in_database: the rows of the task for nodes that are no longer its neighbours are
   deleted (F28), then one row per neighbour, in order *)
Definition dbpurge (t : N) (ks : list N) (m : list (N * N * N)) : list (N * N * N) :=
  filter (fun row => match row with (t', k', _) => negb (N.eqb t t' && negb (memN k' ks)) end) m.

Definition record_states (E : list edge) (w : world) (t : task) : world :=
  mkWorld (fs w)
          (fold_left (fun d k => match state_of w t k with
                                 | Some s => dbupd (tid t) k s d
                                 | None => d end)
                     (neighbours E t) (dbpurge (tid t) (neighbours E t) (db w))).

Section Protocol.
  (* what a task function writes into product p, given its module content and
     the contents of its dependencies *)
  Variable body : N -> N -> list N -> N -> N.

  (* the check loop of execute.pytask_execute_task_setup:
     inl true  = a needed node is missing (NodeNotFoundError)
     inr b     = needs_to_be_executed = b *)
  Fixpoint check_loop (w : world) (t : task) (ks : list N) (is_pred : N -> bool) : bool + bool :=
    match ks with
    | [] => inr false
    | k :: r =>
      match state_of w t k with
      | None => if is_pred k then inl true else inr true
      | Some _ => if changed w t k then inr true else check_loop w t r is_pred
      end
    end.

  Definition preds_exist (E : list edge) (w : world) (t : task) : bool :=
    forallb (fun k => match state_of w t k with Some _ => true | None => false end) (pred_nodes E t).

  Definition all_exist (E : list edge) (w : world) (t : task) : bool :=
    forallb (fun k => match state_of w t k with Some _ => true | None => false end) (neighbours E t).

  Definition any_changed (E : list edge) (w : world) (t : task) : bool :=
    existsb (changed w t) (neighbours E t).

  Definition run_body (w : world) (t : task) (f : fault) : world * bool (* raised *) :=
    match f with
    | RaiseBefore => (w, true)
    | _ =>
      if forallb (fun d => match lookup d (fs w) with Some _ => true | None => false end) (deps t)
      then
        let dv := map (fun d => match lookup d (fs w) with Some c => c | None => 0%N end) (deps t) in
        let skip p := match f with Omit ps => memN p ps | _ => false end in
        let fs' := fold_left (fun m p => if skip p then m else upd p (body (tid t) (tsrc t) dv p) m)
                             (prods t) (fs w) in
        (mkWorld fs' (db w), match f with RaiseAfter => true | _ => false end)
      else (w, true)   (* reading a missing dependency raises *)
    end.

  (* result of the protocol for one task *)
  Record tres := mkTres { r_out : outcome; r_world : world; r_events : list event }.

  (* [pf]: does the persist hook fire (marker present, all nodes exist, one changed) *)
  Definition run_task_with (pf : bool) (c : config) (E : list edge) (dyn : list (N * dynmark)) (desel : list N)
             (w : world) (t : task) (f : fault) : tres :=
    let i := tid t in
    (* skipping.pytask_execute_task_setup *)
    if m_skip t || has_dyn MSkip i dyn || memN i desel then mkTres OSkip w []
    else if existsb (fun b => b) (m_skipif t) then mkTres OSkip w []
    else if has_dyn MAncFailed i dyn then mkTres OSkipPrevFailed w []
    (* persist.pytask_execute_task_setup: skipped for a task below one that would be executed
       (dry run), which execute.pytask_execute_task_setup then announces as would be executed *)
    else if has_dyn MWould i dyn then mkTres OWould w []
    else if pf then mkTres OPersist (if dry_run c then w else record_states E w t) []   (* a dry run records nothing *)
    (* execute.pytask_execute_task_setup *)
    else
      (* a missing dependency is an error whatever else is the case - another node changed, --force
         (F32, repaired: it used to be looked for only until the first change, and not at all under --force) *)
      let verdict :=
        if negb (preds_exist E w t) then inl true
        else if force c then inr true
        else check_loop w t (neighbours E t) (fun k => memN k (pred_nodes E t) || N.eqb k i) in
      match verdict with
      | inl _ => mkTres OFail w []
      | inr false => mkTres OSkipUnchanged w []
      | inr true =>
        (* execute.pytask_execute_task *)
        if dry_run c then mkTres OWould w []
        else
          let '(w1, raised) := run_body w t f in
          if raised then mkTres OFail w1 [Start i; Finish i]
          else
            (* teardown: every product must exist *)
            if forallb (fun p => match lookup p (fs w1) with Some _ => true | None => false end) (prods t)
            then mkTres OSuccess (record_states E w1 t) [Start i; Finish i]
            else mkTres OFail w1 [Start i; Finish i]
      end.

  Definition run_task (c : config) (E : list edge) (dyn : list (N * dynmark)) (desel : list N)
             (w : world) (t : task) (f : fault) : tres :=
    run_task_with (m_persist t && all_exist E w t && any_changed E w t) c E dyn desel w t f.
End Protocol.

(* ---------------------------------------------------------- the build *)
Record bstate := mkB {
  b_world : world;
  b_dyn : list (N * dynmark);
  b_reports : list (N * outcome);   (* most recent first *)
  b_log : list event;               (* most recent first *)
  b_nfail : nat;
  b_sorter : sorter
}.

Record bres := mkRes {
  x_exit : exitc;
  x_world : world;
  x_reports : list (N * outcome);   (* in order of reporting *)
  x_log : list event
}.

Section Build.
  Variable is_word : N -> bool.
  Variable lower : list N -> list N.
  Variable body : N -> N -> list N -> N -> N.

  (* get_ready()[0]: a ready task of maximal priority; ties broken by [pref]
     (the set-iteration order oracle: earlier in pref wins) *)
  Fixpoint pick_pref (pref cands : list N) : option N :=
    match pref with
    | [] => match cands with x :: _ => Some x | [] => None end
    | x :: r => if memN x cands then Some x else pick_pref r cands
    end.

  Definition best (s : sorter) : list N :=
    let r := ready s in
    filter (fun x => forallb (fun y => (pr s y <=? pr s x)%Z) r) r.

  Definition pick (s : sorter) (pref : list N) : option N := pick_pref pref (best s).

  Definition mark_desc (m : dynmark) (ds : list N) (dyn : list (N * dynmark)) :=
    map (fun d => (d, m)) ds ++ dyn.

  Definition step (c : config) (ts : list task) (E : list edge) (desel : list N)
             (faults : N -> fault) (pref : list N) (b : bstate) : option (bstate * bool (* stop *)) :=
    match pick (b_sorter b) pref with
    | None => None
    | Some i =>
      match find_task ts i with
      | None => None
      | Some t =>
        let r := run_task body c E (b_dyn b) desel (b_world b) t (faults i) in
        let desc := descending_tasks ts E i in
        let dyn' := match r_out r with
                    | OSkip => mark_desc MSkip desc (b_dyn b)
                    | OWould => mark_desc MWould desc (b_dyn b)
                    | OFail => mark_desc MAncFailed desc (b_dyn b)
                    | _ => b_dyn b
                    end in
        let nf := match r_out r with OFail => S (b_nfail b) | _ => b_nfail b end in
        let stop := match r_out r, max_fail c with
                    | OFail, Some m => Nat.leb m nf
                    | _, _ => false
                    end in
        Some (mkB (r_world r) dyn' ((i, r_out r) :: b_reports b) (rev (r_events r) ++ b_log b) nf
                  (done (take (b_sorter b) [i]) [i]), stop)
      end
    end.

  Fixpoint loop (fuel : nat) (c : config) (ts : list task) (E : list edge) (desel : list N)
           (faults : N -> fault) (pref : list N) (b : bstate) : bstate :=
    match fuel with
    | O => b
    | S f =>
      if is_active (b_sorter b) then
        match step c ts E desel faults pref b with
        | None => b
        | Some (b', true) => b'
        | Some (b', false) => loop f c ts E desel faults pref b'
        end
      else b
    end.

  Definition any_fail (rs : list (N * outcome)) : bool :=
    existsb (fun p => match snd p with OFail => true | _ => false end) rs.

  Definition build (c : config) (ts : list task) (faults : N -> fault) (pref : list N) (w : world) : bres :=
    match create_dag is_word lower c ts with
    | DagErr => mkRes XDag w [] []
    | DagOk E desel =>
      (* TopologicalSorter.from_dag checks for cycles again; create_dag has already
         rejected every cyclic graph, so this branch is dead (see Proofs/EngineDag) *)
      match from_dag (task_ids ts) E (map (fun t => (tid t, tprio t)) ts) with
      | None => mkRes XFailed w [] []
      | Some s =>
        let b := loop (length ts) c ts E desel faults pref (mkB w [] [] [] 0 s) in
        mkRes (if any_fail (b_reports b) then XFailed else XOk)
              (b_world b) (rev (b_reports b)) (rev (b_log b))
      end
    end.
End Build.
