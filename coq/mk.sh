#!/bin/sh
# Regenerate _CoqProject/Makefile and build every .vo (full build, no -vos).
set -e
cd "$(dirname "$0")"
{ echo "-Q theories Verif"; echo "-arg -w -arg -notation-overridden,-deprecated-hint-without-locality,-deprecated-instance-without-locality"; find theories -name '*.v' | sort; } > _CoqProject.new
if ! cmp -s _CoqProject.new _CoqProject 2>/dev/null; then mv _CoqProject.new _CoqProject; coq_makefile -f _CoqProject -o Makefile >/dev/null; else rm _CoqProject.new; fi
[ -f Makefile ] || coq_makefile -f _CoqProject -o Makefile >/dev/null
exec make -k -j"${VERIF_JOBS:-16}" "$@"
