#!/venv/bin/python
"""MANIFEST.setup_cmd: regenerate the extracted facts from /repo and build every .vo."""
import sys
from pathlib import Path

sys.path.insert(0, str(Path(__file__).resolve().parent))
import vlib

lock = vlib._lock()
ok, log = vlib.run_translator()
print(log[-2000:])
ok2, log2 = vlib.make([])
print(log2[-3000:])
# a failing proof is reported by the individual checks; setup only fails when nothing could be built
built = list((vlib.COQ / "theories").rglob("*.vo"))
print(f"setup: translator ok={ok} make ok={ok2} vo files={len(built)}")
sys.exit(0 if built else 1)
