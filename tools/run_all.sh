#!/bin/sh
# run every claimed check once: run_all.sh [seed] [tier]
cd /verif
SEED="${1:-0}"; TIER="${2:-quick}"
for P in $(/venv/bin/python -c "import json;print(' '.join(c['property_id'] for c in json.load(open('MANIFEST.json'))['checks']))"); do
  VERIF_SEED=$SEED /venv/bin/python tools/check.py $P --tier $TIER 2>&1 | grep -E "^\[|VIOLATION|KNOWN" | cut -c1-220
done
