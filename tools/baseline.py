#!/venv/bin/python
"""Run the repository's pinned suite (guard off) and compare with /root/.vp/BASELINE.json.
usage: baseline.py [repo]   -> exit 0 iff every stable-pass test still passes."""
import json
import os
import subprocess
import sys
import tempfile
import xml.etree.ElementTree as ET

repo = sys.argv[1] if len(sys.argv) > 1 else "/repo"
b = json.load(open("/root/.vp/BASELINE.json"))
want = set(b["stable_pass"])
x = tempfile.mktemp(suffix=".xml")
bt = tempfile.mkdtemp(prefix="verif_basetemp_")
env = {k: v for k, v in os.environ.items() if k != "PYTASK_VERIF"}
env["PYTHONPATH"] = f"{repo}/src"
subprocess.run(f"cd {repo} && /venv/bin/python -m pytest -ra -q -p no:cacheprovider --timeout=900 "
               f"--continue-on-collection-errors --basetemp={bt}/b --junitxml={x}", shell=True, env=env, capture_output=True)
passed = set()
for tc in ET.parse(x).getroot().iter("testcase"):
    if not any(c.tag in ("failure", "error", "skipped") for c in tc):
        passed.add(f"{tc.get('classname')}::{tc.get('name')}")
        passed.add(f"{tc.get('classname').replace('.', '/')}.py::{tc.get('name')}")
os.unlink(x)
import shutil
shutil.rmtree(bt, ignore_errors=True)
missing = sorted(t for t in want if t not in passed)
print(f"baseline: {len(want) - len(missing)}/{len(want)} stable tests pass")
for m in missing[:20]:
    print("  MISSING", m)
sys.exit(1 if missing else 0)
