"""Shared machinery of the /verif checks (standard library only).

* building the Coq development from /repo's current tree (translator + make),
* checking the proof side of one property (theorems compiled, Print Assumptions
  closed, no forbidden vernacular),
* evaluating model functions inside Coq (`coq_eval`) for the correspondence,
* evidence / violation / known-finding bookkeeping.
"""
from __future__ import annotations

import fcntl
import hashlib
import json
import os
import random
import re
import shutil
import subprocess
import sys
import time
from concurrent.futures import ThreadPoolExecutor
from pathlib import Path

VERIF = Path(__file__).resolve().parents[1]
REPO = Path(os.environ.get("VERIF_REPO", "/repo")).resolve()
BUILD = VERIF / "build"
COQ = VERIF / "coq"
PY = "/venv/bin/python"
GUARD = "PYTASK_VERIF"
JOBS = int(os.environ.get("VERIF_JOBS", "16"))

FORBIDDEN = re.compile(
    r"\b(Admitted|admit|Axiom|Axioms|Parameter|Parameters|Conjecture|Conjectures|"
    r"Admit Obligations|bypass_check|type-in-type|impredicative-set)\b|Unset\s+Guard|"
    r"Unset\s+Positivity|Unset\s+Universe"
)


def impl_env(hashseed: int | str = 0) -> dict:
    env = dict(os.environ)
    env["PYTHONPATH"] = f"{REPO}/src:{VERIF}/tools"
    env["PYTHONHASHSEED"] = str(hashseed)
    env[GUARD] = "1"
    env["PYTHONDONTWRITEBYTECODE"] = "1"
    env["VERIF_REPO"] = str(REPO)
    env.pop("PYTEST_CURRENT_TEST", None)
    return env


# --------------------------------------------------------------------------- Coq terms
class Raw(str):
    """Coq text passed through unchanged."""


class Zi(int):
    """An integer printed as a Z literal."""


class Nat(int):
    """An integer printed as a nat literal."""


class Some:
    def __init__(self, x):
        self.x = x


class C:
    """Constructor / function application."""

    def __init__(self, name, *args):
        self.name, self.args = name, args


def S(s: str):
    """A Python string as a list of code points."""
    return [ord(c) for c in s]


def coq_term(v) -> str:
    if isinstance(v, Raw):
        return str(v)
    if isinstance(v, bool):
        return "true" if v else "false"
    if isinstance(v, Zi):
        return f"({int(v)})%Z"
    if isinstance(v, Nat):
        return f"{int(v)}%nat"
    if isinstance(v, int):
        assert v >= 0, v
        return f"{v}%N"
    if v is None:
        return "None"
    if isinstance(v, Some):
        return f"(Some {coq_term(v.x)})"
    if isinstance(v, C):
        if not v.args:
            return v.name
        return "(" + v.name + " " + " ".join(coq_term(a) for a in v.args) + ")"
    if isinstance(v, list):
        return "[" + "; ".join(coq_term(x) for x in v) + "]"
    if isinstance(v, tuple):
        return "(" + ", ".join(coq_term(x) for x in v) + ")"
    if isinstance(v, str):
        return coq_term(S(v))
    raise TypeError(type(v))


_TOK = re.compile(r"\s*(%[A-Za-z_]+|[\[\];(),]|-?\d+|[A-Za-z_][A-Za-z_0-9'.]*)")


def parse_coq_value(text: str):
    """Parse a printed Coq value: numbers, true/false, lists, tuples, applications.

    Applications become tuples ("Name", arg, ...); bare constructors become strings.
    """
    toks = [t for t in _TOK.findall(text) if not t.startswith("%")]
    pos = 0

    def atom():
        nonlocal pos
        t = toks[pos]
        if t == "[":
            pos += 1
            out = []
            if toks[pos] == "]":
                pos += 1
                return out
            while True:
                out.append(app())
                if toks[pos] == ";":
                    pos += 1
                    continue
                assert toks[pos] == "]", toks[pos : pos + 5]
                pos += 1
                return out
        if t == "(":
            pos += 1
            items = [app()]
            while toks[pos] == ",":
                pos += 1
                items.append(app())
            assert toks[pos] == ")", toks[pos : pos + 5]
            pos += 1
            return items[0] if len(items) == 1 else tuple(items)
        pos += 1
        if re.fullmatch(r"-?\d+", t):
            return int(t)
        if t == "true":
            return True
        if t == "false":
            return False
        return t

    def app():
        nonlocal pos
        head = atom()
        args = []
        while pos < len(toks) and toks[pos] not in ("]", ")", ";", ","):
            args.append(atom())
        if args:
            return (head, *args)
        return head

    v = app()
    assert pos == len(toks), (pos, len(toks), toks[pos : pos + 8])
    return v


_EVAL_RE = re.compile(r"^\s*= (.*?)^\s*: ", re.S | re.M)


def _run_coq_file(path: Path, timeout: int) -> str:
    p = subprocess.run(
        ["coqc", "-q", "-Q", str(COQ / "theories"), "Verif", "-w", "-all", str(path)],
        capture_output=True,
        text=True,
        timeout=timeout,
        cwd=path.parent,
    )
    if p.returncode != 0:
        raise RuntimeError(f"coqc failed on {path}:\n{p.stdout[-2000:]}\n{p.stderr[-4000:]}")
    return p.stdout


def coq_eval(tag: str, imports: str, terms: list[str], defs: str = "", timeout: int = 900):
    """Evaluate each Coq term (a string) with vm_compute in its own file, in parallel.

    Returns the parsed values in order. Files live under build/cases/<tag>/.
    """
    d = BUILD / "cases" / tag
    if d.exists():
        shutil.rmtree(d)
    d.mkdir(parents=True)
    files = []
    for i, t in enumerate(terms):
        f = d / f"c{i}.v"
        f.write_text(
            f"From Verif Require Import {imports}.\n"
            "Set Printing Depth 100000000.\n"
            f"{defs}\n"
            f"Eval vm_compute in ({t}).\n"
        )
        files.append(f)

    def one(f):
        out = _run_coq_file(f, timeout)
        m = _EVAL_RE.search(out)
        if not m:
            raise RuntimeError(f"no Eval output in {f}: {out[:500]}")
        return parse_coq_value(m.group(1))

    with ThreadPoolExecutor(max_workers=JOBS) as ex:
        return list(ex.map(one, files))


def coq_eval_cases(tag, imports, fn: str, cases: list, shard: int = 400, defs: str = ""):
    """`map fn cases`, sharded; cases are Python values rendered by coq_term."""
    shards = [cases[i : i + shard] for i in range(0, len(cases), shard)]
    terms = [f"map ({fn}) {coq_term(s)}" for s in shards]
    res = coq_eval(tag, imports, terms, defs=defs)
    out = []
    for s, r in zip(shards, res):
        assert len(r) == len(s), (len(r), len(s))
        out.extend(r)
    return out


# --------------------------------------------------------------------------- build
class ProofStatus:
    def __init__(self):
        self.ok = True
        self.problems: list[str] = []
        self.theorems: list[str] = []
        self.assumptions: dict[str, str] = {}
        self.obligations = 0
        self.discharged = 0
        self.cone: list[str] = []
        self.log = ""


def _lock():
    BUILD.mkdir(exist_ok=True)
    fh = open(BUILD / ".lock", "w")
    fcntl.flock(fh, fcntl.LOCK_EX)
    return fh


def run_translator() -> tuple[bool, str]:
    p = subprocess.run(
        [PY, str(VERIF / "tools" / "extract_facts.py"), str(REPO), str(COQ / "theories" / "Gen")],
        capture_output=True,
        text=True,
        env=impl_env(),
    )
    return p.returncode == 0, p.stdout + p.stderr


def make(targets: list[str], timeout: int = 1500) -> tuple[bool, str]:
    p = subprocess.run(
        [str(COQ / "mk.sh"), *targets], capture_output=True, text=True, timeout=timeout
    )
    return p.returncode == 0, p.stdout + p.stderr


def _cone(vfile: Path) -> list[Path]:
    """Transitive Verif.* dependencies of a .v file (by scanning Require lines)."""
    seen, todo = [], [vfile]
    while todo:
        f = todo.pop()
        if f in seen or not f.exists():
            continue
        seen.append(f)
        txt = f.read_text()
        for m in re.finditer(r"From Verif Require (?:(?:Import|Export)\s+)?([\w.\s]+?)\.(?=\s|$)", txt):
            for mod in m.group(1).split():
                todo.append(COQ / "theories" / (mod.replace(".", "/") + ".v"))
    return seen


_STMT = re.compile(r"^\s*(Theorem|Lemma|Corollary|Example|Fact|Proposition)\s+([A-Za-z_][\w']*)", re.M)


def proof_stage(prop: str) -> ProofStatus:
    """Translator + full build of the cone of Props/<prop>.v + assumption audit."""
    st = ProofStatus()
    lock = _lock()
    try:
        ok, log = run_translator()
        st.log += log
        if not ok:
            st.ok = False
            st.problems.append("translator: " + log.strip().splitlines()[-1] if log.strip() else "translator failed")
        propfile = COQ / "theories" / "Props" / f"{prop}.v"
        if not propfile.exists():
            st.ok = False
            st.problems.append(f"missing {propfile}")
            return st
        # the property file with its cone, and the executable models the harnesses evaluate
        runs = sorted(f"theories/Model/{f.stem}.vo" for f in (COQ / "theories" / "Model").glob("*Run.v"))
        ok, log = make([f"theories/Props/{prop}.vo", *runs])
        st.log += log
        cone = _cone(propfile)
        st.cone = [str(f.relative_to(COQ)) for f in cone]
        for f in cone:
            n = len(_STMT.findall(f.read_text()))
            st.obligations += n
            vo = f.with_suffix(".vo")
            if vo.exists() and vo.stat().st_mtime >= f.stat().st_mtime:
                st.discharged += n
            else:
                st.problems.append(f"not compiled: {f.relative_to(COQ)}")
        if not ok:
            st.ok = False
            err = re.findall(r'File "([^"]+)", line (\d+).*?\nError:?\s*(.*?)(?:\n\n|\Z)', log, re.S)
            for f, ln, msg in err[:5]:
                st.problems.append(f"coq error {f}:{ln}: {' '.join(msg.split())[:300]}")
            if not err:
                st.problems.append("make failed: " + log[-400:])
        # forbidden vernacular anywhere in the cone
        for f in cone:
            txt = re.sub(r"\(\*.*?\*\)", "", f.read_text(), flags=re.S)
            m = FORBIDDEN.search(txt)
            if m:
                st.ok = False
                st.problems.append(f"forbidden vernacular {m.group(0)!r} in {f.relative_to(COQ)}")
            for m2 in re.finditer(r"^(Variable|Variables|Hypothesis|Hypotheses|Context)\b", txt, re.M):
                st.ok = False
                st.problems.append(f"{m2.group(1)} at top level in {f.relative_to(COQ)}")
        # Print Assumptions of every theorem in the property file
        if ok:
            st.theorems = [m.group(2) for m in _STMT.finditer(propfile.read_text()) if m.group(1) == "Theorem"]
            d = BUILD / "assume"
            d.mkdir(parents=True, exist_ok=True)
            f = d / f"A_{prop}.v"
            body = f"From Verif Require Import Props.{prop}.\n"
            for t in st.theorems:
                body += f'Goal True. idtac "@@ {t}". exact I. Qed.\nPrint Assumptions {t}.\n'
            f.write_text(body)
            try:
                out = _run_coq_file(f, 600)
            except Exception as e:  # noqa: BLE001
                st.ok = False
                st.problems.append(f"Print Assumptions failed: {str(e)[-300:]}")
                out = ""
            parts = re.split(r"@@ (\S+)\n", out)
            for i in range(1, len(parts), 2):
                name, txt = parts[i], parts[i + 1].strip()
                st.assumptions[name] = txt
                if not txt.startswith("Closed under the global context"):
                    allowed = load_allowed_axioms()
                    axs = re.findall(r"^([A-Za-z_][\w.']*)\s*:", txt, re.M)
                    bad = [a for a in axs if a not in allowed]
                    if bad or not axs:
                        st.ok = False
                        st.problems.append(f"{name} depends on axioms: {bad or txt[:200]}")
            missing = [t for t in st.theorems if t not in st.assumptions]
            if missing:
                st.ok = False
                st.problems.append(f"no assumption report for {missing}")
            if not st.theorems:
                st.ok = False
                st.problems.append("property file states no Theorem")
    finally:
        lock.close()
    return st


def load_allowed_axioms() -> set[str]:
    f = VERIF / "allowed_axioms.txt"
    if not f.exists():
        return set()
    return {l.split()[0] for l in f.read_text().splitlines() if l.strip() and not l.startswith("#")}


# --------------------------------------------------------------------------- findings
def load_known_findings(prop: str) -> list[dict]:
    f = VERIF / "known_findings.json"
    if not f.exists():
        return []
    return [k for k in json.loads(f.read_text()) if prop in k["properties"] and k["status"] == "known"]


class Outcome:
    """Collects what a check run saw; turned into stdout lines, evidence and exit code."""

    def __init__(self, prop: str, tier: str, seed: int):
        self.prop, self.tier, self.seed = prop, tier, seed
        self.t0 = time.time()
        self.violations: list[dict] = []      # concrete failing inputs not in known findings
        self.known_hits: dict[str, dict] = {}  # finding id -> example witness
        self.broken: list[dict] = []          # proof / correspondence breakages
        self.coverage: dict = {"samples": []}
        self.assumptions: list[str] = []
        self.evaluations = 0
        self.nontrivial: set = set()

    # -- recording
    def count(self, key: str, n: int = 1):
        d = self.coverage.setdefault("distribution", {})
        d[key] = d.get(key, 0) + n

    def sample(self, x, cap: int = 6):
        if len(self.coverage["samples"]) < cap:
            self.coverage["samples"].append(x)

    def case(self, canon, nontrivial: bool = True):
        self.evaluations += 1
        if nontrivial:
            self.nontrivial.add(hashlib.sha1(json.dumps(canon, sort_keys=True, default=str).encode()).hexdigest())

    def violation(self, what: str, witness: dict, finding_matchers=()):
        """A concrete input on which the property fails on the implementation."""
        for k in load_known_findings(self.prop):
            if k["id"] in finding_matchers:
                self.known_hits.setdefault(k["id"], {"what": k["what"], "witness": witness})
                return
        self.violations.append({"what": what, "witness": witness})

    def disagreement(self, what: str, witness: dict):
        """Model and implementation differ (or a proof obligation failed)."""
        self.broken.append({"what": what, "witness": witness})

    # -- finishing
    def finish(self, proof: ProofStatus | None, level: str = "proof", checker_cmd: str = "", trusted=()):
        wall = time.time() - self.t0
        replays = BUILD / "replays"
        replays.mkdir(parents=True, exist_ok=True)
        lines = []
        rc = 0
        for fid, k in sorted(self.known_hits.items()):
            lines.append(f"KNOWN-FINDING: property={self.prop} {fid}: {k['what']}")
        stamp = f"{self.prop}_{self.tier}_{self.seed}"
        if self.violations:
            rc = 1
            for i, v in enumerate(self.violations[:5]):
                path = replays / f"{stamp}_v{i}.json"
                path.write_text(json.dumps({"property": self.prop, "seed": self.seed, "kind": "failing-input", **v}, indent=1, default=str))
                lines.append(f"VIOLATION property={self.prop} replay={path}")
        proof_problems = list(proof.problems) if (proof and not proof.ok) else []
        if not self.violations and (self.broken or proof_problems):
            rc = 1
            path = replays / f"{stamp}_broken.json"
            path.write_text(json.dumps({
                "property": self.prop, "seed": self.seed, "kind": "no-failing-input-found",
                "proof_obligations_failed": proof_problems,
                "correspondence_failed": self.broken[:10],
                "note": "the theorem/correspondence named here no longer checks; the search over the model and the implementation found no input on which the property itself fails",
            }, indent=1, default=str))
            lines.append(f"VIOLATION property={self.prop} replay={path} no-failing-input-found")
        cov = dict(self.coverage)
        cov["evaluations"] = self.evaluations
        cov["distinct_nontrivial"] = len(self.nontrivial)
        if proof is not None:
            cov["obligations"] = proof.obligations
            cov["discharged"] = proof.discharged
            cov["theorems"] = proof.theorems
            cov["print_assumptions"] = proof.assumptions
            cov["cone"] = proof.cone
            cov["proof_problems"] = proof.problems
        cov["checker_cmd"] = checker_cmd or f"coq/mk.sh theories/Props/{self.prop}.vo  (coqc 8.16.1, full .vo build) + Print Assumptions on every Theorem of Props/{self.prop}.v"
        cov["trusted_base"] = list(trusted)
        cov["known_findings_seen"] = sorted(self.known_hits)
        cov["correspondence_disagreements"] = len(self.broken)
        ev = {
            "property_id": self.prop, "tier": self.tier, "seed": self.seed, "level": level,
            "coverage": cov, "assumptions": self.assumptions, "wall_s": round(wall, 2),
            "violations": len(self.violations) + (1 if rc and not self.violations else 0),
        }
        (VERIF / "evidence").mkdir(exist_ok=True)
        (VERIF / "evidence" / f"{self.prop}.json").write_text(json.dumps(ev, indent=1, default=str) + "\n")
        for l in lines:
            print(l)
        print(f"[{self.prop}] tier={self.tier} seed={self.seed} evaluations={self.evaluations} "
              f"nontrivial={len(self.nontrivial)} obligations={cov.get('obligations')} "
              f"discharged={cov.get('discharged')} disagreements={len(self.broken)} "
              f"violations={len(self.violations)} known={sorted(self.known_hits)} wall={wall:.1f}s rc={rc}")
        return rc


def rng_for(seed: int, tag: str) -> random.Random:
    return random.Random(f"{seed}/{tag}")


def run_impl_worker(script: str, payload, hashseed=0, timeout=900):
    """Run tools/harness/<script> under the implementation environment; JSON in/out."""
    p = subprocess.run(
        [PY, str(VERIF / "tools" / "harness" / script)],
        input=json.dumps(payload), capture_output=True, text=True,
        env=impl_env(hashseed), timeout=timeout,
    )
    if p.returncode != 0:
        raise RuntimeError(f"{script} failed rc={p.returncode}: {p.stderr[-3000:]}")
    return json.loads(p.stdout)
