#!/bin/sh
# independent re-check of every compiled property file and all it depends on; lists axioms.
# Not part of the per-change commands (minutes). Output kept in coq/COQCHK.txt.
cd /verif/coq || exit 2
MODS=$(ls theories/Props/*.vo | sed 's#theories/#Verif.#; s#/#.#g; s#\.vo$##')
timeout 3000 coqchk -silent -o -Q theories Verif $MODS > COQCHK.txt 2>&1
echo "rc=$?" >> COQCHK.txt
tail -12 COQCHK.txt
