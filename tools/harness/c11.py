"""C11: Model/Clean.v vs the real `pytask clean` command line."""
from __future__ import annotations

import os
from concurrent.futures import ThreadPoolExecutor

from vlib import C, JOBS, Raw, coq_eval_cases, rng_for, run_impl_worker

IMPORTS = "Base.Prelude Model.Clean"
TRUSTED = ["Coq kernel, vm_compute", "pathlib.PurePath.match for literal/*/? patterns as modelled", "git ls-files / rev-parse as queried by the code",
           "harness (project generator, tree scans)"]
NAMES = ["a.txt", "b.log", "data", "build", "notes.md", "x", "tmp", "out", "keep.log", "src", "café.csv", 'say "hi".md', "sp ace.txt"]
TASK = '''from pathlib import Path
from typing import Annotated
from pytask import Product
ROOT = Path(__file__).parent{up}
def task_{i}({args}):
    pass
'''


def gen_case(rng):
    files, dirs = {}, set()
    # random tree
    def grow(prefix, depth):
        for _ in range(rng.randint(0, 3)):
            n = rng.choice(NAMES)
            rel = f"{prefix}{n}"
            if "." in n or depth >= 3 or rng.random() < 0.5:
                files[rel] = "x"
            else:
                dirs.add(rel)
                if rng.random() < 0.8:
                    grow(rel + "/", depth + 1)
    grow("", 0)
    # scenarios with several path arguments need sibling directories with unknown content around them
    multi = rng.random() < 0.3
    if multi:
        files.update({"aa/u1.txt": "x", "aa/in/u4.txt": "x", "bb/u2.txt": "x", "cc/u3.txt": "x", "top_u.txt": "x"})
        dirs.update({"aa", "aa/in", "bb", "cc"})
        if rng.random() < 0.5:
            # names that sort between a directory and what is inside it ("aa" < "aa-old" < "aa.zip" < "aa/in")
            files.update({"aa-old/o1.txt": "x", "aa.zip": "x", "aa in.txt": "x", "zz_last.txt": "x"})
            dirs.update({"aa-old"})
    files = {k: v for k, v in files.items() if not any(k.startswith(d + "/") and False for d in dirs)}
    # a file cannot also be a directory
    files = {k: v for k, v in files.items() if k not in dirs and not any(x.startswith(k + "/") for x in list(files) + list(dirs))}
    # tasks with declared nodes (existing or not)
    known = []
    mods = {}
    ntask = rng.randint(0, 2)
    allfiles = sorted(files)
    for i in range(ntask):
        deps = rng.sample(allfiles, min(len(allfiles), rng.randint(0, 2)))
        prods = [rng.choice(["build/out.txt", "out/r.txt", "prod.txt", "data/p.bin"]) for _ in range(rng.randint(0, 2))]
        prods = [p for p in prods if p not in dirs and not any(p.startswith(f + "/") for f in files)]
        args = [f"d{j}: Path = ROOT / {d!r}" for j, d in enumerate(deps)] + \
               [f"p{j}: Annotated[Path, Product] = ROOT / {p!r}" for j, p in enumerate(prods)]
        if rng.random() < 0.5:
            # nodes inside nested containers are known to pytask as well
            nested = [f"nest/n{i}{j}.txt" for j in range(3)]
            args.append("produces={'a': ROOT / %r, 'b': [ROOT / %r, {'c': ROOT / %r}]}" % tuple(nested))
            prods = prods + nested
            for q in nested:
                if rng.random() < 0.7:
                    files[q] = "nested"
        mod = rng.choice(["", "src/"]) + f"task_m{i}.py"
        if mod.startswith("src/") and "src" in files:
            mod = f"task_m{i}.py"
        files[mod] = TASK.format(i=i, args=", ".join(args), up=".parent" if mod.startswith("src/") else "")
        known += [mod] + deps + prods
        mods[mod] = [mod] + deps + prods
        for p in prods:
            if rng.random() < 0.5:
                files[p] = "product"
    # (click 8.5 in this sandbox ignores a command-line option when the configuration file sets the same
    # one, so a case uses one source of exclude patterns, not both; see DESIGN appendix)
    use_cfg = rng.random() < 0.5
    cfg_exclude = rng.sample(["*.log", "data/*", "tmp", "keep.*"], rng.randint(0, 1)) if use_cfg else []
    files["pyproject.toml"] = "[tool.pytask.ini_options]\n" + (f"exclude = {cfg_exclude!r}\n" if cfg_exclude else "")
    # pytask's own directory
    if rng.random() < 0.7:
        files[".pytask/extra.bin"] = "db"
        files[".pytask/file_hashes.json"] = "{}"
        if rng.random() < 0.6:
            files[".pytask/data_catalogs/default/abc.pkl"] = "p"
            files[".pytask/data_catalogs/default/abc-node.pkl"] = "p"
    git = rng.random() < 0.5
    proj_rel = rng.choice(["", "", "sub"]) if git else ""
    git_add = []
    if git and rng.random() < 0.4:
        # names git would quote without -z
        special = rng.choice(["data/café.csv", 'say "hi".md', "übersicht.txt"])
        if not any(special.startswith(f + "/") for f in files) and special.split("/")[0] not in files:
            files[special] = "tracked"
            git_add.append((proj_rel + "/" if proj_rel else "") + special)
    if git:
        for f in sorted(files):
            if not f.startswith(".pytask") and rng.random() < 0.35:
                git_add.append((proj_rel + "/" if proj_rel else "") + f)
    case = {"files": sorted(files.items()), "dirs": sorted(dirs), "git": git, "git_add": git_add, "proj_rel": proj_rel,
            "outer_files": [["outer.txt", "o"]] if proj_rel else [],
            "dirs_flag": rng.random() < 0.5, "cli_exclude": [] if use_cfg else rng.sample(["*.md", "x", "build/*"], rng.randint(0, 1)),
            "mods": mods,
            "path_args": [], "known_rel": sorted(set(known)), "cfg_exclude": cfg_exclude}
    r = rng.random()
    if multi:
        # several path arguments: distinct directories, nested ones, the root together with a directory, repeats
        a, b = rng.sample(["aa", "bb", "cc"], 2)
        case["path_args"] = rng.choice([[a, b], [a, b], [b, a], [a, b, a], [".", a], [a, "."], [a, a], ["aa", "aa/in"], ["aa/in", "aa"],
                                        [".", "aa/in"], ["aa/in", "."], [".", "aa/in"]])
    elif r < 0.15 and dirs:
        case["path_args"] = [rng.choice(sorted(dirs))]
    elif r < 0.22 and ".pytask/data_catalogs/default/abc.pkl" in files:
        case["path_args"] = [".pytask/data_catalogs/default"]       # F14
    # only task modules below the given paths are collected, hence known
    args = case["path_args"]
    if args:
        keep = set()
        for m, paths in mods.items():
            if any(a == "." or m == a or m.startswith(a.rstrip("/") + "/") for a in args):
                keep.update(paths)
        case["known_rel"] = sorted(keep)
    return case


def comps(s):
    return [[ord(c) for c in part] for part in s.strip("/").split("/") if part != ""]


def build_tree(entries, rootrel, order=None):
    """entries: [(rel, is_dir)] below `top`; returns ftree term of directory rootrel. Children in the order
    the operating system lists them (`order`: directory -> names), which is the order of Path.iterdir."""
    kids = {}
    isdir = {}
    for rel, d in entries:
        isdir[rel] = d
        parent = os.path.dirname(rel)
        kids.setdefault(parent, []).append(rel)

    def mk(rel):
        name = [ord(c) for c in os.path.basename(rel)]
        if isdir.get(rel, True):
            ks = sorted(kids.get(rel, []))
            if order is not None and rel in order:
                pos = {n: i for i, n in enumerate(order[rel])}
                ks.sort(key=lambda k: pos.get(os.path.basename(k), len(pos)))
            return C("Dir", name, [mk(k) for k in ks])
        return C("File", name)
    return mk(rootrel)


def pat_term(pat, absolute):
    return (absolute, comps(pat))


def run(out, tier, seed, proof):
    rng = rng_for(seed, "c11")
    n = 48 if tier == "quick" else 600
    cases = [gen_case(rng) for _ in range(n)]
    # fixed cases: a wholly unknown directory next to siblings whose names sort between it and its content
    # ("aa" < "aa-old" < "aa.zip" < "aa/in"), the root and an inner directory as path arguments, --directories
    for pa in ([".", "aa/in"], ["aa/in", "."], [".", "aa/in", "aa"]):
        fl = {"aa/u1.txt": "x", "aa/in/u4.txt": "x", "aa-old/o1.txt": "x", "aa.zip": "x", "aa in.txt": "x", "zz_last.txt": "x",
              "pyproject.toml": "[tool.pytask.ini_options]\n",
              "task_m0.py": TASK.format(i=0, args="p0: Annotated[Path, Product] = ROOT / 'prod.txt'", up="")}
        cases.append({"files": sorted(fl.items()), "dirs": ["aa", "aa-old", "aa/in"], "git": False, "git_add": [], "proj_rel": "", "outer_files": [],
                      "dirs_flag": True, "cli_exclude": [], "mods": {"task_m0.py": ["task_m0.py", "prod.txt"]}, "path_args": pa,
                      "known_rel": ["prod.txt", "task_m0.py"], "cfg_exclude": []})
    chunks = [cases[i::JOBS] for i in range(JOBS)]
    with ThreadPoolExecutor(max_workers=JOBS) as ex:
        res_chunks = list(ex.map(lambda ch: run_impl_worker("impl_clean.py", ch, timeout=3000) if ch else [], chunks))
    flat_cases = [c for ch in chunks for c in ch]
    flat_res = [r for rr in res_chunks for r in rr]
    terms, keep = [], []
    for c, r in zip(flat_cases, flat_res):
        if "error" not in r and r["dry"]["rc"] == 0 and r["force"]["rc"] != 0:
            # the dry run lists, the force run fails: it did not remove exactly what was listed
            left = sorted({e for e, _ in r["after_force"]} & {l.split(" ", 1)[1] for l in r["dry"]["lines"] if " " in l})
            out.violation("force mode failed although dry-run mode listed the same paths without error"
                          + (f"; listed paths were left behind: {left[:5]}" if left else ""),
                          {"case": c, "dry_lines": r["dry"]["lines"], "force_tail": r["force"]["tail"][-600:]})
        if "error" in r or r["dry"]["rc"] != 0 or r["force"]["rc"] != 0:
            out.disagreement("pytask clean did not run", {"case": c, "result": r})
            continue
        top, proj = r["top"], r["proj"]
        projrel = os.path.relpath(proj, top)
        projrel = "" if projrel == "." else projrel
        projc = comps(proj)
        # known paths exactly as clean.py assembles them
        files = [projc + comps(k) for k in c["known_rel"]]
        cdup = r["cdup"]
        git_root = projc + comps(cdup) if c["git"] else projc
        # git ls-files runs in the project root and yields paths relative to it (F15, repaired: they were joined
        # onto the root of the git repository)
        git_files = [projc + comps(f) for f in r["lsfiles"]] if c["git"] else []
        known = C("known_list", files, C("Some", projc + comps("pyproject.toml")), projc, git_files, git_root)
        pats = [pat_term(p, False) for p in c["cli_exclude"] + c["cfg_exclude"] + [".git/*"]] + [(True, projc + comps(".pytask") + [[42]])]
        args = c["path_args"] or [""]
        state = r["after_dry"]          # the tree the force run starts from (dry-run may have created .pytask)
        argterms = []
        for a in args:
            arel = os.path.normpath(os.path.join(projrel, a)) if (projrel or a) else ""
            arel = "" if arel == "." else arel
            absdir = os.path.join(top, arel) if arel else top
            parent = comps(os.path.dirname(absdir))
            entries = [(os.path.join("", e), d) for e, d in state]
            order = r.get("order")
            tops = sorted({e.split("/")[0] for e, _ in state})
            if order:
                pos = {n: i for i, n in enumerate(order[""])}
                tops.sort(key=lambda k: pos.get(k, len(pos)))
            tree = build_tree([(e, d) for e, d in entries if e == arel or e.startswith(arel + "/") or arel == ""], arel, order) if arel else \
                C("Dir", [ord(ch) for ch in os.path.basename(top)], [build_tree(state, k, order) for k in tops])
            argterms.append((parent, tree))
        fs = [comps(top)] + [comps(top) + comps(e) for e, _ in state]
        terms.append((known, pats, bool(c["dirs_flag"]), argterms, fs))
        keep.append((c, r))
    # the whole command in the model: the listing over all arguments in their order, then the force loop
    model = coq_eval_cases("c11", IMPORTS,
                           "fun c => match c with (kn, pats, dirs, args, fs) => clean_multi (known_of kn) (excluded pats) Force dirs args fs end",
                           terms, shard=12)

    def pstr(p):
        return "/" + "/".join("".join(chr(x) for x in comp) for comp in p)
    for (c, r), m in zip(keep, model):
        top = r["top"]
        mlist, mfs = m
        listed_seq = [pstr(p) for p, d in mlist]
        listed = set(listed_seq)
        before = {e for e, _ in r["after_dry"]}
        after = {e for e, _ in r["after_force"]}
        removed = before - after
        removed_top = {e for e in removed if os.path.dirname(e) not in removed}
        got = {os.path.join(top, e) for e in removed_top}
        out.case({"files": [f for f, _ in c["files"]], "dirs": c["dirs"], "git": c["git"], "args": c["path_args"], "d": c["dirs_flag"]},
                 nontrivial=bool(removed))
        out.count("with_git" if c["git"] else "no_git")
        out.count("args_%d" % len(c["path_args"] or [""]))
        out.count("removed_entries", len(removed_top))
        if got != listed:
            out.disagreement("removed paths differ from the model listing", {"case": c, "impl_removed": sorted(got), "model": sorted(listed)})
        # the printed lines, in their order, are the model's list (paths are printed relative to a common ancestor)
        printed = [l.split(" ", 1)[1] for l in r["force"]["lines"] if " " in l]
        if len(printed) != len(listed_seq) or any(not (q == "/" + pl or q.endswith("/" + pl) or pl == ".") for q, pl in zip(listed_seq, printed)):
            out.disagreement("printed paths differ from the model listing (order or content)", {"case": c, "printed": printed, "model": listed_seq})
        # the force loop of the model ends in the file system the real command leaves
        if mfs == "None":
            out.disagreement("the model's force loop fails where the real one does not", {"case": c, "model": listed_seq})
        else:
            mleft = {pstr(p) for p in mfs[1]}
            ileft = {top} | {os.path.join(top, e) for e in after}
            if mleft != ileft:
                out.disagreement("file system after force mode differs from the model", {"case": c, "only_model": sorted(mleft - ileft)[:8], "only_impl": sorted(ileft - mleft)[:8]})
        # ---- direct oracle
        projrel = os.path.relpath(r["proj"], top)
        pre = "" if projrel == "." else projrel + "/"
        gone = {tuple(x) for x in r["before"]} - {tuple(x) for x in r["after_dry"]}
        if gone:
            out.violation("dry-run mode removed something", {"case": c, "gone": sorted(gone)})
        if [l.replace("Would remove", "Remove") for l in r["dry"]["lines"]] != r["force"]["lines"]:
            out.violation("force mode does not remove exactly what dry-run lists", {"dry": r["dry"]["lines"], "force": r["force"]["lines"]})
        # (with nested path arguments a directory and something inside it can both be listed)
        lp = {l.split(" ", 1)[1] for l in r["force"]["lines"] if " " in l}
        ltop = {q for q in lp if not any(q.startswith(z + "/") for z in lp if z != q)}
        if len(ltop) != len(removed_top):
            out.violation("number of printed paths differs from the number of removed entries", {"lines": r["force"]["lines"], "removed": sorted(removed_top)})
        protected = {pre + k for k in c["known_rel"]} | {pre + "pyproject.toml"}
        tracked = set(c["git_add"])
        argdirs = [os.path.normpath(pre + a) if a else pre.rstrip("/") for a in (c["path_args"] or [""])]
        for e in removed:
            inside_arg = any(ad in ("", ".") or e == ad or e.startswith(ad + "/") for ad in argdirs)
            if not inside_arg:
                out.violation("a path outside the given paths was removed", {"case": c, "path": e})
            if e in protected:
                out.violation("a task module, declared node or the configuration file was removed", {"case": c, "path": e})
            if e in tracked:
                out.violation("a file tracked by git was removed", {"case": c, "path": e}, )
            rel = e[len(pre):] if e.startswith(pre) else e
            if rel == ".pytask" or rel.startswith(".pytask/"):
                f14 = any(a.startswith(".pytask/") for a in c["path_args"])
                out.violation("something under .pytask was removed", {"case": c, "path": e}, finding_matchers=("F14",) if f14 else ())
            if ".git" in e.split("/"):
                out.violation("something under .git was removed", {"case": c, "path": e})
            import fnmatch
            for pat in c["cli_exclude"] + c["cfg_exclude"]:
                from pathlib import PurePosixPath
                if PurePosixPath("/" + e).match(pat):
                    out.violation("a path matching an exclude pattern was removed", {"case": c, "path": e, "pattern": pat})
    out.coverage["programs"] = len(keep)
    if flat_cases:
        out.sample({"case": {k: flat_cases[0][k] for k in ("dirs", "git", "dirs_flag", "path_args", "cli_exclude")}, "lines": flat_res[0].get("dry", {}).get("lines")})
