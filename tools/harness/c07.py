"""C07: Model/Tree.v vs pytask's tree utilities and real builds of generated programs."""
from __future__ import annotations

from concurrent.futures import ThreadPoolExecutor

from vlib import C, JOBS, Raw, coq_eval_cases, rng_for, run_impl_worker

IMPORTS = "Base.Prelude Model.Tree"
TRUSTED = ["Coq kernel, vm_compute", "optree flatten order (dict keys sorted) as observed through pytask.tree_util",
           "Python evaluation of annotations/decorators/defaults (covered by generated programs only)", "harness"]
KEYS = ["a", "b", "c", "k1", "z"]


def gen_tree(rng, depth, next_id, none_ok=True):
    if depth <= 0 or rng.random() < 0.35:
        if none_ok and rng.random() < 0.1:
            return ["L", 0]
        next_id[0] += 1
        return ["L", next_id[0]]
    k = rng.choice(["list", "tuple", "dict"])
    n = rng.randint(0, 3)
    if k == "dict":
        keys = sorted(rng.sample(KEYS, n))
        return ["dict", [[key, gen_tree(rng, depth - 1, next_id, none_ok)] for key in keys]]
    return [k, [gen_tree(rng, depth - 1, next_id, none_ok) for _ in range(n)]]


def vary(rng, t, next_id, depth=3):
    """A value for the declaration t: fitting, deeper, too shallow, permuted, list<->tuple."""
    r = rng.random()
    if t[0] == "L":
        if r < 0.45:
            next_id[0] += 1
            return ["L", next_id[0]]
        if r < 0.7:
            # a container with exactly one leaf, or an empty one: the whole container belongs to this node
            k = rng.choice(["list", "tuple", "dict"])
            if rng.random() < 0.3:
                return [k, []]
            next_id[0] += 1
            return [k, [["L", next_id[0]]]] if k != "dict" else ["dict", [[rng.choice(KEYS), ["L", next_id[0]]]]]
        return gen_tree(rng, 2, next_id)                       # deeper than declared: fine
    if r < 0.08:
        next_id[0] += 1
        return ["L", next_id[0]]                               # too shallow
    if r < 0.14 and t[0] in ("list", "tuple"):
        return ["tuple" if t[0] == "list" else "list", [vary(rng, x, next_id) for x in t[1]]]   # swapped container
    if r < 0.2 and t[0] in ("list", "tuple") and t[1]:
        return [t[0], [vary(rng, x, next_id) for x in t[1][:-1]]]                                  # wrong arity
    if t[0] == "dict":
        items = [[k, vary(rng, v, next_id)] for k, v in t[1]]
        if r < 0.3 and items:
            items = items[1:] + [[rng.choice(KEYS) + "x", ["L", 5]]]                              # other keys
        return ["dict", sorted(items)]                          # key order is irrelevant (permuted keys sort back)
    return [t[0], [vary(rng, x, next_id) for x in t[1]]]


def to_coq(t, keyrank):
    if t[0] == "L":
        return C("Leaf", t[1])
    if t[0] == "dict":
        return C("Node", C("KDict", [keyrank(k) for k, _ in t[1]]), [to_coq(v, keyrank) for _, v in t[1]])
    return C("Node", Raw("KList" if t[0] == "list" else "KTuple"), [to_coq(v, keyrank) for v in t[1]])


def from_coq(v, keyname):
    """Parsed Coq value -> JSON tree."""
    if isinstance(v, tuple) and v[0] == "Leaf":
        return ["L", v[1]]
    _, k, cs = v
    if k == "KList":
        return ["list", [from_coq(c, keyname) for c in cs]]
    if k == "KTuple":
        return ["tuple", [from_coq(c, keyname) for c in cs]]
    keys = k[1]
    return ["dict", [[keyname(a), from_coq(c, keyname)] for a, c in zip(keys, cs)]]


def run(out, tier, seed, proof):
    rng = rng_for(seed, "c07")
    allkeys = sorted(set(KEYS) | {k + "x" for k in KEYS})
    rank = lambda k: allkeys.index(k) + 1
    name = lambda r: allkeys[r - 1]
    n = 600 if tier == "quick" else 6000
    cases = []
    for _ in range(n):
        nid = [0]
        decl = gen_tree(rng, rng.randint(0, 4), nid, none_ok=False)
        val = [100]
        cases.append({"decl": decl, "out": vary(rng, decl, val)})
    impl = run_impl_worker("impl_tree.py", {"trees": cases})["trees"]
    model = coq_eval_cases(
        "c07_trees", IMPORTS,
        "fun c => match c with (d, o) => (leaves d, is_prefix d o, flatten_up_to d o, save_returns d o, tmap (fun x => (x + 1000)%N) d) end",
        [(to_coq(c["decl"], rank), to_coq(c["out"], rank)) for c in cases], shard=100)
    for c, i, m in zip(cases, impl, model):
        leaves, pre, flat, saves, mapped = m
        flat_j = None if flat == "None" else [from_coq(x, name) for x in flat[1]]
        out.case(c, nontrivial=c["decl"][0] != "L")
        out.count("prefix_true" if pre else "prefix_false")
        if list(leaves) != i["leaves"] or bool(pre) != i["prefix"] or flat_j != i["flat"] or from_coq(mapped, name) != i["mapped"]:
            out.disagreement("tree operations differ from the model", {"case": c, "impl": i, "model": {"leaves": leaves, "prefix": pre, "flat": flat_j}})
        if (saves == "None") != (not pre):
            out.disagreement("save_returns inconsistent", {"case": c})
    # end-to-end programs: return annotations with nested declarations
    np_ = 64 if tier == "quick" else 600
    progs = []
    for _ in range(np_):
        nid = [0]
        decl = gen_tree(rng, rng.randint(1, 3), nid, none_ok=False)
        if not leaves_of(decl):
            continue
        val = [100]
        outv = vary(rng, decl, val)
        if rng.random() < 0.3:
            # one declared product is a provisional node (ids >= 9000): its position is skipped, the others keep theirs
            ls = leaves_of(decl)
            victim = rng.choice(ls)
            decl = relabel(decl, lambda i: ["L", 9000 + i] if i == victim else ["L", i])
        progs.append({"decl": decl, "out": outv})
    chunks = [progs[i::8] for i in range(8)]
    with ThreadPoolExecutor(max_workers=8) as ex:
        res = list(ex.map(lambda ch: run_impl_worker("impl_tree.py", {"programs": ch}, timeout=1800)["programs"] if ch else [], chunks))
    flat_progs = [p for ch in chunks for p in ch]
    flat_res = [r for rr in res for r in rr]
    pm = coq_eval_cases("c07_progs", IMPORTS, "fun c => match c with (d, o) => save_returns d o end",
                        [(to_coq(c["decl"], rank), to_coq(c["out"], rank)) for c in flat_progs], shard=60)
    for c, r, m in zip(flat_progs, flat_res, pm):
        out.case({"program": c})
        if m == "None":
            out.count("program_structure_mismatch")
            ok = r.get("exit") == 1 and not r["files"]
            if not ok:
                out.disagreement("a return value that does not fit the declaration did not fail cleanly", {"case": c, "impl": r})
                if r["files"]:
                    out.violation("values were stored although the returned structure does not fit the declaration", {"case": c, "impl": r})
        else:
            out.count("program_fits")
            want = {int(nd): from_coq(v, name) for nd, v in m[1] if int(nd) < 9000}
            got = {int(k): v for k, v in r["files"].items()}
            if r.get("exit") != 0 or got != want:
                out.disagreement("stored return values differ from the model", {"case": c, "impl": r, "model": want})
                if r.get("exit") == 0:
                    out.violation("a leaf of the returned value was stored in the wrong node", {"case": c, "stored": got, "expected": want})
    # keyword arguments: nested containers of values / paths through three declaration forms
    kws = []
    for _ in range(24 if tier == "quick" else 200):
        args = []
        for j, form in enumerate(rng.sample(["python", "path_default", "kwargs", "python_nohash", "mixed_default", "typed_default", "typed_kwargs",
                                             "handover", "handover_init", "handover_mixed_default"], rng.randint(1, 3))):
            nid = [10 * (j + 1)]
            t = gen_tree(rng, rng.randint(1, 3), nid, none_ok=False)
            if not leaves_of(t):
                t = ["list", [["L", nid[0] + 1]]]
            args.append((f"x{j}", form, t))
        kws.append({"args": args})
    chunks = [kws[i::6] for i in range(6)]
    with ThreadPoolExecutor(max_workers=6) as ex:
        kres = [r for rr in ex.map(lambda ch: run_impl_worker("impl_tree.py", {"kwprograms": ch}, timeout=1800)["kwprograms"] if ch else [], chunks) for r in rr]
    for c, r in zip([k for ch in chunks for k in ch], kres):
        out.case({"kwprogram": c})
        want = {}
        for nm, form, t in c["args"]:
            if form in ("typed_default", "typed_kwargs"):
                typed = [["L", 1], ["B", True], ["F", 1.0], ["L", 0], ["B", False], ["F", 0.0]]
                want[nm] = ["list", [relabel(t, lambda i: typed[i % 6]), ["P", f"in_{nm}.txt"]]]
                continue
            want[nm] = relabel(t, (lambda i: ["P", f"in{i}.txt"]) if form == "path_default" else (lambda i: ["L", i]))
        if r.get("exit") != 0 or r.get("kwargs") != want:
            out.disagreement("keyword arguments differ from tree_map(load, declaration)", {"case": c, "impl": r, "expected": want})
            if r.get("exit") == 0:
                nohash = any(f in ("python_nohash", "mixed_default") for _, f, _ in c["args"]) and "OBJ" in str(r.get("kwargs"))
                out.violation("a task parameter did not receive the declared values in the declared structure",
                              {"case": c, "received": r.get("kwargs"), "expected": want}, finding_matchers=("F19",) if nohash else ())
    # one kwargs dict object shared by several @task calls: every task keeps its own defaults
    shared = run_impl_worker("impl_tree.py", {"shared_kwargs": [{"n": rng.randint(2, 4), "base": rng.randint(1, 50)} for _ in range(3 if tier == "quick" else 20)]}, timeout=1800)["shared_kwargs"]
    for r in shared:
        out.case({"shared_kwargs": r.get("case")})
        if r.get("exit") != 0 or r.get("got") != r.get("want"):
            out.disagreement("tasks sharing one kwargs dict did not receive their own declared values", r)
            # the programs are valid: wrong values and a refused build are both failures of the property
            out.violation("a task parameter received a value declared for another task" if r.get("exit") == 0 else
                          "a valid program whose tasks share a kwargs dict could not be built (declared values were mixed up)", r)
    out.coverage["programs"] = len(flat_progs) + len(kres) + len(shared)
    out.sample(cases[0]); out.sample({"program": flat_progs[0] if flat_progs else None})


def relabel(t, f):
    if t[0] == "L":
        return f(t[1])
    if t[0] == "dict":
        return ["dict", [[k, relabel(v, f)] for k, v in t[1]]]
    return [t[0], [relabel(v, f) for v in t[1]]]


def leaves_of(t):
    if t[0] == "L":
        return [t[1]]
    if t[0] == "dict":
        return [x for _, v in t[1] for x in leaves_of(v)]
    return [x for v in t[1] for x in leaves_of(v)]
