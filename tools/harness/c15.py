"""C15: sequences of builds in one process; the process state after every build must equal the
state before the first one (Model/Capture.v: builds x_capture_stops ms p = p), and the outcomes
must equal those of the same builds run in fresh processes."""
from __future__ import annotations

from concurrent.futures import ThreadPoolExecutor

from vlib import JOBS, Raw, coq_eval_cases, rng_for, run_impl_worker

IMPORTS = "Base.Prelude Base.Pluggy Model.Capture Proofs.CaptureProofs Proofs.FactsHooks Gen.HookFacts"
TRUSTED = ["Coq kernel, vm_compute", "translator (hook table: the capture plugin implements pytask_unconfigure)",
           "POSIX dup/dup2/close semantics as far as Model/Capture.v models them", "harness measurements (/proc/self/fd, fstat, object identity) after gc.collect()"]
METHODS = {"fd": "MFd", "sys": "MSys", "tee-sys": "MTee", "no": "MNo"}


def gen_seq(rng):
    seq = []
    for _ in range(rng.randint(2, 6)):
        kind = rng.choice(["ok", "ok", "ok", "fail", "syntax", "cycle", "cycle", "empty", "gen", "genfail"])
        kw = {"capture": rng.choice(list(METHODS))}
        if rng.random() < 0.2:
            kw["dry_run"] = True
        if rng.random() < 0.2:
            kw["verbose"] = rng.choice([0, 2])
        if rng.random() < 0.1:
            kw["marker_expression"] = "slow and"          # unparsable: graph phase fails
        if rng.random() < 0.1:
            kw["database_url"] = "nosuchdialect://x"      # configuration phase fails
        elif rng.random() < 0.25:
            kw["memdb"] = True                            # an in-memory database: every build starts without records
        seq.append({"kind": kind, "kwargs": kw})
    return seq


def _model(flat):
    return coq_eval_cases("c15", IMPORTS,
                          "fun ms => let p0 := mkP 1 2 3 4 5 6 10 [] in let p := builds x_capture_stops ms p0 in "
                          "(N.eqb (fd0 p) 1 && N.eqb (fd1 p) 2 && N.eqb (fd2 p) 3, N.eqb (py_in p) 4 && N.eqb (py_out p) 5 && N.eqb (py_err p) 6, Nat.eqb (nfds p) 10)",
                          [[Raw(METHODS[b["kwargs"]["capture"]]) for b in s] for s in flat], shard=40)


KIND_SRC = {"ok": "MOk 2 0", "fail": "MOk 1 0", "syntax": "MBroken", "cycle": "MOk 2 0", "decorated": "MOk 0 1",
            "gen": "MOk 0 1", "genfail": "MOk 0 1", "inner": "MOk 1 0", "markreg": "MOk 1 0", "markuse": "MBroken"}


def session_model(flat, res):
    """Model/Session.v on the builds that reached the collection phase: per build what is collected."""
    kinds = sorted(KIND_SRC)
    src = "fun p => " + " ".join(f"if eqbP p [[{i}%N]] then {KIND_SRC[k]} else" for i, k in enumerate(kinds)) + " MBroken"
    terms, keep = [], []
    for s, r in zip(flat, res):
        a = r["inproc"]
        idx = [i for i, b in enumerate(a.get("builds", [])) if "raised" not in b and b.get("exit") != 2] if "error" not in a else []
        keep.append(idx)
        terms.append([([] if s[i]["kind"] == "empty" else [[[kinds.index(s[i]["kind"])]]]) for i in idx])
    model = coq_eval_cases("c15s", "Base.Prelude Model.Clean Model.Collect Model.Session",
                           f"fun bs => (run_builds (fun _ => false) ({src}) [] bs, fresh_builds (fun _ => false) ({src}) bs)", terms, shard=40)
    return keep, model


def run(out, tier, seed, proof):
    rng = rng_for(seed, "c15")
    n = 16 if tier == "quick" else 200
    seqs = [gen_seq(rng) for _ in range(n)]
    seqs.append([{"kind": "decorated", "kwargs": {"capture": "no"}}, {"kind": "decorated", "kwargs": {"capture": "no"}}])   # F11 witness
    # the same project three times with an in-memory database: nothing is remembered from build to build
    seqs.append([{"kind": "inner", "kwargs": {"capture": "no"}}, {"kind": "ok", "kwargs": {"capture": "fd"}}, {"kind": "inner", "kwargs": {"capture": "sys", "force": True}}])
    # a database that cannot be created (configuration phase fails after the plugins were configured)
    seqs.append([{"kind": "ok", "kwargs": {"capture": "fd", "baddb": True}}, {"kind": "ok", "kwargs": {"capture": "no"}},
                 {"kind": "fail", "kwargs": {"capture": "sys", "baddb": True}}, {"kind": "ok", "kwargs": {"capture": "fd", "baddb": True}}])
    # a marker registered by one project and used, unregistered, by the next one
    seqs.append([{"kind": "markreg", "kwargs": {"capture": "no"}}, {"kind": "markuse", "kwargs": {"capture": "no"}}, {"kind": "ok", "kwargs": {"capture": "no"}}])
    seqs.append([{"kind": "ok", "kwargs": {"capture": "no", "memdb": True}} for _ in range(3)])
    seqs.append([{"kind": "ok", "kwargs": {"capture": "fd", "memdb": True}}, {"kind": "fail", "kwargs": {"capture": "fd", "memdb": True}},
                 {"kind": "ok", "kwargs": {"capture": "fd", "memdb": True}}])
    chunks = [seqs[i::JOBS] for i in range(JOBS)]
    with ThreadPoolExecutor(max_workers=JOBS) as ex:
        res = [r for rr in ex.map(lambda ch: run_impl_worker("impl_process.py", ch, timeout=3000) if ch else [], chunks) for r in rr]
    flat = [s for ch in chunks for s in ch]
    # the model: every prefix of builds leaves the abstract process state unchanged
    try:
        model = _model(flat)
    except Exception as e:  # noqa: BLE001  (e.g. the extracted hook facts no longer satisfy their obligations)
        out.disagreement("the model could not be evaluated against the extracted facts", {"error": str(e)[-600:]})
        model = [(True, True, True)] * len(flat)
    _unused = (lambda: coq_eval_cases("c15", IMPORTS,
                           "fun ms => let p0 := mkP 1 2 3 4 5 6 10 [] in let p := builds x_capture_stops ms p0 in "
                           "(N.eqb (fd0 p) 1 && N.eqb (fd1 p) 2 && N.eqb (fd2 p) 3, N.eqb (py_in p) 4 && N.eqb (py_out p) 5 && N.eqb (py_err p) 6, Nat.eqb (nfds p) 10)",
                           [[Raw(METHODS[b["kwargs"]["capture"]]) for b in s] for s in flat], shard=40))
    skeep, smodel = session_model(flat, res)
    for si, (s, r, m) in enumerate(zip(flat, res, model)):
        out.case(s, nontrivial=len(s) > 1)
        a = r["inproc"]
        if "error" in a:
            out.disagreement("the in-process sequence did not complete", {"seq": s, "error": a["error"]})
            continue
        b0 = a["before"]
        uses_task = ("decorated", "gen", "genfail")      # modules whose tasks exist only through @task
        fds_ok, py_ok, n_ok = m
        grown = []
        for i, b in enumerate(a["builds"]):
            out.count("exit_%s" % b.get("exit"))
            if "raised" in b:
                out.violation("pytask.build raised in-process", {"seq": s, "build": i, "error": b["raised"]})
                continue
            st = b["state"]
            probs = []
            for k in ("fd0", "fd1", "fd2"):
                if st[k] != b0[k]:
                    probs.append(f"descriptor {k[2]} points elsewhere")
            if st["py"] != b0["py"]:
                probs.append("sys.stdin/stdout/stderr were replaced")
            if st["cwd"] != b0["cwd"]:
                probs.append("working directory changed")
            if st["filters"] != b0["filters"]:
                probs.append("warning filters changed")
            if st["pdb"] != b0["pdb"]:
                probs.append("pdb.set_trace was replaced")
            if st.get("warn_hooks") != b0.get("warn_hooks"):
                probs.append("the list of warning filters or the functions showing a warning were replaced")
            if st.get("breakpointhook") != b0.get("breakpointhook"):
                probs.append("sys.breakpointhook was replaced")
            if st["registry"] != b0["registry"]:
                probs.append("registry of pending task functions is not empty")
            grown.append(st["nfds"] - b0["nfds"])
            if probs:
                out.violation("a finished build left the process changed: " + "; ".join(probs), {"seq": s, "build": i})
                if fds_ok and py_ok:
                    out.disagreement("process state differs from the model", {"seq": s, "build": i, "problems": probs})
        # the number of open descriptors must not grow with the number of builds (one database
        # connection of the current engine stays open; it is replaced, not accumulated)
        if any(g > 1 for g in grown):
            out.violation("open file descriptors accumulate over builds (more than the one database connection of the current engine)", {"seq": s, "growth": grown})
            if n_ok:
                out.disagreement("descriptor count differs from the model", {"seq": s, "growth": grown})
        # what each build collected, against Model/Session.v
        for j, i in enumerate(skeep[si]):
            b = a["builds"][i]
            mres = smodel[si][0][j]
            want = ("err", 0) if any(x == "RError" for x in mres) else ("ok", sum(int(x[1]) for x in mres if x != "RError"))
            got = ("err", 0) if b["exit"] == 3 else ("ok", b.get("ntasks", 0))
            if want != got:
                out.disagreement("collected tasks differ from Model/Session.v", {"seq": s, "build": i, "impl": got, "model": want, "raw": str(mres)})
        # same outcomes as fresh processes
        for i, (b, f) in enumerate(zip(a["builds"], r["fresh"])):
            if "raised" in b or "error" in f:
                continue
            if (b["exit"], b["outcomes"]) != (f["exit"], f["outcomes"]):
                out.violation("a build in the same process gives other outcomes than in a fresh process",
                              {"seq": s, "build": i, "inproc": b, "fresh": f}, finding_matchers=("F11",) if (s[i]["kind"] in uses_task and any(x["kind"] == s[i]["kind"] for x in s[:i])) else ())
    out.coverage["programs"] = len(flat)
    out.sample({"sequence": flat[0]})
