"""Engine correspondence shared by C01-C04, C06, C08-C10, C17: generated projects and
histories run on real pytask (forked builds) and on Model/Engine.v (vm_compute), compared
observation by observation, plus direct oracles restating each property on what the
implementation did."""
from __future__ import annotations

import json
import os
import shutil
import tempfile
from concurrent.futures import ProcessPoolExecutor
from pathlib import Path

import verif_rt
from vlib import C, JOBS, Nat, Raw, Some, Zi, coq_eval_cases, coq_term, impl_env, rng_for, PY, VERIF

IMPORTS = "Base.Prelude Base.Graph Model.Sorter Model.Expr Model.Engine Model.EngineRun"
OUTCOMES = ["SUCCESS", "FAIL", "SKIP", "SKIP_UNCHANGED", "SKIP_PREVIOUS_FAILED", "PERSISTENCE", "WOULD_BE_EXECUTED"]
CUSTOM_MARKS = ["slow", "gpu"]


# ------------------------------------------------------------------ generation
def gen_project(rng, ntasks, opts):
    """Random acyclic project. Task ids 1..n, node ids 101.. ; returns list of task dicts."""
    order = list(range(1, ntasks + 1))
    rng.shuffle(order)
    nmods = rng.randint(1, min(3, ntasks))
    tasks, produced, nid = [], [], 100
    nsrc = rng.randint(1, 3)
    sources = list(range(101, 101 + nsrc))
    nid = 100 + nsrc
    for t in order:
        deps = [s for s in sources if rng.random() < 0.4]
        for p in produced:
            if rng.random() < opts.get("dens", 0.35):
                deps.append(p)
        deps = deps[:4]
        if rng.random() < opts.get("p_pyval", 0.0):
            deps.append(rng.choice([201, 202]))       # a hashed Python input
        prods = []
        for _ in range(rng.choice(opts.get("nprods", [1, 1, 1, 2, 0]))):
            nid += 1
            prods.append(nid)
        d = {"id": t, "module": rng.randint(1, nmods), "deps": deps, "prods": prods, "mver": 0,
             "skip": False, "skipifs": [], "persist": False, "prio": 0, "marks": [], "attrs": [],
             "after_fn": [], "after_expr": None, "use_decorator": rng.random() < 0.3}
        if rng.random() < opts.get("p_mark", 0.3):
            d["marks"] = rng.sample(CUSTOM_MARKS, rng.randint(1, 2))
        if rng.random() < 0.15:
            d["attrs"] = [rng.choice(["special", "Heavy"])]
        if rng.random() < opts.get("p_prio", 0.2):
            d["prio"] = rng.choice([1, -1])
        if rng.random() < opts.get("p_skip", 0.08):
            d["skip"] = True
        if rng.random() < opts.get("p_skipif", 0.1):
            d["skipifs"] = [rng.random() < 0.4 for _ in range(rng.randint(1, 2))]
        if rng.random() < opts.get("p_persist", 0.1):
            d["persist"] = True
        prev = [x for x in tasks]
        if prev and rng.random() < opts.get("p_after", 0.25):
            ups = rng.sample(prev, rng.randint(1, min(2, len(prev))))
            if opts.get("after_needs_products", True):
                ups = [u for u in ups if u["prods"]]
            same = [u["id"] for u in ups if u["module"] == d["module"]]
            if rng.random() < opts.get("p_shared_after", 0.0):
                # an expression shared by several tasks (it may match the task itself and later tasks)
                d["after_expr"] = rng.choice(opts.setdefault("_after_pool", ["slow", "special", "gpu and slow", f"t{order[0]}_ or t{order[-1]}_"]))
            elif ups and same and rng.random() < 0.5:
                d["after_fn"] = same
            elif ups:
                d["after_expr"] = " or ".join(f"t{u['id']}_" for u in ups)
        tasks.append(d)
        produced.extend(prods)
    # within a module, functions used in after=[...] must be defined earlier: keep creation order
    return tasks, sources


def module_texts(root, tasks, intern):
    """module number -> (text, V). V is injective on (declarations, edit counter)."""
    out = {}
    for m in sorted({t["module"] for t in tasks}):
        ts = [t for t in tasks if t["module"] == m]
        import engine_impl
        render = engine_impl.render_pmodule if any("pdeps" in t for t in ts) else engine_impl.render_module
        key = (render(root, ts, 0), max(t["mver"] for t in ts))
        if key not in intern:
            intern[key] = 1000 + len(intern)
        v = intern[key]
        out[m] = (render(root, ts, v), v)
    return out


def gen_config(rng, tasks, opts):
    cfg = {"force": False, "dry_run": False, "max_failures": None, "expression": "", "marker_expression": "",
           "capture": rng.choice(["fd", "fd", "sys", "tee-sys", "no"])}
    k = rng.random()
    if k < opts.get("p_force", 0.1):
        cfg["force"] = True
    elif k < opts.get("p_force", 0.1) + opts.get("p_dry", 0.12):
        cfg["dry_run"] = True
    if rng.random() < opts.get("p_maxfail", 0.15):
        cfg["max_failures"] = rng.choice([1, 1, 2, 3])
    if rng.random() < opts.get("p_k", 0.15):
        t = rng.choice(tasks)
        cfg["expression"] = rng.choice([f"t{t['id']}_", f"t{t['id']}_ or slow", "not gpu", "special", f"not t{t['id']}_", "m1", "T1"])
    if rng.random() < opts.get("p_m", 0.12):
        cfg["marker_expression"] = rng.choice(["slow", "gpu", "slow and not gpu", "not slow", "persist", "slow or gpu"])
    return cfg


def gen_faults(rng, tasks, opts):
    f = {}
    for t in tasks:
        if rng.random() < opts.get("p_fault", 0.12):
            kind = rng.choice(["raise_before", "raise_after", "omit"])
            if kind == "omit":
                if not t["prods"]:
                    continue
                f[str(t["id"])] = {"omit": rng.sample(t["prods"], rng.randint(1, len(t["prods"])))}
            else:
                f[str(t["id"])] = kind
    return f


def gen_history(rng, idx, base, opts):
    """Returns a case: root + list of ops."""
    root = str(Path(base) / f"c{idx}" / "p")
    nt = rng.randint(opts.get("min_tasks", 2), opts.get("max_tasks", 7))
    tasks, sources = gen_project(rng, nt, opts)
    ops = []
    contents = {}
    cnt = [rng.randrange(10, 99)]

    def fresh():
        cnt[0] += rng.randint(1, 9)
        return cnt[0]
    hist_vals = {}
    for s in sources:
        if rng.random() < 0.93:
            c = fresh()
            ops.append({"op": "set", "n": s, "c": c})
            contents[s] = c
            hist_vals.setdefault(s, []).append(c)
    pyvals = sorted({d for t in tasks for d in t["deps"] if 200 <= d < 300})
    for n in pyvals:
        c = 2 * rng.randint(1, 20)
        ops.append({"op": "set", "n": n, "c": c}); hist_vals.setdefault(n, []).append(c)
    nb = rng.randint(opts.get("min_builds", 2), opts.get("max_builds", 5))
    builds = 0
    first = True
    while builds < nb:
        if not first:
            for _ in range(rng.randint(0, 3)):
                k = rng.random()
                allnodes = sorted({n for t in tasks for n in t["deps"] + t["prods"]} | set(sources))
                prodnodes = sorted({n for t in tasks for n in t["prods"]})
                if pyvals and rng.random() < 0.3:
                    # change a hashed input: to the permutation of the current list, or to another value
                    n = rng.choice(pyvals)
                    cur = hist_vals[n][-1]
                    c = cur ^ 1 if rng.random() < 0.6 else 2 * rng.randint(1, 20) + rng.randint(0, 1)
                    ops.append({"op": "set", "n": n, "c": c}); hist_vals[n].append(c)
                elif k < 0.22:
                    s = rng.choice(sources)
                    c = fresh()
                    ops.append({"op": "set", "n": s, "c": c}); hist_vals.setdefault(s, []).append(c)
                elif k < 0.32 and hist_vals:
                    s = rng.choice(sorted(hist_vals))
                    c = rng.choice(hist_vals[s])      # revert to earlier content
                    ops.append({"op": "set", "n": s, "c": c}); hist_vals[s].append(c)
                elif k < 0.40:
                    ops.append({"op": "touch", "n": rng.choice(allnodes)})
                elif k < 0.46:
                    ops.append({"op": "rewrite_same", "n": rng.choice(allnodes)})
                elif k < 0.52:
                    ops.append({"op": "del", "n": rng.choice(sources)})
                elif k < 0.62 and prodnodes:
                    ops.append({"op": "del", "n": rng.choice(prodnodes)})
                elif k < 0.70 and prodnodes:
                    pn = rng.choice(prodnodes)
                    c = fresh()
                    ops.append({"op": "set", "n": pn, "c": c})   # tamper (a later "revert" may write the same content again)
                    hist_vals.setdefault(pn, []).append(c)
                elif k < 0.80:
                    m = rng.choice(sorted({t["module"] for t in tasks}))
                    bump = rng.choice([1, 1, -1])
                    tasks = [dict(t, mver=max(0, t["mver"] + bump)) if t["module"] == m else t for t in tasks]
                elif k < 0.90:
                    # rewire: toggle a marker / change deps of one task
                    i = rng.randrange(len(tasks))
                    t = dict(tasks[i])
                    kk = rng.random()
                    if kk < 0.3:
                        t["persist"] = not t["persist"]
                    elif kk < 0.5:
                        t["skip"] = not t["skip"]
                    elif kk < 0.8 and t["deps"]:
                        t["deps"] = t["deps"][:-1]
                    else:
                        cand = [s for s in sources if s not in t["deps"]]
                        if cand:
                            t["deps"] = t["deps"] + [rng.choice(cand)]
                    # pytask collects dependencies given by defaults before those given by node annotations:
                    # hashed inputs (200-299) stay behind the files, as in the order of the graph's edges
                    t["deps"] = [d for d in t["deps"] if not 200 <= d < 300] + [d for d in t["deps"] if 200 <= d < 300]
                    tasks = tasks[:i] + [t] + tasks[i + 1:]
                else:
                    # remove the last task if nothing depends on it
                    t = tasks[-1]
                    used = any(p in u["deps"] for p in t["prods"] for u in tasks) or any(
                        t["id"] in u["after_fn"] or (u["after_expr"] and f"t{t['id']}_" in u["after_expr"]) for u in tasks)
                    if len(tasks) > 1 and not used:
                        tasks = tasks[:-1]
        first = False
        cfg = gen_config(rng, tasks, opts)
        faults = gen_faults(rng, tasks, opts)
        btasks = [dict(t) for t in tasks]
        bop = {"op": "build", "tasks": btasks, "cfg": cfg, "faults": faults}
        if rng.random() < opts.get("illformed", 0.0):
            kind = rng.choice(["dup", "dup_spell", "cycle", "after_cycle", "bad_k", "bad_after", "self", "after_multi", "after_multi", "mem_cycle"])
            with_prod = [t for t in btasks if t["prods"]]
            if kind in ("dup", "dup_spell") and with_prod and len(btasks) > 1:
                a = rng.choice(with_prod)
                b = rng.choice([t for t in btasks if t["id"] != a["id"]])
                p = rng.choice(a["prods"])
                b["prods"] = b["prods"] + [p]
                if kind == "dup_spell":
                    b["spell"] = {str(p): rng.choice(["dot", "updown", "node_updown"])}
            elif kind == "cycle" and with_prod:
                a = rng.choice(with_prod)
                up = closure(declared_upstream(btasks))
                cands = [t for t in btasks if t["id"] == a["id"] or t["id"] in up[a["id"]]]
                b = rng.choice(cands)
                b["deps"] = b["deps"] + [rng.choice(a["prods"])]
            elif kind == "after_cycle":
                up = closure(declared_upstream(btasks))
                pairs = [(t, u) for t in btasks for u in btasks if u["id"] in up[t["id"]]]
                if pairs:
                    t, u = rng.choice(pairs)        # t depends on u; make u run after t
                    u["after_fn"] = []
                    u["after_expr"] = f"t{t['id']}_"
            elif kind == "after_multi":
                # a cycle closed by several `after` edges together: c after b, b after d, d after b (in this order)
                if len(with_prod) >= 3:
                    cc, bb, dd = rng.sample(with_prod, 3)
                    # the three in one module, in this order of definition (= order of processing); function-form
                    # `after` needs the functions of one module, so it is dropped everywhere in this project
                    for x in btasks:
                        x["after_fn"] = []
                    for x in (cc, bb, dd):
                        x["module"] = 1
                    cc["after_expr"] = f"t{bb['id']}_"
                    bb["after_expr"] = f"t{dd['id']}_"
                    dd["after_expr"] = f"t{bb['id']}_"
                    rest = [t for t in btasks if t["id"] not in (cc["id"], bb["id"], dd["id"])]
                    btasks[:] = [cc, bb, dd] + rest if rng.random() < 0.7 else rest + [cc, bb, dd]
            elif kind == "mem_cycle":
                # a cycle through values handed over in memory, the consumer declared before the producer
                # (both tasks in ONE module: collection rewrites the node_info of a PythonNode object, so a value is
                #  handed over only between tasks that share the node object)
                pairs = [(x, y) for x in btasks for y in btasks if x["id"] < y["id"] and x["module"] == y["module"]]
                if pairs:
                    a, b = rng.choice(pairs)
                    if rng.random() < 0.5:
                        a, b = b, a
                    for x in (a, b):
                        x["after_fn"], x["after_expr"] = [], None
                    a["deps"] = [d for d in a["deps"] if d < 300] + [302]
                    a["prods"] = [p for p in a["prods"] if p < 300] + [301]
                    b["deps"] = [d for d in b["deps"] if d < 300] + [301]
                    b["prods"] = [p for p in b["prods"] if p < 300] + [302]
            elif kind == "bad_k":
                cfg[rng.choice(["expression", "marker_expression"])] = rng.choice(["slow and", "(gpu", "a $ b", "not"])
                bop["bad_expr"] = True
            elif kind == "bad_after":
                t = rng.choice(btasks)
                t["after_fn"] = []
                t["after_expr"] = rng.choice(["t1_ or", "(", "x ! y"])
                bop["bad_expr"] = True
            elif kind == "self" and with_prod:
                a = rng.choice(with_prod)
                a["deps"] = a["deps"] + [a["prods"][0]]
        ops.append(bop)
        builds += 1
    return {"idx": idx, "root": root, "ops": ops, "sources": sources}


# ------------------------------------------------------------------ implementation side
def _impl_history(case):
    """Runs in a worker process (implementation environment)."""
    import engine_impl as EI
    root = Path(case["root"])
    if root.parent.exists():
        shutil.rmtree(root.parent)
    root.mkdir(parents=True)
    intern = {}
    obs = []
    try:
        for op in case["ops"]:
            k = op["op"]
            def _path(n):
                if n >= 10000 and n < 20000:
                    return root / f"pat{(n - 10000) // 100}" / f"g{(n - 10000) % 100}.in"
                return root / f"f{n}.txt"
            if k == "set":
                p = _path(op["n"])
                p.parent.mkdir(parents=True, exist_ok=True)
                if op.get("link"):
                    # the node is a symbolic link into a store; the edit rewrites the target, the link stays as it is
                    target = root / "store" / (p.name + ".real")
                    target.parent.mkdir(exist_ok=True)
                    target.write_text(str(op["c"])); EI.stamp(target)
                    if not p.is_symlink():
                        p.unlink(missing_ok=True)
                        p.symlink_to(target)
                else:
                    p.write_text(str(op["c"])); EI.stamp(p)
            elif k == "del":
                _path(op["n"]).unlink(missing_ok=True)
            elif k == "touch":
                p = root / f"f{op['n']}.txt"
                if p.exists():
                    EI.stamp(p)
            elif k == "corrupt_cache":
                f = root / ".pytask" / "file_hashes.json"
                if f.exists():
                    if op["how"] == "truncate":
                        f.write_text(f.read_text()[: max(1, len(f.read_text()) // 2)])
                    elif op["how"] == "garbage":
                        f.write_bytes(b"\x00\xff{{not json")
                    else:
                        f.unlink()
            elif k == "rewrite_same":
                p = root / f"f{op['n']}.txt"
                if p.exists():
                    p.write_text(p.read_text()); EI.stamp(p)
            elif k == "build":
                mods = module_texts(root, op["tasks"], intern)
                for f in root.glob("task_m*.py"):
                    if int(f.stem[6:]) not in mods:
                        f.unlink()
                for m, (text, v) in mods.items():
                    f = root / f"task_m{m}.py"
                    if not f.exists() or f.read_text() != text:
                        f.write_text(text); EI.stamp(f)
                for t in op["tasks"]:
                    if t.get("opt"):
                        flag = root / f"opt{t['id']}.flag"
                        if all(d in t["deps"] for d in t["opt"]):
                            flag.write_text("on")
                        else:
                            flag.unlink(missing_ok=True)
                (root / "faults.json").write_text(json.dumps(op["faults"]))
                (root / "exec.log").unlink(missing_ok=True)
                (root / "effects.log").unlink(missing_ok=True)
                before = EI.read_files(root)
                res = EI.forked_build(root, op["cfg"], op.get("crash"))
                res["log"] = EI.read_log(root)
                res["effects"] = EI.read_effects(root)
                res["db"] = EI.read_db(root)
                res["files"] = EI.read_files(root)
                res["files_before"] = before
                res["mods"] = {str(m): [v, EI.sha(text)] for m, (text, v) in mods.items()}
                res["tree"] = sorted(str(p.relative_to(root)) for p in root.rglob("*") if p.is_file() and ".pytask" not in p.parts and "__pycache__" not in p.parts)
                obs.append(res)
    finally:
        shutil.rmtree(root.parent, ignore_errors=True)
    return obs


def _worker_init(env):
    import sys
    os.environ.update(env)
    for p in reversed(env["PYTHONPATH"].split(":")):
        if p not in sys.path:
            sys.path.insert(0, p)
    import pytask  # noqa: F401  warm


def run_impl_histories(cases, hashseed=0):
    """Spawn a pool of fresh interpreters bound to the implementation tree."""
    import subprocess, pickle, sys
    payload = json.dumps(cases)
    # a helper process with the right PYTHONPATH/PYTHONHASHSEED hosts the pool
    p = subprocess.run([PY, str(VERIF / "tools" / "harness" / "engine_pool.py")], input=payload,
                       capture_output=True, text=True, env=impl_env(hashseed), timeout=3600)
    if p.returncode != 0:
        raise RuntimeError("engine_pool failed: " + p.stderr[-3000:])
    return json.loads(p.stdout)


# ------------------------------------------------------------------ model side
def task_term(t, snap, V):
    name = snap["name"]
    static_marks = [m for m in snap["marks"]]
    tnames = [name] + snap["attrs"] + static_marks
    ae = None if t["after_expr"] is None else Some(list(map(ord, t["after_expr"])))
    return C("mkTask", t["id"], V, t["deps"], t["prods"], t["after_fn"], ae if ae is not None else Raw("None"),
             bool(t["skip"]), [bool(b) for b in t["skipifs"]], bool(t["persist"]), Zi(t["prio"]),
             [list(map(ord, n)) for n in tnames], [list(map(ord, m)) for m in static_marks])


def cfg_term(cfg):
    mf = Raw("None") if cfg["max_failures"] is None else Some(Nat(cfg["max_failures"]))
    ke = Some(list(map(ord, cfg["expression"]))) if cfg["expression"] else Raw("None")
    me = Some(list(map(ord, cfg["marker_expression"]))) if cfg["marker_expression"] else Raw("None")
    return C("mkConfig", bool(cfg["force"]), bool(cfg["dry_run"]), mf, ke, me)


def fault_term(f):
    if f == "raise_before":
        return Raw("RaiseBefore")
    if f == "raise_after":
        return Raw("RaiseAfter")
    return C("Omit", list(f["omit"]))


def history_term(case, obs):
    """Coq term for the history, using what the implementation collected (names, order)."""
    ops, bi = [], 0
    for op in case["ops"]:
        k = op["op"]
        if k == "set":
            ops.append(C("HSet", op["n"], op["c"]))
        elif k == "del":
            ops.append(C("HDel", op["n"]))
        elif k == "build":
            o = obs[bi]; bi += 1
            if "tasks" not in o:
                return None
            snaps = {}
            for s in o["tasks"]:
                base = s["name"].split("::")[-1]
                snaps[int(base[6:-1])] = s
            if set(snaps) != {t["id"] for t in op["tasks"]}:
                return None
            for t in op["tasks"]:
                sn = snaps[t["id"]]
                if sorted([sn["name"]] + sn["attrs"] + sn["marks"]) != sorted(names_of(t, op["tasks"])):
                    o["_name_mismatch"] = {"snapshot": sorted([sn["name"]] + sn["attrs"] + sn["marks"]), "expected": sorted(names_of(t, op["tasks"]))}
                    return None
            sig2tid = {s["sig"]: tid for tid, s in snaps.items()}
            pref = [sig2tid[sig] for sig, _ in o.get("reports", []) if sig in sig2tid]
            tt = [task_term(t, snaps[t["id"]], o["mods"][str(t["module"])][0]) for t in op["tasks"]]
            fl = [(int(t), fault_term(f)) for t, f in op["faults"].items()]
            if op.get("crash") and o.get("killed"):
                # a killed process returns no reports: the order comes from its effect log
                order = []
                producer = {p: t["id"] for t in op["tasks"] for p in t["prods"]}
                for e in o.get("effects", []):
                    t = producer.get(int(e[1])) if e[0] == "W" else sig2tid.get(e[1])
                    if t is not None and t not in order:
                        order.append(t)
                ops.append(C("HCrash", Nat(op["crash"]["after"]), cfg_term(op["cfg"]), tt, fl, order))
            else:
                ops.append(C("HBuild", cfg_term(op["cfg"]), tt, fl, pref))
    return ops


def chars_of(cases_obs):
    cs = set()
    for case, obs in cases_obs:
        for o in obs:
            for s in o.get("tasks", []):
                cs.update(s["name"]); [cs.update(a) for a in s["attrs"] + s["marks"]]
        for op in case["ops"]:
            if op["op"] == "build":
                cs.update(op["cfg"]["expression"]); cs.update(op["cfg"]["marker_expression"])
    return cs


def tid_of_name(name):
    """task_t<id>_ or, when several functions share the name, task_t<id>_[<generated id>]"""
    import re
    m = re.match(r"task_t(\d+)_", name.split("::")[-1])
    return int(m.group(1)) if m else -1


def canon_impl(o, sigs):
    """Implementation observation -> comparable form. sigs accumulates signature maps."""
    for s in o.get("tasks", []):
        sigs["t"][s["sig"]] = tid_of_name(s["name"])
    for sig, fname in o.get("nodes", {}).items():
        if fname.startswith("f") and fname.endswith(".txt"):
            sigs["n"][sig] = int(fname[1:-4])
        elif fname.startswith("pv"):
            sigs["n"][sig] = int(fname[2:])
        elif fname.startswith("m3") and fname[1:].isdigit():
            sigs["n"][sig] = int(fname[1:])
        elif fname.startswith("pat") and fname.endswith(".in"):
            d, g = fname.split("/")
            sigs["n"][sig] = 10000 + 100 * int(d[3:]) + int(g[1:-3])
    reports = [(sigs["t"].get(sig, -1), OUTCOMES.index(oc)) for sig, oc in o.get("reports", [])]
    log = [2 * t + (0 if a == "S" else 1) for a, t in o["log"]]
    db = set()
    for ts, ns, h in o["db"]:
        t = sigs["t"].get(ts, ts)
        k = sigs["t"].get(ns, sigs["n"].get(ns, ns))
        db.add((t, k, "mem" if isinstance(k, int) and 300 <= k < 400 else h))
    files = {int(n): (int(c) if c.strip().isdigit() else c) for n, c in o["files"].items()}
    effs = []
    for e in o.get("effects", []):
        if e[0] == "W":
            effs.append((0, int(e[1]), files.get(int(e[1])) if not o.get("killed") else None))
        elif e[0] == "C":
            effs.append((1, sigs["t"].get(e[1], e[1]), sigs["t"].get(e[2], sigs["n"].get(e[2], e[2]))))
        elif e[0] == "P":
            effs.append((3, sigs["t"].get(e[1], e[1]), 0))
        else:
            effs.append((2, sigs["t"].get(e[1], e[1]), OUTCOMES.index(e[2])))
    return {"exit": 9 if o.get("killed") else o.get("exit"), "reports": reports, "log": log, "db": db, "files": files, "effects": effs}


def canon_model(m, o, modsha):
    ex, reports, log, db, fs, effs = m
    import engine_impl as EI
    rows = set()
    for t, k, v in db:
        if k == t or (k < 100):
            rows.add((t, k, modsha.get(v, f"?V{v}")))
        elif 300 <= k < 400:
            rows.add((t, k, "mem"))       # a value handed over in memory: its state is a constant
        elif 200 <= k < 300:
            # hashed Python input: state = sha256 of the concatenated element hashes (ints hash to themselves)
            import verif_rt
            rows.add((t, k, EI.sha("".join(str(x) for x in verif_rt.vt_of(v)))))
        else:
            rows.add((t, k, EI.sha(str(v))))
    return {"exit": ex, "reports": [tuple(r) for r in reports], "log": list(log), "db": rows,
            "files": {n: c for n, c in fs if not 300 <= n < 400},
            "effects": [tuple(e) for e in effs if not (e[0] == 0 and 300 <= e[1] < 400)]}


def compare(ci, mi):
    diffs = []
    # written contents are compared through the file map; a later write may overwrite an earlier one
    def canon_eff(es):
        # the predecessors wired in by an `after` expression come from a Python set: the order of the
        # commits within one task's run of commits is not fixed, so compare each run as a sorted block
        out, run = [], []
        for a, b, c in es:
            e = (a, b, None if a == 0 else c)
            if a == 1 and (not run or run[-1][1] == b):
                run.append(e)
                continue
            out += sorted(run, key=str); run = []
            if a == 1:
                run.append(e)
            else:
                out.append(e)
        return out + sorted(run, key=str)
    ce, me = canon_eff(ci["effects"]), canon_eff(mi["effects"])
    if ci["exit"] == 9:
        # killed: the log of a running body is incomplete by construction
        ci = dict(ci, log=mi["log"], reports=mi["reports"])
    ci, mi = dict(ci, effects=ce), dict(mi, effects=me)
    for key in ("exit", "reports", "log", "files", "db", "effects"):
        if ci[key] != mi[key]:
            a, b = ci[key], mi[key]
            if key == "db":
                a, b = sorted(map(str, a - b)), sorted(map(str, b - a))
            diffs.append({"field": key, "impl": a, "model": b})
    return diffs


# ------------------------------------------------------------------ declared relation & ideal
def names_of(t, tasks=()):
    """Names the keyword matcher sees for a generated task (checked against the snapshot in run_engine)."""
    marks = []
    decorated = bool(t.get("marks") or t.get("prio") or t.get("persist") or t.get("skipifs") or t.get("skip"))
    # after=[f] applies @task to f, but only if f carries no pytask metadata yet
    referenced = (not decorated) and any(t["id"] in u.get("after_fn", []) for u in tasks)
    if t.get("after_fn") or t.get("after_expr") is not None or t.get("use_decorator") or referenced:
        marks.append("task")
    marks += list(reversed(t.get("marks", [])))
    if t.get("prio") == -1:
        marks.append("try_last")
    if t.get("prio") == 1:
        marks.append("try_first")
    if t.get("persist"):
        marks.append("persist")
    marks += ["skipif"] * len(t.get("skipifs", []))
    if t.get("skip"):
        marks.append("skip")
    meta = ["pytask_meta"] if marks else []      # only decorated functions carry the attribute
    return [f"task_m{t['module']}.py::task_t{t['id']}_"] + sorted(t.get("attrs", []) + meta) + marks


def eval_expr(expr, pred):
    toks = expr.replace("(", " ( ").replace(")", " ) ").split()
    py = [t if t in ("and", "or", "not", "(", ")") else str(bool(pred(t))) for t in toks]
    return eval(" ".join(py))  # noqa: S307


def after_targets(t, tasks):
    ups = set(t["after_fn"])
    e = t.get("after_expr")
    if e:
        try:
            for u in tasks:
                if u["id"] != t["id"] and eval_expr(e, lambda a: any(a.lower() in n.lower() for n in names_of(u, tasks))):
                    ups.add(u["id"])
        except SyntaxError:
            pass
    return ups


def declared_upstream(tasks):
    """task id -> set of task ids it directly depends on (product consumed, or `after`)."""
    prod_of = {p: t["id"] for t in tasks for p in t["prods"]}
    up = {t["id"]: set() for t in tasks}
    for t in tasks:
        for d in t["deps"]:
            if d in prod_of and prod_of[d] != t["id"]:
                up[t["id"]].add(prod_of[d])
        up[t["id"]].update(after_targets(t, tasks))
    return up


def closure(up):
    out = {}
    for t in up:
        seen, todo = set(), list(up[t])
        while todo:
            x = todo.pop()
            if x not in seen:
                seen.add(x); todo.extend(up.get(x, ()))
        out[t] = seen
    return out


def ideal_contents(tasks, files, mods, pinned):
    """From-scratch value of every product (None if not derivable), sources and pinned files as on disk."""
    prod_of = {p: t for t in tasks for p in t["prods"]}
    memo = {}

    def val(n, depth=0):
        if n in memo:
            return memo[n]
        if n not in prod_of or n in pinned or depth > 50:
            v = files.get(n)
        else:
            t = prod_of[n]
            dv = [val(d, depth + 1) for d in t["deps"]]
            if any(d is None or not isinstance(d, int) for d in dv):
                v = None
            else:
                v = verif_rt.hbody(t["id"], mods[str(t["module"])][0], dv, n)
        memo[n] = v
        return v
    return {p: val(p) for p in prod_of}


# ------------------------------------------------------------------ driver
def run_engine(out, tier, seed, prop, opts, ncases, oracles, tag="eng"):
    """Generate histories, run both sides, compare; apply the given oracles.

    oracles: list of functions (case, build_index, op, obs_before_list, canon_impl_obs, raw_obs, ctx) -> [(what, finding_ids)]
    """
    import engine_impl as EI
    rng = rng_for(seed, f"{prop}/{tag}")
    base = tempfile.mkdtemp(prefix=f"verifeng_{prop}_")
    try:
        cases = [gen_history(rng, i, base, opts) for i in range(ncases)]
        extra = list(opts.get("corpus", []))
        for fn in opts.get("templates", []):
            extra += [fn(rng) for _ in range(opts.get("ntemplates", 10) * (1 if tier == "quick" else 10))]
        for c in extra:
            c = dict(c, idx=len(cases), root=str(Path(base) / f"c{len(cases)}" / "p"))
            cases.append(c)
        obs_all = run_impl_histories(cases, hashseed=opts.get("hashseed", seed % 7))
    finally:
        shutil.rmtree(base, ignore_errors=True)
    # model
    pairs = list(zip(cases, obs_all))
    cs = chars_of(pairs)
    import re as _re
    extra = sorted(ord(c) for c in cs if ord(c) > 127 and _re.fullmatch(r"\w", c))
    lt = [(ord(c), list(map(ord, c.lower()))) for c in sorted(cs) if ord(c) > 127]
    terms, idx = [], []
    for ci, (case, obs) in enumerate(pairs):
        if any("raised" in o for o in obs):
            for o in obs:
                if "raised" in o:
                    out.disagreement("pytask.build raised instead of returning", {"case": case, "traceback": o["raised"]})
                    out.violation("build() raised for a user-level project", {"case": case, "traceback": o["raised"]}) if prop == "C08" else None
            continue
        ht = history_term(case, obs)
        if ht is None:
            out.disagreement("collection did not yield the generated tasks", {"mismatch": [o.get("_name_mismatch") for o in obs], "case": case})
            continue
        terms.append(ht); idx.append(ci)
    model = coq_eval_cases(f"{prop}_{tag}", IMPORTS, f"run_hist {coq_term(extra)} {coq_term(lt)}", terms, shard=opts.get("shard", 12))
    model_by_ci = dict(zip(idx, model))
    nbuilds = 0
    for ci, (case, obs) in enumerate(pairs):
        if any("raised" in o for o in obs):
            continue
        mo = model_by_ci.get(ci)        # None: no model run (e.g. collection failed); the oracles still apply
        sigs = {"t": {}, "n": {}}
        modsha = {}
        builds = [op for op in case["ops"] if op["op"] == "build"]
        prev = []
        ok_case = True
        for bi, (op, o) in enumerate(zip(builds, obs)):
            m = mo[bi] if mo is not None and bi < len(mo) else None
            for mm, (v, h) in o["mods"].items():
                modsha[v] = h
            cimp = canon_impl(o, sigs)
            nbuilds += 1
            d = compare(cimp, canon_model(m, o, modsha)) if m is not None else []
            out.case({"tasks": op["tasks"], "cfg": op["cfg"], "faults": op["faults"], "reports": cimp["reports"], "i": (ci, bi)},
                     nontrivial=len(cimp["reports"]) > 0)
            for t, oc in cimp["reports"]:
                out.count("outcome_" + OUTCOMES[oc])
            out.count("exit_%s" % cimp["exit"])
            if d and ok_case:
                ok_case = False
                out.disagreement("engine observation differs from the model",
                                 {"history_ops": case["ops"], "build_index": bi, "diffs": d[:3]})
            ctx = {"case": case, "bi": bi, "op": op, "prev": prev, "raw": o, "sigs": sigs, "modsha": modsha}
            for orc in oracles:
                try:
                    found = orc(cimp, ctx)
                except Exception as e:  # noqa: BLE001  (an oracle that needs collected names cannot run on a failed collection)
                    found = []
                    if o.get("tasks"):
                        raise
                for what, fids in found:
                    out.violation(what, {"history_ops": case["ops"], "build_index": bi, "problem": what,
                                         "reports": cimp["reports"], "log": cimp["log"], "exit": cimp["exit"]},
                                  finding_matchers=fids)
            prev.append((op, cimp, o))
    out.coverage["builds_compared"] = nbuilds
    out.coverage["histories"] = len(idx)
    out.coverage["traces_validated_against_impl"] = len(idx)
    if pairs:
        case, obs = pairs[0]
        out.sample({"history": [o if o["op"] != "build" else {"op": "build", "cfg": o["cfg"], "faults": o["faults"],
                                                               "tasks": [{k: t[k] for k in ("id", "deps", "prods", "after_fn", "after_expr", "skip", "persist")} for t in o["tasks"]]}
                                for o in case["ops"]][:8]})
