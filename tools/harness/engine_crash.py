"""Effect stream of a real build and crash injection.

Every product write of a generated task function, every call of
_pytask.database_utils._create_or_update_state and every logged task report is appended to
<root>/effects.log; with crash={"after": k} the process exits (os._exit) right after the
k-th effect, with k = 0 right before the first one."""
import os

STATE = {"n": 0, "k": None, "root": None}


def _emit(line):
    with open(os.path.join(STATE["root"], "effects.log"), "a") as fh:
        fh.write(line + "\n")
        fh.flush()
        os.fsync(fh.fileno())
    STATE["n"] += 1
    if STATE["k"] is not None and STATE["n"] >= STATE["k"]:
        os._exit(77)


def before_effect():
    if STATE["k"] == 0:
        os._exit(77)


def wrote(nid):
    _emit(f"W {nid}")


def install(root, crash, sig_maps):
    """sig_maps() -> (task signature -> id, node signature -> id), filled lazily from the session.

    The two functions of database_utils that commit are wrapped (so that also a row whose hash did not change
    counts as an effect); commits that happen outside them (the functions were renamed, inlined, or a new one
    was added) are observed through SQLAlchemy events."""
    STATE.update(n=0, k=None if not crash else crash.get("after"), root=str(root), inwrap=0)
    import _pytask.database_utils as DU
    orig = getattr(DU, "_create_or_update_state", None)
    if orig is not None:
        def wrapped(first_key, second_key, hash_):
            before_effect()
            STATE["inwrap"] += 1
            try:
                orig(first_key, second_key, hash_)
            finally:
                STATE["inwrap"] -= 1
            _emit(f"C {first_key} {second_key}")

        DU._create_or_update_state = wrapped
    purge = getattr(DU, "_delete_states_of_other_nodes", None)
    if purge is not None:
        # (F28, repaired) the rows of nodes that are no longer neighbours are deleted in one more commit
        def wrapped_purge(first_key, second_keys):
            before_effect()
            STATE["inwrap"] += 1
            try:
                purge(first_key, second_keys)
            finally:
                STATE["inwrap"] -= 1
            _emit(f"P {first_key}")

        DU._delete_states_of_other_nodes = wrapped_purge
    try:
        from sqlalchemy import event
        pending = []

        def after_flush(session, ctx):
            if STATE["inwrap"]:
                return
            for obj in list(session.new) + list(session.dirty):
                if hasattr(obj, "task") and hasattr(obj, "node"):
                    pending.append((obj.task, obj.node))

        def before_commit(session):
            if not STATE["inwrap"] and (pending or session.new or session.dirty or session.deleted):
                before_effect()

        def after_commit(session):
            if STATE["inwrap"]:
                return
            rows, pending[:] = list(pending), []
            for t, n in rows:
                _emit(f"C {t} {n}")

        event.listen(DU.DatabaseSession, "after_flush", after_flush)
        event.listen(DU.DatabaseSession, "before_commit", before_commit)
        event.listen(DU.DatabaseSession, "after_commit", after_commit)
    except Exception:  # noqa: BLE001
        pass


class Reporter:
    """Logs the report of each task after it has been printed."""

    def pytask_execute_task_log_end(self, session, report):
        res = yield
        before_effect()
        _emit(f"R {report.task.signature} {report.outcome.name}")
        return res
