"""C05: kill the real pytask process after every effect of a build (each product write, each
database commit, each logged report), then run a recovery build and one more build; compare the
crashed world with Model/Crash.v (prefix of the effect list) and check the property directly."""
from __future__ import annotations

import copy
import shutil
import tempfile
from pathlib import Path

import engine_common as EC
import engine_oracles as EO
from vlib import rng_for

TRUSTED = ["Coq kernel, vm_compute", "a sqlite commit is atomic and durable; a killed process has performed a prefix of its effects",
           "harness: os._exit after the k-th effect (product write / state commit / logged report) of the real process",
           "task bodies are the harness's deterministic functions"]
PLAIN = {"force": False, "dry_run": False, "max_failures": None, "expression": "", "marker_expression": "", "capture": "fd"}
O = EO.O


def o_c05(cimp, ctx):
    """Applied to the recovery build and the build after it."""
    probs = []
    op = ctx["op"]
    role = op.get("role")
    if role not in ("recovery", "after"):
        return probs
    tasks = op["tasks"]
    starts = EO._started(cimp)
    produced = {p for t in tasks for p in t["prods"]}
    if any(d not in produced and d not in cimp["files"] for t in tasks for d in t["deps"]):
        return probs      # a source file is missing: no build of this project can succeed, killed or not
    if cimp["exit"] != 0:
        probs.append((f"the {role} build after a kill ended with exit code {cimp['exit']}", ()))
        return probs
    # converge to the from-scratch result
    files = cimp["files"]
    rep = dict(cimp["reports"])
    # persist trades the guarantee away; a task that was skipped (marker, or below a skipped task) is not built
    pinned = {p for t in tasks if t["persist"] or rep.get(t["id"]) in (O["SKIP"], None) for p in t["prods"]}
    ideal = EC.ideal_contents(tasks, files, ctx["raw"]["mods"], pinned)
    for t in tasks:
        if t["persist"] or rep.get(t["id"]) in (O["SKIP"], None):
            continue
        for p in t["prods"]:
            if ideal.get(p) is not None and files.get(p) != ideal[p]:
                probs.append((f"after the {role} build product f{p} holds {files.get(p)!r}, from scratch it would be {ideal[p]}", ()))
    if role == "after" and starts:
        probs.append((f"the build after the recovery build executed tasks {sorted(set(starts))} again", ()))
    if role == "recovery":
        # tasks whose completion had been reported before the kill are not executed again
        crashed = ctx["prev"][-1][2]
        done = [(e[1], e[2]) for e in crashed.get("effects", []) if e[0] == "R"]
        sig2t = ctx["sigs"]["t"]
        for sig, oc in done:
            t = sig2t.get(sig)
            if oc in ("SUCCESS", "SKIP_UNCHANGED") and t in starts:
                probs.append((f"task {t} had been reported {oc} before the kill and was executed again by the recovery build", ()))
    return probs


def run(out, tier, seed, proof):
    rng = rng_for(seed, "c05")
    nproj = 5 if tier == "quick" else 60
    opts = dict(p_skip=0.0, p_skipif=0.0, p_persist=0.1, p_fault=0.0, p_dry=0.0, p_force=0.0, p_k=0.0, p_m=0.0, p_maxfail=0.0,
                p_after=0.25, p_shared_after=0.0, after_needs_products=True, p_mark=0.1, max_tasks=5, min_tasks=2,
                min_builds=1, max_builds=2, nprods=[1, 1, 2, 2])
    base = tempfile.mkdtemp(prefix="verifeng_C05g_")
    shutil.rmtree(base)
    corpus = []
    maxk = 45
    for pi in range(nproj):
        h = EC.gen_history(rng, 0, base, opts)
        # `after` expressions with several targets make the order of commits depend on a Python set
        for op in h["ops"]:
            if op["op"] == "build":
                op["cfg"] = dict(PLAIN)
                op["faults"] = {}
                for t in op["tasks"]:
                    if t["after_expr"] and " or " in t["after_expr"]:
                        t["after_expr"] = t["after_expr"].split(" or ")[0]
        builds = [i for i, op in enumerate(h["ops"]) if op["op"] == "build"]
        last = builds[-1]
        prefix, victim = h["ops"][:last], h["ops"][last]
        # an edit before the victim build so that it has work to do
        for k in range(maxk):
            ops = copy.deepcopy(prefix)
            crash = dict(copy.deepcopy(victim), crash={"after": k}, role="crash")
            ops.append(crash)
            how = rng.choice([None, None, "truncate", "garbage", "delete"])
            if how:
                ops.append({"op": "corrupt_cache", "how": how})
            ops.append(dict(copy.deepcopy(victim), role="recovery"))
            ops.append(dict(copy.deepcopy(victim), role="after"))
            corpus.append({"ops": ops, "sources": h["sources"], "_proj": pi, "_k": k})
    # a fixed project in which one file is read by two tasks and one product by two others, built completely,
    # edited, and then killed at every effect boundary
    def tk(i, deps, prods):
        return {"id": i, "module": 1, "deps": deps, "prods": prods, "mver": 0, "skip": False, "skipifs": [], "persist": False, "prio": 0,
                "marks": [], "attrs": [], "after_fn": [], "after_expr": None, "use_decorator": False}
    ts = [tk(1, [101], [111]), tk(2, [101], [112]), tk(3, [111], [113]), tk(4, [111, 112], [114])]
    bld = {"op": "build", "tasks": ts, "cfg": dict(PLAIN), "faults": {}}
    for k in range(26):
        ops = [{"op": "set", "n": 101, "c": 5}, copy.deepcopy(bld), {"op": "set", "n": 101, "c": 6},
               dict(copy.deepcopy(bld), crash={"after": k}, role="crash"), dict(copy.deepcopy(bld), role="recovery"), dict(copy.deepcopy(bld), role="after")]
        corpus.append({"ops": ops, "sources": [101], "_proj": "shared", "_k": k})
    # run with an empty random part: everything is in the corpus
    o2 = dict(opts, corpus=corpus, shard=10)
    EC.run_engine(out, tier, seed, "C05", o2, 0, [o_c05, EO.o_c08], tag="crash")
    out.coverage["crash_points"] = len(corpus)
    out.coverage["projects"] = nproj
