"""C12 correspondence: Model/Hashing.v (symbolic sha/md5/encode) vs _hashlib.hash_value,
node signatures, the memo key and file states; injectivity oracle over a value pool."""
from __future__ import annotations

import hashlib
import json
import itertools
import struct

from vlib import C, Raw, Zi, coq_eval_cases, coq_term, rng_for, run_impl_worker

IMPORTS = "Base.Prelude Model.Hashing Model.HashingRun"
TRUSTED = ["Coq kernel, vm_compute", "sha256/md5/str.encode injective (Section hypotheses)",
           "CPython hash() of int/bool/float/None (float hashes read from the interpreter; int hash modelled and compared)",
           "harness evaluation of the symbolic digests with hashlib"]

SL, SR, UL, UR, ML, MR = 2000001, 2000002, 2000003, 2000004, 2000005, 2000006


def eval_sym(codes):
    """Evaluate the model's bracketed string: returns a str (hex digests substituted)."""
    pos = 0

    def go(stop):
        nonlocal pos
        out = []          # list of str pieces or bytes pieces
        while pos < len(codes):
            c = codes[pos]
            if c == stop:
                pos += 1
                return out
            pos += 1
            if c == SL:
                inner = go(SR)
                out.append(hashlib.sha256(_bytes(inner)).hexdigest())
            elif c == ML:
                inner = go(MR)
                out.append(hashlib.md5(_bytes(inner)).hexdigest())  # noqa: S324
            elif c == UL:
                inner = go(UR)
                out.append("".join(x if isinstance(x, str) else x.decode("latin-1") for x in inner).encode())
            else:
                out.append(chr(c))
        return out

    def _bytes(pieces):
        b = b""
        for x in pieces:
            b += x if isinstance(x, bytes) else bytes(ord(ch) for ch in x)
        return b

    r = go(None)
    return "".join(x if isinstance(x, str) else x.decode("latin-1") for x in r)


def to_coq(v, ftab):
    k = v[0]
    if k == "none":
        return Raw("VNone")
    if k == "bool":
        return C("VBool", bool(v[1]))
    if k == "int":
        return C("VInt", Zi(int(v[1])))
    if k == "float":
        return C("VFloat", ftab.setdefault(v[1], len(ftab)))
    if k == "str":
        return C("VStr", [ord(c) for c in v[1]])
    if k == "bytes":
        return C("VBytes", list(bytes.fromhex(v[1])))
    if k == "path":
        from pathlib import Path
        return C("VPath", [ord(c) for c in str(Path(v[1]))])     # pathlib's own spelling (trusted)
    return C("VTuple" if k == "tuple" else "VList", [to_coq(x, ftab) for x in v[1]])


def pool(rng):
    ints = [0, 1, -1, -2, 2, 12, 3, 23, 123, 2**61 - 1, 2**61, -(2**61 - 1), 2**64 + 5, 4238894112, 10**30, -10**18]
    vals = [["none"]] + [["bool", b] for b in (True, False)] + [["int", str(i)] for i in ints]
    vals += [["float", f.hex()] for f in (0.0, 1.0, -1.0, 0.5, 1e300, 1.5e-7, float("inf"), 3.141592653589793, 2.0**61)]
    strs = ["", "a", "A", "ab", "12", "123", "1", "23", "é", "a/b", "/tmp/x.txt", "/tmp/./x.txt", " ", "\n", "0" * 64, "中文",
            "e\u0301", "M\u00fcller", "Mu\u0308ller", "\u212b", "\u00c5", "\ufb01", "fi", "\u2126", "\u03a9", "/d/\u212b.txt", "/d/\u00c5.txt"]
    vals += [["str", s] for s in strs] + [["path", s] for s in strs if s] + [["bytes", s.encode().hex()] for s in strs]
    scal = list(vals)
    for _ in range(120):
        n = rng.randint(0, 3)
        vals.append([rng.choice(["tuple", "list"]), [rng.choice(scal) for _ in range(n)]])
    vals += [["tuple", [["int", "1"], ["int", "23"]]], ["tuple", [["int", "12"], ["int", "3"]]],
             ["tuple", [["none"]]], ["tuple", [["int", "4238894112"]]],
             ["tuple", [["tuple", [["int", "1"], ["int", "2"]]]]], ["tuple", [["str", "12"]]],
             ["tuple", [["str", "a"], ["str", "b"]]], ["tuple", [["str", "ab"]]],
             ["tuple", [["str", "b"], ["str", "a"]]], ["list", [["str", "a"], ["str", "c"]]], ["list", [["str", "c"], ["str", "a"]]],
             ["tuple", [["int", "1"], ["int", "2"], ["int", "3"]]], ["tuple", [["int", "3"], ["int", "2"], ["int", "1"]]],
             ["list", [["bytes", "00"], ["path", "/p"]]], ["list", [["path", "/p"], ["bytes", "00"]]]]
    nested = list(vals)
    for _ in range(80):
        vals.append(["tuple", [rng.choice(nested) for _ in range(rng.randint(1, 3))]])
    return vals


def erase(v):
    """Forget the difference between str, path and bytes with one encoding, and between an
    empty sequence and the empty string; keep the nesting."""
    k = v[0]
    if k in ("str", "path"):
        s = v[1] if k == "str" else __import__("pathlib").Path(v[1]).__str__()
        return ("b", s.encode().hex())
    if k == "bytes":
        return ("b", v[1])
    if k in ("tuple", "list"):
        return ("b", "") if not v[1] else ("seq", tuple(erase(x) for x in v[1]))
    return tuple(map(str, v))


def py_equal_kind(a, b):
    return a[0] == b[0]


def run(out, tier, seed, proof):
    rng = rng_for(seed, "c12")
    vals = pool(rng)
    seeds = [0, 1, 7] if tier == "quick" else [0, 1, 2, 3, 7, 11, 4242]
    ftab = {}
    cv = [to_coq(v, ftab) for v in vals]
    floats = [f for f, _ in sorted(ftab.items(), key=lambda kv: kv[1])]
    base = run_impl_worker("impl_hash.py", {"values": vals, "floats": floats}, hashseed=seeds[0])
    fh = [Zi(int(x)) for x in base["floats"]]
    model = coq_eval_cases("c12_vals", IMPORTS, f"run_hash {coq_term(fh)}", cv, shard=150)
    impl0 = base["values"]
    for v, m, i in zip(vals, model, impl0):
        z, h = m
        want = ["int", str(z)] if not h else eval_sym(h)
        out.case(v, nontrivial=v[0] in ("tuple", "list", "str", "path", "bytes"))
        out.count("kind_" + v[0])
        if i.get("h") != want:
            out.disagreement("hash_value differs from the model", {"value": v, "impl": i, "model": want})
            if v[0] in ("str", "path", "bytes", "tuple", "list") and isinstance(i.get("h"), list):
                out.violation("hash_value of a str/bytes/path/sequence is not a content digest (session dependent)", {"value": v, "impl": i})
    # seed independence
    for s in seeds[1:]:
        other = run_impl_worker("impl_hash.py", {"values": vals}, hashseed=s)["values"]
        out.evaluations += len(vals)
        for v, a, b in zip(vals, impl0, other):
            if a.get("h") != b.get("h"):
                out.violation("the state of a hashed value differs between interpreter sessions", {"value": v, "seed0": a, f"seed{s}": b})
    # injectivity oracle on same-kind pairs
    groups = {}
    mstate = {}
    for v, i, m in zip(vals, impl0, model):
        groups.setdefault(str(i.get("h")), []).append((v, i))
        mstate[str(v)] = str(m[0]) if not m[1] else eval_sym(m[1])
    for h, g in groups.items():
        for (a, ia), (b, ib) in itertools.combinations(g, 2):
            if a == b or not py_equal_kind(a, b):
                continue
            if ia["pyhash"] is not None and ia["pyhash"] == ib["pyhash"]:
                continue
            # known findings explain exactly the collisions the faithful model has too: F18 when the two
            # values differ only in str/bytes/path kind or empty-sequence vs empty string, F4 otherwise
            fid = ()
            if a[0] in ("tuple", "list") and mstate[str(a)] == mstate[str(b)]:
                fid = ("F18",) if erase(a) == erase(b) else ("F4",)
            out.violation("two different values of one kind have the same state", {"a": a, "b": b, "state": h}, finding_matchers=fid)
    # signatures
    paths = ["/p/a.txt", "/p/b.txt", "/p/sub/a.txt", "/p/a.txt2", "/q/a.txt"]
    upaths = ["/p/M\u00fcller.txt", "/p/Mu\u0308ller.txt", "/p/\u212b.txt", "/p/\u00c5.txt"]   # canonically equivalent, different files
    sigs = [["path", p] for p in paths + upaths] + [["pickle", p] for p in paths[:2]]
    sigs += [["task", n, "/p/task_m.py"] for n in ("task_\u00e9", "task_e\u0301")] + [["dir", "/p", q] for q in ("\u00e9*", "e\u0301*")]
    sigs += [["task", n, p] for n in ("task_a", "task_b", "task_a[1]") for p in ("/p/task_m.py", "/p/task_n.py")]
    sigs += [["taskwp", n] for n in ("task_a", "x")]
    sigs += [["dir", r, q] for r in ("/p", "/p/sub", None) for q in ("*.txt", "*.in")]
    tps = [[["int", "1"], ["int", "23"]], [["int", "12"], ["int", "3"]], [["str", "k"]], [["str", "k2"]], [], [["int", "0"]]]
    sigs += [["python", a, tp, tn, "/p/task_m.py"] for a in ("x", "y") for tp in tps for tn in ("task_a",)]
    impl = run_impl_worker("impl_hash.py", {"sigs": sigs})["sigs"]

    def sig_args(s):
        k = s[0]
        if k in ("path", "pickle"):
            return [C("VPath", [ord(c) for c in s[1]])]
        if k == "task":
            return [C("VStr", [ord(c) for c in s[1]]), C("VPath", [ord(c) for c in s[2]])]
        if k == "taskwp":
            return [C("VStr", [ord(c) for c in s[1]])]
        if k == "dir":
            return [C("VPath", [ord(c) for c in s[1]]) if s[1] is not None else Raw("VNone"), C("VStr", [ord(c) for c in s[2]])]
        return [C("VStr", [ord(c) for c in s[1]]), C("VTuple", [to_coq(x, {}) for x in s[2]]),
                C("VStr", [ord(c) for c in s[3]]), C("VPath", [ord(c) for c in s[4]])]
    msig = coq_eval_cases("c12_sigs", IMPORTS, "run_sig []", [sig_args(s) for s in sigs], shard=100)
    seen = {}
    for s, a, m in zip(sigs, impl, msig):
        out.case(s)
        if a != eval_sym(m):
            out.disagreement("signature differs from the model", {"node": s, "impl": a, "model": eval_sym(m)})
        key = (s[0] if s[0] != "pickle" else "path",) + tuple(map(str, s[1:]))
        if a in seen and seen[a] != key:
            fid = ("F4",) if s[0] == "python" else ()
            out.violation("two different declarations share one signature", {"a": seen[a], "b": key}, finding_matchers=fid)
        seen.setdefault(a, key)
    # memo key + file states
    memo = [(p, float(m).hex()) for p in paths[:3] for m in (0.0, 1.5, 1700000000.123456)]
    try:
        r = run_impl_worker("impl_hash.py", {"memo": memo, "floats": [m for _, m in memo]})
    except RuntimeError as e:      # hash_path is no longer the memoised function the model describes
        out.disagreement("the memo key of hash_path cannot be observed", {"error": str(e)[-600:]})
        r = {"floats": [0] * len(memo), "memo": [], "memo_prefix": ""}
    ft2 = {}
    mterms = []
    for (p, m), fhash in zip(memo, r["floats"]):
        mterms.append(([ord(c) for c in r["memo_prefix"]], [ord(c) for c in p], ft2.setdefault(m, len(ft2))))
    fh2 = [None] * len(ft2)
    for (p, m), fhash in zip(memo, r["floats"]):
        fh2[ft2[m]] = Zi(int(fhash))
    mk = coq_eval_cases("c12_memo", IMPORTS, f"fun c => match c with (pre, p, m) => run_memo_key {coq_term(fh2)} pre p m end", mterms)
    for q, a, m in zip(memo, r["memo"], mk):
        out.case(["memo", q])
        if a != eval_sym(m):
            out.disagreement("memo key differs from the model", {"args": q, "impl": a, "model": eval_sym(m)})
    # file states: content-only under mtime honesty; F5 witness
    seqs = []
    t0 = 1_700_000_000_000_000_000
    for i in range(30 if tier == "quick" else 300):
        seq, t = [], t0
        conts = [rng.randbytes(rng.randint(0, 20)).hex() for _ in range(3)]
        back = 0
        for _ in range(rng.randint(2, 6)):
            t += rng.choice([1, 10**6, 10**9])
            tt = t
            if rng.random() < 0.3:       # restored backup, clock set back: an older time never seen before
                back += rng.choice([1, 10**6, 3 * 10**9])
                tt = t0 - back
            seq.append((rng.choice(["plain", "dot", "updown"]), rng.choice(["a.bin", "b.bin"]), tt, rng.choice(conts + [None])))
        seqs.append(seq)
    # files larger than one read block (256 KiB and a multiple of it, plus a tail): edits confined to the tail
    for size in ([262144 + 5, 2 * 262144 + 70000] if tier == "quick" else [262144, 262144 + 1, 262144 + 5, 2 * 262144 + 70000, 3 * 262144 - 1]):
        body_ = rng.randbytes(size)
        v1 = body_.hex()
        v2 = (body_[:-1] + bytes([body_[-1] ^ 1])).hex()
        v3 = (body_ + b"appended row\n").hex()
        seqs.append([("plain", "big.bin", t0 + 10, v1), ("plain", "big.bin", t0 + 20, v2), ("dot", "big.bin", t0 + 30, v3), ("plain", "big.bin", t0 + 40, v1)])
    f5 = [("plain", "a.bin", t0, "00"), ("plain", "a.bin", t0, "01")]
    res = run_impl_worker("impl_hash.py", {"states": seqs + [f5]})["states"]
    for seq, o in zip(seqs, res):
        out.case(["states", seq])
        last = {}
        for (sp, name, t, cont), (st, mt) in zip(seq, o):
            want = None if cont is None else hashlib.sha256(bytes.fromhex(cont)).hexdigest()
            if st != want:
                # same path, same observed st_mtime, other bytes = the known memo finding
                same_mtime = cont is not None and any(m == mt and c != cont for (m, c) in last.get(name, []))
                out.violation("the state of a file is not the digest of its bytes", {"sequence": seq, "returned": o},
                              finding_matchers=("F5",) if same_mtime else ())
                break
            if cont is not None:
                last.setdefault(name, []).append((mt, cont))
    if res[-1][1][0] != hashlib.sha256(b"\x01").hexdigest():
        out.violation("content changed under an unchanged modification time is not seen", {"sequence": f5, "returned": res[-1]}, finding_matchers=("F5",))
    # ---- signatures do not depend on the working directory of the session
    cw = run_impl_worker("impl_hash.py", {"cwd_sigs": True})["cwd_sigs"]
    cwds = sorted(cw)
    for rel in sorted(cw[cwds[0]]):
        out.case(["cwd_signature", rel], nontrivial=True)
        by_cwd = {c_: cw[c_][rel] for c_ in cwds}
        if len({json.dumps(v) for v in by_cwd.values()}) > 1:
            out.violation("the signature of a node or task depends on the working directory of the session", {"path": rel, "signatures_by_cwd": by_cwd})
    for c_ in cwds:
        sig_of = {}
        for rel, sg in cw[c_].items():
            for kind, x in zip(("PathNode", "PickleNode", "Task", "DirectoryNode"), sg):
                if kind == "PickleNode":
                    continue      # same file as the PathNode: the same node
                key = (kind, rel if kind != "DirectoryNode" else rel.rsplit("/", 1)[0] if "/" in rel else "")
                if x in sig_of and sig_of[x] != key:
                    out.violation("two different declarations share one signature", {"a": sig_of[x], "b": key, "cwd": c_})
                sig_of.setdefault(x, key)
    # ---- identity of collected path nodes: Hashing.collected_path vs real collection
    SUBS = ["", "src", "src/a", "x.y"]
    TARGETS = ["bld/x.txt", "bld/y.txt", "src/x.txt", "x.txt"]
    def spell(rng, sub, target):
        """a declaration naming {R}/target from a module in {R}/sub"""
        up = "/".join([".."] * len([c for c in sub.split("/") if c]))
        rel = (up + "/" if up else "") + target
        k = rng.random()
        if k < 0.25:
            return rel
        if k < 0.4:
            return "./" + rel
        if k < 0.55:
            return "zz/../" + rel
        if k < 0.7:
            return "{R}/" + target
        if k < 0.85:
            return "{R}/sub/../" + target
        return "{R}/./" + target.replace("/", "//", 1)
    ccases = []
    for _ in range(12 if tier == "quick" else 120):
        decls = []
        for _ in range(rng.randint(2, 6)):
            sub = rng.choice(SUBS)
            decls.append([sub, rng.choice(["path", "node", "node", "pickle"]), spell(rng, sub, rng.choice(TARGETS))])
        ccases.append(decls)
    cres = run_impl_worker("impl_hash.py", {"collect": ccases})["collect"]
    cterms = []
    for decls in ccases:
        for sub, kind, decl in decls:
            d = "/R" + ("/" + sub if sub else "")
            cterms.append(([ord(c) for c in d], [ord(c) for c in decl.replace("{R}", "/R")]))
    cmodel = coq_eval_cases("c12c", IMPORTS, "fun c => collected_path (fst c) (snd c)", cterms, shard=400)
    mi = 0
    for decls, r in zip(ccases, cres):
        out.case({"declarations": decls}, nontrivial=True)
        out.count("collect_projects")
        mp = []
        for _ in decls:
            mp.append("".join(chr(x) for x in cmodel[mi])); mi += 1
        if "error" in r:
            out.disagreement("collection of path declarations did not return", {"declarations": decls, "error": r["error"]}); continue
        # two declarations of one file as products of two tasks: the project is rejected (exit 4) but collected
        got = [r["nodes"].get(f"task_d{i}") for i in range(len(decls))]
        for i, (dcl, g) in enumerate(zip(decls, got)):
            if g is None:
                out.disagreement("a declared task was not collected", {"declarations": decls, "index": i}); continue
            if g[0] != mp[i]:
                out.disagreement("collected path differs from Hashing.collected_path", {"declaration": dcl, "impl": g[0], "model": mp[i]})
        for i in range(len(decls)):
            for j in range(i + 1, len(decls)):
                if got[i] is None or got[j] is None or decls[i][1] == "pickle" or decls[j][1] == "pickle":
                    continue
                same_file = mp[i] == mp[j]
                same_node = got[i][1] == got[j][1]
                if same_file != same_node:
                    out.violation("two declarations " + ("of the same file are different graph nodes" if same_file else "of different files are one graph node"),
                                  {"a": decls[i], "b": decls[j], "normalised": [mp[i], mp[j]], "collected": [got[i][0], got[j][0]]})
    out.evaluations += 1
    out.sample({"value": vals[40], "model": str(model[40])[:200]})
    out.sample({"signature_case": sigs[3]})
    out.assumptions += ["sha256/md5 collision freedom, injective str.encode", "mtime-honesty for file states (F5 otherwise)"]
