"""One real build of an existing project in this (fresh) interpreter; used for scenarios in which the
interpreter itself matters (hash seed) or the build sees only part of the project (path arguments)."""
import json
import os
import sys
from pathlib import Path


def main():
    req = json.load(sys.stdin)
    real = os.dup(1)
    os.dup2(os.open(os.devnull, os.O_WRONLY), 1)      # the build's own output
    import pytask
    s = pytask.build(paths=[Path(p) for p in req["paths"]], capture="no")
    sys.stdout.flush()
    os.dup2(real, 1)
    json.dump({"exit": int(s.exit_code),
               "reports": sorted((r.task.name.split("::")[-1], r.outcome.name) for r in s.execution_reports)}, sys.stdout)


if __name__ == "__main__":
    main()
