"""Runtime helper imported by the generated task modules (lives outside the project,
so pytask does not track it)."""
import json
import os
from pathlib import Path

M = 4294967291


def mixc(h, c):
    return (h * 1000003 + c + 17) % M


def hbody(t, src, dv, p):
    h = 7
    for c in [src, p, t, *dv]:
        h = mixc(h, c)
    return h


def body(root, t, src, deps, prods):
    """deps: list of paths; prods: dict nid -> path."""
    root = Path(root)
    try:
        faults = json.loads((root / "faults.json").read_text())
    except Exception:  # noqa: BLE001
        faults = {}
    f = faults.get(str(t))
    with open(root / "exec.log", "a") as fh:
        fh.write(f"S {t}\n")
    try:
        if f == "raise_before":
            raise RuntimeError("injected")
        dv = [int(Path(d).read_text()) for d in deps]
        omit = f["omit"] if isinstance(f, dict) else []
        kill_after = f.get("kill_after") if isinstance(f, dict) else None
        n = 0
        for nid, path in prods.items():
            if int(nid) in omit:
                continue
            if kill_after is not None and n >= kill_after:
                os._exit(77)
            try:
                import engine_crash
                engine_crash.before_effect()
            except ImportError:
                engine_crash = None
            Path(path).write_text(str(hbody(t, src, dv, int(nid))))
            n += 1
            if engine_crash is not None and engine_crash.STATE["root"]:
                engine_crash.wrote(int(nid))
        if f == "raise_after":
            raise RuntimeError("injected")
    finally:
        with open(root / "exec.log", "a") as fh:
            fh.write(f"F {t}\n")
