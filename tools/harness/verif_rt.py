"""Runtime helper imported by the generated task modules (lives outside the project,
so pytask does not track it)."""
import json
import os
from pathlib import Path

M = 4294967291


def mixc(h, c):
    return (h * 1000003 + c + 17) % M


def hbody(t, src, dv, p):
    h = 7
    for c in [src, p, t, *dv]:
        h = mixc(h, c)
    return h


def body(root, t, src, deps, prods, mem=None):
    """deps: list of paths (or values handed over in memory / hashed lists); prods: dict nid -> path;
    mem: id of a product handed over in memory - its value is returned."""
    root = Path(root)
    try:
        faults = json.loads((root / "faults.json").read_text())
    except Exception:  # noqa: BLE001
        faults = {}
    f = faults.get(str(t))
    with open(root / "exec.log", "a") as fh:
        fh.write(f"S {t}\n")
    try:
        if f == "raise_before":
            raise RuntimeError("injected")
        # a dependency is a file (path) or a hashed Python value (the list vt(code)); its "content" is the code
        dv = [int(d[0]) if isinstance(d, (list, tuple)) else (d if isinstance(d, int) else int(Path(d).read_text())) for d in deps]
        omit = f["omit"] if isinstance(f, dict) else []
        kill_after = f.get("kill_after") if isinstance(f, dict) else None
        n = 0
        for nid, path in prods.items():
            if int(nid) in omit:
                continue
            if kill_after is not None and n >= kill_after:
                os._exit(77)
            try:
                import engine_crash
                engine_crash.before_effect()
            except ImportError:
                engine_crash = None
            Path(path).write_text(str(hbody(t, src, dv, int(nid))))
            n += 1
            if engine_crash is not None and engine_crash.STATE["root"]:
                engine_crash.wrote(int(nid))
        if f == "raise_after":
            raise RuntimeError("injected")
        return hbody(t, src, dv, int(mem)) if mem is not None else None
    finally:
        with open(root / "exec.log", "a") as fh:
            fh.write(f"F {t}\n")


def _nid(path):
    """Node id of a file written by the harness: f<nid>.txt or pat<i>/g<j>.in."""
    path = Path(path)
    if path.suffix == ".in":
        return 10000 + 100 * int(path.parent.name[3:]) + int(path.stem[1:])
    return int(path.stem[1:])


def pbody(root, t, src, deps, pattern_files, prods, pdir=None, clears=False):
    """Body of a task with provisional nodes: static deps, then the received pattern files
    (sorted by node id); writes static products and, for a producer, (first dep value mod 4)
    files g<j>.in into its pattern directory."""
    root = Path(root)
    try:
        faults = json.loads((root / "faults.json").read_text())
    except Exception:  # noqa: BLE001
        faults = {}
    f = faults.get(str(t))
    with open(root / "exec.log", "a") as fh:
        fh.write(f"S {t}\n")
    try:
        if f == "raise_before":
            raise RuntimeError("injected")
        files = sorted(pattern_files, key=_nid)
        dv = [int(Path(d).read_text()) for d in list(deps) + files]
        targets = dict(prods)
        if pdir is not None:
            pdir = Path(pdir)
            pdir.mkdir(parents=True, exist_ok=True)
            if clears:
                for old in pdir.glob("*.in"):
                    old.unlink()
            n = dv[0] % 4 if dv else 0
            for j in range(n):
                targets[10000 + 100 * t + j] = pdir / f"g{j}.in"
        omit = f["omit"] if isinstance(f, dict) else []
        for nid, path in targets.items():
            if int(nid) in omit:
                continue
            Path(path).write_text(str(hbody(t, src, dv, int(nid))))
        if f == "raise_after":
            raise RuntimeError("injected")
    finally:
        with open(root / "exec.log", "a") as fh:
            fh.write(f"F {t}\n")


def gen_log(root, t, when):
    with open(Path(root) / "exec.log", "a") as fh:
        fh.write(f"{when} {t}\n")


def gen_begin(root, t):
    """Start of a generator body: logs, and fails before creating any task when a fault is injected."""
    root = Path(root)
    try:
        faults = json.loads((root / "faults.json").read_text())
    except Exception:  # noqa: BLE001
        faults = {}
    gen_log(root, t, "S")
    if faults.get(str(t)) == "raise_before":
        gen_log(root, t, "F")
        raise RuntimeError("injected")


def vt_of(code):
    """Value table of hashed Python inputs: code -> list. Codes 2k and 2k+1 give permutations of
    each other ([2k, 2k+1] and [2k+1, 2k]); the first element identifies the code."""
    code = int(code)
    return [code, code + 1] if code % 2 == 0 else [code, code - 1]


def vt(root, nid):
    """The value of hashed input <nid>: the harness keeps its code in f<nid>.txt (read when the task
    module is imported, i.e. at collection)."""
    try:
        return vt_of(int((Path(root) / f"f{nid}.txt").read_text()))
    except Exception:  # noqa: BLE001
        return vt_of(0)


def gen_end(root, t, src, deps, pattern_files, prods):
    """End of a generator body: writes the generator's own products (function of its dependencies and
    the files it received, in id order), then logs."""
    root = Path(root)
    files = sorted(pattern_files, key=_nid)
    dv = [int(Path(d).read_text()) for d in list(deps) + files]
    for nid, path in dict(prods).items():
        Path(path).write_text(str(hbody(t, src, dv, int(nid))))
    gen_log(root, t, "F")
    try:
        faults = json.loads((root / "faults.json").read_text())
    except Exception:  # noqa: BLE001
        faults = {}
    if faults.get(str(t)) == "raise_after":
        raise RuntimeError("injected")
