"""C20: Model/Catalog.v vs _pytask.data_catalog.DataCatalog."""
from __future__ import annotations

import hashlib

from vlib import Raw, coq_eval_cases, coq_term, rng_for, run_impl_worker

IMPORTS = "Base.Prelude Model.Catalog Gen.CatalogFacts"
TRUSTED = ["Coq kernel, vm_compute", "translator extract_facts.py (re function, character class, file-name recipe)",
           "sha256 injective, 64 hex characters; pickle.loads(pickle.dumps(v)) = v", "harness"]
ALPHA = "abzAZ09-_"
ODD = " /.\\\n\t:é中$*~'\"\x00Ω"


def gen_names(rng, n):
    names = ["", "a", "default", "a/../../x", "a b", "a\n", "-", "_", "A-1_b", " a", "a/", "../x", "a.b", "é", "aé", "a" * 300,
             "Data", "data", "DATA", ".", "..", "a\x00", "0", "a\tb", "a/b", "a\\b", "x" * 64 + "/"]
    while len(names) < n:
        k = rng.random()
        if k < 0.5:
            names.append("".join(rng.choice(ALPHA) for _ in range(rng.randint(1, 8))))
        elif k < 0.8:
            s = [rng.choice(ALPHA) for _ in range(rng.randint(1, 6))]
            s.insert(rng.randrange(len(s) + 1), rng.choice(ODD))
            names.append("".join(s))
        else:
            names.append("".join(rng.choice(ALPHA + ODD) for _ in range(rng.randint(1, 5))))
    return names


def valid(n):
    return bool(n) and all(c.isascii() and (c.isalnum() or c in "-_") for c in n)


def run(out, tier, seed, proof):
    rng = rng_for(seed, "c20")
    names = gen_names(rng, 300 if tier == "quick" else 3000)
    # every single character below 0x250 as a one-character name: the class, exhaustively
    singles = [chr(i) for i in range(0x250)]
    impl = run_impl_worker("impl_catalog.py", {"names": names + singles})["names"]
    model = coq_eval_cases("c20_names", IMPORTS, "name_accepted x_name_re_fn", [[ord(c) for c in n] for n in names + singles], shard=300)
    for n, a, m in zip(names + singles, impl, model):
        out.case(["name", n], nontrivial=len(n) > 1)
        out.count("accepted" if a == "ok" else a if a.startswith("error") else "rejected")
        if a.startswith("error"):
            if not m:
                out.disagreement("the validator let a name through that the model rejects (it failed later in the OS)", {"name": n, "impl": a})
                if not valid(n):
                    out.violation("a catalog name outside [A-Za-z0-9_-] is accepted", {"name": n, "impl": a}, finding_matchers=("F13",))
            continue        # accepted by the validator, refused by the file system (length limits): outside the claim
        if (a == "ok") != bool(m):
            out.disagreement("catalog name validation differs from the model", {"name": n, "impl": a, "model": m})
        # direct oracle: the documented alphabet
        if a == "ok" and not valid(n):
            out.violation("a catalog name outside [A-Za-z0-9_-] is accepted", {"name": n}, finding_matchers=("F13",))
        if a != "ok" and valid(n):
            out.violation("a valid catalog name is rejected", {"name": n, "impl": a})
    # entry locations
    cats = ["default", "c-1", "C_2", "c-1x"]
    enames = ["x", "X", "x/y", "../z", "é", "", "a" * 500, "x.pkl", "x-node", " ", "tree", "tree-node", "tree-node-node", "n", "n-node.pkl",
              "caf\u00e9", "cafe\u0301", "\u00c5", "\u212b", "\u2126", "\u03a9", "\ufb01", "fi", "x ", "x\n"]      # canonically equivalent, different strings
    entries = [(c, e) for c in cats for e in enames]
    r = run_impl_worker("impl_catalog.py", {"entries": entries})["entries"]
    seen = {}
    for (c, e), o in zip(entries, r):
        want = f".pytask/data_catalogs/{c}/{hashlib.sha256(e.encode()).hexdigest()}.pkl"
        out.case(["entry", c, e])
        if o["path"] != want:
            out.disagreement("entry file location differs from the model recipe", {"catalog": c, "entry": e, "impl": o["path"], "model": want})
        if o["reopened"] != o["path"]:
            out.violation("re-opening the catalog resolves the entry to another location", {"catalog": c, "entry": e, **o})
        if o["path"] in seen:
            out.violation("two different (catalog, entry) pairs share one file", {"a": seen[o["path"]], "b": (c, e)})
        seen[o["path"]] = (c, e)
        if o.get("occupied"):
            out.violation("the storage location of a new entry is already occupied by a file of another entry (its persisted node)",
                          {"catalog": c, "entry": e, "location": o["path"]})
    # where a catalog lives does not depend on the working directory of the session
    locs = run_impl_worker("impl_catalog.py", {"cwd_locations": True})["cwd_locations"]
    out.case(["cwd_locations", locs], nontrivial=True)
    if len(set(locs.values())) != 1 or any(v.startswith("error") for v in locs.values()):
        out.violation("the same catalog entry resolves to different locations depending on the directory the session is started from",
                      {"location_by_cwd": locs})
    # round trip through real builds (two sessions)
    vals = ["1", "'text'", "None", "[1, (2, 'a'), {'k': b'bytes'}]", "3.5", "{'é': [None, True]}", "frozenset({1, 2})"]
    items = [(rng.randrange(2), f"e{j}", v) for j, v in enumerate(vals)]
    items.append((0, "shared", "'same-name-other-catalog-0'"))
    items.append((1, "shared", "'same-name-other-catalog-1'"))
    swaps = {"1": "True", "3.5": "3.5", "'text'": "'text2'", "None": "0", "[1, (2, 'a'), {'k': b'bytes'}]": "[1.0, (2, 'a'), {'k': b'bytes'}]",
             "{'é': [None, True]}": "{'é': [None, 1]}", "frozenset({1, 2})": "frozenset({1.0, 2})"}
    items2 = [(ci, en, swaps.get(v, v)) for ci, en, v in items]
    rt = run_impl_worker("impl_catalog.py", {"roundtrip": {"catalogs": ["first", "second-2"], "items": items, "items2": items2}}, timeout=600)["roundtrip"]
    out.coverage["roundtrip_runs"] = rt["runs"]
    # (every entry has two consumers, each of which works on the received value in place after writing it down)
    for key in ("outs", "outsd"):
        for j, ((ci, en, v), got) in enumerate(zip(items, rt[key])):
            out.case(["roundtrip", key, ci, en, v])
            want = repr(eval(v))  # noqa: S307
            if got != want:
                out.violation("a consumer did not receive the value returned into the catalog entry", {"item": (ci, en, v), "received": got, "consumer": key, "runs": rt["runs"]})
    for key in ("outs2", "outsd2"):
        for j, ((ci, en, v), got) in enumerate(zip(items2, rt.get(key, []))):
            out.case(["roundtrip2", key, ci, en, v])
            want = repr(eval(v))  # noqa: S307
            if got != want:
                out.violation("after the producer changed its return value a consumer still received the old one",
                              {"item": (ci, en, v), "received": got, "expected": want, "consumer": key, "runs": rt.get("runs2")})
    if len(rt["runs"]) == 2 and rt["runs"][1].get("exit") == 0:
        second = dict(rt["runs"][1]["out"])
        ran = [n for n, o in second.items() if o == "SUCCESS"]
        if ran:
            out.violation("the second session re-executed tasks although nothing changed", {"ran": ran})
    else:
        out.disagreement("round-trip build did not succeed", {"runs": rt["runs"]})
    out.sample({"name": names[3], "accepted": impl[3]})
    out.sample({"entry": entries[2], "location": r[2]})
