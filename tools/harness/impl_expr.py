"""Implementation side of the C16 correspondence: runs _pytask.mark.expression and
the matchers of _pytask.mark on the cases given on stdin (JSON)."""
import itertools
import json
import sys
from multiprocessing import Pool

from _pytask.mark import KeywordMatcher, MarkMatcher
from _pytask.mark.expression import Expression, ParseError

MOD = 2305843009213693951
SEPS = " \t()"


def cand_ids(s):
    runs, cur = [], ""
    for c in s:
        if c in SEPS:
            if cur:
                runs.append(cur)
            cur = ""
        else:
            cur += c
    if cur:
        runs.append(cur)
    out = []
    for r in runs:
        if r not in out:
            out.append(r)
    return out[:4]


def code(s):
    try:
        e = Expression.compile_(s)
    except ParseError:
        return 0
    except BaseException as ex:  # noqa: BLE001
        return -(1 + (hash(type(ex).__name__) % 7)) if False else -1
    ids = cand_ids(s)
    bits = 0
    for k in range(2 ** len(ids)):
        def m(ident, k=k):
            return bool((k >> ids.index(ident)) & 1) if ident in ids else False
        try:
            r = e.evaluate(m)
        except BaseException:  # noqa: BLE001
            return -2
        if r is True:
            bits |= 1 << k
        elif r is not False:
            return -3
    return 2 + bits


def block(args):
    alpha, prefix, n, want_codes = args
    h = 0
    codes = []
    for t in itertools.product(alpha, repeat=n):
        c = code(prefix + "".join(t))
        if want_codes:
            codes.append(c)
        h = (h * 1000003 + c + 1) % MOD
    return codes if want_codes else h


def matcher_case(c):
    kind, names, s = c
    try:
        e = Expression.compile_(s)
    except ParseError:
        return 0
    except BaseException:  # noqa: BLE001
        return -1
    m = KeywordMatcher(set(names)) if kind == "k" else MarkMatcher(set(names))
    try:
        r = e.evaluate(m)
    except BaseException:  # noqa: BLE001
        return -2
    return 3 if r is True else 2 if r is False else -3


def main():
    req = json.load(sys.stdin)
    out = {}
    with Pool(int(req.get("jobs", 16))) as pool:
        if "blocks" in req:
            out["blocks"] = pool.map(block, [(req["alpha"], p, n, w) for p, n, w in req["blocks"]], chunksize=1)
        if "codes" in req:
            out["codes"] = pool.map(code, req["codes"], chunksize=64)
        if "matchers" in req:
            out["matchers"] = pool.map(matcher_case, req["matchers"], chunksize=64)
    json.dump(out, sys.stdout)


if __name__ == "__main__":
    main()
