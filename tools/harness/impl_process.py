"""Implementation side of C15: several pytask.build() calls in ONE process; the state of the
process is measured before the first and after every build. Also the same builds one per
fresh process, for the equivalence of outcomes."""
import gc
import io
import json
import os
import shutil
import subprocess
import sys
import tempfile
import warnings
from pathlib import Path

MODS = {
    "ok": "from pathlib import Path\ndef task_a(produces=Path(__file__).parent / 'a.txt'):\n    produces.write_text('a')\n"
          "def task_b(depends_on=Path(__file__).parent / 'a.txt', produces=Path(__file__).parent / 'b.txt'):\n    produces.write_text(depends_on.read_text())\n",
    "fail": "from pathlib import Path\ndef task_f(produces=Path(__file__).parent / 'f.txt'):\n    print('noise'); raise RuntimeError('x')\n",
    "syntax": "def task_s(:\n    pass\n",
    "cycle": "from pathlib import Path\nP = Path(__file__).parent\ndef task_1(depends_on=P / 'y.txt', produces=P / 'x.txt'):\n    pass\n"
             "def task_2(depends_on=P / 'x.txt', produces=P / 'y.txt'):\n    pass\n",
    "gen": "from pathlib import Path\nfrom pytask import task\n@task(is_generator=True)\ndef task_gen():\n    @task\n    def child(produces=Path(__file__).parent / 'c.txt'):\n        produces.write_text('c')\n",
    "genfail": "from pathlib import Path\nfrom pytask import task\n@task(is_generator=True)\ndef task_gen():\n    @task\n    def child(produces=Path(__file__).parent / 'c.txt'):\n        produces.write_text('c')\n    raise RuntimeError('after registering a task')\n",
    # an ordinary task that declares a @task function while it RUNS: the function lands in the registry of pending task
    # functions after the collection is over
    "inner": "from pathlib import Path\nfrom pytask import task\ndef task_outer(produces=Path(__file__).parent / 'o.txt'):\n    @task\n    def late(produces=Path(__file__).parent / 'late.txt'):\n        produces.write_text('l')\n    produces.write_text('o')\n",
    # a marker that one project registers and another one uses without registering it (strict markers)
    "markreg": "import pytask\nfrom pathlib import Path\n@pytask.mark.nightly\ndef task_n(produces=Path(__file__).parent / 'n.txt'):\n    produces.write_text('n')\n",
    "markuse": "import pytask\nfrom pathlib import Path\n@pytask.mark.nightly\ndef task_u(produces=Path(__file__).parent / 'u.txt'):\n    produces.write_text('u')\n",
    "empty": None,
    "decorated": "from pathlib import Path\nfrom pytask import task\n@task\ndef make(produces=Path(__file__).parent / 'd.txt'):\n    produces.write_text('d')\n",
}


def measure():
    import pdb
    from _pytask.task_utils import COLLECTED_TASKS
    gc.collect()
    st = {}
    for fd in (0, 1, 2):
        try:
            s = os.fstat(fd)
            st[f"fd{fd}"] = [s.st_dev, s.st_ino]
        except OSError:
            st[f"fd{fd}"] = None
    st["py"] = [id(sys.stdin), id(sys.stdout), id(sys.stderr)]
    st["nfds"] = len(os.listdir("/proc/self/fd"))
    st["cwd"] = os.getcwd()
    st["filters"] = [str(f) for f in warnings.filters]
    # the list object and the functions that show a warning: a catch_warnings block that is never left
    # leaves a copy of the list and the recording function behind
    st["warn_hooks"] = [id(warnings.filters), id(warnings.showwarning), id(getattr(warnings, "_showwarnmsg_impl", None))]
    st["breakpointhook"] = id(sys.breakpointhook)
    st["pdb"] = id(pdb.set_trace)
    st["registry"] = sum(len(v) for v in COLLECTED_TASKS.values())
    return st


def one_build(proj, spec):
    import pytask
    kw = dict(spec.get("kwargs", {}))
    if kw.pop("baddb", False):
        from sqlalchemy.engine import make_url
        kw["database_url"] = make_url("sqlite:////nonexistent_dir_for_verif/sub/db.sqlite3")      # cannot be created
    if kw.pop("memdb", False):
        from sqlalchemy.engine import make_url
        kw["database_url"] = make_url("sqlite://")       # in memory: nothing is remembered from build to build
    buf = io.StringIO()
    s = pytask.build(paths=[Path(proj) / spec["kind"]], **kw)
    return {"exit": int(s.exit_code), "ntasks": len([t for t in getattr(s, "tasks", []) if not t.name.split("::")[-1].startswith("child")]),
            "outcomes": sorted((r.task.name.split("::")[-1], r.outcome.name) for r in getattr(s, "execution_reports", []))}


def prepare(proj, kind):
    """One directory and one module name per kind: sources never change between builds."""
    d = Path(proj) / kind
    if not d.exists():
        d.mkdir(parents=True)
        extra = {"markreg": "markers = {nightly = 'runs at night'}\n", "markuse": "strict_markers = true\n"}.get(kind, "")
        (d / "pyproject.toml").write_text("[tool.pytask.ini_options]\n" + extra)
        if MODS[kind] is not None:
            (d / f"task_{kind}.py").write_text(MODS[kind])


def inproc(seq, proj):
    res = []
    before = measure()
    for spec in seq:
        prepare(proj, spec["kind"])
        try:
            r = one_build(proj, spec)
        except BaseException as e:  # noqa: BLE001
            r = {"raised": repr(e)}
        r["state"] = measure()
        res.append(r)
    return {"before": before, "builds": res}


def main():
    if len(sys.argv) > 1 and sys.argv[1] == "--inproc":
        req = json.load(sys.stdin)
        # the real stdout is used for the JSON result: keep the build's own output away from it
        real = os.dup(1)
        dn = os.open(os.devnull, os.O_WRONLY)
        os.dup2(dn, 1)
        sys.stdout = open(1, "w", closefd=False)
        out = inproc(req["seq"], req["proj"])
        os.write(real, json.dumps(out).encode())
        return
    if len(sys.argv) > 1 and sys.argv[1] == "--single":
        req = json.load(sys.stdin)
        real = os.dup(1)
        dn = os.open(os.devnull, os.O_WRONLY)
        os.dup2(dn, 1)
        sys.stdout = open(1, "w", closefd=False)
        prepare(req["proj"], req["spec"]["kind"])
        os.write(real, json.dumps(one_build(req["proj"], req["spec"])).encode())
        return
    cases = json.load(sys.stdin)
    out = []
    for seq in cases:
        base = Path(tempfile.mkdtemp(prefix="verif_c15_"))
        proj = base / "proj"
        try:
            proj.mkdir()
            env = dict(os.environ)
            p = subprocess.run([sys.executable, __file__, "--inproc"], input=json.dumps({"seq": seq, "proj": str(proj)}),
                               capture_output=True, text=True, env=env, stdin=None)
            try:
                a = json.loads(p.stdout)
            except Exception:  # noqa: BLE001
                a = {"error": (p.stdout + p.stderr)[-1500:]}
            shutil.rmtree(proj)
            proj.mkdir()
            fresh = []
            for spec in seq:
                q = subprocess.run([sys.executable, __file__, "--single"], input=json.dumps({"spec": spec, "proj": str(proj)}),
                                   capture_output=True, text=True, env=env)
                try:
                    fresh.append(json.loads(q.stdout))
                except Exception:  # noqa: BLE001
                    fresh.append({"error": (q.stdout + q.stderr)[-800:]})
            out.append({"inproc": a, "fresh": fresh})
        finally:
            shutil.rmtree(base, ignore_errors=True)
    json.dump(out, sys.stdout)


if __name__ == "__main__":
    main()
