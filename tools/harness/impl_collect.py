"""Implementation side of C13: build generated projects, report collected names, exit code and
how often each function ran."""
import json
import shutil
import subprocess
import sys
import tempfile
from pathlib import Path

HEADER = '''from pathlib import Path
from typing import Annotated
from pytask import Product, task
ROOT = Path(__file__).parent
def _log(tag):
    with open(ROOT{up} / "ran.log", "a") as fh:
        fh.write(tag + "\\n")
class Other:
    pass
'''


def render(mod, up):
    """mod: {"prefixed": [names], "decorated": [{fname,name,id,params:[(p, kind, text)]}], }"""
    lines = [HEADER.format(up=".parent" * up)]
    for j, n in enumerate(mod["prefixed"]):
        lines += [f"def {n}():", f"    _log({mod['tag'] + ':p' + str(j)!r})", ""]
    for j, d in enumerate(mod["decorated"]):
        kw = []
        if d["name"] is not None:
            kw.append(f"name={d['name']!r}")
        if d["id"] is not None:
            kw.append(f"id={d['id']!r}")
        params = []
        for p, kind, text in d["params"]:
            val = {"printable": text, "other": "Other()", "missing": None}[kind]
            params.append(p if val is None else f"{p}={val}")
        lines += [f"@task({', '.join(kw)})", f"def {d['fname']}({', '.join(params)}):", f"    _log({mod['tag'] + ':d' + str(j)!r})", ""]
    return "\n".join(lines)


def run(case, base):
    proj = base / "proj"
    if proj.exists():
        shutil.rmtree(proj)
    proj.mkdir()
    (proj / "pyproject.toml").write_text("[tool.pytask.ini_options]\n")
    for rel, mod in case["modules"].items():
        f = proj / rel
        f.parent.mkdir(parents=True, exist_ok=True)
        for init in case.get("inits", []):
            (proj / init).parent.mkdir(parents=True, exist_ok=True)
            (proj / init).write_text("")
        f.write_text(render(mod, len(Path(rel).parts) - 1))
    args = ", ".join(f"Path({str(proj / a)!r})" for a in case["paths"])
    code = ("import json, pytask\nfrom pathlib import Path\n"
            f"s = pytask.build(paths=[{args}], capture='no')\n"
            "print(json.dumps({'exit': int(s.exit_code), 'tasks': [t.name for t in s.tasks], "
            "'sigs': [t.signature for t in s.tasks], 'outcomes': [r.outcome.name for r in getattr(s, 'execution_reports', [])]}))\n")
    p = subprocess.run([sys.executable, "-c", code], capture_output=True, text=True, cwd=proj, env=None)
    try:
        r = json.loads(p.stdout.strip().splitlines()[-1])
    except Exception:  # noqa: BLE001
        r = {"exit": -1, "err": (p.stdout + p.stderr)[-1500:]}
    log = proj / "ran.log"
    r["ran"] = log.read_text().split() if log.exists() else []
    return r


def main():
    cases = json.load(sys.stdin)
    base = Path(tempfile.mkdtemp(prefix="verif_c13_"))
    try:
        out = [run(c, base) for c in cases]
    finally:
        shutil.rmtree(base, ignore_errors=True)
    json.dump(out, sys.stdout)


if __name__ == "__main__":
    main()
