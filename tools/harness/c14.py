"""C14: Model/Capture.v vs real builds under the four capture methods."""
from __future__ import annotations

from concurrent.futures import ThreadPoolExecutor

from vlib import C, JOBS, Raw, coq_eval_cases, rng_for, run_impl_worker

IMPORTS = "Base.Prelude Model.Capture"
TRUSTED = ["Coq kernel, vm_compute", "POSIX descriptor inheritance, Python stream buffering and UTF-8 decoding (the model has no buffering; "
           "payloads are flushed between levels except in fd mode, where order must hold without flushing)", "rich's own terminal output is ignored (payloads carry unique tags)", "harness"]
PAYLOADS = ["hello", "line\n", "no-newline", "", "crlf\r\n", "tab\tsep", "ünïcödé ✓\n", "中文", "a\n\nb\n", " ", "\r", "x" * 300 + "\n",
            "[info] done [/info]\n", "[#tag] @[x] [/]\n", "[bold red]alert[/bold red]", "tail\\", "a\\[b]\n"]
METHODS = {"fd": "MFd", "sys": "MSys", "tee-sys": "MTee", "no": "MNo"}


def gen_case(rng, idx):
    n = rng.randint(1, 5)
    tag = [0]
    tasks = []
    for i in range(n):
        writes = []
        for _ in range(rng.randint(0, 6)):
            tag[0] += 1
            text = rng.choice(PAYLOADS)
            if text:
                text = f"<{idx}.{tag[0]}>" + text
            writes.append((rng.choice(["out", "err"]), rng.choice(["py", "py", "fd", "child"]), text, rng.random() < 0.5))
        tasks.append({"writes": writes, "fail": False})
    if n > 1 and rng.random() < 0.3:
        # an earlier task returns with sys.stdout/sys.stderr set back to the interpreter's original objects
        tasks[rng.randrange(n - 1)]["restore"] = True
    if rng.random() < 0.5:
        # the tasks form a chain (to fix their order), so only the last one may fail
        tasks[-1]["fail"] = rng.random() < 0.4
        return {"method": rng.choice(list(METHODS)), "tasks": tasks, "chain": True}
    # independent tasks: any of them may fail; the model takes the order in which they were reported
    for t in tasks:
        t["fail"] = rng.random() < 0.35
    return {"method": rng.choice(list(METHODS)), "tasks": tasks, "chain": False}


def to_coq(case, order=None):
    tks = []
    for i in (order if order is not None else range(len(case["tasks"]))):
        t = case["tasks"][i]
        ws = [C("mkW", Raw("SOut" if s == "out" else "SErr"), Raw({"py": "LPy", "fd": "LFd", "child": "LChild"}[l]), [ord(c) for c in x])
              for s, l, x, _ in t["writes"]]
        tks.append(C("mkT", i, [], ws, [], []))
    return (Raw(METHODS[case["method"]]), tks)


def exec_order(case, r):
    if case.get("chain", True) or r["result"] is None:
        return None
    seen = [int(rep["task"].split("_")[-1]) for rep in r["result"]["reports"]]
    return seen + [i for i in range(len(case["tasks"])) if i not in seen]


def short(x):
    return x if len(x) < 400 else x[:60] + f"...[{len(x)} characters]"


def first_diff(a, b):
    for k, (x, y) in enumerate(zip(a, b)):
        if x != y:
            return {"index": k, "expected": a[max(0, k - 3):k + 4], "got": b[max(0, k - 3):k + 4]}
    return {"index": min(len(a), len(b)), "lengths": [len(a), len(b)]}


def oracle(out, c, r, got, shown=None):
    """direct oracle on tagged payloads"""
    cs = shown or c
    for i, t in enumerate(c["tasks"]):
        for s, l, text, _ in t["writes"]:
            if not text:
                continue
            tagged = text.split(">")[0] + ">"
            stream = "stdout" if s == "out" else "stderr"
            captured = c["method"] == "fd" or (c["method"] in ("sys", "tee-sys") and l == "py")
            own = got.get((f"task_{i}", "call", stream), "")
            others = [v for k, v in got.items() if k != (f"task_{i}", "call", stream)]
            term = r["stdout"] if s == "out" else r["stderr"]
            if captured:
                expect = "".join(x for s2, l2, x, _ in t["writes"]
                                 if s2 == s and (c["method"] == "fd" or (c["method"] in ("sys", "tee-sys") and l2 == "py")))
                if own != expect and text in own:
                    out.violation("a task's report section does not hold its output in order and unmodified",
                                  {"case": cs, "task": i, "stream": stream, "section": short(own), "expected": short(expect), "first_difference": first_diff(expect, own)})
            if captured and text not in own:
                out.violation("output of a task is missing from (or altered in) its own report section", {"case": cs, "task": i, "payload": short(text), "section": short(own), "first_difference": first_diff(text, own[own.find(tagged):] if tagged in own else own)})
            if any(tagged in v for v in others):
                out.violation("output of a task appears in another section", {"case": cs, "task": i, "payload": short(text)})
            if not captured and tagged in own:
                out.violation("uncaptured output appears in a report section", {"case": cs, "task": i, "payload": short(text)})
            passes = (not captured) or c["method"] == "tee-sys"
            if passes and tagged not in term:
                out.violation("output that is not captured (or is tee'd) did not reach the real stream", {"case": cs, "task": i, "payload": short(text)})
            if captured and c["method"] != "tee-sys" and tagged in term and not t["fail"]:
                out.violation("captured output of a succeeding task leaked to the real stream", {"case": cs, "task": i, "payload": short(text)})


def run(out, tier, seed, proof):
    rng = rng_for(seed, "c14")
    n = 40 if tier == "quick" else 500
    cases = [gen_case(rng, i) for i in range(n)]
    chunks = [cases[i::JOBS] for i in range(JOBS)]
    with ThreadPoolExecutor(max_workers=JOBS) as ex:
        res = [r for rr in ex.map(lambda ch: run_impl_worker("impl_capture.py", ch, timeout=3000) if ch else [], chunks) for r in rr]
    flat = [c for ch in chunks for c in ch]
    model = coq_eval_cases("c14", IMPORTS,
                           "fun c => match c with (m, tks) => let r := run_ttasks m tks init_c in (fst r, term_out (snd r), term_err (snd r)) end",
                           [to_coq(c, exec_order(c, r)) for c, r in zip(flat, res)], shard=20)
    for c, r, m in zip(flat, res, model):
        out.case(c, nontrivial=any(t["writes"] for t in c["tasks"]))
        out.count("method_" + c["method"])
        if r["result"] is None:
            out.disagreement("build did not return", {"case": c, "stderr": r["stderr"][-800:]})
            continue
        secs, tout, terr = m
        want = {}
        for t, ph, s, text in secs:
            want[(f"task_{t}", "call", "stdout" if s == "SOut" else "stderr")] = "".join(chr(x) for x in text)
        got = {}
        for rep in r["result"]["reports"]:
            for when, stream, text in rep["sections"]:
                got[(rep["task"], when, stream)] = got.get((rep["task"], when, stream), "") + text
        if got != want:
            out.disagreement("report sections differ from the model", {"case": c, "impl": {str(k): v for k, v in got.items()}, "model": {str(k): v for k, v in want.items()}})
        oracle(out, c, r, got)
    # ---- large outputs full of multi-byte characters (oracle only: too large for a Coq literal): nothing may be
    # altered where a read buffer ends
    big = []
    for j in range(3 if tier == "quick" else 12):
        unit = rng.choice(["\u00e9\u4e2d", "\u4e2d", "\u00fc\u2713x", "\U0001f600\u00e9"])
        tasks = []
        for i in range(2):
            text = f"<B{j}.{i}>" + unit * (rng.randint(70000, 140000) // len(unit.encode())) * 2 + "\n"
            tasks.append({"writes": [(rng.choice(["out", "err"]), rng.choice(["py", "fd"]), text, False)], "fail": False})
        big.append({"method": rng.choice(["fd", "fd", "sys"]), "tasks": tasks, "chain": True})
    bres = run_impl_worker("impl_capture.py", big, timeout=3000)
    for c, r in zip(big, bres):
        out.case({"method": c["method"], "big": [(w[0][0], w[0][1], len(w[0][2])) for w in (t["writes"] for t in c["tasks"])]}, nontrivial=True)
        out.count("big_outputs")
        if r["result"] is None:
            out.disagreement("build did not return", {"case": "big", "stderr": r["stderr"][-800:]})
            continue
        got = {}
        for rep in r["result"]["reports"]:
            for when, stream, text in rep["sections"]:
                got[(rep["task"], when, stream)] = got.get((rep["task"], when, stream), "") + text
        small = dict(c, tasks=[dict(t, writes=[(s_, l_, x[:12] + "...", f_) for s_, l_, x, f_ in t["writes"]]) for t in c["tasks"]])
        oracle(out, c, r, got, shown=small)
    out.coverage["programs"] = len(flat)
    out.sample({"case": flat[0], "sections": res[0]["result"]})
