"""Drives the real TopologicalSorter with the scripts given on stdin and records
what it returned (JSON out). Node ids are integers; names are strings so that set
order depends on PYTHONHASHSEED."""
import json
import random
import sys

import networkx as nx

from _pytask.dag_utils import TopologicalSorter
from _pytask.mark import Mark
from _pytask.nodes import TaskWithoutPath


def mk_dag(tasks, edges, prios, cache):
    dag = nx.DiGraph()
    for t in tasks:
        if t not in cache:
            marks = {1: [Mark("try_first", (), {})], -1: [Mark("try_last", (), {})]}.get(prios.get(str(t), 0), [])
            cache[t] = TaskWithoutPath(name=f"t{t}", function=lambda: None, markers=list(marks))
        dag.add_node(cache[t].signature, task=cache[t])
    sig = {t: cache[t].signature for t in tasks}
    for u, v in edges:
        a = sig.get(u, f"n{u}")
        b = sig.get(v, f"n{v}")
        if u not in sig:
            dag.add_node(a, node=None)
        if v not in sig:
            dag.add_node(b, node=None)
        dag.add_edge(a, b)
    return dag, sig


def run_case(case):
    rng = random.Random(case["drv_seed"])
    cache = {}
    tasks, edges, prios = case["tasks"], case["edges"], case["prios"]
    dag, sig = mk_dag(tasks, edges, prios, cache)
    inv = {v: k for k, v in sig.items()}
    try:
        s = TopologicalSorter.from_dag(dag)
    except ValueError:
        return {"cycle": True}
    closure = sorted((inv[a], inv[b]) for a, b in s.dag.edges)
    trace = []
    processing = []
    grow = list(case.get("grow", []))
    for _ in range(case["steps"]):
        if not s.is_active() and not grow:
            break
        k = rng.random()
        if grow and k < 0.12:
            g = grow.pop(0)
            tasks, edges, prios = g["tasks"], g["edges"], g["prios"]
            dag, sig = mk_dag(tasks, edges, prios, cache)
            inv = {v: kk for kk, v in sig.items()}
            try:
                s = TopologicalSorter.from_dag_and_sorter(dag, s)
            except ValueError:
                trace.append(["rebuild_cycle", tasks, edges, prios])
                break
            trace.append(["rebuild", tasks, edges, prios, s.is_active()])
        elif processing and (k < 0.5 or len(processing) >= case["max_par"]):
            m = rng.randint(1, len(processing))
            ds = rng.sample(processing, m)
            for d in ds:
                processing.remove(d)
            s.done(*[sig[d] for d in ds])
            trace.append(["done", ds, s.is_active()])
        else:
            n = rng.choice(case["batch_sizes"])
            b = [inv[x] for x in s.get_ready(n)]
            processing.extend(b)
            trace.append(["get", n, b, s.is_active()])
    return {"cycle": False, "closure": closure, "trace": trace}


def main():
    cases = json.load(sys.stdin)
    out = []
    for c in cases:
        try:
            out.append(run_case(c))
        except Exception as e:  # noqa: BLE001
            out.append({"error": repr(e)})
    json.dump(out, sys.stdout)


if __name__ == "__main__":
    main()
