"""C13: Model/Collect.v vs real collection of generated task-declaration programs."""
from __future__ import annotations

import itertools
from concurrent.futures import ThreadPoolExecutor

from vlib import C, JOBS, Raw, Some, coq_eval_cases, rng_for, run_impl_worker

IMPORTS = "Base.Prelude Model.Clean Model.Collect Model.CollectRun"
TRUSTED = ["Coq kernel, vm_compute", "Python's import machinery and inspect.getmembers (module attribute names are unique, sorted)",
           "set iteration order is arbitrary: the model result must match for SOME order of the preliminary names", "harness"]
FN = ["task_a", "task_b", "foo", "task_foo", "bar"]
PRINT = [("1", "1"), ("2", "2"), ("True", "True"), ("1.5", "1.5"), ("'x'", "x"), ("'y'", "y"), ("0", "0")]


def gen_module(rng, tag):
    prefixed = sorted(set(rng.sample(["task_a", "task_b", "task_foo", "task_c"], rng.randint(0, 2))))
    dec = []
    for _ in range(rng.randint(0, 5)):
        fname = rng.choice(FN)
        name = rng.choice([None, None, None, "foo", "foo[0]", "task_a", "task_b[1]", "bar[x0]"])
        id_ = rng.choice([None, None, None, "0", "1", "x"])
        nparams = rng.choice([0, 0, 1, 2])
        params = []
        for k in range(nparams):
            pname = ["x", "y"][k]
            kind = rng.choice(["printable", "printable", "other"])
            src, txt = rng.choice(PRINT)
            params.append((pname, kind, src if kind == "printable" else "", txt if kind == "printable" else ""))
        dec.append({"fname": fname, "name": name, "id": id_, "params": [(p, k, s) for p, k, s, _ in params], "_txt": [t for _, _, _, t in params]})
    # loops: the same function name several times with differing arguments
    if rng.random() < 0.6:
        fname = rng.choice(FN)
        n = rng.randint(2, 4)
        kinds = rng.choice(["printable", "printable", "other", "none"])
        for i in range(n):
            if kinds == "none":
                ps, tx = [], []
            elif kinds == "other":
                ps, tx = [("x", "other", "")], [""]
            else:
                src, txt = rng.choice(PRINT) if rng.random() < 0.3 else (str(i), str(i))
                ps, tx = [("x", "printable", src)], [txt]
            # explicit ids: the own position, the position of a LATER or EARLIER repetition, one shared id
            dec.append({"fname": fname, "name": None, "id": rng.choice([None, None, None, str(i), "same", str(i + 1), str(n - 1), "0"]),
                        "params": ps, "_txt": tx})
    # loops over two arguments whose printed forms contain the separator of the id: different argument tuples,
    # one id (x-y, z) / (x, y-z); an explicit id that equals what other arguments generate
    if rng.random() < 0.35:
        fname = rng.choice(FN)
        pool = [("'x-y'", "x-y"), ("'z'", "z"), ("'x'", "x"), ("'y-z'", "y-z"), ("2020", "2020"), ("'01'", "01"), ("'2020-01'", "2020-01")]
        combos = rng.choice([[(0, 1), (2, 3)], [(0, 1), (2, 3), (2, 1)], [(4, 5), (4, 1)], [(0, 1), (0, 1)], [(2, 1), (2, 3)]])
        for a, b in combos:
            dec.append({"fname": fname, "name": None, "id": None,
                        "params": [("x", "printable", pool[a][0]), ("y", "printable", pool[b][0])], "_txt": [pool[a][1], pool[b][1]]})
        if rng.random() < 0.4:
            dec.append({"fname": fname, "name": None, "id": rng.choice(["2020-01", "x-y-z", "x-z"]),
                        "params": [("x", "printable", "'q'"), ("y", "printable", "'r'")], "_txt": ["q", "r"]})
    return {"prefixed": prefixed, "decorated": dec, "tag": tag}


def to_coq(mod):
    ds = []
    for d in mod["decorated"]:
        params = [[ord(c) for c in p] for p, _, _ in d["params"]]
        kwargs = []
        for (p, kind, _), txt in zip(d["params"], d["_txt"]):
            kwargs.append(([ord(c) for c in p], C("APrintable", [ord(c) for c in txt]) if kind == "printable" else Raw("AOther")))
        ds.append(C("mkD", [ord(c) for c in d["fname"]],
                    Some([ord(c) for c in d["name"]]) if d["name"] is not None else Raw("None"),
                    Some([ord(c) for c in d["id"]]) if d["id"] is not None else Raw("None"), params, kwargs))
    return ds


def prelim_names(mod):
    out = []
    for d in mod["decorated"]:
        n = d["name"] if d["name"] is not None else d["fname"]
        if n not in out:
            out.append(n)
    return out


def gen_layout(rng):
    """Task files below directories whose names derive equal module names, and packages."""
    dirs = rng.sample(["a.b", "a_b", "a.b/c", "a_b/c", "x", "r1/pkg", "r2/pkg", "r1/pkg/sub", "r2/pkg/sub", "v.1/w", "v_1/w"], rng.randint(2, 5))
    inits = set()
    for d in dirs:
        parts = d.split("/")
        if "pkg" in parts and rng.random() < 0.8:
            for k in range(parts.index("pkg") + 1, len(parts) + 1):
                inits.add("/".join(parts[:k]))
    mods = {}
    for i, d in enumerate(dirs):
        for fn in rng.sample(["task_m.py", "task_n.py"], rng.randint(1, 2)):
            mods[f"{d}/{fn}"] = {"prefixed": ["task_f"], "decorated": [], "tag": f"L{len(mods)}"}
    paths = ["."]
    if rng.random() < 0.4:
        # several path arguments; directories whose names are string prefixes of one another are siblings, not ancestors
        extra = rng.sample(["src", "src_extra", "src/inner", "srcx", "x_more"], rng.randint(2, 4))
        for d in extra:
            for fn in rng.sample(["task_m.py", "task_n.py"], rng.randint(1, 2)):
                mods[f"{d}/{fn}"] = {"prefixed": ["task_f"], "decorated": [], "tag": f"L{len(mods)}"}
        cand = sorted({d for d in list(dirs) + extra} | {m for m in mods if rng.random() < 0.2})
        paths = rng.sample(cand, rng.randint(1, min(4, len(cand))))
        if rng.random() < 0.3:
            paths.append(rng.choice(paths))
    return {"modules": mods, "inits": [f"{d}/__init__.py" for d in sorted(inits)], "paths": paths, "pkgs": sorted(inits)}


def comps(rel):
    parts = rel.split("/")
    parts[-1] = parts[-1][:-3] if parts[-1].endswith(".py") else parts[-1]
    return [[ord(c) for c in x] for x in parts]


def run_layouts(out, rng, n):
    cases = [gen_layout(rng) for _ in range(n)]
    # the F9 witness first
    cases.insert(0, {"modules": {"a.b/task_m.py": {"prefixed": ["task_f"], "decorated": [], "tag": "L0"},
                                 "a_b/task_m.py": {"prefixed": ["task_f"], "decorated": [], "tag": "L1"}}, "inits": [], "paths": ["."], "pkgs": []})
    cases.insert(1, {"modules": {"r1/pkg/task_m.py": {"prefixed": ["task_f"], "decorated": [], "tag": "L0"},
                                 "r2/pkg/task_m.py": {"prefixed": ["task_f"], "decorated": [], "tag": "L1"}},
                     "inits": ["r1/pkg/__init__.py", "r2/pkg/__init__.py"], "paths": ["."], "pkgs": ["r1/pkg", "r2/pkg"]})
    # sibling directories whose names are string prefixes of one another, as path arguments
    def sib(paths):
        mods = {f"{d}/{fn}": {"prefixed": ["task_f"], "decorated": [], "tag": f"L{i}"}
                for i, (d, fn) in enumerate([("src", "task_m.py"), ("src_extra", "task_m.py"), ("src_extra", "task_n.py"), ("srcx", "task_m.py"), ("src/inner", "task_n.py")])}
        return {"modules": mods, "inits": [], "paths": paths, "pkgs": []}
    cases[2:2] = [sib(["src", "src_extra"]), sib(["src_extra", "src"]), sib(["src", "src_extra/task_n.py"]), sib(["srcx", "src", "src/inner"]), sib(["src/inner", "src", "src"]),
                  sib(["src", "src/task_m.py"]), sib(["src/task_m.py", "src", "src/task_m.py"])]
    chunks = [cases[i::JOBS] for i in range(JOBS)]
    with ThreadPoolExecutor(max_workers=JOBS) as ex:
        res = list(ex.map(lambda ch: run_impl_worker("impl_collect.py", ch, timeout=3000) if ch else [], chunks))
    flat_cases = [c for ch in chunks for c in ch]
    flat_res = [r for rr in res for r in rr]
    terms = []
    def under(c):
        """the task files below (or equal to) one of the path arguments - by path components"""
        sel = []
        for m in sorted(c["modules"]):
            mp = m.split("/")
            for a in c["paths"]:
                ap = [] if a == "." else a.split("/")
                if mp[:len(ap)] == ap:
                    sel.append(m); break
        return sel
    for c in flat_cases:
        paths = under(c)
        terms.append(([comps(d) for d in c["pkgs"]], [comps(p) for p in paths]))
    model = coq_eval_cases("c13lay", IMPORTS, "fun c => match c with (pk, ps) => import_all (fun d => existsb (eqbP d) pk) [] ps end", terms, shard=100)
    for c, r, m in zip(flat_cases, flat_res, model):
        paths = under(c)
        out.case({"layout": paths, "inits": c["inits"], "path_arguments": c["paths"]}, nontrivial=True)
        out.count("layouts")
        if r.get("exit") == -1:
            out.disagreement("build did not return", {"case": c, "result": r}); continue
        key = {tuple(map(tuple, comps(p))): p for p in paths}
        want = []
        for pth, f in m:
            want.append(c["modules"][key[tuple(map(tuple, f))]]["tag"] + ":p0")
        if sorted(want) != sorted(r["ran"]) or r["exit"] != 0:
            out.disagreement("functions executed differ from the modules the model imports", {"case": c, "impl_ran": sorted(r["ran"]), "model": sorted(want), "exit": r["exit"]})
        tags = sorted(c["modules"][p]["tag"] + ":p0" for p in paths)
        if sorted(r["ran"]) != tags or len(r["tasks"]) != len(paths) or len(set(r["sigs"])) != len(r["sigs"]):
            out.violation("task files and collected tasks do not correspond one to one (a module was imported for another file)",
                          {"layout": sorted(c["modules"]), "path_arguments": c["paths"], "inits": c["inits"], "tasks": r["tasks"], "ran": sorted(r["ran"]), "expected": tags})


def run(out, tier, seed, proof):
    rng = rng_for(seed, "c13")
    n = 60 if tier == "quick" else 800
    cases = []
    while len(cases) < n:
        mod = gen_module(rng, "m0")
        if len(prelim_names(mod)) > 4:
            continue
        # a decorated function whose __name__ starts with task_ is not collected twice; prefixed names that are
        # also used as a decorated fname would be shadowed at module level: keep them apart
        dec_fnames = {d["fname"] for d in mod["decorated"]}
        mod["prefixed"] = [p for p in mod["prefixed"] if p not in dec_fnames]
        cases.append({"modules": {"task_mod.py": mod}, "paths": rng.choice([["."], [".", "."], ["task_mod.py", "."]])})
    # corpus: the two refutation witnesses and layouts with equal module names
    cases.append({"modules": {"task_mod.py": {"prefixed": [], "tag": "m0", "decorated": [
        {"fname": "foo", "name": "foo[0]", "id": None, "params": [], "_txt": []},
        {"fname": "foo", "name": None, "id": None, "params": [], "_txt": []},
        {"fname": "foo", "name": None, "id": None, "params": [], "_txt": []}]}}, "paths": ["."]})
    cases.append({"modules": {"task_mod.py": {"prefixed": ["task_x"], "tag": "m0", "decorated": [
        {"fname": "f", "name": "task_x", "id": None, "params": [], "_txt": []}]}}, "paths": ["."]})
    # repetitions without parameters: an explicit id that equals the position-based id of a later (or earlier) one
    for ids in (["1", None, None], [None, None, "0"], [None, "2", None], ["2", "1", None]):
        cases.append({"modules": {"task_mod.py": {"prefixed": [], "tag": "m0", "decorated": [
            {"fname": "foo", "name": None, "id": i_, "params": [], "_txt": []} for i_ in ids]}}, "paths": ["."]})
    # a task file reached twice: through its directory and given explicitly, or given twice
    for pths in ([".", "task_mod.py"], ["task_mod.py", "."], ["task_mod.py", "task_mod.py"]):
        cases.append({"modules": {"task_mod.py": {"prefixed": ["task_a", "task_b"], "tag": "m0", "decorated": [
            {"fname": "foo", "name": None, "id": None, "params": [], "_txt": []}]}}, "paths": pths})
    chunks = [cases[i::JOBS] for i in range(JOBS)]
    with ThreadPoolExecutor(max_workers=JOBS) as ex:
        res = list(ex.map(lambda ch: run_impl_worker("impl_collect.py", ch, timeout=3000) if ch else [], chunks))
    flat_cases = [c for ch in chunks for c in ch]
    flat_res = [r for rr in res for r in rr]
    terms, owner = [], []
    for ci, c in enumerate(flat_cases):
        mod = c["modules"]["task_mod.py"]
        names = prelim_names(mod)
        for perm in itertools.permutations(names):
            terms.append(([[ord(ch) for ch in p] for p in mod["prefixed"]], to_coq(mod), [[ord(ch) for ch in x] for x in perm]))
            owner.append(ci)
    model = coq_eval_cases("c13", IMPORTS, "fun c => match c with (pre, ds, ord) => run_module pre ds ord end", terms, shard=150)
    allowed = {}
    for ci, m in zip(owner, model):
        key = None if m == "None" else tuple(sorted("".join(chr(x) for x in nm) for nm in m[1]))
        allowed.setdefault(ci, set()).add(key)
    for ci, (c, r) in enumerate(zip(flat_cases, flat_res)):
        mod = c["modules"]["task_mod.py"]
        nfun = len(mod["prefixed"]) + len(mod["decorated"])
        out.case({"prefixed": mod["prefixed"], "decorated": [{k: d[k] for k in ("fname", "name", "id", "params")} for d in mod["decorated"]], "paths": c["paths"]},
                 nontrivial=len(mod["decorated"]) > 1)
        if r.get("exit") == -1:
            out.disagreement("build did not return", {"case": c, "result": r})
            continue
        got = None if r["exit"] == 3 else tuple(sorted(t.split("::")[-1] for t in r["tasks"]))
        out.count("collection_failed" if got is None else "collected")
        if got not in allowed[ci]:
            out.disagreement("collected task names differ from the model (for every order of the name set)",
                             {"case": c, "impl": got, "model": [list(a) if a else None for a in allowed[ci]]})
        # ---- direct oracle: one task per qualifying function, distinct ids, or exit code 3
        if r["exit"] != 3:
            names = [t for t in r["tasks"]]
            dup = len(set(names)) != len(names) or len(set(r["sigs"])) != len(r["sigs"])
            lost = len(names) != nfun
            ran = r["ran"]
            twice = [t for t in set(ran) if ran.count(t) > 1]
            never = r["exit"] == 0 and len(set(ran)) != nfun
            if dup or lost or twice or never:
                fid = ()       # F7 and F8 are repaired: any loss or doubling is reported
                out.violation("functions and collected tasks do not correspond one to one although collection succeeded",
                              {"case": c, "tasks": names, "functions": nfun, "ran": ran}, finding_matchers=fid)
    run_layouts(out, rng, 12 if tier == "quick" else 150)
    out.coverage["programs"] = len(flat_cases)
    out.sample({"case": flat_cases[0], "result": {k: flat_res[0].get(k) for k in ("exit", "tasks", "ran")}})
