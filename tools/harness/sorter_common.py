"""Scheduler correspondence shared by C19 and C01: random bipartite DAGs, random
drivers, real TopologicalSorter traces validated by the Coq model, plus a direct
oracle on the traces."""
from __future__ import annotations

import itertools

import networkx as nx

from vlib import C, Nat, Zi, coq_eval_cases, rng_for, run_impl_worker, JOBS
from concurrent.futures import ThreadPoolExecutor

IMPORTS = "Base.Prelude Base.Graph Model.Sorter Model.SorterRun"


def gen_dag(rng, ntasks, cyc=False):
    """tasks 1..ntasks; nodes 101..; edges task->node (product), node->task (dependency)."""
    tasks = list(range(1, ntasks + 1))
    rng.shuffle(tasks)
    edges, nid = [], 100
    produced = []
    nsrc = rng.randint(0, 3)
    src = []
    for _ in range(nsrc):
        nid += 1
        src.append(nid)
    dens = rng.choice([0.15, 0.3, 0.5, 0.8])
    for t in tasks:
        for n in produced:
            if rng.random() < dens / max(1, len(produced)) * 2.5:
                edges.append((n, t))
        for n in src:
            if rng.random() < 0.3:
                edges.append((n, t))
        for _ in range(rng.choice([0, 1, 1, 2])):
            nid += 1
            edges.append((t, nid))
            produced.append(nid)
    if cyc and produced:
        # close a cycle: a late product feeds an early task
        n = rng.choice(produced)
        prod = next(u for u, v in edges if v == n)
        anc = [t for t in tasks[: tasks.index(prod) + 1]]
        edges.append((n, rng.choice(anc)))
    prios = {str(t): rng.choice([0, 0, 1, -1]) for t in tasks if rng.random() < 0.6}
    return sorted(tasks), sorted(set(edges)), prios


def grow_dag(rng, tasks, edges, prios):
    tasks, edges, prios = list(tasks), list(edges), dict(prios)
    new = list(range(max(tasks) + 1, max(tasks) + 1 + rng.randint(1, 3)))
    nid = max([100] + [x for e in edges for x in e if x > 100])
    nodes = sorted({x for e in edges for x in e if x > 100})
    for t in new:
        for n in nodes:
            if rng.random() < 0.25:
                edges.append((n, t))
        if rng.random() < 0.6:
            nid += 1
            edges.append((t, nid))
            nodes.append(nid)
        prios[str(t)] = rng.choice([0, 1, -1])
    return sorted(tasks + new), sorted(set(edges)), prios


def gen_cases(rng, n, max_tasks, exhaustive_prios=False):
    cases = []
    for i in range(n):
        nt = rng.randint(1, max_tasks)
        tasks, edges, prios = gen_dag(rng, nt, cyc=(rng.random() < 0.06))
        c = {"tasks": tasks, "edges": edges, "prios": prios, "drv_seed": rng.randrange(1 << 30),
             "steps": 4 * nt + 6, "max_par": rng.choice([1, 1, 2, 3, 5]),
             "batch_sizes": rng.choice([[1], [1], [1, 2], [2, 3, 4], [1, 10000]]), "grow": []}
        if rng.random() < 0.35:
            g = (tasks, edges, prios)
            for _ in range(rng.randint(1, 2)):
                g = grow_dag(rng, *g)
                c["grow"].append({"tasks": g[0], "edges": g[1], "prios": g[2]})
        cases.append(c)
    return cases


def prio_term(prios):
    return [(int(k), Zi(v)) for k, v in sorted(prios.items(), key=lambda kv: int(kv[0]))]


def to_coq(case, res):
    ops = []
    for o in res["trace"]:
        if o[0] == "get":
            ops.append(C("IGet", Nat(o[1]), o[2], o[3]))
        elif o[0] == "done":
            ops.append(C("IDone", o[1], o[2]))
        elif o[0] == "rebuild":
            ops.append(C("IRebuild", o[1], [tuple(e) for e in o[2]], prio_term(o[3]), o[4]))
        elif o[0] == "rebuild_cycle":
            ops.append(C("IRebuild", o[1], [tuple(e) for e in o[2]], prio_term(o[3]), False))
    return (case["tasks"], [tuple(e) for e in case["edges"]], prio_term(case["prios"]), ops)


def oracle(case, res):
    """Direct statement of C19/C01 on one implementation trace; returns a list of problems."""
    probs = []
    tasks, edges, prios = case["tasks"], case["edges"], case["prios"]
    done, processing, handed = set(), set(), []

    def anc(tasks, edges, t):
        g = nx.DiGraph(); g.add_nodes_from(tasks); g.add_edges_from(edges)
        return {a for a in nx.ancestors(g, t) if a in set(tasks)}

    for o in res["trace"]:
        if o[0] == "get":
            n, b = o[1], o[2]
            remaining = [t for t in tasks if t not in done]
            ready = [t for t in remaining if t not in processing and not (anc(tasks, edges, t) - done)]
            pr = lambda t: prios.get(str(t), 0)
            for t in b:
                if t in handed:
                    probs.append(("C01", f"task {t} handed out twice"))
                if t not in ready:
                    probs.append(("C01", f"task {t} handed out while an ancestor is unfinished or it is processing/done"))
            if len(set(b)) != len(b):
                probs.append(("C01", f"duplicate in batch {b}"))
            if len(b) != min(n, len(ready)):
                probs.append(("C19", f"batch size {len(b)} != min({n}, {len(ready)})"))
            for x in ready:
                if x not in b and any(pr(x) > pr(y) for y in b):
                    probs.append(("C19", f"ready task {x} (priority {pr(x)}) left behind while a lower-priority task was handed out in {b}"))
            if [pr(t) for t in b] != sorted(pr(t) for t in b):
                probs.append(("C19", f"batch {b} not ordered by priority"))
            handed.extend(b); processing.update(b)
        elif o[0] == "done":
            done.update(o[1]); processing.difference_update(o[1])
        elif o[0] == "rebuild":
            tasks, edges, prios = o[1], [tuple(e) for e in o[2]], o[3]
    return probs


def run_sorter(out, tier, seed, prop, ncases, seeds):
    rng = rng_for(seed, "sorter")
    cases = gen_cases(rng, ncases, 12 if tier == "thorough" else 9)
    # small exhaustive family: every priority assignment on a few fixed shapes
    shapes = [([1, 2, 3], []), ([1, 2, 3], [(1, 101), (101, 2)]), ([1, 2, 3, 4], [(1, 101), (101, 2), (101, 3)]),
              ([1, 2, 3, 4], [(1, 101), (101, 4), (2, 102), (102, 4)])]
    for tasks, edges in shapes:
        for ps in itertools.product([0, 1, -1], repeat=len(tasks)):
            for bs in ([1], [2], [10000]):
                cases.append({"tasks": tasks, "edges": edges, "prios": {str(t): p for t, p in zip(tasks, ps) if p},
                              "drv_seed": 7, "steps": 12, "max_par": 3, "batch_sizes": bs, "grow": []})
    out.coverage["sorter_cases"] = len(cases)
    out.coverage["hash_seeds"] = list(seeds)
    with ThreadPoolExecutor(max_workers=JOBS) as ex:
        results = list(ex.map(lambda hs: run_impl_worker("impl_sorter.py", cases, hashseed=hs), seeds))
    coq_cases, index = [], []
    for hs, res in zip(seeds, results):
        for ci, (c, r) in enumerate(zip(cases, res)):
            if "error" in r:
                out.disagreement("sorter driver raised", {"case": c, "error": r["error"], "hashseed": hs})
                continue
            if r.get("cycle"):
                coq_cases.append((c["tasks"], [tuple(e) for e in c["edges"]], prio_term(c["prios"]), []))
            else:
                coq_cases.append(to_coq(c, r))
            index.append((hs, ci))
            for p, what in oracle(c, r) if not r.get("cycle") else []:
                w = {"case": c, "hashseed": hs, "trace": r["trace"], "problem": what}
                if p == prop or (prop == "C19" and p == "C01" and False):
                    out.violation(what, w)
                else:
                    out.count(f"oracle_hit_for_{p}")
                    if prop == "C01" or p == prop:
                        out.violation(what, w)
    model = coq_eval_cases(f"{prop}_sorter", IMPORTS,
                           "fun c => match c with (t, e, p, ops) => run_sorter_case t e p ops end", coq_cases, shard=120)
    nval = 0
    for (hs, ci), cc, m in zip(index, coq_cases, model):
        c, r = cases[ci], results[seeds.index(hs)][ci]
        status, closure = m
        out.case({"tasks": c["tasks"], "edges": c["edges"], "prios": c["prios"], "trace": r.get("trace")},
                 nontrivial=bool(r.get("trace")) and len(c["tasks"]) > 1)
        if r.get("cycle"):
            out.count("cyclic")
            if status != 1:
                out.disagreement("implementation reports a cycle, model does not", {"case": c})
            continue
        nval += 1
        out.count("ops_total", len(r["trace"]))
        out.count("rebuilds", sum(1 for o in r["trace"] if o[0].startswith("rebuild")))
        want = sorted(u * 1048576 + t for u, t in r["closure"])
        if status == 1:
            if not any(o[0] == "rebuild_cycle" for o in r["trace"]):
                out.disagreement("model reports a cycle, implementation does not", {"case": c})
        elif status != 0:
            out.disagreement(f"model rejects operation #{status - 100} of the implementation trace",
                             {"case": c, "hashseed": hs, "trace": r["trace"]})
        if want != closure:
            out.disagreement("closure graph of from_dag differs", {"case": c, "impl": r["closure"], "model": closure})
    out.coverage["traces_validated_against_impl"] = nval
    for c, r in list(zip(cases, results[0]))[:2]:
        out.sample({"tasks": c["tasks"], "edges": c["edges"], "prios": c["prios"], "trace": r.get("trace")})
