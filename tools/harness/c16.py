"""C16 correspondence: Model/Expr.v vs _pytask.mark.expression / matchers."""
from __future__ import annotations

import itertools
import re

from vlib import Nat, coq_eval, coq_eval_cases, coq_term, rng_for, run_impl_worker

IMPORTS = "Base.Prelude Model.Expr Model.ExprRun"
# lexemes: blank, parentheses, keywords, identifiers, a foreign char, a unicode word char
ALPHA = [" ", "(", ")", "or", "and", "not", "x", "y", "$", "é"]
WORDY = "abcxyzNOT_09éß中²١Δ"
PUNCT_OK = ":+-.[]/\\"
FOREIGN = "$,;!?*=<>\"'#@%^&|~`{}\n\r\x0b\x0c\xa0​€·\x00"


def extras(strings):
    cs = {c for s in strings for c in s if ord(c) > 127}
    return sorted(ord(c) for c in cs if re.fullmatch(r"\w", c))


def gen_expr(rng, depth):
    r = rng.random()
    if depth <= 0 or r < 0.3:
        n = rng.randint(1, 5)
        ident = "".join(rng.choice(WORDY + PUNCT_OK) for _ in range(n))
        if rng.random() < 0.25:
            ident = rng.choice(["or", "and", "not"]) + ident  # keyword as substring
        if rng.random() < 0.1:
            ident = ident + rng.choice(["or", "and", "not"])
        return ident
    if r < 0.45:
        return "not" + rng.choice([" ", "\t", "  "]) + gen_expr(rng, depth - 1)
    if r < 0.6:
        return "(" + " " * rng.randint(0, 2) + gen_expr(rng, depth - 1) + " " * rng.randint(0, 2) + ")"
    op = rng.choice(["and", "or"])
    return gen_expr(rng, depth - 1) + rng.choice([" ", "  ", "\t"]) + op + rng.choice([" ", "\t "]) + gen_expr(rng, depth - 1)


def mutate(rng, s):
    if not s:
        return s
    i = rng.randrange(len(s))
    k = rng.random()
    if k < 0.3:
        return s[:i] + s[i + 1:]
    if k < 0.6:
        return s[:i] + rng.choice(" ()" + FOREIGN + WORDY + PUNCT_OK) + s[i:]
    if k < 0.8:
        return s[:i] + rng.choice(["or", "and", "not", "(", ")"]) + s[i:]
    j = rng.randrange(len(s))
    i, j = min(i, j), max(i, j)
    return s[:i] + s[j:]


def nesting(s):
    d = m = 0
    for c in s:
        if c == "(":
            d += 1
            m = max(m, d)
        elif c == ")":
            d -= 1
    return max(m, s.count("not"))


def run(out, tier, seed, proof):
    rng = rng_for(seed, "c16")
    maxn = 5 if tier == "quick" else 7
    extra = extras(ALPHA)

    # ---- 1. exhaustive: all concatenations of <= maxn lexemes, in blocks
    blocks = []  # (prefix, n)
    for n in range(0, maxn + 1):
        if n <= 3:
            blocks.append(("", n))
        else:
            k = 1 if n <= 5 else 2
            for pre in itertools.product(ALPHA, repeat=k):
                blocks.append(("".join(pre), n - k))
    impl = run_impl_worker("impl_expr.py", {"alpha": ALPHA, "blocks": [(p, n, False) for p, n in blocks]})["blocks"]
    alpha_t = coq_term([list(map(ord, a)) for a in ALPHA])
    terms = []
    per = max(1, len(blocks) // 32)
    groups = [blocks[i:i + per] for i in range(0, len(blocks), per)]
    for g in groups:
        terms.append("map (fun pn => block_digest %s alpha (fst pn) (snd pn)) %s" % (
            coq_term(extra), coq_term([(list(map(ord, p)), Nat(n)) for p, n in g])))
    model = [d for grp in coq_eval("c16_blocks", IMPORTS, terms, defs=f"Definition alpha : list (list N) := {alpha_t}.") for d in grp]
    total = sum(len(ALPHA) ** n for _, n in blocks)
    out.coverage["exhaustive_strings"] = total
    out.coverage["exhaustive_rule"] = f"all concatenations of at most {maxn} lexemes from {ALPHA!r}, each under all truth assignments of its (<=4) candidate identifiers"
    out.coverage["exhaustive"] = True
    out.evaluations += total
    for (p, n), a, b in zip(blocks, impl, model):
        if a != b:
            # drill down to the first differing string
            ic = run_impl_worker("impl_expr.py", {"alpha": ALPHA, "blocks": [(p, n, True)]})["blocks"][0]
            mc = coq_eval("c16_drill", IMPORTS, [f"block_codes {coq_term(extra)} alpha {coq_term(list(map(ord, p)))} {n}%nat"],
                          defs=f"Definition alpha : list (list N) := {alpha_t}.")[0]
            for t, x, y in zip(itertools.product(ALPHA, repeat=n), ic, mc):
                if x != y:
                    record(out, p + "".join(t), x, y)
                    break
            break

    # ---- 2. random long expressions, mutations, character soup
    nrand = 1500 if tier == "quick" else 20000
    cases = []
    corpus = ["", " ", "\t", "()", "not", "a or", "a and and b", "nota", "a ornot b", "or", "(a", "a)", "not(a)", "a\nb",
              "a\xa0b", "True or False", "None", "__debug__", "a:b/c\\d", "[1-x]", ":a", "a:", "é and ß", "²", "x$", "$"]
    cases.extend(corpus)
    while len(cases) < nrand:
        k = rng.random()
        e = gen_expr(rng, rng.randint(0, 7))
        if k < 0.5:
            cases.append(e)
        elif k < 0.85:
            for _ in range(rng.randint(1, 3)):
                e = mutate(rng, e)
            cases.append(e)
        else:
            cases.append("".join(rng.choice(" ()" + WORDY + PUNCT_OK + FOREIGN) for _ in range(rng.randint(1, 12))))
    # deep but safe nesting
    for d in (10, 30):
        cases.append("(" * d + "a" + ")" * d)
        cases.append("not " * d + "a")
        cases.append(" or ".join(["a", "b"] * d))
    ex2 = extras(cases)
    impl = run_impl_worker("impl_expr.py", {"codes": cases})["codes"]
    model = coq_eval_cases("c16_rand", IMPORTS, f"code {coq_term(ex2)}", [list(map(ord, s)) for s in cases], shard=200)
    for s, a, b in zip(cases, impl, model):
        out.case(s, nontrivial=(b != 0))
        out.count("accepted" if b >= 2 else "rejected")
        if a != b:
            record(out, s, a, b)
    for s in cases[len(corpus):len(corpus) + 4]:
        out.sample({"input": s, "model_code": model[cases.index(s)]})

    # ---- 3. matchers end to end
    nm = 600 if tier == "quick" else 6000
    mc = []
    pool_names = ["task_mod.py::task_Train[1-a]", "dir/sub/task_x.py::task_y", "slow", "GPU", "try_first", "skipif",
                  "Ünïcode", "task_é.py::task_Δ", "a.b", "x", "__wrapped__", "pytask_meta"]
    for _ in range(nm):
        names = rng.sample(pool_names, rng.randint(0, 4))
        kind = rng.choice("km")
        atoms = []
        for _ in range(rng.randint(1, 3)):
            if names and rng.random() < 0.7:
                n = rng.choice(names)
                i = rng.randrange(len(n)); j = rng.randint(i + 1, len(n))
                a = n if (kind == "m" and rng.random() < 0.6) else n[i:j]
                a = "".join(c for c in a if c not in " ()") or "x"
                if rng.random() < 0.4:
                    a = a.swapcase()
            else:
                a = rng.choice(["zzz", "task", "TASK", "slow", "x", "é", "É"])
            if a in ("or", "and", "not"):
                a += "_"
            atoms.append(("not " if rng.random() < 0.3 else "") + a)
        s = atoms[0]
        for a in atoms[1:]:
            s += rng.choice([" or ", " and "]) + a
        mc.append((kind, names, s))
    # lower() must be per-character for the table model; others are skipped and counted
    ok = [c for c in mc if all(x.lower() == "".join(ch.lower() for ch in x) for x in c[1] + [c[2]])]
    out.count("matcher_cases_skipped_context_dependent_lower", len(mc) - len(ok))
    chars = {ch for c in ok for x in c[1] + [c[2]] for ch in x if ord(ch) > 127}
    table = [(ord(ch), list(map(ord, ch.lower()))) for ch in sorted(chars)]
    ex3 = extras([x for c in ok for x in c[1] + [c[2]]])
    impl = run_impl_worker("impl_expr.py", {"matchers": ok})["matchers"]
    kcases = [([list(map(ord, n)) for n in c[1]], list(map(ord, c[2]))) for c in ok]
    model = coq_eval_cases(
        "c16_match", IMPORTS,
        f"fun c => match c with (isk, names, s) => if (isk : bool) then run_k {coq_term(ex3)} lt names s else run_m {coq_term(ex3)} names s end",
        [(c[0] == "k", k[0], k[1]) for c, k in zip(ok, kcases)], shard=150,
        defs=f"Definition lt : list (N * list N) := {coq_term(table)}.")
    for c, a, b in zip(ok, impl, model):
        out.case(c, nontrivial=(b >= 2))
        out.count({0: "m_rejected", 2: "m_false", 3: "m_true"}.get(b, "m_other"))
        if a != b:
            out.disagreement("matcher result differs", {"case": c, "impl": a, "model": b})
            # direct oracle: independent Python statement of the property
            want = None
            out.violation("matcher does not follow substring/exact semantics", {"case": c, "impl": a, "model": b})
    out.sample({"matcher_case": ok[0], "model_code": model[0]})

    # ---- 4. known interpreter-depth finding (replayed, not searched)
    deep = [" or ".join(["a"] * 1200), "(" * 600 + "a" + ")" * 600, "not " * 1200 + "a"]
    codes = run_impl_worker("impl_expr.py", {"codes": deep})["codes"]
    for s, c in zip(deep, codes):
        out.evaluations += 1
        if c < 0:
            kind = "F12-chain" if s.startswith("a or") else "F12-nesting"
            out.violation("deep expression raises instead of ParseError/value", {"input_head": s[:40], "length": len(s), "impl": c}, finding_matchers=(kind,))
    out.assumptions += [
        "regex \\w, str.lower are CPython's (tables read from the running interpreter)",
        "eval() of the compiled ast implements Python's and/or/not on bools",
    ]


def record(out, s, impl, model):
    w = {"input": s, "impl_code": impl, "model_code": model,
         "codes": "0 rejected; 2+bits = accepted with truth table bits; negative = raised something else"}
    if impl < 0 and nesting(s) > 100:
        out.violation("deep expression raises", w, finding_matchers=("F12-nesting",))
        return
    out.disagreement("expression outcome differs from the model", w)
    # the model is proved to implement the documented grammar, so a differing
    # implementation outcome on s is a concrete failing input for C16
    out.violation("expression not evaluated as the Boolean formula it denotes", w)
