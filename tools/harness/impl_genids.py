"""C18 scenario: a generator whose tasks are told apart by @task(id=...). Built with n files,
then with one file; reports which generated bodies ran in each build (real pytask, forked)."""
from __future__ import annotations

import json
import os
import sys
import tempfile
import shutil
from pathlib import Path

MODULE = '''
from pathlib import Path
from typing import Annotated
from pytask import DirectoryNode, Product, task

ROOT = Path(__file__).parent

@task(is_generator=True)
def task_gen(files: Annotated[list[Path], DirectoryNode(root_dir=ROOT / "src", pattern="*.in")]):
    for f in sorted(files):
        @task(id=f.stem)
        def task_copy(src: Path = f, dst: Annotated[Path, Product] = ROOT / "out" / (f.stem + ".txt")):
            with open(ROOT / "exec.log", "a") as fh:
                fh.write(src.stem + "\\n")
            dst.parent.mkdir(exist_ok=True)
            dst.write_text(src.read_text())
'''


def build(root):
    r, w = os.pipe()
    pid = os.fork()
    if pid == 0:
        os.close(r)
        dn = os.open(os.devnull, os.O_WRONLY)
        os.dup2(dn, 1)
        os.dup2(dn, 2)
        try:
            os.chdir(root)
            import _pytask.build as B
            s = B.build(paths=[Path(root)])
            out = {"exit": int(s.exit_code), "names": sorted(t.name.split("::")[-1] for t in s.tasks),
                   "outcomes": sorted((rep.task.name.split("::")[-1], rep.outcome.name) for rep in s.execution_reports)}
        except BaseException as e:  # noqa: BLE001
            out = {"raised": repr(e)}
        os.write(w, json.dumps(out).encode())
        os._exit(0)
    os.close(w)
    data = b""
    while True:
        b = os.read(r, 1 << 16)
        if not b:
            break
        data += b
    os.waitpid(pid, 0)
    o = json.loads(data)
    log = Path(root) / "exec.log"
    o["ran"] = log.read_text().split() if log.exists() else []
    log.unlink(missing_ok=True)
    return o


def main():
    payload = json.loads(sys.stdin.read())
    res = []
    for sc in payload["scenarios"]:
        base = tempfile.mkdtemp(prefix="verifgenids_")
        try:
            root = Path(base) / "p"
            (root / "src").mkdir(parents=True)
            (root / "task_m.py").write_text(MODULE)
            builds = []
            for files in sc["file_sets"]:
                for old in (root / "src").glob("*.in"):
                    if old.stem not in files:
                        old.unlink()
                for name, content in files.items():
                    p = root / "src" / f"{name}.in"
                    if not p.exists() or p.read_text() != content:
                        p.write_text(content)
                builds.append(build(str(root)))
            res.append(builds)
        finally:
            shutil.rmtree(base, ignore_errors=True)
    print(json.dumps(res))


if __name__ == "__main__":
    main()
