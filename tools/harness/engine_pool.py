"""Hosts a process pool inside the implementation environment; histories in, observations out."""
import json
import os
import sys
from concurrent.futures import ProcessPoolExecutor

sys.path.insert(0, os.path.dirname(os.path.abspath(__file__)))
import pytask  # noqa: F401  (warm import, inherited by the forked workers)
import engine_common


def main():
    cases = json.load(sys.stdin)
    with ProcessPoolExecutor(max_workers=int(os.environ.get("VERIF_JOBS", "16"))) as ex:
        res = list(ex.map(engine_common._impl_history, cases, chunksize=1))
    json.dump(res, sys.stdout)


if __name__ == "__main__":
    main()
