"""Implementation side of C11: materialise a project, run the real `pytask clean` command
line on copies (dry-run and force), report printed lines and the trees before/after."""
import json
import os
import shutil
import subprocess
import sys
import tempfile
from pathlib import Path


def scan(root: Path):
    out = []
    for p in sorted(root.rglob("*")):
        if ".git" in p.relative_to(root).parts[:-1] and p.relative_to(root).parts.count(".git") and len(p.relative_to(root).parts) > 2 and p.relative_to(root).parts[-3:].count(".git") == 0 and False:
            continue
        out.append([str(p.relative_to(root)), p.is_dir()])
    return out


def materialise(case, base: Path):
    top = base / "top"
    proj = top / case["proj_rel"] if case["proj_rel"] else top
    proj.mkdir(parents=True)
    for rel, content in case["files"]:
        f = proj / rel
        f.parent.mkdir(parents=True, exist_ok=True)
        f.write_text(content)
    for rel in case["dirs"]:
        (proj / rel).mkdir(parents=True, exist_ok=True)
    for rel, content in case.get("outer_files", []):
        f = top / rel
        f.parent.mkdir(parents=True, exist_ok=True)
        f.write_text(content)
    env = dict(os.environ, GIT_CONFIG_GLOBAL="/dev/null", GIT_CONFIG_SYSTEM="/dev/null", HOME=str(base))
    if case["git"]:
        subprocess.run(["git", "init", "-q"], cwd=top, env=env, capture_output=True)
        for rel in case["git_add"]:
            subprocess.run(["git", "add", "-f", rel], cwd=top, env=env, capture_output=True)
    return top, proj, env


def git_view(proj, env):
    """What the code asks git: (cdup, ls-files relative to the project root)."""
    a = subprocess.run(["git", "rev-parse", "--show-cdup"], cwd=proj, env=env, capture_output=True, text=True)
    b = subprocess.run(["git", "ls-files", "-z"], cwd=proj, env=env, capture_output=True, text=True)
    return a.stdout.strip(), [x for x in b.stdout.strip("\0").split("\0") if x]


def run_clean(proj, env, case, mode):
    cmd = [sys.executable, "-m", "pytask", "clean", "--mode", mode]
    if case["dirs_flag"]:
        cmd.append("-d")
    for e in case["cli_exclude"]:
        cmd += ["-e", e]
    cmd += case["path_args"]
    p = subprocess.run(cmd, cwd=proj, env=dict(env, COLUMNS="400"), capture_output=True, text=True)
    lines = [l.strip() for l in p.stdout.splitlines() if l.strip().startswith(("Would remove", "Remove"))]
    return {"rc": p.returncode, "lines": lines, "tail": (p.stdout + p.stderr)[:3000] if p.returncode else ""}


def main():
    cases = json.load(sys.stdin)
    out = []
    for case in cases:
        base = Path(tempfile.mkdtemp(prefix="verif_c11_"))
        try:
            top, proj, env = materialise(case, base)
            before = scan(top)
            cdup, lsfiles = git_view(proj, env) if case["git"] else ("", [])
            dry = run_clean(proj, env, case, "dry-run")
            after_dry = scan(top)
            # the order in which the operating system hands out directory entries (Path.iterdir)
            order = {"": os.listdir(top)}
            for rel, isdir in after_dry:
                if isdir:
                    order[rel] = os.listdir(top / rel)
            force = run_clean(proj, env, case, "force")
            after_force = scan(top)
            out.append({"top": str(top), "proj": str(proj), "before": before, "after_dry": after_dry, "after_force": after_force, "order": order,
                        "dry": dry, "force": force, "cdup": cdup, "lsfiles": lsfiles})
        except Exception as e:  # noqa: BLE001
            out.append({"error": repr(e)})
        finally:
            shutil.rmtree(base, ignore_errors=True)
    json.dump(out, sys.stdout)


if __name__ == "__main__":
    main()
