"""debug: run the history of a replay entry against the implementation and print raw observations"""
import json, sys, tempfile, shutil
sys.path.insert(0, '/verif/tools'); sys.path.insert(0, '/verif/tools/harness')
import engine_common as EC
r = json.load(open(sys.argv[1]))
k = int(sys.argv[2])
items = r.get('correspondence_failed') or r.get('violations') or []
w = items[k]['witness']
base = tempfile.mkdtemp(prefix='dbg_')
case = {"idx": 0, "root": base + "/c0/p", "ops": w['history_ops'], "sources": [101, 102]}
obs = EC.run_impl_histories([case], hashseed=0)[0]
for o in obs:
    names = {t['sig']: t['name'].split('::')[-1] for t in o.get('tasks', [])}
    print('exit', o.get('exit'), 'reports', [(names.get(s, s[:6]), oc) for s, oc in o.get('reports', [])])
    print('  log', o.get('log'))
    print('  errors', [(names.get(s, s[:6]), e) for s, e in o.get('errors', [])])
    print('  files', o.get('files'))
    if 'raised' in o: print(o['raised'])
shutil.rmtree(base, ignore_errors=True)
