"""C18: provisional nodes (directory patterns) and task generators.
Model/EngineP.v vs real builds over histories in which the set of matching files grows,
shrinks or changes content between and during builds."""
from __future__ import annotations

import shutil
import tempfile
from pathlib import Path

import engine_common as EC
import engine_oracles as EO
import verif_rt
from vlib import C, Nat, Raw, Some, Zi, coq_eval_cases, coq_term, rng_for, run_impl_worker

IMPORTS = "Base.Prelude Base.Graph Model.Sorter Model.Expr Model.Engine Model.EngineRun Model.EngineP Model.EnginePRun"
TRUSTED = ["Coq kernel, vm_compute", "harness (generated producers/consumers/generators, forked real builds)",
           "Path.glob returns the files matching the pattern; bodies sort what they receive",
           "error paths of recreate_dag and third-party provisional node types are not modelled (partial)"]
O = EO.O
SPELLINGS = ["rel", "rel_updown", "abs_updown"]
PLAIN = {"force": False, "dry_run": False, "max_failures": None, "expression": "", "marker_expression": "", "capture": "fd"}


def tk(i, **kw):
    d = {"id": i, "module": 1, "deps": [], "prods": [], "mver": 0, "skip": False, "skipifs": [], "persist": False, "prio": 0,
         "marks": [], "attrs": [], "after_fn": [], "after_expr": None, "use_decorator": False,
         "pdeps": [], "pprods": [], "is_gen": False, "clears": False, "two_stage": False, "pspell": {}, "after_ids": []}
    d.update(kw)
    return d


def gen_project(rng, p_after=0.35, allow_gen=True):
    """producer(s) fed by a count file, consumers and generators over the same or other patterns."""
    tasks = []
    sources = [101, 102]
    nprod = rng.randint(1, 2)
    pats = []
    for k in range(nprod):
        i = k + 1
        tasks.append(tk(i, deps=[101 + k], pprods=[i], clears=rng.random() < 0.5, prods=[110 + i] if rng.random() < 0.4 else []))
        pats.append(i)
    nid = 120
    tid = 3
    for _ in range(rng.randint(1, 3)):
        kind = rng.choice(["cons", "cons", "gen", "plain"])
        if kind == "gen" and not allow_gen:
            kind = "cons"
        if kind == "cons":
            nid += 1
            tasks.append(tk(tid, pdeps=[rng.choice(pats)], deps=[102] if rng.random() < 0.3 else [], prods=[nid]))
        elif kind == "gen":
            # (pattern 9: files placed by the user, nobody produces them - the generator is ready from the start)
            p = rng.choice(pats + [9])
            g = tk(tid, pdeps=[p], is_gen=True, two_stage=rng.random() < 0.5)
            tasks.append(g)
            if rng.random() < 0.5:
                # the generator has a product of its own; a declared task consumes it together with products
                # of the tasks the generator creates (they get a producer only when the graph is re-created)
                nid += 1
                g["prods"] = [nid]
                tid += 1
                nid += 1
                gen_prods = [30000 + 100 * p + j for j in rng.sample([0, 1, 2], rng.randint(1, 2))]
                tasks.append(tk(tid, deps=[g["prods"][0]] + sorted(gen_prods), prods=[nid]))
            elif rng.random() < 0.6:
                # a declared task that reads only what generated tasks write: ready from the start as far as the
                # declared graph knows, it has to wait once the generator has created its producers (try_last keeps
                # it behind the generator)
                tid += 1
                nid += 1
                gen_prods = [30000 + 100 * p + j for j in rng.sample([0, 1, 2], rng.randint(1, 2))]
                tasks.append(tk(tid, deps=sorted(gen_prods), prods=[nid], prio=-1))
        else:
            nid += 1
            tasks.append(tk(tid, deps=[rng.choice(sources)], prods=[nid]))
        tid += 1
    if rng.random() < 0.3:      # a consumer of a pattern nobody produces (files placed by the user)
        nid += 1
        tasks.append(tk(tid, pdeps=[9], prods=[nid]))
        # (not next to a generator over these files that has a product of its own which a declared task reads: when the
        # writer fails, is skipped or would be executed AFTER that generator ran, the code finds the reader among the
        # writer's descendants - through the file the generator resolved - and the model, whose marks follow the
        # declared graph, does not; the same family as F29/F31, kept out of the generated projects)
        if rng.random() < 0.5 and not any(t["is_gen"] and 9 in t["pdeps"] and t["prods"] for t in tasks):
            # an ordinary task writes one more file into that directory as a plain path product, and a second
            # consumer of the pattern waits for it: the two consumers start with different sets of files
            tid += 1
            tasks.append(tk(tid, deps=[rng.choice(sources)], prods=[10907]))
            tid += 1
            nid += 1
            tasks.append(tk(tid, pdeps=[9], deps=[10907], prods=[nid]))
    # `after`: a task waits for another one that has a product and reads nothing another task writes
    if rng.random() < p_after:
        # (not a producer of a pattern: its resolved files would become `after` edges as well, which the model leaves out)
        ups = [u for u in tasks if u["prods"] and not u["is_gen"] and all(d < 110 for d in u["deps"]) and not u["pdeps"] and not u["pprods"]]
        downs = [t for t in tasks if not t["is_gen"]]
        if ups and downs:
            u = rng.choice(ups)
            t = rng.choice([x for x in downs if x["id"] != u["id"]] or [None])
            if t is not None and not t.get("after_expr") and not (set(t["prods"]) & set(u["deps"])):
                t["after_expr"] = f"t{u['id']}_"
                t["after_ids"] = [u["id"]]
    # the same directory spelled in different ways by different tasks
    for t in tasks:
        for p in t["pdeps"] + t["pprods"]:
            if rng.random() < 0.5:
                t["pspell"][str(p)] = rng.choice(SPELLINGS)
    rng.shuffle(tasks)
    return tasks, sources


def gen_history(rng, idx, base, p_expr=0.12):
    tasks, sources = gen_project(rng)
    ops = [{"op": "set", "n": 101, "c": rng.randint(1, 40)}, {"op": "set", "n": 102, "c": rng.randint(1, 40)}]
    if any(9 in t["pdeps"] for t in tasks):
        for j in range(rng.randint(0, 3)):
            ops.append({"op": "set", "n": 10900 + j, "c": rng.randint(1, 99)})
    nb = rng.randint(2, 5)
    for b in range(nb):
        if b:
            for _ in range(rng.randint(0, 2)):
                k = rng.random()
                if k < 0.45:
                    ops.append({"op": "set", "n": rng.choice([101, 102]), "c": rng.randint(1, 40)})     # count changes: grow/shrink
                elif k < 0.6 and any(9 in t["pdeps"] for t in tasks):
                    ops.append({"op": "set", "n": 10900 + rng.randint(0, 4), "c": rng.randint(1, 99)})
                elif k < 0.7 and any(9 in t["pdeps"] for t in tasks):
                    ops.append({"op": "del", "n": 10900 + rng.randint(0, 3)})
                elif k < 0.8:
                    ops.append({"op": "touch", "n": rng.choice([101, 102])})
                else:
                    p = rng.choice([t["id"] for t in tasks if t["pprods"]])
                    ops.append({"op": "del", "n": 10000 + 100 * p + rng.randint(0, 2)})                   # a generated file vanishes
        cfg = dict(PLAIN)
        r = rng.random()
        if r < 0.1:
            cfg["force"] = True
        elif r < 0.2:
            cfg["dry_run"] = True
        if rng.random() < p_expr:
            # a selection: by a declared task, by generated tasks (one, or all of a stage), or excluding some
            t = rng.choice(tasks)
            gens = [x for x in tasks if x["is_gen"]]
            if gens and rng.random() < 0.7:
                # the generator is selected, its tasks only partly (or not at all)
                g = rng.choice(gens)
                p = g["pdeps"][0]
                cfg["expression"] = rng.choice([f"t{g['id']}_", f"t{g['id']}_ or t20{p}00_", f"t{g['id']}_ or t40{p}",
                                                f"not t20{p}01_", f"not t40{p}", f"t{g['id']}_ or t{t['id']}_"])
            else:
                cfg["expression"] = rng.choice([f"t{t['id']}_", f"t{t['id']}_ or t2010", "t2010", "t20100_", "not t2020", "t40", f"not t{t['id']}_"])
        faults = {}
        if rng.random() < 0.15:
            t = rng.choice(tasks)
            faults[str(t["id"])] = rng.choice(["raise_before", "raise_after"])
        elif rng.random() < 0.08:
            # a producer of a pattern that leaves one of its ordinary products out: it fails in the teardown, after
            # its function has written the files of the pattern (F34, repaired: its consumers used to run)
            cand = [t for t in tasks if t["pprods"] and t["prods"]]
            if cand:
                t = rng.choice(cand)
                faults[str(t["id"])] = {"omit": [t["prods"][0]]}
        ops.append({"op": "build", "tasks": [dict(t) for t in tasks], "cfg": cfg, "faults": faults})
    return {"idx": idx, "root": str(Path(base) / f"c{idx}" / "p"), "ops": ops, "sources": sources}


def ptask_term(t, V, name=None):
    ae = Some([ord(c) for c in t["after_expr"]]) if t.get("after_expr") else Raw("None")
    base = C("mkTask", t["id"], V, t["deps"], t["prods"], [], ae, bool(t["skip"]), [], bool(t["persist"]), Zi(t.get("prio", 0)),
             [[ord(c) for c in name]] if name else [], [[2]] if t.get("two_stage") else [])
    return C("mkPT", base, t["pdeps"], t["pprods"], bool(t["is_gen"]), bool(t["clears"]))


def history_term(case, obs):
    ops, bi = [], 0
    for op in case["ops"]:
        k = op["op"]
        if k == "set":
            ops.append(C("PSet", op["n"], op["c"]))
        elif k == "del":
            ops.append(C("PDel", op["n"]))
        elif k == "build":
            o = obs[bi]; bi += 1
            sig2tid = {}
            for s in o.get("tasks", []):
                sig2tid[s["sig"]] = EC.tid_of_name(s["name"])
            pref = []
            for sig, _ in o.get("reports", []):
                t = sig2tid.get(sig)
                if t is not None and t not in pref:
                    pref.append(t)
            tid2name = {EC.tid_of_name(s["name"]): s["name"] for s in o.get("tasks", [])}
            tt = [ptask_term(t, o["mods"][str(t["module"])][0], tid2name.get(t["id"])) for t in op["tasks"]]
            fl = [(int(t), EC.fault_term(f)) for t, f in op["faults"].items()]
            ops.append(C("PBuild", EC.cfg_term(op["cfg"]), tt, fl, pref))
    return ops


def o_c18(cimp, ctx):
    """Direct oracle: what consumers received, once-only generators and children, shrink."""
    probs = []
    tasks = ctx["op"]["tasks"]
    cfg = ctx["op"]["cfg"]
    if cimp["exit"] not in (0, 1):
        return probs
    starts = EO._started(cimp)
    for t in set(starts):
        if starts.count(t) > 1:
            probs.append((f"the function of task {t} ran {starts.count(t)} times in one build", ("F2",) if any(x["id"] == t and x["is_gen"] for x in tasks) else ()))
    files = cimp["files"]
    rep = dict(cimp["reports"])
    # generated pipelines: the task consuming a generated task's product comes after it and reflects it
    order = [t for t, _ in cimp["reports"]]
    for t2 in [t for t in order if 40000 <= t < 50000]:
        t1 = t2 - 20000
        if t1 in order and order.index(t2) < order.index(t1):
            probs.append((f"generated task {t2} was handled before generated task {t1} whose product it consumes", ()))
        k = t2 - 40000
        if rep.get(t2) in (O["SUCCESS"], O["SKIP_UNCHANGED"]) and rep.get(t1) in (O["SUCCESS"], O["SKIP_UNCHANGED"]) \
                and cimp["exit"] == 0 and not cfg["dry_run"]:
            V = next(iter(ctx["raw"]["mods"].values()))[0]
            mid = files.get(30000 + k)
            if isinstance(mid, int) and files.get(50000 + k) != verif_rt.hbody(t2, V, [mid], 50000 + k):
                probs.append((f"generated task {t2} holds a product that does not reflect the product of generated task {t1}", ()))
    for t in tasks:
        i = t["id"]
        if t["is_gen"] or not t["pdeps"] or not t["prods"]:
            continue
        # a consumer that was executed, or reported unchanged, must reflect exactly the files matching now
        matching = sorted(n for n in files if any(10000 + 100 * p <= n < 10000 + 100 * p + 100 for p in t["pdeps"]))
        # an ordinary task that wrote a matching file after this consumer was handled: the set moved on since
        later = [u["id"] for u in tasks if u["id"] in starts and u["id"] in order and i in order and order.index(u["id"]) > order.index(i)
                 and any(10000 + 100 * p <= q < 10000 + 100 * p + 100 for p in t["pdeps"] for q in u["prods"])]
        if rep.get(i) in (O["SUCCESS"], O["SKIP_UNCHANGED"]) and cimp["exit"] == 0 and not cfg["dry_run"] and not later:
            dv = [files.get(d) for d in t["deps"]] + [files[n] for n in matching]
            if all(isinstance(x, int) for x in dv):
                V = ctx["raw"]["mods"][str(t["module"])][0]
                for p in t["prods"]:
                    want = verif_rt.hbody(i, V, dv, p)
                    if files.get(p) != want:
                        # stale because the set shrank since the recorded run?
                        prev_db = ctx["prev"][-1][1]["db"] if ctx["prev"] else set()
                        recorded = {k for (a, k, h) in prev_db if a == i and isinstance(k, int) and k >= 10000}
                        shrank = rep.get(i) == O["SKIP_UNCHANGED"] and bool(recorded - set(matching))
                        probs.append((f"consumer {i} holds a product that does not reflect the files matching its pattern now ({matching})",
                                      ("F6",) if shrank else ()))
    return probs


def o_announce(cimp, ctx):
    """C10 on projects with directory patterns: every task the real build executes right after a dry run (nothing
    edited in between) was announced as would-be-executed by the dry run. F29: a consumer of a pattern is not
    announced when the file that changes is written by an ordinary task (plain path product inside the directory)."""
    probs = []
    if not ctx["prev"] or ctx["op"]["cfg"]["dry_run"] or cimp["exit"] not in (0, 1):
        return probs
    pop, pimp, _ = ctx["prev"][-1]
    if not pop["cfg"]["dry_run"] or pimp["exit"] not in (0, 1):
        return probs
    # nothing between the two builds
    ops = ctx["case"]["ops"]
    bpos = [i for i, o in enumerate(ops) if o["op"] == "build"]
    if bpos[ctx["bi"]] != bpos[ctx["bi"] - 1] + 1:
        return probs
    if pop["cfg"] != dict(ctx["op"]["cfg"], dry_run=True) or pop["tasks"] != ctx["op"]["tasks"]:
        return probs
    announced = {t for t, o in pimp["reports"] if o == O["WOULD_BE_EXECUTED"]}
    tasks = {t["id"]: t for t in ctx["op"]["tasks"]}
    for x in sorted(set(EO._started(cimp))):
        if x in announced or x not in tasks:
            continue
        tx = tasks[x]
        writers = [u for u in announced if u in tasks and any(10000 + 100 * p <= q < 10000 + 100 * p + 100 for p in tx["pdeps"] for q in tasks[u]["prods"])]
        probs.append((f"task {x} was executed by the real build although the dry run right before it did not announce it", ("F29",) if writers else ()))
    return probs


def o_contain(cimp, ctx):
    """C04 on projects with generators: no task that reads - directly or through other tasks - what a failed
    task writes is executed. F31: a task CREATED by a generator after the failure is not marked."""
    probs = []
    if cimp["exit"] not in (0, 1):
        return probs
    order = [t for t, _ in cimp["reports"]]
    rep = dict(cimp["reports"])
    reads, writes = reads_writes(ctx["op"]["tasks"], set(order))
    failed = [t for t in order if rep[t] == O["FAIL"]]
    for x in sorted(set(EO._started(cimp))):
        seen, todo = set(), [x]
        while todo:
            y = todo.pop()
            for u in order:
                if u not in seen and u != y and writes.get(u, set()) & reads.get(y, set()):
                    seen.add(u); todo.append(u)
        bad = [u for u in failed if u in seen and order.index(u) < order.index(x)]
        if bad:
            probs.append((f"task {x} was executed although task {bad[0]}, on whose product it depends, had failed in this build",
                          ("F31",) if x >= 20000 else ()))
    # ... and every other task is executed or skipped on its own merits: "skipped because a previous task
    # failed" needs a failed task it depends on
    for x in order:
        if rep[x] != O["SKIP_PREVIOUS_FAILED"]:
            continue
        seen, todo = set(), [x]
        while todo:
            y = todo.pop()
            for u in order:
                if u not in seen and u != y and writes.get(u, set()) & reads.get(y, set()):
                    seen.add(u); todo.append(u)
        if not any(u in seen for u in failed):
            probs.append((f"task {x} was skipped because a previous task failed, but no task it depends on failed", ()))
    nfail = len(failed)
    mf = ctx["op"]["cfg"].get("max_failures")
    if cimp["exit"] == 0 and nfail:
        probs.append((f"exit code 0 with {nfail} failed tasks", ()))
    return probs


def o_dry_inert(cimp, ctx):
    """C10 on projects with directory patterns: a dry run starts no function (generators apart) and creates,
    changes or deletes no file outside .pytask"""
    probs = []
    if not ctx["op"]["cfg"]["dry_run"]:
        return probs
    gens = {t["id"] for t in ctx["op"]["tasks"] if t["is_gen"]}
    ran = [t for t in EO._started(cimp) if t not in gens]
    if ran:
        probs.append((f"a dry run executed the functions of tasks {sorted(set(ran))}", ()))
    before = {int(k): v for k, v in ctx["raw"]["files_before"].items()}
    after = {int(k): v for k, v in ctx["raw"]["files"].items()}
    if before != after and not gens:
        diff = sorted(k for k in set(before) | set(after) if before.get(k) != after.get(k))
        probs.append((f"a dry run created, changed or deleted files (nodes {diff})", ()))
    return probs


def gen_dry_history(rng, idx, base):
    """no generators; every edit is followed by a dry run and then the real build"""
    tasks, sources = gen_project(rng, allow_gen=False)
    ops = [{"op": "set", "n": 101, "c": rng.randint(1, 40)}, {"op": "set", "n": 102, "c": rng.randint(1, 40)}]
    if any(9 in t["pdeps"] for t in tasks):
        for j in range(rng.randint(1, 3)):
            ops.append({"op": "set", "n": 10900 + j, "c": rng.randint(1, 99)})
    def b(**kw):
        return {"op": "build", "tasks": [dict(t) for t in tasks], "cfg": dict(PLAIN, **kw), "faults": {}}
    ops.append(b())
    for _ in range(rng.randint(1, 3)):
        k = rng.random()
        if k < 0.6:
            ops.append({"op": "set", "n": rng.choice([101, 102]), "c": rng.randint(1, 40)})
        elif k < 0.8 and any(9 in t["pdeps"] for t in tasks):
            ops.append({"op": "set", "n": 10900 + rng.randint(0, 3), "c": rng.randint(1, 99)})
        else:
            prods = [p for t in tasks for p in t["prods"] if p < 10000]
            if prods:
                ops.append({"op": "del", "n": rng.choice(prods)})
        force = rng.random() < 0.15
        ops += [b(dry_run=True, force=force), b(force=force)]
    return {"idx": idx, "root": str(Path(base) / f"c{idx}" / "p"), "ops": ops, "sources": sources}


def run_id_scenarios(out, rng, n):
    """Generated tasks told apart by @task(id=...): names predicted by Model/Collect.v; a generated
    task whose input did not change must not run again (F16: it does when the group size passes 1)."""
    stems = ["g0", "g1", "g2", "g3"]
    scen = [{"file_sets": [{"g0": "1", "g1": "2", "g2": "3"}, {"g0": "1"}, {"g0": "1"}]},      # the F16 witness: 3 -> 1
            {"file_sets": [{"g0": "1"}, {"g0": "1", "g1": "2"}]}]                               # 1 -> 2
    for _ in range(n):
        sets = []
        for _b in range(rng.randint(2, 4)):
            k = rng.randint(1, 4)
            sets.append({st: str(rng.randint(1, 3)) for st in rng.sample(stems, k)})
        scen.append({"file_sets": sets})
    res = run_impl_worker("impl_genids.py", {"scenarios": scen})
    terms = []
    for sc in scen:
        for fs in sc["file_sets"]:
            ds = [C("mkD", [ord(c) for c in "task_copy"], Raw("None"), Some([ord(c) for c in st]), [[ord(c) for c in "src"], [ord(c) for c in "dst"]], []) for st in sorted(fs)]
            terms.append(([], ds, [[ord(c) for c in "task_copy"]]))
    model = coq_eval_cases("C18ids", "Base.Prelude Model.Clean Model.Collect Model.CollectRun",
                           "fun c => match c with (pre, ds, ord) => run_module pre ds ord end", terms, shard=100)
    mi = 0
    for sc, builds in zip(scen, res):
        built = {}
        for fs, o in zip(sc["file_sets"], builds):
            m = model[mi]; mi += 1
            out.case({"id_scenario": sc["file_sets"], "files": fs}, nontrivial=True)
            out.count("id_scenario_builds")
            if "raised" in o:
                out.disagreement("generator scenario raised", {"scenario": sc, "obs": o}); break
            want = sorted("".join(chr(x) for x in nm) for nm in m[1]) if m != "None" else None
            got = sorted(x for x in o["names"] if x != "task_gen")
            if want != got:
                out.disagreement("names of generated tasks differ from Model/Collect.v", {"scenario": sc, "model": want, "impl": got})
            single = len(fs) == 1
            for st in fs:
                last = built.get(st)
                if st in o["ran"]:
                    if last is not None and last[0] == fs[st]:
                        out.violation(f"generated task for {st}.in ran again although its input, source and product did not change",
                                      {"scenario": sc["file_sets"], "build_files": fs, "ran": o["ran"], "names": o["names"]},
                                      finding_matchers=("F16",) if (last[1] or single) else ())      # the id-less name `task_copy` is shared by whatever file is alone
                    built[st] = (fs[st], single)
                elif last is None or last[0] != fs[st]:
                    out.violation(f"generated task for new/changed {st}.in did not run", {"scenario": sc["file_sets"], "build_files": fs, "ran": o["ran"]})
            for st in o["ran"]:
                if st not in fs:
                    out.violation(f"a task ran for {st}.in which does not exist", {"scenario": sc["file_sets"], "build_files": fs, "ran": o["ran"]})
            if len(o["ran"]) != len(set(o["ran"])):
                out.violation("a generated task ran twice in one build", {"scenario": sc["file_sets"], "ran": o["ran"]})


def reads_writes(tasks, ids):
    """what each declared or generated task reads / writes (files, or ("pat", p) for a pattern)"""
    reads, writes = {}, {}
    for t in tasks:
        reads[t["id"]] = set(t["deps"]) | {("pat", p) for p in t["pdeps"]}
        writes[t["id"]] = set(t["prods"]) | {("pat", p) for p in t["pprods"]}
    for t in tasks:      # `after`: as if the task read the products of the task it waits for
        for u in t.get("after_ids", []):
            reads[t["id"]] |= writes.get(u, set())
    for i in ids:
        if 20000 <= i < 30000:
            k = i - 20000
            reads[i] = {("pat", k // 100), 10000 + k}; writes[i] = {30000 + k}
        elif 40000 <= i < 50000:
            k = i - 40000
            reads[i] = {30000 + k}; writes[i] = {50000 + k}
    return reads, writes


def o_order(cimp, ctx):
    """C01 with generated tasks: a function starts only after every task that writes something it reads
    - declared or generated in this build - has finished."""
    probs = []
    if cimp["exit"] not in (0, 1):
        return probs
    log = cimp["log"]                      # 2*t start, 2*t+1 finish
    started = [e // 2 for e in log if e % 2 == 0]
    reads, writes = reads_writes(ctx["op"]["tasks"], set(started))
    pos = {e: i for i, e in enumerate(log)}
    for x in started:
        for u in started:
            if u != x and writes.get(u, set()) & reads.get(x, set()):
                if pos.get(2 * u + 1, 10 ** 9) > pos[2 * x]:
                    probs.append((f"task {x} started before task {u}, whose product it reads, had finished", ()))
    # the order in which tasks are handled (reported), whether or not their functions start: once a generator has
    # been handled the tasks it created are part of the graph, and a task reading what one of them writes is
    # handled after it
    order = [t for t, _ in cimp["reports"]]
    rep = dict(cimp["reports"])
    tasks = ctx["op"]["tasks"]
    reads, writes = reads_writes(tasks, set(order))
    gens_of = {}
    for g in tasks:
        if g["is_gen"]:
            for p in g["pdeps"]:
                gens_of.setdefault(p, []).append(g["id"])
    for xi, x in enumerate(order):
        for u in order[xi + 1:]:
            if not (20000 <= u < 30000 or 40000 <= u < 50000) or not (writes.get(u, set()) & reads.get(x, set())):
                continue
            p = (u % 20000) // 100
            # (a generator that failed has created nothing: F25)
            made_before = [g for g in gens_of.get(p, []) if g in order[:xi] and rep.get(g) == O["SUCCESS"]]
            if made_before and x not in made_before:
                probs.append((f"task {x} was handled before generated task {u}, whose product it reads, although generator {made_before[0]} had already created it", ()))
    return probs


def o_selection(cimp, ctx):
    """C06 on projects with generated tasks: a started task matches the -k expression or something
    that matches depends on it (generated tasks: 20000+k reads file 10000+k of pattern k // 100 and
    writes 30000+k, which 40000+k reads)."""
    expr = ctx["op"]["cfg"]["expression"]
    probs = []
    if not expr or cimp["exit"] not in (0, 1):
        return probs
    tasks = ctx["op"]["tasks"]
    names = {EC.tid_of_name(s["name"]): s["name"] for s in ctx["raw"].get("tasks", [])}
    try:
        match = {i for i, nm in names.items() if EC.eval_expr(expr, lambda w, nm=nm: w.lower() in nm.lower())}
    except Exception:  # noqa: BLE001
        return probs
    reads, writes = reads_writes(tasks, names)
    eligible, frontier = set(match), list(match)
    while frontier:
        x = frontier.pop()
        for u, wr in writes.items():
            if u not in eligible and wr & reads.get(x, set()):
                eligible.add(u); frontier.append(u)
    # a generator is needed to create generated tasks that match
    for t in tasks:
        if t["is_gen"] and t["id"] not in eligible and t["id"] in match:
            eligible.add(t["id"])
    for s_ in set(EO._started(cimp)):
        if s_ in names and s_ not in eligible:
            probs.append((f"task {s_} ({names[s_]}) was executed although neither it nor anything depending on it matches -k {expr!r}", ()))
    return probs


def o_once(cimp, ctx):
    """C08/C01 on projects with generators: no task function runs twice in a build; a task reported
    SUCCESS ran exactly once; non-run outcomes did not run."""
    probs = []
    if cimp["exit"] not in (0, 1):
        return probs
    starts = EO._started(cimp)
    for t in sorted(set(starts)):
        if starts.count(t) > 1:
            probs.append((f"the function of task {t} ran {starts.count(t)} times in one build", ()))
    for t, o in cimp["reports"]:
        if o == O["SUCCESS"] and starts.count(t) != 1:
            probs.append((f"task {t} reported SUCCESS but its function ran {starts.count(t)} times", ()))
        if o in (O["SKIP"], O["SKIP_UNCHANGED"], O["SKIP_PREVIOUS_FAILED"], O["WOULD_BE_EXECUTED"], O["PERSISTENCE"]) and t in starts:
            probs.append((f"task {t} reported {EC.OUTCOMES[o]} but its function ran", ()))
    nfail = sum(1 for _, o in cimp["reports"] if o == O["FAIL"])
    if (cimp["exit"] == 0) != (nfail == 0):
        probs.append((f"exit code {cimp['exit']} with {nfail} failed tasks", ()))
    return probs


def run_phistories(out, cases, seed, tag, oracles):
    """Implementation vs Model/EngineP.v on the given histories; returns (#builds, #histories)."""
    base = str(Path(cases[0]["root"]).parent.parent) if cases else None
    try:
        obs_all = EC.run_impl_histories(cases, hashseed=seed % 5)
    finally:
        if base:
            shutil.rmtree(base, ignore_errors=True)
    terms, idx = [], []
    for ci, (case, obs) in enumerate(zip(cases, obs_all)):
        if any("raised" in o for o in obs):
            out.disagreement("pytask.build raised", {"case": case, "obs": [o.get("raised") for o in obs]})
            continue
        terms.append(history_term(case, obs)); idx.append(ci)
    model = coq_eval_cases(tag, IMPORTS, "run_phist", terms, shard=10)
    nb = 0
    for ci, mo in zip(idx, model):
        case, obs = cases[ci], obs_all[ci]
        sigs = {"t": {}, "n": {}}
        modsha, prev, ok_case = {}, [], True
        builds = [op for op in case["ops"] if op["op"] == "build"]
        for bi, (op, o, m) in enumerate(zip(builds, obs, mo)):
            for mm, (v, h) in o["mods"].items():
                modsha[v] = h
            cimp = EC.canon_impl(o, sigs)
            cmod = EC.canon_model(tuple(m) + ([],), o, modsha)
            nb += 1
            ci_cmp = dict(cimp, effects=[]); cm_cmp = dict(cmod, effects=[])
            d = EC.compare(ci_cmp, cm_cmp)
            out.case({"tasks": [{k: t[k] for k in ("id", "deps", "prods", "pdeps", "pprods", "is_gen", "clears", "two_stage", "pspell")} for t in op["tasks"]],
                      "cfg": op["cfg"], "reports": cimp["reports"], "i": (ci, bi)}, nontrivial=len(cimp["reports"]) > 0)
            for t, oc in cimp["reports"]:
                out.count("outcome_" + EC.OUTCOMES[oc])
            out.count("children_reported", sum(1 for t, _ in cimp["reports"] if t >= 20000))
            ctx = {"case": case, "bi": bi, "op": op, "prev": prev, "raw": o, "sigs": sigs, "modsha": modsha}
            found = []
            for orc in oracles:
                found = found + orc(cimp, ctx)
            if d and ok_case:
                ok_case = False
                out.disagreement("provisional engine observation differs from the model", {"history_ops": case["ops"], "build_index": bi, "diffs": d[:3]})
            for what, fids in found:
                out.violation(what, {"history_ops": case["ops"], "build_index": bi, "reports": cimp["reports"], "log": cimp["log"]}, finding_matchers=fids)
            prev.append((op, cimp, o))
    return nb, len(idx)


def run(out, tier, seed, proof):
    rng = rng_for(seed, "c18")
    n = 60 if tier == "quick" else 800
    base = tempfile.mkdtemp(prefix="verifeng_C18_")
    cases = [gen_history(rng, i, base) for i in range(n)]
    # F25 regression: two generators over one pattern in one module, one of them raising after it created tasks
    for first in ("raise_after", "raise_before"):
        ts = [tk(1, deps=[101], pprods=[1], clears=True), tk(4, pdeps=[1], is_gen=True), tk(5, pdeps=[1], is_gen=True, two_stage=True)]
        cases.append({"idx": len(cases), "root": str(Path(base) / f"c{len(cases)}" / "p"), "sources": [101, 102],
                      "ops": [{"op": "set", "n": 101, "c": 6}, {"op": "set", "n": 102, "c": 7},
                              {"op": "build", "tasks": ts, "cfg": dict(PLAIN), "faults": {"4": first}},
                              {"op": "build", "tasks": ts, "cfg": dict(PLAIN), "faults": {"5": first}},
                              {"op": "build", "tasks": ts, "cfg": dict(PLAIN), "faults": {}}]})
    nb, nh = run_phistories(out, cases, seed, "C18", [o_c18, o_selection, o_once, o_order])
    # generated tasks named by their POSITION in the list the generator receives (no explicit id, the idiom of the
    # documentation): rebuilt in other interpreters (other hash seeds) with nothing changed, none of them runs again
    import textwrap
    pos = Path(tempfile.mkdtemp(prefix="verif_c18pos_"))
    try:
        (pos / "src").mkdir()
        for k, nm in enumerate("abcdefg"):
            (pos / "src" / f"{nm}.in").write_text(str(k))
        (pos / "pyproject.toml").write_text("[tool.pytask.ini_options]\n")
        (pos / "task_pos.py").write_text(textwrap.dedent("""
            from pathlib import Path
            from typing import Annotated
            from pytask import DirectoryNode, Product, task
            ROOT = Path(__file__).parent
            @task(is_generator=True)
            def task_gen(files: Annotated[list[Path], DirectoryNode(root_dir=ROOT / "src", pattern="*.in")]):
                for f in files:
                    @task
                    def task_copy(src: Path = f, dst: Annotated[Path, Product] = ROOT / "out" / (f.stem + ".txt")):
                        dst.parent.mkdir(exist_ok=True)
                        dst.write_text(src.read_text())
        """))
        for i, hs in enumerate([1, 2, 3, 4] if tier == "quick" else [1, 2, 3, 4, 5, 6, 7, 8]):
            r = run_impl_worker("impl_rebuild.py", {"paths": [str(pos)]}, hashseed=hs)
            out.case({"scenario": "position-based ids", "build": i, "hashseed": hs}, nontrivial=True)
            out.count("positional_builds")
            ran = [t for t, o in r["reports"] if o == "SUCCESS" and t.startswith("task_copy")]
            if r["exit"] != 0 or (i == 0 and len(ran) != 7):
                out.disagreement("the position-based generator scenario did not build", {"build": i, "result": r})
            if i > 0 and ran:
                out.violation("generated tasks were executed again in another interpreter although nothing changed (the order of the files a generator receives is not stable)",
                              {"build": i, "hashseed": hs, "executed_again": ran})
    finally:
        shutil.rmtree(pos, ignore_errors=True)
    run_id_scenarios(out, rng, 4 if tier == "quick" else 40)
    out.coverage["builds_compared"] = nb
    out.coverage["traces_validated_against_impl"] = nh
    out.sample({"history": [o if o["op"] != "build" else {"op": "build", "cfg": o["cfg"],
                "tasks": [{k: t[k] for k in ("id", "deps", "prods", "pdeps", "pprods", "is_gen", "clears", "two_stage", "pspell")} for t in o["tasks"]]} for o in cases[0]["ops"]]})
