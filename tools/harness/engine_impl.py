"""Runs real pytask builds for the engine correspondence. Imported inside worker
processes whose environment points at the implementation under test; each build
runs in a forked child so that it sees a fresh interpreter state."""
from __future__ import annotations

import hashlib
import json
import os
import shutil
import sqlite3
import sys
import traceback
from pathlib import Path


def render_module(root: Path, tasks: list[dict], version: int) -> str:
    lines = [
        "import pytask", "from pathlib import Path", "from typing import Annotated",
        "from pytask import Product, task", "import verif_rt", "",
        f"ROOT = Path({str(root)!r})", f"VERSION = {version}", "",
    ]
    for n in sorted({x for t in tasks for x in t["deps"] + t["prods"] if 300 <= x < 400}):
        lines.append(f"M{n} = pytask.PythonNode(name='m{n}')")
    for t in tasks:
        decos = []
        if t.get("skip"):
            decos.append("@pytask.mark.skip")
        for b in t.get("skipifs", []):
            decos.append(f"@pytask.mark.skipif({b}, reason='r')")
        if t.get("persist"):
            decos.append("@pytask.mark.persist")
        if t.get("prio") == 1:
            decos.append("@pytask.mark.try_first")
        if t.get("prio") == -1:
            decos.append("@pytask.mark.try_last")
        for m in t.get("marks", []):
            decos.append(f"@pytask.mark.{m}")
        kw = []
        if t.get("after_fn"):
            kw.append("after=[" + ", ".join(f"task_t{u}_" for u in t["after_fn"]) + "]")
        elif t.get("after_expr") is not None:
            kw.append(f"after={t['after_expr']!r}")
        opt = t.get("opt") or []
        if opt:
            # dependencies that are part of the task only while a flag file exists when the module is imported:
            # the set of dependencies changes although the source of the module does not
            # (all file dependencies of such a task come through one list, which is never empty: an empty container
            # would be collected as a PythonNode of its own)
            static = [d for d in t["deps"] if d not in opt and not 200 <= d < 400]
            lines.append(f"_OPT{t['id']} = [ROOT / f'f{{d}}.txt' for d in {static!r}] + "
                         f"([ROOT / f'f{{d}}.txt' for d in {sorted(opt)!r}] if (ROOT / 'opt{t['id']}.flag').exists() else [])")
            kw.append(f"kwargs={{'opt': _OPT{t['id']}}}")
        if kw or t.get("use_decorator"):
            decos.append("@task(" + ", ".join(kw) + ")")
        args = [f"d{j}: Path = ROOT / 'f{d}.txt'" for j, d in enumerate(t["deps"]) if not 200 <= d < 400 and not opt]
        # hashed Python inputs (node ids 200-299): a PythonNode around a list, no default -> first in the signature
        hargs = [f"pv{d}: Annotated[list, pytask.PythonNode(value=verif_rt.vt(ROOT, {d}), hash=True)]"
                 for d in t["deps"] if 200 <= d < 300]
        # values handed over in memory (node ids 300-399): module-level PythonNodes
        hargs += [f"m{d}: Annotated[int, M{d}]" for d in t["deps"] if 300 <= d < 400]
        if opt:
            hargs.append("opt")
        sp = t.get("spell", {})
        def _pp(p):
            v = sp.get(str(p))
            if v == "dot":
                return f"ROOT / '.' / 'f{p}.txt'"
            if v == "updown":
                return f"ROOT / 'sub' / '..' / 'f{p}.txt'"
            return f"ROOT / 'f{p}.txt'"
        def _pa(j, p):
            if sp.get(str(p)) == "node_updown":      # an explicit node with an absolute, unnormalised path
                return f"p{j}: Annotated[Path, pytask.PathNode(path=ROOT / 'sub' / '..' / 'f{p}.txt'), Product]"
            return f"p{j}: Annotated[Path, Product] = {_pp(p)}"
        pargs = [_pa(j, p) for j, p in enumerate(t["prods"]) if not 300 <= p < 400]
        memp = [p for p in t["prods"] if 300 <= p < 400]
        args = hargs + [a for a in pargs if "=" not in a.split("]")[-1]] + args + [a for a in pargs if "=" in a.split("]")[-1]]
        lines += decos
        ret = f" -> Annotated[int, M{memp[0]}]" if memp else ""
        lines.append(f"def task_t{t['id']}_({', '.join(args)}){ret}:")
        dl = "[" + ", ".join((f"pv{d}" if 200 <= d < 300 else (f"m{d}" if 300 <= d < 400 else f"d{j}")) for j, d in enumerate(t["deps"]) if not opt or 200 <= d < 400) + "]"
        if opt:
            dl += " + list(opt)"
        pl = "{" + ", ".join(f"{p}: p{j}" for j, p in enumerate(t["prods"]) if not 300 <= p < 400) + "}"
        lines.append(f"    return verif_rt.body(ROOT, {t['id']}, VERSION, {dl}, {pl}, mem={memp[0] if memp else None})")
        for a in t.get("attrs", []):
            lines.append(f"task_t{t['id']}_.{a} = 1")
        lines.append("")
    return "\n".join(lines)


def render_pmodule(root: Path, tasks: list[dict], version: int) -> str:
    """Module with provisional producers/consumers and task generators (C18)."""
    lines = [
        "import pytask", "from pathlib import Path", "from typing import Annotated",
        "from pytask import DirectoryNode, Product, task", "import verif_rt", "",
        f"ROOT = Path({str(root)!r})", f"VERSION = {version}", "",
        "def _child(_k, _f, _two=False):",
        "    @task(name=f'task_t{20000 + _k}_')",
        "    def _(src: Path = _f, dst: Annotated[Path, Product] = ROOT / f'f{30000 + _k}.txt'):",
        "        verif_rt.body(ROOT, 20000 + _k, VERSION, [src], {30000 + _k: dst})",
        "    if _two:",
        "        @task(name=f'task_t{40000 + _k}_')",
        "        def _(src: Path = ROOT / f'f{30000 + _k}.txt', dst: Annotated[Path, Product] = ROOT / f'f{50000 + _k}.txt'):",
        "            verif_rt.body(ROOT, 40000 + _k, VERSION, [src], {50000 + _k: dst})",
        "",
    ]
    for t in tasks:
        i = t["id"]
        decos = []
        if t.get("skip"):
            decos.append("@pytask.mark.skip")
        if t.get("persist"):
            decos.append("@pytask.mark.persist")
        if t.get("prio") == 1:
            decos.append("@pytask.mark.try_first")
        if t.get("prio") == -1:
            decos.append("@pytask.mark.try_last")
        if t.get("is_gen"):
            decos.append("@task(is_generator=True)")
        elif t.get("after_expr"):
            decos.append(f"@task(after={t['after_expr']!r})")
        args = []
        pat_args = []
        def _rd(p):
            return {"abs": f"ROOT / 'pat{p}'", "rel": f"Path('pat{p}')", "rel_updown": f"Path('sub/../pat{p}')",
                    "abs_updown": f"ROOT / 'sub' / '..' / 'pat{p}'"}[(t.get("pspell") or {}).get(str(p), "abs")]
        for j, p in enumerate(t.get("pdeps", [])):
            args.append(f"pf{j}: Annotated[list[Path], DirectoryNode(root_dir={_rd(p)}, pattern='*.in')]")
            pat_args.append(f"pf{j}")
        pdir = "None"
        for j, p in enumerate(t.get("pprods", [])):
            args.append(f"pd{j}: Annotated[Path, DirectoryNode(root_dir={_rd(p)}, pattern='*.in'), Product]")
            pdir = f"pd{j}"
        def _fp(n):      # a file inside a pattern directory named as an ordinary path
            return f"ROOT / 'pat{(n - 10000) // 100}' / 'g{(n - 10000) % 100}.in'" if 10000 <= n < 20000 else f"ROOT / 'f{n}.txt'"
        args += [f"d{j}: Path = {_fp(d)}" for j, d in enumerate(t["deps"])]
        args += [f"p{j}: Annotated[Path, Product] = {_fp(p)}" for j, p in enumerate(t["prods"])]
        lines += decos
        lines.append(f"def task_t{i}_({', '.join(args)}):")
        dl = "[" + ", ".join(f"d{j}" for j in range(len(t["deps"]))) + "]"
        pl = "{" + ", ".join(f"{p}: p{j}" for j, p in enumerate(t["prods"])) + "}"
        fl = " + ".join(f"list({a})" for a in pat_args) or "[]"
        if t.get("is_gen"):
            lines += [
                f"    verif_rt.gen_begin(ROOT, {i})",
                f"    for _f in sorted({fl}, key=verif_rt._nid):",
                f"        _child(verif_rt._nid(_f) - 10000, _f, {bool(t.get('two_stage'))})",
                f"    verif_rt.gen_end(ROOT, {i}, VERSION, {dl}, {fl}, {pl})",
            ]
        else:
            lines.append(f"    verif_rt.pbody(ROOT, {i}, VERSION, {dl}, {fl}, {pl}, pdir={pdir}, clears={bool(t.get('clears'))})")
        lines.append("")
    return "\n".join(lines)


class Snap:
    """Observation plugin: snapshot of the collected tasks."""

    def __init__(self):
        self.tasks = []

    def pytask_collect_modify_tasks(self, session, tasks):
        for t in tasks:
            self.tasks.append({
                "name": t.name, "sig": t.signature,
                "attrs": sorted(getattr(t.function, "__dict__", {})),
                "marks": [m.name for m in t.markers],
            })
        self.dump(session)

    def pytask_execute_log_start(self, session):
        self.dump(session)

    def dump(self, session):
        """A killed process cannot report: keep what is known so far in a side file."""
        nodes = {}
        dag = getattr(session, "dag", None)
        if dag is not None:
            for sig in dag.nodes:
                n = dag.nodes[sig].get("node")
                if n is not None and hasattr(n, "path"):
                    nodes[sig] = n.path.parent.name + "/" + n.path.name if n.path.suffix == ".in" else n.path.name
                elif n is not None and hasattr(n, "node_info") and str(getattr(n, "name", "")).split("::")[-1][:2] in ("pv", "m3"):
                    nodes[sig] = str(n.name).split("::")[-1]
        root = session.config["root"]
        (root / "snapshot.json").write_text(json.dumps({"tasks": self.tasks, "nodes": nodes}))


def _child(root: str, cfg: dict, wfd: int, crash: dict | None):
    try:
        dn = os.open(os.devnull, os.O_WRONLY)
        os.dup2(dn, 1)
        os.dup2(dn, 2)
        os.chdir(root)
        import pluggy
        import _pytask.build as B
        from _pytask.pluginmanager import hookimpl
        snap = Snap()
        Snap.pytask_collect_modify_tasks = hookimpl(trylast=True)(Snap.pytask_collect_modify_tasks)
        Snap.pytask_execute_log_start = hookimpl(trylast=True)(Snap.pytask_execute_log_start)
        orig = B.get_plugin_manager

        def gpm():
            pm = orig()
            pm.register(snap)
            return pm

        import engine_crash
        rep = engine_crash.Reporter()
        engine_crash.Reporter.pytask_execute_task_log_end = hookimpl(wrapper=True)(engine_crash.Reporter.pytask_execute_task_log_end)

        def gpm():
            pm = orig()
            pm.register(snap)
            pm.register(rep)
            return pm

        B.get_plugin_manager = gpm
        engine_crash.install(root, crash, None)
        kw = dict(cfg)
        if kw.get("max_failures") is None:
            kw.pop("max_failures", None)
        kw.setdefault("capture", "fd")
        session = B.build(paths=[Path(root)], **kw)
        out = {"exit": int(session.exit_code), "tasks": snap.tasks}
        known = {t["sig"] for t in snap.tasks}
        for t in getattr(session, "tasks", []):      # tasks created by generators during the build
            if t.signature not in known:
                out["tasks"].append({"name": t.name, "sig": t.signature, "attrs": [], "marks": [m.name for m in t.markers]})
        out["errors"] = [(r.task.signature, repr(r.exc_info[1])[:400]) for r in getattr(session, "execution_reports", []) if r.exc_info]
        out["reports"] = [(r.task.signature, r.outcome.name) for r in getattr(session, "execution_reports", [])]
        nodes = {}
        dag = getattr(session, "dag", None)
        if dag is not None:
            for sig in dag.nodes:
                n = dag.nodes[sig].get("node")
                if n is not None and hasattr(n, "path"):
                    nodes[sig] = n.path.parent.name + "/" + n.path.name if n.path.suffix == ".in" else n.path.name
                elif n is not None and hasattr(n, "node_info") and str(getattr(n, "name", "")).split("::")[-1][:2] in ("pv", "m3"):
                    nodes[sig] = str(n.name).split("::")[-1]
        out["nodes"] = nodes
        os.write(wfd, json.dumps(out).encode())
    except BaseException:  # noqa: BLE001
        os.write(wfd, json.dumps({"raised": traceback.format_exc()[-3000:]}).encode())
    finally:
        os._exit(0)


def forked_build(root: Path, cfg: dict, crash: dict | None = None) -> dict:
    r, w = os.pipe()
    pid = os.fork()
    if pid == 0:
        os.close(r)
        _child(str(root), cfg, w, crash)
    os.close(w)
    chunks = []
    while True:
        b = os.read(r, 1 << 16)
        if not b:
            break
        chunks.append(b)
    os.close(r)
    _, status = os.waitpid(pid, 0)
    data = b"".join(chunks)
    snapf = Path(root) / "snapshot.json"
    snap = json.loads(snapf.read_text()) if snapf.exists() else {}
    snapf.unlink(missing_ok=True)
    if not data:
        return {"killed": True, "status": status, "tasks": snap.get("tasks", []), "nodes": snap.get("nodes", {}), "reports": []}
    return json.loads(data)


def read_db(root: Path) -> list:
    p = root / ".pytask" / "pytask.sqlite3"
    if not p.exists():
        return []
    con = sqlite3.connect(str(p))
    try:
        rows = con.execute("select task, node, hash_ from state").fetchall()
    except sqlite3.OperationalError:
        rows = []
    con.close()
    return sorted(rows)


def read_files(root: Path) -> dict:
    out = {}
    for p in root.glob("f*.txt"):
        try:
            out[int(p.stem[1:])] = p.read_text()
        except ValueError:
            pass
    for p in root.glob("pat*/g*.in"):
        out[10000 + 100 * int(p.parent.name[3:]) + int(p.stem[1:])] = p.read_text()
    return out


def read_effects(root: Path) -> list:
    p = root / "effects.log"
    if not p.exists():
        return []
    out = [l.split() for l in p.read_text().splitlines()]
    p.unlink()
    return out


def read_log(root: Path) -> list:
    p = root / "exec.log"
    if not p.exists():
        return []
    out = [l.split() for l in p.read_text().splitlines()]
    p.unlink()
    return [(a, int(b)) for a, b in out]


def sha(s: str) -> str:
    return hashlib.sha256(s.encode()).hexdigest()


_clock = [1_600_000_000_000_000_000]


def stamp(path: Path):
    """Give every written file a fresh, strictly increasing mtime (mtime-honesty)."""
    _clock[0] += 1_000_000_000
    os.utime(path, ns=(_clock[0], _clock[0]))
