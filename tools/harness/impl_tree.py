"""Implementation side of the C07 correspondence: pytask's tree utilities and real builds
of generated task programs."""
import json
import os
import pickle
import shutil
import subprocess
import sys
import tempfile
from pathlib import Path

from _pytask.tree_util import tree_leaves, tree_map, tree_structure


def build(t):
    k = t[0]
    if k == "L":
        return None if t[1] == 0 else t[1]
    if k == "list":
        return [build(x) for x in t[1]]
    if k == "tuple":
        return tuple(build(x) for x in t[1])
    return {key: build(v) for key, v in t[1]}


def unbuild(v):
    if isinstance(v, list):
        return ["list", [unbuild(x) for x in v]]
    if isinstance(v, tuple):
        return ["tuple", [unbuild(x) for x in v]]
    if isinstance(v, dict):
        return ["dict", [[k, unbuild(x)] for k, x in sorted(v.items())]]
    return ["L", 0 if v is None else v]


def tree_case(c):
    decl, out = build(c["decl"]), build(c["out"])
    sd, so = tree_structure(decl), tree_structure(out)
    r = {"leaves": [0 if x is None else x for x in tree_leaves(decl)]}
    r["prefix"] = bool(sd.is_prefix(so, strict=False))
    try:
        r["flat"] = [unbuild(v) for v in sd.flatten_up_to(out)]
    except Exception as e:  # noqa: BLE001
        r["flat"] = None
    r["mapped"] = unbuild(tree_map(lambda x: (0 if x is None else x) + 1000, decl))
    return r


PROGRAM = '''
from pathlib import Path
from typing import Annotated, Any
import pickle
from pytask import DirectoryNode, PickleNode, PathNode, PythonNode, Product, task
ROOT = Path(__file__).parent

def N(i):
    if i >= 9000:      # a provisional node among the declared products: nothing is stored for it
        return DirectoryNode(root_dir=ROOT / f"dyn{{i}}", pattern="*.x")
    return PickleNode(name=f"n{{i}}", path=ROOT / f"out{{i}}.pkl")

DECL = {decl}

def task_ret() -> Annotated[Any, DECL]:
    return {out}
'''

KW_PROGRAM = '''
from pathlib import Path
from typing import Annotated, Any
import json
from pytask import PickleNode, PathNode, PythonNode, Product, task
ROOT = Path(__file__).parent

def V(i):
    return PythonNode(value=i, hash=True)

def W(i):
    return PythonNode(value=i)          # not hashed

def show(x):
    if isinstance(x, dict):
        return ["dict", [[k, show(v)] for k, v in sorted(x.items())]]
    if isinstance(x, list):
        return ["list", [show(v) for v in x]]
    if isinstance(x, tuple):
        return ["tuple", [show(v) for v in x]]
    if isinstance(x, Path):
        return ["P", x.name]
    if isinstance(x, bool):
        return ["B", x]
    if isinstance(x, float):
        return ["F", x]
    if x is None or isinstance(x, int):
        return ["L", 0 if x is None else x]
    return ["OBJ", type(x).__name__]

{decos}
def task_kw({params}, out: Annotated[Path, Product] = ROOT / "kw.json"):
    out.write_text(json.dumps({{{shown}}}))
'''


TYPED = ["1", "True", "1.0", "0", "False", "0.0"]


def src(t, leaf):
    k = t[0]
    if k == "L":
        return leaf(t[1])
    if k == "list":
        return "[" + ", ".join(src(x, leaf) for x in t[1]) + "]"
    if k == "tuple":
        return "(" + "".join(src(x, leaf) + ", " for x in t[1]) + ")"
    return "{" + ", ".join(f"{key!r}: {src(v, leaf)}" for key, v in t[1]) + "}"


def run_build(proj):
    code = ("import json, pytask\nfrom pathlib import Path\n"
            f"s = pytask.build(paths=[Path({str(proj)!r})])\n"
            "print(json.dumps({'exit': int(s.exit_code), 'out': [(r.task.name, r.outcome.name) for r in getattr(s, 'execution_reports', [])]}))\n")
    p = subprocess.run([sys.executable, "-c", code], capture_output=True, text=True, cwd=proj)
    try:
        return json.loads(p.stdout.strip().splitlines()[-1])
    except Exception:  # noqa: BLE001
        return {"exit": -1, "err": (p.stdout + p.stderr)[-1200:]}


def program_case(c, d):
    proj = d / "p"
    if proj.exists():
        shutil.rmtree(proj)
    proj.mkdir()
    (proj / "task_r.py").write_text(PROGRAM.format(
        decl=src(c["decl"], lambda i: f"N({i})"), out=src(c["out"], lambda i: "None" if i == 0 else str(i))))
    r = run_build(proj)
    files = {}
    for f in proj.glob("out*.pkl"):
        files[int(f.stem[3:])] = unbuild(pickle.loads(f.read_bytes()))
    r["files"] = files
    return r


def kw_case(c, d):
    proj = d / "k"
    if proj.exists():
        shutil.rmtree(proj)
    proj.mkdir()
    params, shown, decos, kwitems, pre = [], [], [], [], []
    order = {"kwargs": 0, "typed_kwargs": 0, "python": 1, "python_nohash": 1, "handover": 1, "handover_init": 1,
             "path_default": 2, "mixed_default": 2, "typed_default": 2, "handover_mixed_default": 2}
    for name, form, t in sorted(c["args"], key=lambda a: order[a[1]]):
        if form == "python":          # Annotated PythonNode values in nested containers
            params.append(f"{name}: Annotated[Any, {src(t, lambda i: f'V({i})')}]")
        elif form == "path_default":  # pytree of paths as default
            for i in leaves_of(t):
                (proj / f"in{i}.txt").write_text(str(i))
            params.append(f"{name}: Any = {src(t, lambda i: 'ROOT / ' + repr(f'in{i}.txt'))}")
        elif form == "python_nohash":  # hash-less PythonNodes in nested containers
            params.append(f"{name}: Annotated[Any, {src(t, lambda i: f'W({i})')}]")
        elif form == "mixed_default":  # a default mixing plain values and PythonNodes
            params.append(f"{name}: Any = {src(t, lambda i: f'W({i})' if i % 2 else str(i))}")
        elif form in ("typed_default", "typed_kwargs"):
            # plain values that compare equal but are different (1, True, 1.0 / 0, False, 0.0) next to a path
            (proj / f"in_{name}.txt").write_text("t")
            lit = "[" + src(t, lambda i: TYPED[i % 6]) + ", ROOT / " + repr(f"in_{name}.txt") + "]"
            if form == "typed_default":
                params.append(f"{name}: Any = {lit}")
            else:
                kwitems.append(f"{name!r}: {lit}")
                params.append(f"{name}")
        elif form in ("handover", "handover_init", "handover_mixed_default"):
            # values handed over in memory: every node is the return product of a task of its own; the consumer
            # receives, at the declared positions, what the producers returned
            mixed = form == "handover_mixed_default"
            for i in leaves_of(t):
                if mixed and i % 2 == 0:
                    continue
                init = ", value=0" if form == "handover_init" else ""
                pre.append(f"H{i} = PythonNode(name='h{i}'{init})")
                pre.append(f"def task_p{i}() -> Annotated[int, H{i}]:\n    return {i}\n")
            if mixed:
                params.append(f"{name}: Any = {src(t, lambda i: f'H{i}' if i % 2 else str(i))}")
            else:
                params.append(f"{name}: Annotated[Any, {src(t, lambda i: f'H{i}')}]")
        elif form == "kwargs":        # @task(kwargs={name: value})
            kwitems.append(f"{name!r}: {src(t, lambda i: f'V({i})')}")
            params.append(f"{name}")
        shown.append(f"{name!r}: show({name})")
    if kwitems:      # one decorator for all keyword arguments given through @task(kwargs=...)
        decos.append("@task(kwargs={" + ", ".join(kwitems) + "})")
    (proj / "task_k.py").write_text(KW_PROGRAM.format(decos="\n".join(pre + decos), params=", ".join(params), shown=", ".join(shown)))
    r = run_build(proj)
    f = proj / "kw.json"
    r["kwargs"] = json.loads(f.read_text()) if f.exists() else None
    return r


SHARED = '''
from pathlib import Path
from typing import Annotated
import json
from pytask import Product, task
ROOT = Path(__file__).parent
common = {{"shared": {base}}}
{tasks}
'''


def shared_case(c, d):
    proj = d / "s"
    if proj.exists():
        shutil.rmtree(proj)
    proj.mkdir()
    tasks, want = [], {}
    for i in range(c["n"]):
        tasks.append(f"@task(kwargs=common, id='t{i}')\ndef work(shared, i={i * 7 + 1}, tags=({i},), out: Annotated[Path, Product] = ROOT / 'w{i}.json'):\n"
                     f"    out.write_text(json.dumps([shared, i, list(tags)]))\n")
        want[str(i)] = [c["base"], i * 7 + 1, [i]]
    (proj / "task_s.py").write_text(SHARED.format(base=c["base"], tasks="\n".join(tasks)))
    r = run_build(proj)
    got = {}
    for i in range(c["n"]):
        f = proj / f"w{i}.json"
        got[str(i)] = json.loads(f.read_text()) if f.exists() else None
    return {"case": c, "exit": r.get("exit"), "got": got, "want": want}


def leaves_of(t):
    if t[0] == "L":
        return [t[1]]
    if t[0] == "dict":
        return [x for _, v in t[1] for x in leaves_of(v)]
    return [x for v in t[1] for x in leaves_of(v)]


def main():
    req = json.load(sys.stdin)
    res = {}
    if "trees" in req:
        res["trees"] = [tree_case(c) for c in req["trees"]]
    d = Path(tempfile.mkdtemp(prefix="verif_c07_"))
    try:
        if "programs" in req:
            res["programs"] = [program_case(c, d) for c in req["programs"]]
        if "kwprograms" in req:
            res["kwprograms"] = [kw_case(c, d) for c in req["kwprograms"]]
        if "shared_kwargs" in req:
            res["shared_kwargs"] = [shared_case(c, d) for c in req["shared_kwargs"]]
    finally:
        shutil.rmtree(d, ignore_errors=True)
    json.dump(res, sys.stdout)


if __name__ == "__main__":
    main()
