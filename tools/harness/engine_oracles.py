"""Direct oracles: each restates one property on what the implementation did in one build
(and the builds before it), independently of the Coq model. They return [(what, finding_ids)]."""
from __future__ import annotations

import engine_impl as EI
import verif_rt
from engine_common import OUTCOMES, after_targets, closure, declared_upstream, ideal_contents, eval_expr

O = {n: i for i, n in enumerate(OUTCOMES)}
NONRUN = {O["SKIP"], O["SKIP_UNCHANGED"], O["SKIP_PREVIOUS_FAILED"], O["PERSISTENCE"], O["WOULD_BE_EXECUTED"]}


def _tasks(ctx):
    return {t["id"]: t for t in ctx["op"]["tasks"]}


def _started(cimp):
    return [e // 2 for e in cimp["log"] if e % 2 == 0]


def after_only_pairs(tasks):
    """(u, t): t declares `after` u and u has no products and t consumes nothing of u."""
    out = set()
    byid = {t["id"]: t for t in tasks}
    for t in tasks:
        for u in after_targets(t, tasks):
            if not byid[u]["prods"]:
                out.add((u, t["id"]))
    return out


def through_f1(u, t, tasks):
    """Is every declared path u ->* t broken when after-edges to product-less tasks are dropped?"""
    f1 = after_only_pairs(tasks)
    up = declared_upstream(tasks)
    up2 = {k: {x for x in v if (x, k) not in f1} for k, v in up.items()}
    return u in closure(up)[t] and u not in closure(up2)[t]


def o_c01(cimp, ctx):
    probs = []
    tasks = ctx["op"]["tasks"]
    cl = closure(declared_upstream(tasks))
    starts = _started(cimp)
    for t in set(starts):
        if starts.count(t) > 1:
            probs.append((f"task {t} was started {starts.count(t)} times in one build", ()))
    order = [t for t, _ in cimp["reports"]]
    for i, e in enumerate(cimp["log"]):
        if e % 2:
            continue
        t = e // 2
        for u in cl.get(t, ()):
            late = [x for x in cimp["log"][i + 1:] if x // 2 == u]
            rep_late = u in order and t in order and order.index(u) > order.index(t)
            if late or rep_late:
                fid = ("F1",) if through_f1(u, t, tasks) else ()
                probs.append((f"task {t} started before task {u}, which it depends on, had finished", fid))
    return probs


def o_c08(cimp, ctx):
    probs = []
    tasks = _tasks(ctx)
    cfg, faults = ctx["op"]["cfg"], ctx["op"]["faults"]
    ill = graph_illformed(list(tasks.values()))
    if ill and cimp["exit"] != 4:
        probs.append((f"graph error ({ill}) reported with exit code {cimp['exit']} instead of the graph phase code 4",
                      ("F1",) if ill == "after_cycle_f1" else ()))
    if cimp["exit"] not in (0, 1) or (ill and ill != "after_cycle_f1"):
        return probs
    rep = cimp["reports"]
    ids = [t for t, _ in rep]
    if len(set(ids)) != len(ids):
        probs.append(("a task was reported twice", ()))
    if any(t not in tasks for t in ids):
        probs.append(("report for an unknown task", ()))
    nfail = sum(1 for _, o in rep if o == O["FAIL"])
    stopped = cfg["max_failures"] is not None and nfail >= cfg["max_failures"]
    if not stopped and set(ids) != set(tasks):
        probs.append((f"tasks without report although the build was not stopped: {sorted(set(tasks) - set(ids))}", ()))
    starts = _started(cimp)
    files = cimp["files"]
    for t, o in rep:
        tk = tasks.get(t)
        if tk is None:
            continue
        if o == O["SUCCESS"]:
            if starts.count(t) != 1:
                probs.append((f"task {t} reported SUCCESS but its function ran {starts.count(t)} times", ()))
            miss = [p for p in tk["prods"] if p not in files and not 300 <= p < 400]      # 300-399: handed over in memory
            if miss:
                probs.append((f"task {t} reported SUCCESS but products {miss} do not exist", ()))
        if o in NONRUN and t in starts:
            probs.append((f"task {t} reported {OUTCOMES[o]} but its function ran", ()))
        f = faults.get(str(t))
        if o == O["FAIL"]:
            before = ctx["raw"]["files_before"]
            fdeps = [d for d in tk["deps"] if not 300 <= d < 400]
            missing_dep = any(str(d) not in before and d not in files for d in fdeps) or any(d not in files for d in fdeps)
            after_miss = False
            for ui in after_targets(tk, list(tasks.values())):
                after_miss |= any(p not in files for p in tasks[ui]["prods"])
            if not (f or missing_dep or after_miss):
                probs.append((f"task {t} reported FAIL without an injected fault or a missing dependency", ()))
        if isinstance(f, dict) and all(p in files for p in f["omit"]):
            f = None      # the omitted products exist from an earlier run: nothing is missing
        if f and t in starts and o != O["FAIL"]:
            probs.append((f"task {t} ran with an injected fault but was reported {OUTCOMES[o]}", ()))
    if (cimp["exit"] == 0) != (nfail == 0):
        probs.append((f"exit code {cimp['exit']} with {nfail} failed tasks", ()))
    return probs


def o_c04(cimp, ctx):
    probs = []
    tasks = ctx["op"]["tasks"]
    cfg = ctx["op"]["cfg"]
    if cimp["exit"] not in (0, 1):
        return probs
    cl = closure(declared_upstream(tasks))
    rep = dict(cimp["reports"])
    failed = [t for t, o in cimp["reports"] if o == O["FAIL"]]
    starts = _started(cimp)
    for u in failed:
        for t in cl:
            if u in cl[t]:
                fid = ("F1",) if through_f1(u, t, tasks) else ()
                if t in starts:
                    probs.append((f"task {t} was executed although task {u}, which it depends on, failed", fid))
                elif t in rep and rep[t] not in (O["SKIP_PREVIOUS_FAILED"], O["SKIP"]):
                    probs.append((f"task {t} below failed task {u} reported {OUTCOMES[rep[t]]}", fid))
    for t, o in cimp["reports"]:
        if o == O["SKIP_PREVIOUS_FAILED"] and not any(u in cl[t] for u in failed):
            probs.append((f"task {t} reported SKIP_PREVIOUS_FAILED without a failed ancestor", ()))
    prev_db = ctx["prev"][-1][1]["db"] if ctx["prev"] else set()
    for u in failed:
        if {r for r in prev_db if r[0] == u} != {r for r in cimp["db"] if r[0] == u}:
            probs.append((f"failed task {u} changed its recorded states", ()))
    nfail = len(failed)
    if (cfg["max_failures"] is None or nfail < cfg["max_failures"]) and set(rep) != {t["id"] for t in tasks}:
        probs.append((f"the build stopped after {nfail} failure(s) although the limit is {cfg['max_failures']}: "
                      f"tasks {sorted({t['id'] for t in tasks} - set(rep))} were never processed", ()))
    if cfg["max_failures"] is not None:
        m = cfg["max_failures"]
        seen = 0
        for i, (t, o) in enumerate(cimp["reports"]):
            if o == O["FAIL"]:
                seen += 1
                if seen >= m and i != len(cimp["reports"]) - 1:
                    probs.append((f"tasks were processed after the {m}-th failure", ()))
                    break
    # a failed task still needs to run in an immediately following build
    if ctx["prev"]:
        pop, pc, _ = ctx["prev"][-1]
        ops = ctx["case"]["ops"]
        bidx = [i for i, o in enumerate(ops) if o["op"] == "build"]
        me = bidx[ctx["bi"]]
        immediately = me > 0 and ops[me - 1]["op"] == "build" and pop["tasks"] == ctx["op"]["tasks"]
        # (in a forced build a task runs whether it needs to or not: its failure says nothing about need)
        if immediately and not pop["cfg"]["dry_run"] and not pop["cfg"]["force"]:
            for t, o in pc["reports"]:
                if o == O["FAIL"] and rep.get(t) == O["SKIP_UNCHANGED"]:
                    # F24: the function raised only after it had written all its products - with the content
                    # recorded at its last successful run
                    fid = ("F24",) if pop["faults"].get(str(t)) == "raise_after" else ()
                    probs.append((f"task {t} failed in the previous build and is now reported unchanged", fid))
    return probs


def _eval_expr(expr, pred):
    toks = expr.replace("(", " ( ").replace(")", " ) ").split()
    py = []
    for t in toks:
        if t in ("and", "or", "not", "(", ")"):
            py.append(t)
        else:
            py.append(str(bool(pred(t))))
    return eval(" ".join(py))  # noqa: S307


def selection(ctx, drop_f1=False):
    """Eligible task ids (or None) according to the property, from names the implementation collected.
    drop_f1: use the dependency relation without `after` edges to product-less tasks (finding F1)."""
    tasks = ctx["op"]["tasks"]
    cfg = ctx["op"]["cfg"]
    snaps = {int(s["name"].split("::")[-1][6:-1]): s for s in ctx["raw"]["tasks"]}
    up = declared_upstream(tasks)
    if drop_f1:
        f1 = after_only_pairs(tasks)
        up = {k: {x for x in v if (x, k) not in f1} for k, v in up.items()}
    cl = closure(up)
    elig = None
    for key, kind in (("expression", "k"), ("marker_expression", "m")):
        e = cfg[key]
        if not e:
            continue
        match = set()
        for t in tasks:
            s = snaps[t["id"]]
            if kind == "k":
                names = [s["name"]] + s["attrs"] + s["marks"]
                hit = _eval_expr(e, lambda a: any(a.lower() in n.lower() for n in names))
            else:
                hit = _eval_expr(e, lambda a: a in s["marks"])
            if hit:
                match.add(t["id"])
        sel = set(match)
        for t in match:
            sel |= cl[t]
        elig = sel if elig is None else elig & sel
    return elig


def o_c06(cimp, ctx):
    probs = []
    tasks = ctx["op"]["tasks"]
    if cimp["exit"] not in (0, 1):
        return probs
    cl = closure(declared_upstream(tasks))
    rep = dict(cimp["reports"])
    starts = _started(cimp)
    skipped = {t["id"] for t in tasks if t["skip"] or any(t["skipifs"])}
    for t in tasks:
        i = t["id"]
        below = [u for u in cl[i] if u in skipped]
        if i in skipped or below:
            fid = ("F1",) if (i not in skipped and all(through_f1(u, i, tasks) for u in below)) else ()
            if i in starts:
                probs.append((f"task {i} is (or depends on) a skipped task but was executed", fid))
            if rep.get(i) == O["FAIL"]:
                probs.append((f"skipped task {i} failed the build", fid))
    elig = selection(ctx)
    if elig is not None:
        for i in starts:
            if i not in elig:
                probs.append((f"task {i} was executed although it is outside the selection", ()))
        for t in tasks:
            i = t["id"]
            if i not in elig and i in rep and rep[i] != O["SKIP"]:
                probs.append((f"deselected task {i} reported {OUTCOMES[rep[i]]}", ()))
            if i in elig and rep.get(i) == O["SKIP"] and i not in skipped and not any(u in skipped for u in cl[i]):
                # eligible but skipped: the selection lost a dependency (after target without products)
                nof1 = selection(ctx, drop_f1=True)
                probs.append((f"task {i} belongs to the selection closure but was reported SKIP", ("F1",) if i not in nof1 else ()))
    return probs


def graph_illformed(tasks):
    """('cycle'|'after_cycle'|'dup'|None)"""
    prod_by = {}
    for t in tasks:
        for p in t["prods"]:
            prod_by.setdefault(p, set()).add(t["id"])
    if any(len(v) > 1 for v in prod_by.values()):
        return "dup"
    import networkx as nx
    g = nx.DiGraph()
    for t in tasks:
        g.add_node(("t", t["id"]))
        for d in t["deps"]:
            g.add_edge(("n", d), ("t", t["id"]))
        for p in t["prods"]:
            g.add_edge(("t", t["id"]), ("n", p))
    if not nx.is_directed_acyclic_graph(g):
        return "cycle"
    up = declared_upstream(tasks)
    f1 = after_only_pairs(tasks)
    g2 = g.copy()
    for t, us in up.items():
        for u in us:
            g.add_edge(("t", u), ("t", t))
            if (u, t) not in f1:
                g2.add_edge(("t", u), ("t", t))
    if not nx.is_directed_acyclic_graph(g2):
        return "after_cycle"
    if not nx.is_directed_acyclic_graph(g):
        return "after_cycle_f1"      # closed only through an `after` edge to a product-less task (F1: no edge exists)
    return None


def o_c09(cimp, ctx):
    probs = []
    tasks = ctx["op"]["tasks"]
    ill = graph_illformed(tasks)
    prev_db = ctx["prev"][-1][1]["db"] if ctx["prev"] else set()
    if ill:
        fid = ("F1",) if ill == "after_cycle_f1" else ()
        if ill == "after_cycle_f1" and cimp["exit"] != 4:
            probs.append(("a cycle closed through 'after' on a task without products is not detected", fid))
            return probs
        if cimp["exit"] != 4:
            probs.append((f"ill-formed graph ({ill}) ended with exit code {cimp['exit']} instead of 4", fid))
        if cimp["log"]:
            probs.append((f"tasks ran although the graph is ill-formed ({ill})", ()))
        if cimp["db"] != prev_db:
            probs.append((f"states were recorded although the graph is ill-formed ({ill})", ()))
    elif cimp["exit"] == 4 and not ctx["op"].get("bad_expr"):
        probs.append(("a well-formed graph was rejected", ()))
    return probs


def o_c10(cimp, ctx):
    probs = []
    cfg = ctx["op"]["cfg"]
    if cfg["dry_run"]:
        if cimp["log"]:
            probs.append(("a dry run executed task functions", ()))
        before = {int(k): v for k, v in ctx["raw"]["files_before"].items()}
        after = {int(k): v for k, v in ctx["raw"]["files"].items()}
        if before != after:
            probs.append(("a dry run created, changed or deleted files", ()))
    if ctx["prev"]:
        pop, pc, _ = ctx["prev"][-1]
        ops = ctx["case"]["ops"]
        bidx = [i for i, o in enumerate(ops) if o["op"] == "build"]
        me = bidx[ctx["bi"]]
        if (pop["cfg"]["dry_run"] and not cfg["dry_run"] and ops[me - 1]["op"] == "build"
                and pop["tasks"] == ctx["op"]["tasks"] and pc["exit"] in (0, 1)
                and all(pop["cfg"][k] == cfg[k] for k in ("force", "expression", "marker_expression"))):
            would = {t for t, o in pc["reports"] if o == O["WOULD_BE_EXECUTED"]}
            for t in set(_started(cimp)):
                if t not in would:
                    probs.append((f"task {t} executed by the build right after a dry run was not announced as would-be-executed", ()))
    return probs


def neighbours_of(t, tasks):
    byid = {x["id"]: x for x in tasks}
    ups = after_targets(t, tasks)
    return list(t["deps"]) + [p for u in sorted(ups) for p in byid[u]["prods"]] + list(t["prods"])


def o_c17(cimp, ctx):
    probs = []
    tasks = ctx["op"]["tasks"]
    cfg = ctx["op"]["cfg"]
    if cimp["exit"] not in (0, 1):
        return probs
    starts = _started(cimp)
    before = {int(k): v for k, v in ctx["raw"]["files_before"].items()}
    rep = dict(cimp["reports"])
    for t in tasks:
        if not t["persist"]:
            continue
        i = t["id"]
        nb = neighbours_of(t, tasks)
        # a node exists at the task's turn if it existed before the build, or a task that declares it as a
        # product finished before this task started
        log = cimp["log"]
        pos = {e: k for k, e in enumerate(log)}
        def at_turn(n):
            if n in before:
                return True
            return any(n in u["prods"] and pos.get(2 * u["id"] + 1, 10 ** 9) < pos.get(2 * i, -1) for u in tasks) and n in cimp["files"]
        if i in starts and all(at_turn(n) for n in nb) and all(n in cimp["files"] for n in nb) and not cfg["force"]:
            probs.append((f"persisted task {i} was executed although all its dependencies and products exist", ()))
        if rep.get(i) == O["PERSISTENCE"] and i in starts:
            probs.append((f"task {i} reported PERSISTENCE but ran", ()))
        # --force does not override persist: when something the task can see BEFORE the build differs from its
        # rows (a source file it reads, its own product, its module) and all its nodes exist, it is persisted
        if i in starts and cfg["force"] and all(n in before for n in nb) and not t["skip"] and not cfg["dry_run"]:
            import engine_impl as EI
            rows = {}
            if ctx["prev"]:
                for (a, k, h) in ctx["prev"][-1][1]["db"]:
                    if a == i:
                        rows[k] = h
            produced_elsewhere = {p for u in tasks if u["id"] != i for p in u["prods"]}
            static = [n for n in nb if n not in produced_elsewhere and n < 200]
            changed = [n for n in static if rows.get(n) != EI.sha(str(before[n]).strip())]
            msha = ctx["raw"]["mods"][str(t["module"])][1]
            if rows.get(i) is not None and rows.get(i) != msha:
                changed.append(i)
            if changed and rows:
                probs.append((f"persisted task {i} was executed under --force although all its nodes exist and nodes {changed} differ from its rows", ()))
    if ctx["prev"]:
        pop, pc, _ = ctx["prev"][-1]
        ops = ctx["case"]["ops"]
        bidx = [i for i, o in enumerate(ops) if o["op"] == "build"]
        me = bidx[ctx["bi"]]
        # a dry run only announces PERSISTENCE and records nothing: the real build right after it (same project, same
        # options, nothing edited) persists the task again
        if (ops[me - 1]["op"] == "build" and pop["tasks"] == tasks and pop["cfg"]["dry_run"] and not cfg["dry_run"]
                and all(pop["cfg"][k] == cfg[k] for k in ("force", "expression", "marker_expression")) and pc["exit"] in (0, 1)):
            for t, o in pc["reports"]:
                if o == O["PERSISTENCE"] and rep.get(t) == O["SKIP_UNCHANGED"]:
                    probs.append((f"task {t} was announced as persisted by a dry run and the real build right after it reports it unchanged (the dry run recorded its states)", ()))
        # (... so a dry run is not "the previous build" here)
        if ops[me - 1]["op"] == "build" and pop["tasks"] == tasks and not cfg["force"] and not pop["cfg"]["dry_run"]:
            byid = {x["id"]: x for x in tasks}
            for t, o in pc["reports"]:
                if o != O["PERSISTENCE"] or t not in byid:
                    continue
                # nothing the task can see has been touched since: no task of this build that writes one of its
                # nodes has run (other tasks may well run - e.g. a sibling that failed in the previous build)
                nbt = set(neighbours_of(byid[t], tasks))
                if any(u["id"] in starts and (set(u["prods"]) & nbt) for u in tasks):
                    continue
                if rep.get(t) not in (O["SKIP_UNCHANGED"], O["SKIP"], O["SKIP_PREVIOUS_FAILED"], None):
                    probs.append((f"task {t} was persisted in the previous build but is now reported {OUTCOMES[rep[t]]}", ()))
    return probs


def ancestors_of(t, tasks):
    """ids of the tasks t depends on, directly or indirectly, through products and `after`"""
    byid = {x["id"]: x for x in tasks}
    prod = {p: x["id"] for x in tasks for p in x["prods"]}
    seen, todo = set(), [t["id"]]
    while todo:
        x = byid[todo.pop()]
        for u in {prod[d] for d in x["deps"] if d in prod} | set(after_targets(x, tasks)):
            if u not in seen:
                seen.add(u); todo.append(u)
    return seen


def o_c02(cimp, ctx):
    probs = []
    tasks = ctx["op"]["tasks"]
    cfg = ctx["op"]["cfg"]
    rep = dict(cimp["reports"])
    files = cimp["files"]
    mods = ctx["raw"]["mods"]
    # a task function that silently leaves an existing product untouched breaks the contract
    # "bodies write their declared products"; such products are pinned until rewritten
    taint = ctx["case"].setdefault("_taint", set())
    faults = ctx["op"]["faults"]
    for t in tasks:
        if rep.get(t["id"]) == O["SUCCESS"]:
            f = faults.get(str(t["id"]))
            om = set(f["omit"]) if isinstance(f, dict) else set()
            taint.difference_update(set(t["prods"]) - om)
            taint.update(om)
    if cimp["exit"] == 0 and not cfg["dry_run"]:
        pinned = set(taint)
        for t in tasks:
            if t["persist"] or rep.get(t["id"]) in (O["SKIP"], None):
                pinned.update(t["prods"])
        ideal = ideal_contents(tasks, files, mods, pinned)
        for t in tasks:
            if t["persist"] or rep.get(t["id"]) in (O["SKIP"], None):
                continue
            for p in t["prods"]:
                if ideal.get(p) is not None and files.get(p) != ideal[p]:
                    # F6 (the statically declared sibling): a dependency left the task although its source did not
                    # change, nothing else changed, the task is reported unchanged - and everything below it with it
                    shrunk = set()
                    if ctx["prev"]:
                        old = {x["id"]: x for x in ctx["prev"][-1][0]["tasks"]}
                        shrunk = {x["id"] for x in tasks if x.get("opt") and x["id"] in old and set(old[x["id"]]["deps"]) - set(x["deps"])
                                  and rep.get(x["id"]) == O["SKIP_UNCHANGED"]}
                    below = shrunk and (t["id"] in shrunk or any(u in shrunk for u in ancestors_of(t, tasks)))
                    probs.append((f"after a successful build product f{p} of task {t['id']} holds {files.get(p)!r}, a from-scratch build would give {ideal[p]}",
                                  ("F6",) if below else ()))
    # never unchanged while a neighbour differs from its recorded row
    prev_db = ctx["prev"][-1][1]["db"] if ctx["prev"] else set()
    rows = {(a, b): h for a, b, h in prev_db}
    for t in tasks:
        i = t["id"]
        if rep.get(i) != O["SKIP_UNCHANGED"]:
            continue
        for n in neighbours_of(t, tasks):
            cur = files.get(n)
            want = None if cur is None else (EI.sha("".join(str(x) for x in verif_rt.vt_of(cur))) if 200 <= n < 300 else EI.sha(str(cur)))
            if cur is None or rows.get((i, n)) != want:
                probs.append((f"task {i} reported unchanged although f{n} differs from (or lacks) its recorded state", ()))
        if rows.get((i, i)) != mods[str(t["module"])][1]:
            probs.append((f"task {i} reported unchanged although its module differs from the recorded state", ()))
    return probs


def o_c03(cimp, ctx):
    """Snapshots of neighbour contents at the last SUCCESS/PERSISTENCE live in ctx['case']['_snap']."""
    probs = []
    tasks = ctx["op"]["tasks"]
    cfg = ctx["op"]["cfg"]
    snap = ctx["case"].setdefault("_snap", {})
    mods = ctx["raw"]["mods"]
    before = {int(k): (int(v) if v.strip().isdigit() else v) for k, v in ctx["raw"]["files_before"].items()}
    files = cimp["files"]
    starts = _started(cimp)
    if cimp["exit"] in (0, 1):
        for t in tasks:
            i = t["id"]
            nb = neighbours_of(t, tasks)
            cur_b = {n: before.get(n) for n in nb}
            cur_a = {n: files.get(n) for n in nb}
            s = snap.get(i)
            if (i in starts and not cfg["force"] and s is not None and s["mod"] == mods[str(t["module"])][1]
                    and s["nb"] == cur_b and s["nb"] == cur_a and None not in cur_b.values() and t["prods"]):
                probs.append((f"task {i} was executed although its dependencies, source and products are as at its last successful run", ()))
    for t, o in cimp["reports"]:
        if o in (O["SUCCESS"], O["PERSISTENCE"]):
            tk = next(x for x in tasks if x["id"] == t)
            snap[t] = {"mod": mods[str(tk["module"])][1], "nb": {n: files.get(n) for n in neighbours_of(tk, tasks)}}
    return probs
